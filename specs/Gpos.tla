------------------------------- MODULE Gpos -------------------------------
(***************************************************************************)
(* C05 - OpenType GPOS semantics over a run of glyph infos.                *)
(*                                                                         *)
(* A run is a sequence of infos                                            *)
(*   [g : gid, lc : ligature component of a mark (0-based), lig : BOOLEAN, *)
(*    mk : BOOLEAN (glyph is treated as a mark), k : Int (advance          *)
(*    adjustment, allsorts `Info.kerning`), pl : Placement]                *)
(* Placement mirrors allsorts::gpos::Placement field by field:             *)
(*   N                      None                                           *)
(*   D  (ax,ay)             Distance(dx, dy)                                *)
(*   M  i (ax,ay) (bx,by)   MarkAnchor(base index, base anchor, mark anchor)*)
(*   C  i r (ax,ay) (bx,by) CursiveAnchor(index of the NEXT glyph of the   *)
(*                          pair, RIGHT_TO_LEFT lookup flag, entry anchor  *)
(*                          of that next glyph, exit anchor of this glyph) *)
(*   X                      marker: the program left the modelled fragment *)
(* Indices stored in a placement are 0-based (as in allsorts).             *)
(*                                                                         *)
(* program = [gdef, lookups : Seq(Lookup), feat : Seq(lookup index),       *)
(*            tag, script, gpos : BOOLEAN, kern : Seq(kern subtable), adv] *)
(* Lookup  = [ty : 1..8, flag, mfs, ext : BOOLEAN, subs : Seq(Subtable)]   *)
(* (ext = the subtables are wrapped in type-9 extension records: encoding  *)
(* only, no semantic effect.)  Subtable shapes are listed at each operator.*)
(*                                                                         *)
(* The semantics is one pure operator per lookup type, written at the      *)
(* grain of allsorts' public entry point (`gpos::apply` applies the        *)
(* lookups of a feature in lookup-list order, each lookup over the whole   *)
(* run).  Where OpenType is silent or conformant engines differ the        *)
(* operator takes the reading from a record D of named choices (the Dev_ names), *)
(* and the check accepts the result of any D.                              *)
(***************************************************************************)
EXTENDS GposLayoutCommon, Kern, TLC

\* ---- named nondeterminism --------------------------------------------------
\* Dev_PairSecondGlyphSkip : after a pair was positioned by a subtable whose valueFormat2 is
\*     non-zero, the next pair starts after the second glyph (OpenType text, HarfBuzz) or at
\*     the second glyph (allsorts, "applying the lookup regardless does not break any test").
\* Dev_ContextAdvance      : after a contextual lookup matched at i the next position is the
\*     glyph after the matched input sequence (OpenType: "will typically skip all the glyphs
\*     that participated") or simply i+1 (allsorts applies the context at every glyph).
\* Dev_NestedSeqIdxFlag    : the sequence index of a nested lookup record counts glyphs seen
\*     by the parent lookup's flag (HarfBuzz) or by the nested lookup's own flag (allsorts).
\* Dev_MarkLigCompOutOfRange : a mark whose component number is not below the ligature's
\*     component count is left alone (allsorts) or attached to the last component (HarfBuzz).
\* Dev_MarkAttachedIsMark  : which glyphs the search for the "preceding base" of a MarkBase /
\*     MarkLig lookup (and the mark tests of MarkMark, below) steps over.  OpenType: the base is
\*     the preceding glyph that is not a mark, and what a mark is, is GDEF's business (class 3)
\*     - reading FALSE (HarfBuzz).  allsorts additionally treats every glyph that a Mark* lookup
\*     has attached as a mark from then on (`is_mark = true` in markbasepos etc.) - reading TRUE.
\*     The readings differ only for glyphs that a lookup's mark coverage lists but GDEF does not
\*     class as marks (no GDEF, no GlyphClassDef, glyph unclassified or classed as base):
\*     base + two such marks attaches both to the base (TRUE) or only the first (FALSE).
\*     In NO reading does GDEF decide whether a glyph can BE attached: the lookup's own mark
\*     coverage does.  A covered glyph with a covered preceding base is attached.
\* Dev_MarkMarkClassTest   : MarkMark attaches a mark1Coverage glyph to the preceding glyph (by
\*     the lookup flag) if mark2Coverage lists it - OpenType's text names no glyph class test
\*     ("none"); HarfBuzz requires the preceding glyph to be a mark ("base"); allsorts requires
\*     both glyphs to be marks ("both"); "mark" in the sense of Dev_MarkAttachedIsMark.
\* Dev_KernMinimum / Dev_KernFmt2Base / Dev_KernCrossStream : see Kern.tla.
\* Dev_DeltaRoundTie       : a variation delta that is exactly halfway between two integers is
\*     rounded away from zero (C roundf: HarfBuzz, allsorts) or up (floor(x + 0.5): the rounding
\*     OpenType prescribes for normalised coordinates, fontTools otRound).  Differs for negative
\*     ties only (-1.5 -> -2 / -1).
DevDefault == [pairSkip |-> FALSE, ctxSkip |-> FALSE, seqFlag |-> "nested", ligOOR |-> "none",
               mkDyn |-> TRUE, mkmkTest |-> "both",
               kernMin |-> "min", kernBase |-> "array", kernCross |-> "ignore", varTie |-> "away"]

\* ---- placements -------------------------------------------------------------
PNone == [t |-> "N", i |-> -1, ax |-> 0, ay |-> 0, bx |-> 0, by |-> 0, r |-> FALSE]
PDist(dx, dy) == IF dx = 0 /\ dy = 0 THEN PNone
                 ELSE [t |-> "D", i |-> -1, ax |-> dx, ay |-> dy, bx |-> 0, by |-> 0, r |-> FALSE]
PMark(b, A, M) == [t |-> "M", i |-> b, ax |-> A.x, ay |-> A.y, bx |-> M.x, by |-> M.y, r |-> FALSE]
PCurs(n, rtl, E, X) == [t |-> "C", i |-> n, ax |-> E.x, ay |-> E.y, bx |-> X.x, by |-> X.y, r |-> rtl]
PUnsupported == [t |-> "X", i |-> -1, ax |-> 0, ay |-> 0, bx |-> 0, by |-> 0, r |-> FALSE]

FlagOf(L) == [flag |-> L.flag, mfs |-> L.mfs]

InitInfos(gdef, in) ==
  [j \in 1 .. Len(in) |-> [g |-> in[j].g, lc |-> in[j].lc, lig |-> in[j].lig,
                           mk |-> IsMarkGlyph(gdef, in[j].g), k |-> 0, pl |-> PNone]]

\* what is observable (and compared with allsorts::gpos::Info)
Proj(s) == [j \in 1 .. Len(s) |-> [g |-> s[j].g, k |-> s[j].k, pl |-> s[j].pl]]

\* ---- variation deltas: Device / VariationIndex tables of value records and anchors ---------
\* A value record may carry the field dev = <<dxp, dyp, dxa, dya>>, an anchor of format 3 the
\* field dev = <<dx, dy>>; each entry describes what the corresponding offset points at:
\*   [k |-> "null"]                   NULL offset
\*   [k |-> "hint", fmt |-> 1..3]     Device table (ppem-specific pixel corrections): says nothing
\*                                    about the unhinted design-unit positions this property is about
\*   [k |-> "var", o |-> outer, i |-> inner]   VariationIndex table (deltaFormat 0x8000)
\* A value record / anchor without the field has NULL offsets (every program of rounds 1-3).
\* prog.var (optional field) = [tuple |-> [has : BOOLEAN, c : Seq(F2Dot14 raw value, 16384 = 1.0)],
\*      store : BOOLEAN   (GDEF 1.3 with an ItemVariationStore / GDEF 1.2 without one),
\*      regions : Seq(Seq([s, p, e]))  one [start, peak, end] per axis,
\*      data : Seq([regs : Seq(region index), wc : number of 16-bit columns, sets : Seq(Seq(delta))])]
\* The delta of a VariationIndex for the instance `tuple` is  round(SUM_r scalar(region r) * delta_r)
\* (OpenType "Item variation stores"); it is 0 when shaping without a tuple, when GDEF has no
\* store, when there is no GDEF, and when the index names no delta set.  The generated regions give
\* per-axis scalars that are multiples of 1/4 (VarWF), so the arithmetic is exact here and in f32.
DevNull == [k |-> "null"]
VarOn(prog) == "var" \in DOMAIN prog /\ prog.var.tuple.has
\* (kf: emulation of a KNOWN deviation of allsorts, used only to NAME a mismatch - KnownAlts below;
\*  no reading D of DevsFor has the field, so Outcomes never contains such a result)
KfNone == [dropZ |-> FALSE, noAnch |-> FALSE]
VarCtx(D, prog) ==
  IF VarOn(prog) /\ prog.var.store /\ HasGdef(prog.gdef)
  THEN [on |-> TRUE, var |-> prog.var, tie |-> D.varTie, kf |-> IF "kf" \in DOMAIN D THEN D.kf ELSE KfNone]
  ELSE [on |-> FALSE]

\* per-axis scalar in quarters
AxisQ(c, r) ==
  IF r.p = 0 THEN 4
  ELSE IF c < r.s \/ c > r.e THEN 0
  ELSE IF c = r.p THEN 4
  ELSE IF c < r.p THEN ((c - r.s) * 4) \div (r.p - r.s)
  ELSE ((r.e - c) * 4) \div (r.e - r.p)
RECURSIVE RegionQ(_, _, _)
RegionQ(reg, c, k) == IF k > Len(reg) THEN 1 ELSE AxisQ(c[k], reg[k]) * RegionQ(reg, c, k + 1)
RECURSIVE Pow4(_)
Pow4(n) == IF n = 0 THEN 1 ELSE 4 * Pow4(n - 1)
RECURSIVE DeltaSum(_, _, _, _)
DeltaSum(var, blk, row, k) ==
  IF k > Len(row) THEN 0
  ELSE RegionQ(var.regions[blk.regs[k] + 1], var.tuple.c, 1) * row[k] + DeltaSum(var, blk, row, k + 1)
\* N / Dn rounded to the nearest integer, ties per Dev_DeltaRoundTie
RoundQ(tie, N, Dn) ==
  IF N >= 0 \/ tie = "up" THEN (2 * N + Dn) \div (2 * Dn) ELSE -((Dn - 2 * N) \div (2 * Dn))
DeltaOf(vc, d) ==
  IF ~vc.on \/ d.k # "var" THEN 0
  ELSE IF d.o + 1 > Len(vc.var.data) THEN 0
  ELSE LET blk == vc.var.data[d.o + 1] IN
       IF d.i + 1 > Len(blk.sets) THEN 0
       ELSE RoundQ(vc.tie, DeltaSum(vc.var, blk, blk.sets[d.i + 1], 1), Pow4(Len(vc.var.tuple.c)))
DeltaIsTie(vc, d) ==
  vc.on /\ d.k = "var" /\ d.o + 1 <= Len(vc.var.data) /\ d.i + 1 <= Len(vc.var.data[d.o + 1].sets)
  /\ LET blk == vc.var.data[d.o + 1]  Dn == Pow4(Len(vc.var.tuple.c)) IN
     (2 * DeltaSum(vc.var, blk, blk.sets[d.i + 1], 1) + Dn) % (2 * Dn) = 0

\* ---- ValueRecord -------------------------------------------------------------
\* v = [xp, yp, xa, ya (, dev)]; a field is present iff its ValueFormat bit is set (bits 0..3);
\* bits 4..7 announce the four device / variation-index offsets (present whether or not the value
\* field itself is).  The effective value of a field is its default plus its variation delta.
DevOf(v, b) == IF "dev" \in DOMAIN v THEN v.dev[b] ELSE DevNull
Eff(vc, vf, v) ==
  LET xp0 == IF Bit(vf, 0) THEN v.xp ELSE 0
      yp0 == IF Bit(vf, 1) THEN v.yp ELSE 0
      drop == vc.on /\ vc.kf.dropZ /\ xp0 = 0 /\ yp0 = 0 IN
  [xp |-> xp0 + (IF Bit(vf, 4) /\ ~drop THEN DeltaOf(vc, DevOf(v, 1)) ELSE 0),
   yp |-> yp0 + (IF Bit(vf, 5) /\ ~drop THEN DeltaOf(vc, DevOf(v, 2)) ELSE 0),
   xa |-> (IF Bit(vf, 2) THEN v.xa ELSE 0) + (IF Bit(vf, 6) THEN DeltaOf(vc, DevOf(v, 3)) ELSE 0),
   ya |-> (IF Bit(vf, 3) THEN v.ya ELSE 0) + (IF Bit(vf, 7) THEN DeltaOf(vc, DevOf(v, 4)) ELSE 0)]

\* effective anchor: format 3 may carry device / variation-index offsets for x and y
EffAnchor(vc, a) ==
  IF a.f = 3 /\ "dev" \in DOMAIN a /\ ~(vc.on /\ vc.kf.noAnch)
  THEN [f |-> 3, x |-> a.x + DeltaOf(vc, a.dev[1]), y |-> a.y + DeltaOf(vc, a.dev[2])]
  ELSE [f |-> a.f, x |-> a.x, y |-> a.y]

\* placement offsets accumulate; on an attached mark they move the mark relative to its base
\* (allsorts folds them into the base anchor).  A displacement of a cursively attached glyph
\* is documented as unsupported in gpos.rs (FIXME in combine_distance): outside the fragment.
Combine(pl, dx, dy) ==
  CASE pl.t = "N" -> PDist(dx, dy)
    [] pl.t = "D" -> PDist(pl.ax + dx, pl.ay + dy)
    [] pl.t = "M" -> [pl EXCEPT !.ax = @ + dx, !.ay = @ + dy]
    [] OTHER      -> PUnsupported

\* xAdvance adds to the advance, x/yPlacement to the placement.  yAdvance # 0 in horizontal
\* text is dropped by allsorts together with the whole record ("error"): outside the fragment.
Adjust(info, v) ==
  IF v.ya # 0 THEN [info EXCEPT !.pl = PUnsupported]
  ELSE [info EXCEPT !.k = @ + v.xa,
                    !.pl = IF v.xp = 0 /\ v.yp = 0 THEN @ ELSE Combine(@, v.xp, v.yp)]

\* ---- type 1: SinglePos  [f=1, cov, vf, v] | [f=2, cov, vf, vs : Seq(v) by coverage index] ----
SingleFind(vc, subs, g) ==
  LET ks == {k \in 1 .. Len(subs) : Covered(subs[k].cov, g)} IN
  IF ks = {} THEN [hit |-> FALSE]
  ELSE LET st == subs[Min(ks)] IN
       [hit |-> TRUE, v |-> Eff(vc, st.vf, IF st.f = 1 THEN st.v ELSE st.vs[CovIdx(st.cov, g) + 1])]

SingleAt(vc, L, s, i) ==
  LET r == SingleFind(vc, L.subs, s[i].g) IN
  IF r.hit THEN [s EXCEPT ![i] = Adjust(@, r.v)] ELSE s

\* ---- type 2: PairPos --------------------------------------------------------
\*   [f=1, cov, vf1, vf2, sets : Seq(Seq([g2, v1, v2])) by coverage index of the first glyph]
\*   [f=2, cov, vf1, vf2, cd1, cd2, recs : Seq(Seq([v1, v2])) by class1, class2]
\* Format 1 applies when the pair is listed; format 2 whenever the first glyph is covered.
PairRec(st, g1, g2) ==
  IF ~Covered(st.cov, g1) THEN [hit |-> FALSE]
  ELSE IF st.f = 1
  THEN LET rs == st.sets[CovIdx(st.cov, g1) + 1]
           ms == {m \in 1 .. Len(rs) : rs[m].g2 = g2} IN
       IF ms = {} THEN [hit |-> FALSE] ELSE [hit |-> TRUE, rec |-> rs[Min(ms)]]
  ELSE [hit |-> TRUE, rec |-> st.recs[ClassOf(st.cd1, g1) + 1][ClassOf(st.cd2, g2) + 1]]

PairFind(vc, subs, g1, g2) ==
  LET ks == {k \in 1 .. Len(subs) : PairRec(subs[k], g1, g2).hit} IN
  IF ks = {} THEN [hit |-> FALSE, vf2 |-> 0]
  ELSE LET st == subs[Min(ks)]  rec == PairRec(st, g1, g2).rec IN
       [hit |-> TRUE, v1 |-> Eff(vc, st.vf1, rec.v1), v2 |-> Eff(vc, st.vf2, rec.v2), vf2 |-> st.vf2]

PairAt(vc, L, s, i1, i2) ==
  LET r == PairFind(vc, L.subs, s[i1].g, s[i2].g) IN
  IF r.hit
  THEN [s |-> [s EXCEPT ![i1] = Adjust(@, r.v1), ![i2] = Adjust(@, r.v2)], skip |-> r.vf2 # 0]
  ELSE [s |-> s, skip |-> FALSE]

RECURSIVE PairLoop(_, _, _, _, _, _)
PairLoop(D, vc, L, gdef, s, i1) ==
  LET i2 == NextSeen(FlagOf(L), gdef, s, i1) IN
  IF i1 = 0 \/ i2 = 0 THEN s
  ELSE LET r == PairAt(vc, L, s, i1, i2) IN
       PairLoop(D, vc, L, gdef, r.s,
                IF D.pairSkip /\ r.skip THEN NextSeen(FlagOf(L), gdef, s, i2) ELSE i2)

\* ---- anchors: [f : 0..3, x, y]; f = 0 is a null offset, formats 1-3 all mean (x, y) ----------
HasAnchor(a) == a.f # 0

\* ---- type 3: CursivePos  [cov, recs : Seq([en, ex]) by coverage index] -------------------------
CursFind(subs, g1, g2) ==
  LET ok(st) == /\ Covered(st.cov, g1) /\ Covered(st.cov, g2)
                /\ HasAnchor(st.recs[CovIdx(st.cov, g1) + 1].ex)
                /\ HasAnchor(st.recs[CovIdx(st.cov, g2) + 1].en)
      ks == {k \in 1 .. Len(subs) : ok(subs[k])} IN
  IF ks = {} THEN [hit |-> FALSE]
  ELSE LET st == subs[Min(ks)] IN
       [hit |-> TRUE, X |-> st.recs[CovIdx(st.cov, g1) + 1].ex, E |-> st.recs[CovIdx(st.cov, g2) + 1].en]

\* A glyph that already carries a displacement of its own and is then joined cursively is
\* outside the fragment, like the displacement of an already joined glyph (Combine).
CursAt(vc, L, s, i1, i2) ==
  LET r == CursFind(L.subs, s[i1].g, s[i2].g) IN
  IF r.hit
  THEN [s EXCEPT ![i1].pl = IF @.t = "D" THEN PUnsupported
                            ELSE PCurs(i2 - 1, FlagRTL(L.flag), EffAnchor(vc, r.E), EffAnchor(vc, r.X))]
  ELSE s

RECURSIVE CursLoop(_, _, _, _, _)
CursLoop(vc, L, gdef, s, i1) ==
  LET i2 == NextSeen(FlagOf(L), gdef, s, i1) IN
  IF i1 = 0 \/ i2 = 0 THEN s ELSE CursLoop(vc, L, gdef, CursAt(vc, L, s, i1, i2), i2)

\* ---- types 4 and 6: MarkBasePos / MarkMarkPos --------------------------------
\*   [mcov, bcov, nc, marks : Seq([c, a]) by mark coverage index,
\*    bases : Seq(Seq(anchor by mark class)) by base (or mark2) coverage index]
\* type 5: MarkLigPos  [mcov, lcov, nc, marks, ligs : Seq(Seq(Seq(anchor by class)) by component)]
MarkRec(st, gm) == st.marks[CovIdx(st.mcov, gm) + 1]

MarkBaseOk(st, gb, gm) ==
  /\ Covered(st.bcov, gb) /\ Covered(st.mcov, gm)
  /\ HasAnchor(st.bases[CovIdx(st.bcov, gb) + 1][MarkRec(st, gm).c + 1])

\* component used for a mark with component number lc on a ligature with n components
LigComp(D, lc, n) == IF lc < n THEN lc ELSE IF D.ligOOR = "last" THEN n - 1 ELSE -1

MarkLigOk(D, st, gl, gm, lc) ==
  /\ Covered(st.lcov, gl) /\ Covered(st.mcov, gm)
  /\ LET comps == st.ligs[CovIdx(st.lcov, gl) + 1]
         c == LigComp(D, lc, Len(comps)) IN
     c >= 0 /\ HasAnchor(comps[c + 1][MarkRec(st, gm).c + 1])

\* attach the glyph at j to the glyph at b (first subtable that provides both anchors)
AttachAt(D, vc, L, s, b, j) ==
  LET gb == s[b].g  gm == s[j].g
      ks == {k \in 1 .. Len(L.subs) :
               IF L.ty = 5 THEN MarkLigOk(D, L.subs[k], gb, gm, s[j].lc)
                           ELSE MarkBaseOk(L.subs[k], gb, gm)} IN
  IF ks = {} THEN s
  ELSE LET st == L.subs[Min(ks)]
           mr == MarkRec(st, gm)
           A  == IF L.ty = 5
                 THEN LET comps == st.ligs[CovIdx(st.lcov, gb) + 1] IN
                      comps[LigComp(D, s[j].lc, Len(comps)) + 1][mr.c + 1]
                 ELSE st.bases[CovIdx(st.bcov, gb) + 1][mr.c + 1] IN
       [s EXCEPT ![j].pl = PMark(b - 1, EffAnchor(vc, A), EffAnchor(vc, mr.a)), ![j].mk = TRUE]

\* is the glyph of info x a mark for the purposes of mark attachment (Dev_MarkAttachedIsMark)?
\* x.mk starts as "GDEF class 3" (InitInfos) and is set by every attachment (AttachAt).
CountsAsMark(D, gdef, x) == IF D.mkDyn THEN x.mk ELSE IsMarkGlyph(gdef, x.g)

\* MarkBase / MarkLig: every glyph is offered to the lookup with the nearest preceding
\* non-mark glyph as its base ("marks are anchored to the preceding base / ligature").
\* Whether the offered glyph is attached is decided by the subtables' coverages alone.
RECURSIVE MarkLoop(_, _, _, _, _, _)
MarkLoop(D, vc, L, gdef, s, j) ==
  IF j > Len(s) THEN s
  ELSE LET bs == {b \in 1 .. (j - 1) : ~CountsAsMark(D, gdef, s[b])} IN
       MarkLoop(D, vc, L, gdef, IF bs = {} THEN s ELSE AttachAt(D, vc, L, s, Max(bs), j), j + 1)

\* MarkMark: the mark seen by the lookup flag that precedes the current one is the base mark.
\* Two marks of one ligature attach to each other only within the same component.
MarkMarkCompat(a, b) == a.lc = b.lc \/ a.lig \/ b.lig

RECURSIVE MarkMarkLoop(_, _, _, _, _, _)
MarkMarkLoop(D, vc, L, gdef, s, j) ==
  IF j > Len(s) THEN s
  ELSE LET i == PrevSeen(FlagOf(L), gdef, s, j) IN
       MarkMarkLoop(D, vc, L, gdef,
                    IF /\ Sees(FlagOf(L), gdef, s[j].g) /\ i # 0
                       /\ (D.mkmkTest = "both" => CountsAsMark(D, gdef, s[j]))
                       /\ (D.mkmkTest \in {"both", "base"} => CountsAsMark(D, gdef, s[i]))
                       /\ MarkMarkCompat(s[i], s[j])
                    THEN AttachAt(D, vc, L, s, i, j) ELSE s,
                    j + 1)

\* ---- types 7 and 8: (chained) context ------------------------------------------
\* Every rule is normalised to [bt, inp, la : Seq(SUBSET gid), recs : Seq(<<seqIdx, lookup>>)]
\* (inp without the first glyph; bt[1] is the glyph just before the first input glyph).
\*   ty 7: [f=1, cov, sets : Seq(Seq([inp : Seq(gid), recs]))      by coverage index]
\*         [f=2, cov, cd, sets : Seq(Seq([inp : Seq(class), recs])) by class of first glyph]
\*         [f=3, covs : Seq(cov), recs]
\*   ty 8: same with bt/la (f=2: bcd, icd, lcd; f=3: bt, inp, la : Seq(cov))
Glyphs(gdef) == 0 .. (Len(gdef.cls) - 1)
ByGid(q)         == [k \in 1 .. Len(q) |-> {q[k]}]
ByClass(gdef, cd, q) == [k \in 1 .. Len(q) |-> {x \in Glyphs(gdef) : ClassOf(cd, x) = q[k]}]
ByCov(q)         == [k \in 1 .. Len(q) |-> Range(q[k].g)]

RulesOf(gdef, ty, st, g) ==
  IF st.f = 3
  THEN LET first == IF ty = 7 THEN st.covs[1] ELSE st.inp[1] IN
       IF ~Covered(first, g) THEN <<>>
       ELSE IF ty = 7
       THEN << [bt |-> <<>>, inp |-> ByCov(Tail(st.covs)), la |-> <<>>, recs |-> st.recs] >>
       ELSE << [bt |-> ByCov(st.bt), inp |-> ByCov(Tail(st.inp)), la |-> ByCov(st.la), recs |-> st.recs] >>
  ELSE IF ~Covered(st.cov, g) THEN <<>>
  ELSE IF st.f = 1
  THEN LET rs == st.sets[CovIdx(st.cov, g) + 1] IN
       [m \in 1 .. Len(rs) |->
          [bt |-> IF ty = 7 THEN <<>> ELSE ByGid(rs[m].bt), inp |-> ByGid(rs[m].inp),
           la |-> IF ty = 7 THEN <<>> ELSE ByGid(rs[m].la), recs |-> rs[m].recs]]
  ELSE LET icd == IF ty = 7 THEN st.cd ELSE st.icd
           c   == ClassOf(icd, g)
           rs  == IF c + 1 <= Len(st.sets) THEN st.sets[c + 1] ELSE <<>> IN
       [m \in 1 .. Len(rs) |->
          [bt |-> IF ty = 7 THEN <<>> ELSE ByClass(gdef, st.bcd, rs[m].bt),
           inp |-> ByClass(gdef, icd, rs[m].inp),
           la |-> IF ty = 7 THEN <<>> ELSE ByClass(gdef, st.lcd, rs[m].la), recs |-> rs[m].recs]]

RECURSIVE ConcatAll(_)
ConcatAll(qs) == IF qs = <<>> THEN <<>> ELSE Head(qs) \o ConcatAll(Tail(qs))

\* walk forward over seen glyphs: index of the last matched glyph, or -1
RECURSIVE FwdMatch(_, _, _, _, _)
FwdMatch(F, gdef, s, i, accs) ==
  IF accs = <<>> THEN i
  ELSE LET j == NextSeen(F, gdef, s, i) IN
       IF j = 0 THEN -1 ELSE IF s[j].g \notin Head(accs) THEN -1
       ELSE FwdMatch(F, gdef, s, j, Tail(accs))

RECURSIVE BackMatch(_, _, _, _, _)
BackMatch(F, gdef, s, i, accs) ==
  IF accs = <<>> THEN TRUE
  ELSE LET j == PrevSeen(F, gdef, s, i) IN
       IF j = 0 THEN FALSE ELSE IF s[j].g \notin Head(accs) THEN FALSE
       ELSE BackMatch(F, gdef, s, j, Tail(accs))

\* index of the last input glyph if the rule matches at i, else -1
RuleMatch(F, gdef, s, i, rule) ==
  IF ~BackMatch(F, gdef, s, i, rule.bt) THEN -1
  ELSE LET e == FwdMatch(F, gdef, s, i, rule.inp) IN
       IF e = -1 THEN -1
       ELSE IF FwdMatch(F, gdef, s, e, rule.la) = -1 THEN -1 ELSE e

ContextFind(L, gdef, s, i) ==
  LET rules == ConcatAll([k \in 1 .. Len(L.subs) |-> RulesOf(gdef, L.ty, L.subs[k], s[i].g)])
      ms == {m \in 1 .. Len(rules) : RuleMatch(FlagOf(L), gdef, s, i, rules[m]) # -1} IN
  IF ms = {} THEN [hit |-> FALSE]
  ELSE [hit |-> TRUE, recs |-> rules[Min(ms)].recs,
        last |-> RuleMatch(FlagOf(L), gdef, s, i, rules[Min(ms)])]

\* one nested lookup record <<seqIdx, lookup index>> of a rule that matched at i
NestedAt(D, prog, gdef, Lp, s, i, rec) ==
  LET Ln == prog.lookups[rec[2] + 1]
      vc == VarCtx(D, prog)
      Fs == IF D.seqFlag = "nested" THEN FlagOf(Ln) ELSE FlagOf(Lp)
      i1 == NthSeen(Fs, gdef, s, i, rec[1]) IN
  IF i1 = 0 THEN s
  ELSE CASE Ln.ty = 1 -> SingleAt(vc, Ln, s, i1)
         [] Ln.ty = 2 -> LET i2 == NextSeen(FlagOf(Ln), gdef, s, i1) IN
                         IF i2 = 0 THEN s ELSE PairAt(vc, Ln, s, i1, i2).s
         [] Ln.ty = 3 -> LET i2 == NextSeen(FlagOf(Ln), gdef, s, i1) IN
                         IF i2 = 0 THEN s ELSE CursAt(vc, Ln, s, i1, i2)
         [] Ln.ty \in {4, 5} ->
                         LET b == PrevSeen(FlagIgnoreMarksOnly, gdef, s, i1) IN
                         IF b = 0 THEN s ELSE AttachAt(D, vc, Ln, s, b, i1)
         [] Ln.ty = 6 -> LET b == PrevSeen(FlagOf(Ln), gdef, s, i1) IN
                         IF b = 0 THEN s ELSE AttachAt(D, vc, Ln, s, b, i1)
         [] OTHER     -> [j \in 1 .. Len(s) |-> [s[j] EXCEPT !.pl = PUnsupported]]
                         \* a context lookup nested in a context lookup is not modelled

RECURSIVE NestedAll(_, _, _, _, _, _, _)
NestedAll(D, prog, gdef, Lp, s, i, recs) ==
  IF recs = <<>> THEN s
  ELSE NestedAll(D, prog, gdef, Lp, NestedAt(D, prog, gdef, Lp, s, i, Head(recs)), i, Tail(recs))

RECURSIVE CtxLoop(_, _, _, _, _, _)
CtxLoop(D, prog, gdef, L, s, i) ==
  IF i > Len(s) THEN s
  ELSE IF ~Sees(FlagOf(L), gdef, s[i].g) THEN CtxLoop(D, prog, gdef, L, s, i + 1)
  ELSE LET r == ContextFind(L, gdef, s, i) IN
       IF ~r.hit THEN CtxLoop(D, prog, gdef, L, s, i + 1)
       ELSE CtxLoop(D, prog, gdef, L, NestedAll(D, prog, gdef, L, s, i, r.recs),
                    IF D.ctxSkip THEN r.last + 1 ELSE i + 1)

\* ---- one lookup over the whole run ----------------------------------------------
RECURSIVE SingleLoop(_, _, _, _, _)
SingleLoop(vc, L, gdef, s, i) ==
  IF i > Len(s) THEN s
  ELSE SingleLoop(vc, L, gdef, IF Sees(FlagOf(L), gdef, s[i].g) THEN SingleAt(vc, L, s, i) ELSE s, i + 1)

ApplyLookup(D, prog, L, s) ==
  LET gdef == prog.gdef  vc == VarCtx(D, prog) IN
  CASE L.ty = 1 -> SingleLoop(vc, L, gdef, s, 1)
    [] L.ty = 2 -> PairLoop(D, vc, L, gdef, s, FirstSeen(FlagOf(L), gdef, s))
    [] L.ty = 3 -> CursLoop(vc, L, gdef, s, FirstSeen(FlagOf(L), gdef, s))
    [] L.ty \in {4, 5} -> MarkLoop(D, vc, L, gdef, s, 2)
    [] L.ty = 6 -> MarkMarkLoop(D, vc, L, gdef, s, 2)
    [] L.ty \in {7, 8} -> CtxLoop(D, prog, gdef, L, s, 1)

\* a feature applies its lookups in increasing lookup-list order, each once
RECURSIVE ApplySet(_, _, _, _)
ApplySet(D, prog, S, s) ==
  IF S = {} THEN s
  ELSE LET m == Min(S) IN ApplySet(D, prog, S \ {m}, ApplyLookup(D, prog, prog.lookups[m + 1], s))

ApplyFeature(D, prog, s) == ApplySet(D, prog, Range(prog.feat), s)

\* ---- the whole positioning step of shaping (one feature per program) -----------------
\* The legacy kern table contributes when the font has no GPOS table, or when its GPOS has no
\* `kern` feature; its with-stream values add to the advance adjustment like any other
\* adjustment; its cross-stream values never do (an engine that applies them moves the right
\* glyph of the pair across the line, Dev_KernCrossStream).
UsesKernTable(prog) == Len(prog.kern) > 0 /\ (~prog.gpos \/ prog.tag # "kern")

Shape(D, prog, in) ==
  LET s0 == InitInfos(prog.gdef, in)
      s1 == IF prog.gpos THEN ApplyFeature(D, prog, s0) ELSE s0
      gs == [j \in 1 .. Len(in) |-> in[j].g]
      kv == IF UsesKernTable(prog) THEN KernRun(D, prog.kern, gs) ELSE [j \in 1 .. Len(in) |-> 0]
      sh == IF UsesKernTable(prog) THEN KernShiftRun(D, prog.kern, gs) ELSE [j \in 1 .. Len(in) |-> 0] IN
  [j \in 1 .. Len(in) |-> [s1[j] EXCEPT !.k = @ + kv[j],
                                         !.pl = IF sh[j] = 0 THEN @ ELSE Combine(@, 0, sh[j])]]

\* the choices that can matter for a program (keeps the number of alternatives small)
HasTy(prog, T) == \E k \in 1 .. Len(prog.lookups) : prog.lookups[k].ty \in T
\* glyphs that some Mark* lookup of the program may attach as marks / use as base marks
MarkCovGlyphs(prog, T) ==
  UNION {UNION {Range(prog.lookups[k].subs[m].mcov.g) : m \in 1 .. Len(prog.lookups[k].subs)} :
           k \in {k \in 1 .. Len(prog.lookups) : prog.lookups[k].ty \in T}}
Mark2CovGlyphs(prog) ==
  UNION {UNION {Range(prog.lookups[k].subs[m].bcov.g) : m \in 1 .. Len(prog.lookups[k].subs)} :
           k \in {k \in 1 .. Len(prog.lookups) : prog.lookups[k].ty = 6}}
\* the mark readings can only matter if a covered "mark" is not a mark for GDEF
HasNonGdefMark(prog) ==
  prog.gpos /\ \E g \in MarkCovGlyphs(prog, {4, 5, 6}) \cup Mark2CovGlyphs(prog) : ~IsMarkGlyph(prog.gdef, g)

DevsFor(prog) ==
  LET bools(c) == IF c THEN {FALSE, TRUE} ELSE {FALSE} IN
  {[pairSkip |-> ps, ctxSkip |-> cs, seqFlag |-> sf, ligOOR |-> lo, mkDyn |-> md, mkmkTest |-> mt,
    kernMin |-> km, kernBase |-> kb, kernCross |-> kc, varTie |-> vt] :
     ps \in bools(prog.gpos /\ HasTy(prog, {2})),
     cs \in bools(prog.gpos /\ HasTy(prog, {7, 8})),
     sf \in IF prog.gpos /\ HasTy(prog, {7, 8}) THEN {"nested", "parent"} ELSE {"nested"},
     lo \in IF prog.gpos /\ HasTy(prog, {5}) THEN {"none", "last"} ELSE {"none"},
     md \in IF HasNonGdefMark(prog) THEN {TRUE, FALSE} ELSE {TRUE},
     mt \in IF HasNonGdefMark(prog) /\ HasTy(prog, {6}) THEN {"both", "base", "none"} ELSE {"both"},
     km \in IF KernHasMinimum(prog.kern) THEN {"min", "max", "ignore"} ELSE {"min"},
     kb \in IF KernHasFmt2(prog.kern) THEN {"array", "subtable"} ELSE {"array"},
     kc \in IF UsesKernTable(prog) /\ KernHasCross(prog.kern) THEN {"ignore", "shift"} ELSE {"ignore"},
     vt \in IF prog.gpos /\ VarOn(prog) THEN {"away", "up"} ELSE {"away"}}

\* every conformant outcome of shaping `in` with `prog`
Outcomes(prog, in) == {Proj(Shape(D, prog, in)) : D \in DevsFor(prog)}

\* What allsorts is KNOWN to do instead (known_findings.txt), computed only to name a mismatch:
\* a result outside Outcomes that equals one of these gets the finding's key, any other is new.
WithKf(D, kf) ==
  [pairSkip |-> D.pairSkip, ctxSkip |-> D.ctxSkip, seqFlag |-> D.seqFlag, ligOOR |-> D.ligOOR, mkDyn |-> D.mkDyn,
   mkmkTest |-> D.mkmkTest, kernMin |-> D.kernMin, kernBase |-> D.kernBase, kernCross |-> D.kernCross,
   varTie |-> D.varTie, kf |-> kf]
KnownKinds ==
  << <<"valuerecord-placement-delta-dropped-when-default-placement-zero", [dropZ |-> TRUE, noAnch |-> FALSE]>>,
     <<"anchor-variation-index-ignored", [dropZ |-> FALSE, noAnch |-> TRUE]>> >>
KnownAlt(prog, in, k) == {Proj(Shape(WithKf(D, KnownKinds[k][2]), prog, in)) : D \in DevsFor(prog)}
\* key of the known deviation that explains `got` ("" if none, or if got is conformant)
KnownKey(prog, in, outs, got) ==
  IF ~(prog.gpos /\ VarOn(prog)) \/ got \in outs THEN ""
  ELSE LET ks == {k \in 1 .. Len(KnownKinds) : got \in KnownAlt(prog, in, k)} IN
       IF ks = {} THEN "" ELSE KnownKinds[Min(ks)][1]

\* inside the modelled fragment?
Modelled(infos) == \A j \in 1 .. Len(infos) : infos[j].pl.t # "X"

\* ---- design invariants of an outcome (checked by MC_Gpos on every generated case) ------
\* AttachInRun: an attachment names a glyph of the run: a mark its base, which precedes it;
\* a cursive glyph the next glyph of its pair, which follows it.
AttachInRun(infos) ==
  \A j \in 1 .. Len(infos) :
    /\ infos[j].pl.t = "M" => infos[j].pl.i + 1 \in 1 .. (j - 1)
    /\ infos[j].pl.t = "C" => infos[j].pl.i + 1 \in (j + 1) .. Len(infos)
    /\ infos[j].pl.t \in {"N", "D"} => infos[j].pl.i = -1
\* glyph ids are never changed by positioning
GlyphsKept(in, infos) == Len(infos) = Len(in) /\ \A j \in 1 .. Len(in) : infos[j].g = in[j].g
=============================================================================
