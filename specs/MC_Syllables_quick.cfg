CONSTANTS
  LenOf <- LenQuick
SPECIFICATION Spec
INVARIANTS Check
CHECK_DEADLOCK FALSE
