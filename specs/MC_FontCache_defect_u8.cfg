CONSTANTS
  CodeKeys = FALSE
  HasFV = TRUE
  HasImages = TRUE
  StoreFailed = FALSE
  PosKeyMode = "u8"
  IdxKeyMode = "u8"
  ImgKeepMode = "none"
  LookupsCap = 0
  FailKeep = FALSE
  RegionMemo = FALSE
  NegCache = FALSE
  SubMRU = FALSE
  MaxDepth = 1
  MaxDepthDmg = 1
  MaxDepthCollide = 2
  Families = {"collide"}
  ImgCounts = {2, 3}
  ImgFilterMode = "own"
  MaxImgFilters = 3
  FillKeys = 150
  FillLangs = 100
  FillLookups = 150
  MaxDepthVar = 2
  VarTuples = {"t0", "tA", "tB", "tC"}
  MaxDepthScopes = 2
  MaxDepthStrike = 2
  MaxDepthPairs = 2
SPECIFICATION Spec
VIEW View
INVARIANTS EmitCase
CHECK_DEADLOCK FALSE
