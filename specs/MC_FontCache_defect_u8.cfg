CONSTANTS
  CodeKeys = FALSE
  HasFV = TRUE
  HasImages = TRUE
  StoreFailed = FALSE
  PosKeyMode = "u8"
  IdxKeyMode = "u8"
  MaxDepth = 1
  MaxDepthDmg = 1
  MaxDepthCollide = 2
  Families = {"collide"}
SPECIFICATION Spec
VIEW View
INVARIANTS EmitCase
CHECK_DEADLOCK FALSE
