CONSTANTS
  HUGE = 1000000
  Roots <- RootsThorough
  MaxObjs = 6
SPECIFICATION Spec
VIEW View
INVARIANTS DesignOK EmitCase
CHECK_DEADLOCK FALSE
