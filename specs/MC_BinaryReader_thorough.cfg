CONSTANTS
  HUGE = 1000000
  Roots <- RootsThorough
  MaxObjs = 6
  MaxObjsWide = 3
  Deep = TRUE
SPECIFICATION Spec
VIEW View
INVARIANTS DesignOK EmitCase
CHECK_DEADLOCK FALSE
