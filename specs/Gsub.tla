-------------------------------- MODULE Gsub --------------------------------
(***************************************************************************)
(* C04 - glyph substitution follows OpenType GSUB lookup semantics.         *)
(*                                                                         *)
(* Run      = Seq([g, c, l, d, p])   g glyph id; c the characters carried   *)
(*            (as input positions 1..n); l LIGATURE flag; d MULTI_SUBST_DUP *)
(*            flag; p liga_component_pos (observed on marks only).          *)
(* Program  = [gdef, lookups, features, vars, request, tuple]               *)
(* Lookup   = [type 1..8, etype, flag, mfs, subs]    type 7 = extension     *)
(*            wrapping subtables of type etype (semantically transparent).  *)
(* Subtable, by effective type:                                             *)
(*   1  [fmt 1, cov, delta] | [fmt 2, cov, subst]                           *)
(*   2  [fmt 1, cov, seqs]        3  [fmt 1, cov, alts]                      *)
(*   4  [fmt 1, cov, sets : Seq(Seq([lig, comps]))]                         *)
(*   5  fmt 1 [cov, sets : Seq(Seq([input, recs]))]                         *)
(*      fmt 2 [cov, icd, sets]   fmt 3 [input : Seq(Coverage), recs]        *)
(*   6  fmt 1 [cov, sets : Seq(Seq([back, input, look, recs]))]             *)
(*      fmt 2 [cov, bcd, icd, lcd, sets]   fmt 3 [back, input, look, recs]  *)
(*   8  [fmt 1, cov, back, look, subst]                                     *)
(*                                                                         *)
(* The semantics follows the grain of allsorts: StepFwd / StepRev is one    *)
(* iteration of the loop in gsub_apply_lookup (lookup applied at one run    *)
(* position, cursor advanced), ApplyLookup the whole loop, Steps / Denote   *)
(* the ordered application of the enabled features' lookups (gsub::apply).  *)
(* The MC module steps StepFwd as a state machine and checks it against the *)
(* big-step operators; generator and judge use the big-step operators.      *)
(*                                                                         *)
(* Named deviation points (ctx.dev):                                        *)
(*   refilter  Dev_NestedSeqIdxFlag: is the glyph found at a sequence index  *)
(*             re-filtered by the NESTED lookup's own flag (TRUE: a nested   *)
(*             lookup whose flag skips that glyph does nothing)?  OpenType   *)
(*             is silent; both readings are accepted.                       *)
(*   mfsBug    non-conformant reading used only to classify mismatches.      *)
(*   mfp       Dev_MarkFilterPrecedence (LayoutCommon!Matches): a flag with   *)
(*             markAttachmentType and useMarkFilteringSet; three readings     *)
(*             accepted.                                                     *)
(* Deterministic choices where OpenType is silent (documented, single        *)
(* reading): Dev_SeqIdxOnCurrentRun, Dev_AdvanceAfterContext,                *)
(* Dev_LigaSkippedNotRevisited, Dev_NestedAlternateIsFirst.                  *)
(***************************************************************************)
EXTENDS LayoutCommon

EffType(L) == IF L.type = 7 THEN L.etype ELSE L.type

InitRun(inp) == [k \in 1 .. Len(inp) |-> [g |-> inp[k], c |-> <<k>>, l |-> 0, d |-> 0, p |-> 0]]

RemoveAt(run, i) == SubSeq(run, 1, i - 1) \o SubSeq(run, i + 1, Len(run))

---------------------------------------------------------------------------
(* Type 1: single substitution *)
SingleOut(sub, g) ==
  IF sub.fmt = 1 THEN (g + sub.delta) % 65536                   \* deltaGlyphID is modulo 65536
  ELSE sub.subst[CoverageIndex(sub.cov, g) + 1]

SingleAt(L, run, i) ==                                          \* [hit, run]
  LET s == FirstCovering(L.subs, run[i].g) IN
  IF s = 0 THEN [hit |-> FALSE, run |-> run, tag |-> "single-miss"]
  ELSE [hit |-> TRUE, run |-> [run EXCEPT ![i].g = SingleOut(L.subs[s], run[i].g)],
        tag |-> IF s > 1 THEN "single-later-subtable" ELSE IF L.subs[s].fmt = 1 THEN "single-fmt1" ELSE "single-fmt2"]

(* Type 2: multiple substitution.  The first output glyph replaces the      *)
(* input glyph (keeps characters, flags and component position); the others *)
(* replicate its characters, are marked DUP and are not ligatures.  An      *)
(* empty sequence deletes the glyph (tolerated by all implementations).     *)
MultiAt(L, run, i) ==                                           \* [hit, run, n]
  LET s == FirstCovering(L.subs, run[i].g) IN
  IF s = 0 THEN [hit |-> FALSE, run |-> run, n |-> 1, tag |-> "multi-miss"]
  ELSE LET seq == L.subs[s].seqs[CoverageIndex(L.subs[s].cov, run[i].g) + 1]
           x == run[i] IN
       IF seq = <<>> THEN [hit |-> TRUE, run |-> RemoveAt(run, i), n |-> 0, tag |-> "multi-empty"]
       ELSE [hit |-> TRUE, n |-> Len(seq),
             run |-> SubSeq(run, 1, i - 1) \o <<[x EXCEPT !.g = seq[1]]>>
                     \o [k \in 1 .. Len(seq) - 1 |-> [g |-> seq[k + 1], c |-> x.c, l |-> 0, d |-> 1, p |-> 0]]
                     \o SubSeq(run, i + 1, Len(run)),
             tag |-> IF Len(seq) = 1 THEN "multi-one" ELSE "multi-many"]

(* Type 3: alternate substitution; alt = the alternate the client asked for *)
AlternateAt(L, run, i, alt) ==
  LET s == FirstCovering(L.subs, run[i].g) IN
  IF s = 0 THEN [hit |-> FALSE, run |-> run, tag |-> "alt-miss"]
  ELSE LET as == L.subs[s].alts[CoverageIndex(L.subs[s].cov, run[i].g) + 1] IN
       IF alt >= Len(as) THEN [hit |-> FALSE, run |-> run, tag |-> "alt-out-of-range"]
       ELSE [hit |-> TRUE, run |-> [run EXCEPT ![i].g = as[alt + 1]], tag |-> "alt"]

---------------------------------------------------------------------------
(* Type 4: ligature substitution *)
RECURSIVE FirstLigIn(_, _, _, _, _, _)
FirstLigIn(ctx, L, run, i, ligs, k) ==
  IF k > Len(ligs) THEN <<>>
  ELSE IF MatchFwd(ctx, L, run, i, "g", NoCd, ligs[k].comps, 1) # 0 THEN <<ligs[k]>>
  ELSE FirstLigIn(ctx, L, run, i, ligs, k + 1)

\* first matching ligature (set order) of the first subtable that has one: <<lig>> or <<>>
RECURSIVE FirstLig(_, _, _, _, _)
FirstLig(ctx, L, run, i, s) ==
  IF s > Len(L.subs) THEN <<>>
  ELSE LET ci == CoverageIndex(L.subs[s].cov, run[i].g)
           r == IF ci < 0 THEN <<>> ELSE FirstLigIn(ctx, L, run, i, L.subs[s].sets[ci + 1], 1) IN
       IF r # <<>> THEN r ELSE FirstLig(ctx, L, run, i, s + 1)

RECURSIVE ConcatChars(_, _, _)
ConcatChars(run, ps, k) == IF k > Len(ps) THEN <<>> ELSE run[ps[k]].c \o ConcatChars(run, ps, k + 1)

RECURSIVE PickSeq(_, _, _)      \* <<f[j] : j ascending in 1..n, keep[j]>>
PickSeq(f, keep, n) ==
  IF n = 0 THEN <<>> ELSE IF keep[n] THEN Append(PickSeq(f, keep, n - 1), f[n]) ELSE PickSeq(f, keep, n - 1)

(* Contract the glyph at i and its components (the next Len(comps) glyphs   *)
(* seen by L) into the ligature glyph: the characters of all components are *)
(* appended in order, the LIGATURE flag is set.  Glyphs skipped between the *)
(* components learn the number of components before them; the non-base,     *)
(* non-ligature glyphs that directly follow the last component learn the    *)
(* component count.                                                         *)
LigApply(ctx, L, run, i, lg) ==                                 \* [run, skip, removed]
  LET n == Len(lg.comps)
      ps == FwdPositions(ctx, L, run, i, n)
      last == IF n = 0 THEN i ELSE ps[n]
      IsComp(j) == \E k \in 1 .. n : ps[k] = j
      Before(j) == Cardinality({k \in 1 .. n : ps[k] < j})
      Trailing(j) == j > last /\ \A q \in last + 1 .. j : GlyphClass(ctx.gdef, run[q].g) \notin {ClassBase, ClassLig}
      head == [run[i] EXCEPT !.g = lg.lig, !.c = run[i].c \o ConcatChars(run, ps, 1),
                             !.l = IF n > 0 THEN 1 ELSE run[i].l]
      new == [j \in 1 .. Len(run) |->
                IF j = i THEN head
                ELSE IF j > i /\ j < last THEN [run[j] EXCEPT !.p = Before(j)]
                ELSE IF Trailing(j) THEN [run[j] EXCEPT !.p = n]
                ELSE run[j]]
      keep == [j \in 1 .. Len(run) |-> ~IsComp(j)]
  IN [run |-> PickSeq(new, keep, Len(run)), skip |-> (last - i) - n, removed |-> n]

LigatureAt(ctx, L, run, i) ==                                   \* [hit, run, skip, removed]
  LET lg == FirstLig(ctx, L, run, i, 1) IN
  IF lg = <<>> THEN [hit |-> FALSE, run |-> run, skip |-> 0, removed |-> 0, tag |-> "lig-miss"]
  ELSE LET r == LigApply(ctx, L, run, i, lg[1]) IN
       [hit |-> TRUE, run |-> r.run, skip |-> r.skip, removed |-> r.removed,
        tag |-> IF r.skip > 0 THEN "lig-skipping" ELSE IF r.removed = 0 THEN "lig-one-component" ELSE "lig"]

---------------------------------------------------------------------------
(* Type 8: reverse chaining single substitution at position i *)
RECURSIVE FirstRev(_, _, _, _, _)
FirstRev(ctx, L, run, i, s) ==                                  \* <<new glyph>> or <<>>
  IF s > Len(L.subs) THEN <<>>
  ELSE LET sub == L.subs[s]
           ci == CoverageIndex(sub.cov, run[i].g) IN
       IF /\ ci >= 0
          /\ MatchBack(ctx, L, run, i, "v", NoCd, sub.back, 1)
          /\ MatchFwd(ctx, L, run, i, "v", NoCd, sub.look, 1) # 0
       THEN <<sub.subst[ci + 1]>>
       ELSE FirstRev(ctx, L, run, i, s + 1)

ReverseAt(ctx, L, run, i) ==
  LET r == FirstRev(ctx, L, run, i, 1) IN
  IF r = <<>> THEN [hit |-> FALSE, run |-> run, tag |-> "rev-miss"]
  ELSE [hit |-> TRUE, run |-> [run EXCEPT ![i].g = r[1]],
        tag |-> IF Len(L.subs) > 1 /\ FirstRev(ctx, [L EXCEPT !.subs = <<L.subs[1]>>], run, i, 1) = <<>>
                THEN "rev-later-subtable" ELSE "rev"]

---------------------------------------------------------------------------
(* Types 5 and 6: (chained) context with nested lookups *)
RecursionLimit == 2                       \* allsorts: SUBST_RECURSION_LIMIT; contexts may nest 3 deep

\* Dev_AdvanceAfterContext: the cursor resumes after the matched input sequence as modified by the
\* nested lookups; if they removed more glyphs than the input sequence had, it resumes in place.
Dev_AdvanceAfterContext(len, d) == IF len + d < 0 THEN 0 ELSE len + d

RECURSIVE ContextAt(_, _, _, _, _), ApplyNested(_, _, _, _, _, _, _), ApplyRecs(_, _, _, _, _, _, _)

(* Nested lookup li applied at sequence index si of the match that starts   *)
(* at i.  Dev_SeqIdxOnCurrentRun: the index is counted over the glyphs seen *)
(* by the PARENT lookup in the run as modified by earlier records.          *)
(* Dev_NestedAlternateIsFirst: a nested alternate lookup takes alternate 0. *)
(* Nested ligature / context / reverse lookups match their own further      *)
(* glyphs with their OWN flag.                                              *)
ApplyNested(ctx, P, run, i, si, li, depth) ==                   \* [run, d, tags]
  LET j == Nth(ctx, P, run, i, si)
      N == ctx.lookups[li + 1]
      t == EffType(N)
      Same == [run |-> run, d |-> 0, tags |-> {}] IN
  IF j = 0 THEN [Same EXCEPT !.tags = {"nested-index-beyond-run"}]
  \* sequence index 0 after an earlier record deleted the last glyph of the run (empty multiple sequence)
  ELSE IF j > Len(run) THEN [Same EXCEPT !.tags = {"nested-index-past-run-end"}]
  ELSE IF ctx.dev.refilter /\ ~Matches(ctx, N, run[j].g) THEN [Same EXCEPT !.tags = {"nested-refiltered"}]
  ELSE
  CASE t = 1 -> LET r == SingleAt(N, run, j) IN [run |-> r.run, d |-> 0, tags |-> {"nested-" \o r.tag}]
    [] t = 2 -> LET r == MultiAt(N, run, j) IN
                [run |-> r.run, d |-> IF r.hit THEN r.n - 1 ELSE 0, tags |-> {"nested-" \o r.tag}]
    [] t = 3 -> LET r == AlternateAt(N, run, j, 0) IN [run |-> r.run, d |-> 0, tags |-> {"nested-" \o r.tag}]
    [] t = 4 -> LET r == LigatureAt(ctx, N, run, j) IN
                [run |-> r.run, d |-> 0 - r.removed, tags |-> {"nested-" \o r.tag}]
    [] t \in {5, 6} ->
                IF depth = 0 THEN [Same EXCEPT !.tags = {"nested-limit-exceeded"}]
                ELSE LET r == ContextAt(ctx, N, run, j, depth - 1) IN
                     [run |-> r.run, d |-> r.d, tags |-> r.tags \cup {IF r.hit THEN "nested-context" ELSE "nested-context-miss"}]
    [] t = 8 -> LET r == ReverseAt(ctx, N, run, j) IN [run |-> r.run, d |-> 0, tags |-> {"nested-" \o r.tag}]

ApplyRecs(ctx, P, run, i, recs, k, depth) ==                    \* [run, d, tags]
  IF k > Len(recs) THEN [run |-> run, d |-> 0, tags |-> {}]
  ELSE LET a == ApplyNested(ctx, P, run, i, recs[k][1], recs[k][2], depth)
           b == ApplyRecs(ctx, P, a.run, i, recs, k + 1, depth) IN
       [run |-> b.run, d |-> a.d + b.d, tags |-> a.tags \cup b.tags]

ContextAt(ctx, L, run, i, depth) ==                             \* [hit, run, adv, d, tags]
  LET chain == EffType(L) = 6
      fr == FirstRule(ctx, L, run, i, L.subs, chain, 1) IN
  IF fr = <<>> THEN [hit |-> FALSE, run |-> run, adv |-> 1, d |-> 0, tags |-> {"context-miss"}]
  ELSE LET r == fr[1]
           len == RuleInputEnd(ctx, L, run, i, r) - i + 1       \* span of the input match, skipped glyphs included
           a == ApplyRecs(ctx, L, run, i, r.recs, 1, depth) IN
       [hit |-> TRUE, run |-> a.run, adv |-> Dev_AdvanceAfterContext(len, a.d), d |-> a.d,
        tags |-> a.tags \cup {"context-fmt" \o (IF r.kind = "g" THEN "1" ELSE IF r.kind = "c" THEN "2" ELSE "3")}
                 \cup (IF len > Len(r.input) + 1 THEN {"context-skipping"} ELSE {})
                 \cup (IF r.back # <<>> THEN {"context-backtrack"} ELSE {})
                 \cup (IF r.look # <<>> THEN {"context-lookahead"} ELSE {})
                 \cup (IF Len(r.recs) > 1 THEN {"context-many-records"} ELSE {})
                 \cup (IF r.recs = <<>> THEN {"context-ignore-rule"} ELSE {})
                 \cup (IF Len(L.subs) > 1 /\ FirstRule(ctx, L, run, i, <<L.subs[1]>>, chain, 1) = <<>>
                       THEN {"context-later-subtable"} ELSE {})
                 \cup (IF a.d # 0 THEN {"context-length-change"} ELSE {})
                 \cup (IF len + a.d <= 0 THEN {"context-shrunk-to-nothing"} ELSE {})
                 \cup (IF len + a.d < 0 THEN {"context-shrunk-below-zero"} ELSE {})]

---------------------------------------------------------------------------
(* One iteration of the forward loop of gsub_apply_lookup: lookup L at run  *)
(* position i (1 <= i <= Len(run)); result: new run, new cursor, tags.      *)
StepFwd(ctx, L, run, i, alt) ==
  LET t == EffType(L) IN
  IF ~Matches(ctx, L, run[i].g) THEN [run |-> run, i |-> i + 1, tags |-> {"cursor-glyph-skipped"}]
  ELSE
  CASE t = 1 -> LET r == SingleAt(L, run, i) IN [run |-> r.run, i |-> i + 1, tags |-> {r.tag}]
    [] t = 2 -> LET r == MultiAt(L, run, i) IN [run |-> r.run, i |-> i + r.n, tags |-> {r.tag}]
    [] t = 3 -> LET r == AlternateAt(L, run, i, alt) IN [run |-> r.run, i |-> i + 1, tags |-> {r.tag}]
    [] t = 4 -> LET r == LigatureAt(ctx, L, run, i) IN
                \* Dev_LigaSkippedNotRevisited: the cursor resumes after the skipped glyphs
                [run |-> r.run, i |-> i + r.skip + 1, tags |-> {r.tag}]
    [] t \in {5, 6} -> LET r == ContextAt(ctx, L, run, i, RecursionLimit) IN
                [run |-> r.run, i |-> i + r.adv, tags |-> r.tags]

\* type 8 walks right to left
StepRev(ctx, L, run, i) ==
  IF ~Matches(ctx, L, run[i].g) THEN [run |-> run, i |-> i - 1, tags |-> {"cursor-glyph-skipped"}]
  ELSE LET r == ReverseAt(ctx, L, run, i) IN [run |-> r.run, i |-> i - 1, tags |-> {r.tag}]

IsReverse(L) == EffType(L) = 8

RECURSIVE WalkFwd(_, _, _, _, _), WalkRev(_, _, _, _)
WalkFwd(ctx, L, run, i, alt) ==
  IF i > Len(run) THEN run
  ELSE LET s == StepFwd(ctx, L, run, i, alt) IN WalkFwd(ctx, L, s.run, s.i, alt)
WalkRev(ctx, L, run, i) ==
  IF i < 1 THEN run
  ELSE LET s == StepRev(ctx, L, run, i) IN WalkRev(ctx, L, s.run, s.i)

\* gsub_apply_lookup over the whole run
ApplyLookup(ctx, li, alt, run) ==
  LET L == ctx.lookups[li + 1] IN
  IF IsReverse(L) THEN WalkRev(ctx, L, run, Len(run)) ELSE WalkFwd(ctx, L, run, 1, alt)

\* the branches of the specification a whole lookup takes (used to classify mismatches, never to judge)
RECURSIVE TagsFwd(_, _, _, _, _), TagsRev(_, _, _, _)
TagsFwd(ctx, L, run, i, alt) ==
  IF i > Len(run) THEN {}
  ELSE LET s == StepFwd(ctx, L, run, i, alt) IN s.tags \cup TagsFwd(ctx, L, s.run, s.i, alt)
TagsRev(ctx, L, run, i) ==
  IF i < 1 THEN {}
  ELSE LET s == StepRev(ctx, L, run, i) IN s.tags \cup TagsRev(ctx, L, s.run, s.i)
LookupTags(ctx, li, alt, run) ==
  LET L == ctx.lookups[li + 1] IN
  IF IsReverse(L) THEN TagsRev(ctx, L, run, Len(run)) ELSE TagsFwd(ctx, L, run, 1, alt)

\* runs after each lookup of order = Seq(<<lookupIndex, alt>>)
RECURSIVE Steps(_, _, _, _)
Steps(ctx, order, run, k) ==
  IF k > Len(order) THEN <<>>
  ELSE LET r == ApplyLookup(ctx, order[k][1], order[k][2], run) IN <<r>> \o Steps(ctx, order, r, k + 1)

Ctx(prog, dev) == [gdef |-> prog.gdef, lookups |-> prog.lookups, dev |-> dev]

ProgOrder(prog) == LookupOrder(prog.features, prog.vars, prog.tuple, prog.request)

\* gsub::apply with Features::Custom(request): the run after every enabled lookup, in order
GsubSteps(prog, dev, inp) == Steps(Ctx(prog, dev), ProgOrder(prog), InitRun(inp), 1)

GsubDenote(prog, dev, inp) ==
  LET s == GsubSteps(prog, dev, inp) IN IF s = <<>> THEN InitRun(inp) ELSE s[Len(s)]

GsubTags(prog, dev, inp) ==
  LET ord == ProgOrder(prog)
      st == <<InitRun(inp)>> \o GsubSteps(prog, dev, inp) IN
  UNION {LookupTags(Ctx(prog, dev), ord[k][1], ord[k][2], st[k]) : k \in 1 .. Len(ord)}

---------------------------------------------------------------------------
(* Observation: liga_component_pos is compared on marks only *)
ObsRun(gdef, run) ==
  [k \in 1 .. Len(run) |-> IF GlyphClass(gdef, run[k].g) = ClassMark THEN run[k] ELSE [run[k] EXCEPT !.p = 0]]
ObsSteps(gdef, steps) == [k \in 1 .. Len(steps) |-> ObsRun(gdef, steps[k])]

DevStd     == [refilter |-> FALSE, mfsBug |-> FALSE, mfp |-> "att"]
\* the conformant readings
DevChoices == {[refilter |-> b, mfsBug |-> FALSE, mfp |-> m] : b \in BOOLEAN, m \in {"att", "mfs", "both"}}
DevMfsBug  == [refilter |-> FALSE, mfsBug |-> TRUE, mfp |-> "att"]     \* known non-conformant reading

\* the readings that can make a difference for a program: Dev_NestedSeqIdxFlag needs a context lookup,
\* Dev_MarkFilterPrecedence a flag with both mark filters
ProgHasNested(prog) == \E q \in 1 .. Len(prog.lookups) : EffType(prog.lookups[q]) \in {5, 6}
ProgHasBothFilters(prog) == \E q \in 1 .. Len(prog.lookups) : BothMarkFilters(prog.lookups[q])
DevChoicesFor(prog) ==
  {[refilter |-> b, mfsBug |-> FALSE, mfp |-> m] :
     b \in (IF ProgHasNested(prog) THEN BOOLEAN ELSE {FALSE}),
     m \in (IF ProgHasBothFilters(prog) THEN {"att", "mfs", "both"} ELSE {"att"})}

---------------------------------------------------------------------------
(* Well-formed programs: what "expressible in GSUB" means for this model    *)
WFGlyphs(s, n) == \A k \in 1 .. Len(s) : s[k] \in 0 .. n - 1

WFSub(t, sub, nGlyphs, nLookups) ==
  CASE t = 1 -> /\ WFCoverage(sub.cov)
                /\ IF sub.fmt = 1 THEN sub.delta \in -32768 .. 32767
                   ELSE sub.fmt = 2 /\ Len(sub.subst) = CoverageCount(sub.cov) /\ WFGlyphs(sub.subst, nGlyphs)
    [] t = 2 -> /\ sub.fmt = 1 /\ WFCoverage(sub.cov) /\ Len(sub.seqs) = CoverageCount(sub.cov)
                /\ \A k \in 1 .. Len(sub.seqs) : WFGlyphs(sub.seqs[k], nGlyphs)
    [] t = 3 -> /\ sub.fmt = 1 /\ WFCoverage(sub.cov) /\ Len(sub.alts) = CoverageCount(sub.cov)
                /\ \A k \in 1 .. Len(sub.alts) : sub.alts[k] # <<>> /\ WFGlyphs(sub.alts[k], nGlyphs)
    [] t = 4 -> /\ sub.fmt = 1 /\ WFCoverage(sub.cov) /\ Len(sub.sets) = CoverageCount(sub.cov)
                /\ \A s \in 1 .. Len(sub.sets) : \A k \in 1 .. Len(sub.sets[s]) :
                      sub.sets[s][k].lig \in 0 .. nGlyphs - 1 /\ WFGlyphs(sub.sets[s][k].comps, nGlyphs)
    [] t = 5 -> WFContextSub(sub, FALSE, nLookups)
    [] t = 6 -> WFContextSub(sub, TRUE, nLookups)
    [] t = 8 -> /\ sub.fmt = 1 /\ WFCoverage(sub.cov) /\ Len(sub.subst) = CoverageCount(sub.cov)
                /\ WFGlyphs(sub.subst, nGlyphs)
                /\ \A k \in 1 .. Len(sub.back) : WFCoverage(sub.back[k])
                /\ \A k \in 1 .. Len(sub.look) : WFCoverage(sub.look[k])
    [] OTHER -> FALSE

\* all <<seqIdx, lookupIdx>> records of a context lookup
NestedOf(L) ==
  IF EffType(L) \notin {5, 6} THEN {}
  ELSE UNION {IF L.subs[s].fmt = 3 THEN {L.subs[s].recs[k][2] : k \in 1 .. Len(L.subs[s].recs)}
              ELSE UNION {UNION {{L.subs[s].sets[c][r].recs[k][2] : k \in 1 .. Len(L.subs[s].sets[c][r].recs)}
                                 : r \in 1 .. Len(L.subs[s].sets[c])} : c \in 1 .. Len(L.subs[s].sets)}
              : s \in 1 .. Len(L.subs)}

\* context nesting depth of lookup li (a cycle exhausts the fuel)
RECURSIVE CtxDepth(_, _, _)
CtxDepth(lookups, li, fuel) ==
  IF fuel = 0 THEN 99
  ELSE IF EffType(lookups[li + 1]) \notin {5, 6} THEN 0
  ELSE 1 + MaxOf({0} \cup {CtxDepth(lookups, n, fuel - 1) : n \in NestedOf(lookups[li + 1])})

WFLookup(prog, li, nGlyphs) ==
  LET L == prog.lookups[li + 1] IN
  /\ L.type \in {1, 2, 3, 4, 5, 6, 7, 8}
  /\ (L.type = 7 => L.etype \in {1, 2, 3, 4, 5, 6, 8})
  /\ WFFlag(prog.gdef, L)
  /\ \A s \in 1 .. Len(L.subs) : WFSub(EffType(L), L.subs[s], nGlyphs, Len(prog.lookups))
  /\ (L.type = 7 => L.subs # <<>>)
  /\ CtxDepth(prog.lookups, li, 5) <= RecursionLimit + 1

\* the glyphs a single-substitution format 1 may produce must exist (checked on the input alphabet only)
WFProgram(prog, nGlyphs) ==
  /\ WFGdef(prog.gdef)
  /\ \A li \in 0 .. Len(prog.lookups) - 1 : WFLookup(prog, li, nGlyphs)
  /\ WFFeatures(prog.features, prog.vars, prog.tuple, prog.request, Len(prog.lookups))

(* Conservation of characters: every character of the input is carried by   *)
(* some glyph of the run unless its glyph was deleted by an empty multiple  *)
(* substitution; characters inside a glyph and first characters along the   *)
(* run stay in input order.                                                 *)
CharsOf(run) == UNION {SeqToSet(run[k].c) : k \in 1 .. Len(run)}
CharsOrdered(run) ==
  /\ \A k \in 1 .. Len(run) : \A a \in 1 .. Len(run[k].c) - 1 : run[k].c[a] <= run[k].c[a + 1]
  /\ \A k \in 1 .. Len(run) - 1 : run[k].c # <<>> /\ run[k + 1].c # <<>> => run[k].c[1] <= run[k + 1].c[1]
=============================================================================
