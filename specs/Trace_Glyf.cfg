CONSTANTS
  MaxDepth = 6
SPECIFICATION TSpec
POSTCONDITION AllConsumed
CHECK_DEADLOCK FALSE
