----------------------------- MODULE Position -----------------------------
(***************************************************************************)
(* C05 - final pen positions of a positioned run, horizontal text.         *)
(*                                                                         *)
(* "The final pen positions equal font advances plus these adjustments,    *)
(*  with each mark placed at base anchor minus mark anchor relative to its *)
(*  base in both text directions", "cursive glyphs are joined exit-to-      *)
(*  entry".                                                                *)
(*                                                                         *)
(* Observable (`canonical`) result: the ORIGIN of every glyph on the line  *)
(* and the total advance of the run.  The line is laid out in visual       *)
(* order: logical order for left-to-right text, reverse logical order for  *)
(* right-to-left text; the pen starts at 0 and moves right by each glyph's *)
(* advance; a glyph is drawn at pen + offset.  (For right-to-left text the *)
(* alternative contract "logical order, pen moving left" yields the same   *)
(* origins up to the reflection that fixes the run's extent, so the        *)
(* formulas below do not depend on which of the two a client uses.)        *)
(*                                                                         *)
(* infos : Seq([g, k, pl])  (Gpos!Proj),  adv : Seq(Nat), adv[g+1] = hmtx  *)
(* advance of glyph g,  dir \in {"ltr", "rtl"}.                            *)
(*                                                                         *)
(* How a cursive adjustment is split between advance and offset is an      *)
(* engine's choice (OpenType adjusts the advance of the first glyph,       *)
(* HarfBuzz shifts the second and shortens its advance); origins and the   *)
(* total advance are the same for every such split, which is why they are  *)
(* what is compared with allsorts::glyph_position.                         *)
(***************************************************************************)
EXTENDS Integers, Sequences, FiniteSets, FiniteSetsExt

\* the run has at most one cursive predecessor per glyph, joined glyphs carry no displacement
\* of their own, and the cross-stream flag is uniform along a chain (one cursive lookup)
CLink(infos, j) == infos[j].pl.t = "C"
CNext(infos, j) == infos[j].pl.i + 1
CPreds(infos, j) == {p \in 1 .. Len(infos) : CLink(infos, p) /\ CNext(infos, p) = j}

PosWF(infos) ==
  \A j \in 1 .. Len(infos) :
    /\ infos[j].pl.t \in {"N", "D", "M", "C"}
    /\ Cardinality(CPreds(infos, j)) <= 1
    /\ infos[j].pl.t = "M" => infos[j].pl.i + 1 \in 1 .. (j - 1)
    /\ CLink(infos, j) => CNext(infos, j) \in (j + 1) .. Len(infos)
    /\ CPreds(infos, j) # {} => /\ infos[j].pl.t \in {"N", "C"}
                               /\ \A p \in CPreds(infos, j) :
                                    CLink(infos, j) => infos[j].pl.r = infos[p].pl.r

CPred(infos, j) == CHOOSE p \in CPreds(infos, j) : TRUE

\* nominal advance: font advance plus accumulated advance adjustments
Adv(infos, adv, j) == adv[infos[j].g + 1] + infos[j].k

OwnX(infos, j) == IF infos[j].pl.t = "D" THEN infos[j].pl.ax ELSE 0
OwnY(infos, j) == IF infos[j].pl.t = "D" THEN infos[j].pl.ay ELSE 0

\* ---- line direction ------------------------------------------------------------
\* Flow position of glyph j: where the pen stands when j is reached.  Cursively joined glyphs
\* satisfy      origin(first).x + exit.x = origin(second).x + entry.x
\* and, as OpenType prescribes, this is achieved through an ADVANCE: the advance of the glyph
\* that is visually first of the pair is replaced by what makes the anchors meet (glyphs the
\* cursive lookup skipped between the two keep their advances and stay in the flow).
RECURSIVE SumAdv(_, _, _, _)
SumAdv(infos, adv, lo, hi) == IF lo > hi THEN 0 ELSE Adv(infos, adv, lo) + SumAdv(infos, adv, lo + 1, hi)

\* left-to-right: the first glyph p of a pair (p, n) precedes n on the line
EffAdvLtr(infos, adv, q) ==
  IF CLink(infos, q)
  THEN infos[q].pl.bx - infos[q].pl.ax - SumAdv(infos, adv, q + 1, CNext(infos, q) - 1)
  ELSE Adv(infos, adv, q)

FlowLtr(infos, adv) ==
  LET F[j \in 1 .. Len(infos)] == IF j = 1 THEN 0 ELSE F[j - 1] + EffAdvLtr(infos, adv, j - 1)
  IN F

\* right-to-left: the second glyph n of a pair (p, n) precedes p on the line
EffAdvRtl(infos, adv, q) ==
  IF CPreds(infos, q) # {}
  THEN LET p == CPred(infos, q) IN
       infos[p].pl.ax - infos[p].pl.bx - SumAdv(infos, adv, p + 1, q - 1)
  ELSE Adv(infos, adv, q)

FlowRtl(infos, adv) ==
  LET n == Len(infos)
      F[j \in 1 .. n] == IF j = n THEN 0 ELSE F[j + 1] + EffAdvRtl(infos, adv, j + 1)
  IN F

\* ---- cross-stream direction ------------------------------------------------------
\*     origin(first).y + exit.y = origin(second).y + entry.y
\* RIGHT_TO_LEFT lookup flag clear: the second glyph moves; set: the first glyph moves.
CrossY(infos) ==
  LET Y[j \in 1 .. Len(infos)] ==
        IF CLink(infos, j) /\ infos[j].pl.r
        THEN Y[CNext(infos, j)] + infos[j].pl.ay - infos[j].pl.by
        ELSE IF CPreds(infos, j) # {} /\ ~infos[CPred(infos, j)].pl.r
        THEN LET p == CPred(infos, j) IN Y[p] + infos[p].pl.by - infos[p].pl.ay
        ELSE OwnY(infos, j)
  IN Y

\* ---- origins -----------------------------------------------------------------------
\* A mark sits at base origin + base anchor - mark anchor, whatever the direction.
Origins(infos, adv, dir) ==
  LET F == IF dir = "ltr" THEN FlowLtr(infos, adv) ELSE FlowRtl(infos, adv)
      Y == CrossY(infos)
      O[j \in 1 .. Len(infos)] ==
        IF infos[j].pl.t = "M"
        THEN LET b == infos[j].pl.i + 1 IN
             <<O[b][1] + infos[j].pl.ax - infos[j].pl.bx, O[b][2] + infos[j].pl.ay - infos[j].pl.by>>
        ELSE <<F[j] + OwnX(infos, j), Y[j]>>
  IN O

Total(infos, adv, dir) ==
  IF Len(infos) = 0 THEN 0
  ELSE IF dir = "ltr"
  THEN FlowLtr(infos, adv)[Len(infos)] + EffAdvLtr(infos, adv, Len(infos))
  ELSE FlowRtl(infos, adv)[1] + EffAdvRtl(infos, adv, 1)

Canon(infos, adv, dir) ==
  [o |-> [j \in 1 .. Len(infos) |-> Origins(infos, adv, dir)[j]], t |-> Total(infos, adv, dir), v |-> 0]

\* ---- the same observable computed from raw (advance, offset) positions --------------
\* raw : Seq([a, va, x, y])  hori_advance, vert_advance, x_offset, y_offset
RECURSIVE SumA(_, _, _)
SumA(raw, lo, hi) == IF lo > hi THEN 0 ELSE raw[lo].a + SumA(raw, lo + 1, hi)
RECURSIVE SumVA(_, _, _)
SumVA(raw, lo, hi) == IF lo > hi THEN 0 ELSE raw[lo].va + SumVA(raw, lo + 1, hi)

CanonOfRaw(raw, dir) ==
  LET n == Len(raw)
      pen(j) == IF dir = "ltr" THEN SumA(raw, 1, j - 1) ELSE SumA(raw, j + 1, n) IN
  [o |-> [j \in 1 .. n |-> <<pen(j) + raw[j].x, raw[j].y>>], t |-> SumA(raw, 1, n), v |-> SumVA(raw, 1, n)]

\* ---- design invariants (checked by MC_Gpos on every generated case) -------------------
\* MarkRelativeToBase: in both directions a mark's origin minus its base's origin is
\* base anchor minus mark anchor; in particular it does not depend on the direction.
MarkRelativeToBase(infos, adv) ==
  \A dir \in {"ltr", "rtl"} :
    LET O == Origins(infos, adv, dir) IN
    \A j \in 1 .. Len(infos) :
      infos[j].pl.t = "M" =>
        LET b == infos[j].pl.i + 1 IN
        /\ O[j][1] - O[b][1] = infos[j].pl.ax - infos[j].pl.bx
        /\ O[j][2] - O[b][2] = infos[j].pl.ay - infos[j].pl.by

\* JoinHolds: exit anchor of the first glyph and entry anchor of the second coincide.
JoinHolds(infos, adv) ==
  \A dir \in {"ltr", "rtl"} :
    LET O == Origins(infos, adv, dir) IN
    \A j \in 1 .. Len(infos) :
      CLink(infos, j) =>
        LET n == CNext(infos, j) IN
        /\ O[j][1] + infos[j].pl.bx = O[n][1] + infos[j].pl.ax
        /\ O[j][2] + infos[j].pl.by = O[n][2] + infos[j].pl.ay

\* AdvanceIsSum: without cursive joins the run is as wide as its advances plus adjustments,
\* and an unattached glyph stands at the sum of what is before it plus its own displacement.
AdvanceIsSum(infos, adv) ==
  (\A j \in 1 .. Len(infos) : ~CLink(infos, j)) =>
     /\ Total(infos, adv, "ltr") = SumAdv(infos, adv, 1, Len(infos))
     /\ Total(infos, adv, "rtl") = SumAdv(infos, adv, 1, Len(infos))
     /\ \A j \in 1 .. Len(infos) :
          infos[j].pl.t \in {"N", "D"} =>
            /\ Origins(infos, adv, "ltr")[j] = <<SumAdv(infos, adv, 1, j - 1) + OwnX(infos, j), OwnY(infos, j)>>
            /\ Origins(infos, adv, "rtl")[j] = <<SumAdv(infos, adv, j + 1, Len(infos)) + OwnX(infos, j), OwnY(infos, j)>>

\* the glyph of a chain that does not move across the line keeps its own y
ChainAnchorStays(infos) ==
  \A j \in 1 .. Len(infos) :
    (CPreds(infos, j) = {} /\ CLink(infos, j) /\ ~infos[j].pl.r) => CrossY(infos)[j] = 0

\* ---- combinations of the mechanisms in one run ----------------------------------------
\* the glyph a mark finally rests on (mark on mark on ... on a base / ligature)
RECURSIVE RootOf(_, _)
RootOf(infos, j) == IF infos[j].pl.t = "M" THEN RootOf(infos, infos[j].pl.i + 1) ELSE j

\* glyph j is part of a cursive chain
InChain(infos, j) == CLink(infos, j) \/ CPreds(infos, j) # {}

\* what the cursive join does to glyph j: moved across the line / its advance replaced
MovedAcross(infos, j)   == InChain(infos, j) /\ CrossY(infos)[j] # 0
FittedLtr(infos, adv, j) == CLink(infos, j) /\ EffAdvLtr(infos, adv, j) # Adv(infos, adv, j)
FittedRtl(infos, adv, j) == CPreds(infos, j) # {} /\ EffAdvRtl(infos, adv, j) # Adv(infos, adv, j)

\* the run without its attached marks (indices of cursive links renumbered)
KeptIdx(infos) ==
  LET S == {j \in 1 .. Len(infos) : infos[j].pl.t # "M"} IN
  [k \in 1 .. Cardinality(S) |-> CHOOSE j \in S : Cardinality({q \in S : q <= j}) = k]
NewIdx(infos, j) == Cardinality({q \in 1 .. j : infos[q].pl.t # "M"})
WithoutMarks(infos) ==
  LET K == KeptIdx(infos) IN
  [k \in 1 .. Len(K) |->
     LET x == infos[K[k]] IN
     IF x.pl.t = "C" THEN [x EXCEPT !.pl.i = NewIdx(infos, x.pl.i + 1) - 1] ELSE x]

\* MarksTransparent: attached marks that take no room on the line are invisible to everything
\* else - kerning, Distance placements, cursive joins (which step over them), the total
\* advance: deleting them leaves every other glyph where it was, in both directions.
\* (Together with MarkRelativeToBase: a cluster of base + marks moves as one when a cursive
\* join or an adjustment moves the base.)
MarksTransparent(infos, adv) ==
  ((\E j \in 1 .. Len(infos) : infos[j].pl.t = "M")
   /\ \A j \in 1 .. Len(infos) : infos[j].pl.t = "M" => Adv(infos, adv, j) = 0) =>
    LET K == KeptIdx(infos)
        W == WithoutMarks(infos) IN
    \A dir \in {"ltr", "rtl"} :
      LET O == Origins(infos, adv, dir)
          P == Origins(W, adv, dir) IN
      /\ Total(W, adv, dir) = Total(infos, adv, dir)
      /\ \A k \in 1 .. Len(K) : P[k] = O[K[k]]
=============================================================================
