CONSTANTS
  CycleLen = 4
  ChainOver = 2
SPECIFICATION Spec
INVARIANTS Bounded Outcome Emit
CHECK_DEADLOCK FALSE
