CONSTANTS
  CycleLen = 4
  ChainOver = 2
  SizeExpLo = 4
  SizeExpHi = 10
SPECIFICATION Spec
INVARIANTS Bounded Outcome CntOK Emit
CHECK_DEADLOCK FALSE
