----------------------------- MODULE SfntWrite -----------------------------
(***************************************************************************)
(* What it means for written bytes to be a valid, self-consistent sfnt     *)
(* (property C09), and a model of allsorts' FontBuilder (src/subset.rs)    *)
(* that TLC checks against it.                                             *)
(*                                                                         *)
(* A written font is judged through its PROJECTION, measured by an         *)
(* independent reader in the harness (or, inside the model, computed by    *)
(* the operators below from the model's own bytes):                        *)
(*   [version, numTables, searchRange, entrySelector, rangeShift, fileLen, *)
(*    records : Seq([tag, off, len, sum, measured, padZero]),              *)
(*    totalSum, headSumZeroed ...]                                         *)
(* 32-bit quantities (tags, checksums) are pairs <<hi16, lo16>>.           *)
(***************************************************************************)
EXTENDS Sfnt

\* ---- 32-bit arithmetic on limb pairs -------------------------------------
L32(hi, lo)  == <<hi, lo>>
Add32(a, b)  == LET lo == a[2] + b[2]  hi == a[1] + b[1] + (lo \div 65536) IN <<hi % 65536, lo % 65536>>
Sub32(a, b)  == LET lo == a[2] - b[2]
                    borrow == IF lo < 0 THEN 1 ELSE 0
                    hi == a[1] - b[1] - borrow
                IN <<hi % 65536, lo % 65536>>          \* % floors: negative values wrap correctly
Less32(a, b) == a[1] < b[1] \/ (a[1] = b[1] /\ a[2] < b[2])
RECURSIVE Sum32(_)
Sum32(s) == IF s = <<>> THEN <<0, 0>> ELSE Add32(s[1], Sum32(Tail(s)))

Magic == <<45488, 44986>>                 \* 0xB1B0AFBA

\* table checksum of a byte sequence: sum of big-endian words, zero padded
RECURSIVE WordSum(_)
WordSum(bs) ==
  IF bs = <<>> THEN <<0, 0>>
  ELSE LET b == [k \in 1 .. 4 |-> IF k <= Len(bs) THEN bs[k] ELSE 0] IN
       Add32(<<b[1] * 256 + b[2], b[3] * 256 + b[4]>>,
             WordSum(IF Len(bs) <= 4 THEN <<>> ELSE SubSeq(bs, 5, Len(bs))))

\* floor(log2 n) for 1 <= n < 65536
RECURSIVE Log2(_)
Log2(n) == IF n <= 1 THEN 0 ELSE 1 + Log2(n \div 2)
\* (named WPow2: Sfnt.tla, which this module extends, has its own small Pow2)
WPow2(k) == 2 ^ k

HeadTag == <<26725, 24932>>               \* 'head'

---------------------------------------------------------------------------
\* THE PROPERTY, on a projection p.

DirectoryOK(p) ==
  /\ p.numTables = Len(p.records)
  /\ p.numTables >= 1
  /\ p.entrySelector = Log2(p.numTables)
  /\ p.searchRange = 16 * WPow2(p.entrySelector)
  /\ p.rangeShift = 16 * p.numTables - p.searchRange
  /\ \A k \in 1 .. (Len(p.records) - 1) : Less32(p.records[k].tag, p.records[k + 1].tag)   \* sorted, unique

\* 4-byte aligned, inside the file, after the directory, pairwise disjoint incl. padding, zero padding
LayoutOK(p) ==
  LET dirEnd == 12 + 16 * p.numTables IN
  /\ \A k \in 1 .. Len(p.records) :
        LET r == p.records[k] IN
        /\ r.off % 4 = 0 /\ r.off >= dirEnd
        /\ r.off + r.len <= p.fileLen
        /\ r.padZero
  /\ \A j, k \in 1 .. Len(p.records) :
        j # k => LET a == p.records[j]  b == p.records[k] IN
                 \/ a.off + a.len + Pad4(a.len) <= b.off
                 \/ b.off + b.len + Pad4(b.len) <= a.off
                 \/ (a.len = 0 \/ b.len = 0)

\* every directory checksum is the checksum of its table (head: with checkSumAdjustment zeroed)
ChecksumsOK(p) == \A k \in 1 .. Len(p.records) : p.records[k].sum = p.records[k].measured

\* whole-file checksum identity: sum(file) = 0xB1B0AFBA; equivalently
\* adjustment = 0xB1B0AFBA - (sum(header + directory) + sum of table checksums)
HasHead(p) == \E k \in 1 .. Len(p.records) : p.records[k].tag = HeadTag
AdjustmentOK(p) ==
  HasHead(p) =>
     /\ p.totalSum = Magic
     /\ p.headAdj = Sub32(Magic, Add32(p.dirSum, Sum32([k \in 1 .. Len(p.records) |-> p.records[k].measured])))

WellFormedSfnt(p) == DirectoryOK(p) /\ LayoutOK(p) /\ ChecksumsOK(p) /\ AdjustmentOK(p)

\* names of the violated clauses (for reporting)
Violated(p) ==
  (IF DirectoryOK(p) THEN {} ELSE {"DirectoryOK"}) \cup (IF LayoutOK(p) THEN {} ELSE {"LayoutOK"})
  \cup (IF ChecksumsOK(p) THEN {} ELSE {"ChecksumsOK"}) \cup (IF AdjustmentOK(p) THEN {} ELSE {"AdjustmentOK"})

---------------------------------------------------------------------------
\* Cross-table consistency, on measured facts x (absent tables have has.<t> = FALSE).
\* Tables copied from a source font may carry trailing padding in their directory length (real
\* fonts do); tables the library builds itself (x.built.<t>) must have exactly the length the
\* other tables imply.
HmtxOK(x) ==
  (x.has.hmtx /\ x.has.hhea /\ x.has.maxp) =>
     LET need == 4 * x.nHM + 2 * (x.numGlyphs - x.nHM) IN
     /\ x.nHM <= x.numGlyphs
     /\ (x.numGlyphs > 0 => x.nHM >= 1)
     /\ x.hmtxLen >= need
     /\ (x.built.hmtx => x.hmtxLen = need)
LocaOK(x) ==
  (x.has.glyf /\ x.has.loca /\ x.has.head /\ x.has.maxp) =>
     /\ x.locFormat \in {0, 1}
     /\ LET need == (x.numGlyphs + 1) * (IF x.locFormat = 0 THEN 2 ELSE 4) IN
        x.locaLen >= need /\ (x.built.loca => x.locaLen = need)
     /\ x.locaMonotone                      \* over the numGlyphs + 1 offsets
     /\ x.locaLast <= x.glyfLen
     /\ (x.built.loca => x.glyfLen - x.locaLast <= 3)    \* a glyf table the library built ends where loca says
     /\ x.maxCompId < x.numGlyphs           \* -1 when there is no composite
     /\ x.glyphsParse

\* ---- glyph records ---------------------------------------------------------
\* Every glyph record (the bytes between two loca offsets) is walked by the independent reader,
\* which reports its LAYOUT; records of one font with the same layout are folded into a class:
\*   [kind, ok, flags, instr, used, len, why, count, first]
\* ok    : the walk found the whole structure inside the record
\* flags : composite - the flag word of every component, in order
\* instr : length of the instruction block, -1 when the record has none
\* used  : bytes consumed by the walk, len : bytes loca gives the record
\* The size of a composite record is a function of its flag words alone; it is recomputed here.
FlagBit(f, k) == (f \div (2 ^ k)) % 2 = 1
ArgsAreWords(f)     == FlagBit(f, 0)
MoreComponents(f)   == FlagBit(f, 5)
HaveInstructions(f) == FlagBit(f, 8)
ComponentBytes(f) ==
  4                                                    \* flags, glyphIndex
  + (IF ArgsAreWords(f) THEN 4 ELSE 2)                 \* argument1, argument2: width announced by bit 0
  + (IF FlagBit(f, 3) THEN 2 ELSE IF FlagBit(f, 6) THEN 4 ELSE IF FlagBit(f, 7) THEN 8 ELSE 0)
RECURSIVE ComponentsBytes(_)
ComponentsBytes(fs) == IF fs = <<>> THEN 0 ELSE ComponentBytes(fs[1]) + ComponentsBytes(Tail(fs))
CompositeBytes(c) == 10 + ComponentsBytes(c.flags) + (IF c.instr >= 0 THEN 2 + c.instr ELSE 0)

GlyphClassOK(c, rewritten) ==
  /\ c.ok
  /\ c.used <= c.len
  /\ (c.kind = "composite" =>
        /\ Len(c.flags) >= 1
        \* the component chain ends exactly at the first flag word without MORE_COMPONENTS
        /\ \A k \in 1 .. Len(c.flags) : MoreComponents(c.flags[k]) <=> k < Len(c.flags)
        \* an instruction block is present iff some component announces it
        /\ (c.instr >= 0) <=> (\E k \in 1 .. Len(c.flags) : HaveInstructions(c.flags[k]))
        \* argument widths / transform sizes as the flags announce them add up to what was read
        /\ c.used = CompositeBytes(c))
  \* a record the library serialised itself is its structure plus alignment padding, nothing else
  /\ (rewritten => c.len - c.used <= 3)

GlyphsOK(x) ==
  (x.has.glyf /\ x.has.loca /\ x.has.head /\ x.has.maxp /\ x.glyfWalked) =>
     \A k \in 1 .. Len(x.glyphClasses) : GlyphClassOK(x.glyphClasses[k], x.built.glyf)

\* head.flags bit 1 announces "left sidebearing point at x = 0", i.e. hmtx.lsb = glyf.xMin for every
\* glyph with an outline. Real fonts break the promise themselves, and subsetting copies all three
\* tables, so it is demanded of an output only if the SOURCE kept it (x.srcLsbClean).
LsbOK(x) == (x.headLsbBit /\ x.srcLsbClean) => x.lsbMismatch = 0

CffOK(x)  == (x.has.cff /\ x.has.maxp) => x.cffCharstrings = x.numGlyphs
CmapOK(x) == (x.has.cmap /\ x.has.maxp) => x.cmapParses /\ x.cmapMaxGid < x.numGlyphs
PostOK(x) ==
  x.has.post => /\ (x.postVersion = <<3, 0>> => x.postLen = 32)
                \* version 2.0 carries its own glyph count: a copy of a table that agreed with maxp still does
                /\ ((x.postVersion = <<2, 0>> /\ x.has.maxp /\ x.counts.srcPostOk) => x.counts.postNumGlyphs = x.numGlyphs)
ReloadOK(x) ==
  x.reload.tried => /\ x.reload.ok
                    /\ x.reload.advances = x.numGlyphs
                    /\ x.reload.outlines = x.numGlyphs

\* ---- derived maxima and minima ------------------------------------------------------
\* hhea.advanceWidthMax, minLeftSideBearing, minRightSideBearing, xMaxExtent, vhea.advanceHeightMax, the
\* head bounding box and the maxima of maxp 1.0 are DEFINED by OpenType as the maximum / minimum of a
\* quantity over the other tables (hmtx advances; side bearings and extents of glyphs with contours; glyph
\* bounding boxes; points / contours / components of the glyph records).  The independent reader reports
\* for each of them d = [name, rel, field, measured, has, srcHas, srcField, srcMeasured]:
\*   field    the value stored in the written table,  measured  what the definition gives on the written tables
\*   src...   the same two numbers on the source of the operation
\* What "mutually consistent" demands depends on what the operation does with the field:
\*   * a field the operation RECOMPUTES must equal its definition on the new tables (the writer has no
\*     other source for it): instance recomputes hhea.advanceWidthMax from the new hmtx and, for glyf
\*     fonts, the head bounding box from the new glyph records;
\*   * Dev_CopiedMaximumIsBound: a field the operation COPIES while it removes glyphs (subset copies head,
\*     hhea, maxp apart from the counts) keeps bounding the new tables - max fields >= , min fields <= the
\*     measured value - provided the source font itself kept the bound (fonts in the wild do not always).
\*     Equality is not demanded: consumers use these fields as limits, and the property does not say that a
\*     subset has to tighten them;
\*   * fields that are copied while the data they range over CHANGES (instance: min side bearings,
\*     xMaxExtent, maxp) are measured and not judged.
HeadBBoxFields == {"head.xMin", "head.yMin", "head.xMax", "head.yMax"}
Recomputes(x, name) ==
  x.op = "instance" /\ (name = "hhea.advanceWidthMax" \/ (name \in HeadBBoxFields /\ x.has.glyf))
CopiesWhileRemovingGlyphs(x) == x.op = "subset"
BoundOK(rel, f, m) == IF rel = "max" THEN f >= m ELSE f <= m
DerivedFieldOK(x, d) ==
  IF ~d.has THEN TRUE
  ELSE IF Recomputes(x, d.name) THEN d.field = d.measured
  ELSE IF CopiesWhileRemovingGlyphs(x) /\ d.srcHas /\ BoundOK(d.rel, d.srcField, d.srcMeasured)
       THEN BoundOK(d.rel, d.field, d.measured)
  ELSE TRUE
DerivedBad(x) == {k \in 1 .. Len(x.derived) : ~DerivedFieldOK(x, x.derived[k])}
DerivedOK(x) == DerivedBad(x) = {}

\* vertical metrics: the twin of HmtxOK for vhea.numOfLongVerMetrics / vmtx, for tables copied from a
\* source that kept the relation
VmtxOK(x) ==
  (x.counts.hasVhea /\ x.counts.hasVmtx /\ x.has.maxp /\ x.counts.srcVmtxOk) =>
     /\ x.counts.nVM <= x.numGlyphs
     /\ x.counts.vmtxLen >= 4 * x.counts.nVM + 2 * (x.numGlyphs - x.counts.nVM)

\* ---- the structure of a written CFF table ---------------------------------------------
\* x.cffw: what an independent reader found following the table from its header: every INDEX it met
\* [name, count, offSize, first, last, mono, inside, dataLen], the glyph count, whether the charset covers
\* exactly the glyphs (a predefined charset only as many glyphs as it names), how many glyphs FDSelect
\* covers and the largest Font DICT index it uses, whether every Private DICT lies inside the table.
\* Dev_OffSize: any offSize 1 .. 4 that holds the offsets is accepted; an offSize that is too small shows
\* as offsets that do not start at 1, decrease or point outside the table.
CffIndexOK(i) ==
  i.count = 0 \/ (/\ i.offSize \in 1 .. 4
                  /\ i.first = 1
                  /\ i.mono
                  /\ i.inside)
CffStructOK(x) ==
  x.has.cff =>
    LET w == x.cffw IN
    /\ w.walked
    /\ \A k \in 1 .. Len(w.indexes) : CffIndexOK(w.indexes[k])
    /\ (x.has.maxp => w.numGlyphs = x.numGlyphs)
    /\ w.charsetOk
    /\ (w.fdCount >= 0 => /\ w.fdSelectGlyphs = w.numGlyphs      \* CID-keyed: every glyph has a Font DICT
                          /\ w.fdMax < w.fdCount)
    /\ w.privateOk

\* for reporting: which derived fields / which INDEXes fail
DerivedBadNames(x) == {x.derived[k].name : k \in DerivedBad(x)}
CffBadIndexes(x) == IF x.has.cff THEN {x.cffw.indexes[k].name : k \in {j \in 1 .. Len(x.cffw.indexes) : ~CffIndexOK(x.cffw.indexes[j])}}
                    ELSE {}

\* ---- the structure of a cmap table the library built -----------------------------------------
\* x.cmapw: the raw structure an independent reader found: version, numTables, tableLen, the encoding records
\* <<platformID, encodingID, offset>> in file order and, for every distinct subtable offset (ascending),
\*   [off, format, ok, declLen, big,
\*    hdr = <<segCountX2, searchRange, entrySelector, rangeShift, reservedPad>>, ends, starts, deltas, ros, gia   (format 4;
\*          gia = the 16-bit words between the idRangeOffset array and the end the length field declares)
\*    groups = Seq(<<startCharCode, endCharCode, startGlyphID>>), nGroups                      (format 12)
\*    first, count, gia                                                                        (format 6; format 0: gia = 256 bytes)]
\* Everything a reader of the table relies on is RECOMPUTED here from these numbers: the binary-search fields of
\* format 4 from segCount, the order and disjointness of segments / groups, the address an idRangeOffset reaches
\* (idRangeOffset[k] / 2 + (c - startCode[k]) words past &idRangeOffset[k], i.e. index
\* idRangeOffset[k] / 2 - (segCount - k) + (c - startCode[k]) of the glyphIdArray), the glyph ids that come out
\* (modulo 65536 with idDelta) against maxp.numGlyphs, the length fields against the formats' layouts, the order of
\* the encoding records, and that header + records + subtables TILE the table (a writer that lays the subtables out
\* back to back has a wrong length / offset field exactly when they do not).
\* Judged for a cmap the operation serialised itself (x.built.cmap: subset, prince::subset); copied tables are the
\* source's business.  `big` subtables (more entries than the harness hands over) are skipped.
CmapLexLess(a, b) == a[1] < b[1] \/ (a[1] = b[1] /\ a[2] < b[2])
F4SegOK(st, k, n) ==
  LET segs == Len(st.ends)  s == st.starts[k]  e == st.ends[k]  d == st.deltas[k]  ro == st.ros[k] IN
  IF ro = 0 THEN ((s + d) % 65536) + (e - s) < n
  ELSE /\ ro % 2 = 0
       /\ LET i0 == (ro \div 2) - (segs - (k - 1)) IN            \* 0-based index of startCode's entry
          /\ i0 >= 0
          /\ i0 + (e - s) < Len(st.gia)
          /\ \A j \in (i0 + 1) .. (i0 + 1 + (e - s)) : st.gia[j] = 0 \/ (st.gia[j] + d) % 65536 < n
\* the clauses of format 4, by name (for reporting; F4OK = none fails)
F4OrderBad(st) ==                                                 \* pairs of neighbours that are not ascending and disjoint
  {k \in 1 .. (Len(st.ends) - 1) : ~(st.ends[k] < st.starts[k + 1])}
F4Bad(st, n) ==
  LET segs == Len(st.ends) IN
  IF segs < 1 \/ Len(st.hdr) # 5 THEN {"no-segments"}
  ELSE
    (IF /\ st.hdr[1] = 2 * segs
        /\ st.hdr[3] = Log2(segs)                                 \* entrySelector = floor(log2 segCount)
        /\ st.hdr[2] = 2 * WPow2(Log2(segs))                      \* searchRange = 2 * 2^entrySelector
        /\ st.hdr[4] = 2 * segs - 2 * WPow2(Log2(segs))           \* rangeShift
     THEN {} ELSE {"search-fields"})
    \cup (IF st.hdr[5] = 0 THEN {} ELSE {"reservedPad"})
    \cup (IF st.declLen = 16 + 8 * segs + 2 * Len(st.gia) THEN {} ELSE {"length"})
    \* "the final start code and endCode values must be 0xFFFF"
    \cup (IF st.ends[segs] = 65535 /\ st.starts[segs] = 65535 THEN {} ELSE {"no-final-0xFFFF-segment"})
    \cup (IF \A k \in 1 .. segs : st.starts[k] <= st.ends[k] THEN {} ELSE {"start>end"})
    \* segments ascending by endCode and disjoint; the one named case: the only offending pair is the final
    \* 0xFFFF..0xFFFF segment following a segment that already ends at 0xFFFF
    \cup (IF F4OrderBad(st) = {} THEN {}
         ELSE IF F4OrderBad(st) = {segs - 1} /\ st.ends[segs - 1] = 65535 /\ st.starts[segs] = 65535
              THEN {"final-segment-after-a-segment-ending-at-0xFFFF"}
              ELSE {"segment-order"})
    \cup (IF \A k \in 1 .. segs : F4SegOK(st, k, n) THEN {} ELSE {"glyph-addressing"})
F4OK(st, n) == F4Bad(st, n) = {}
F12OK(st, n) ==
  /\ st.nGroups = Len(st.groups)
  /\ st.declLen = 16 + 12 * Len(st.groups)
  /\ \A k \in 1 .. Len(st.groups) :
        LET g == st.groups[k] IN
        /\ g[1] <= g[2]
        /\ (k > 1 => st.groups[k - 1][2] < g[1])                 \* ascending, disjoint
        /\ (st.format = 12 => g[3] + (g[2] - g[1]) < n)
        /\ (st.format = 13 => g[3] < n)
CmapSubtableOK(st, tableLen, n) ==
  /\ st.ok
  /\ st.declLen >= 0 /\ st.off + st.declLen <= tableLen
  /\ IF st.big THEN TRUE
     ELSE CASE st.format = 0  -> st.declLen = 262 /\ \A j \in 1 .. Len(st.gia) : st.gia[j] < n
            [] st.format = 4  -> F4OK(st, n)
            [] st.format = 6  -> /\ st.declLen = 10 + 2 * st.count /\ st.first + st.count <= 65536
                                 /\ \A j \in 1 .. Len(st.gia) : st.gia[j] < n
            [] st.format \in {12, 13} -> F12OK(st, n)
            [] OTHER -> TRUE
CmapBadSubtables(x) ==
  {k \in 1 .. Len(x.cmapw.subtables) : ~CmapSubtableOK(x.cmapw.subtables[k], x.cmapw.tableLen, x.numGlyphs)}
CmapHeaderOK(w) ==
  /\ w.version = 0
  /\ w.numTables >= 1 /\ Len(w.records) = w.numTables
  /\ \A k \in 1 .. (Len(w.records) - 1) : CmapLexLess(w.records[k], w.records[k + 1])   \* by platformID, then encodingID
  /\ \A k \in 1 .. Len(w.records) : \E j \in 1 .. Len(w.subtables) : w.subtables[j].off = w.records[k][3]
CmapTilesOK(w) ==
  LET n == Len(w.subtables) IN
  /\ n >= 1
  /\ w.subtables[1].off = 4 + 8 * w.numTables
  /\ \A k \in 1 .. (n - 1) : w.subtables[k].off + w.subtables[k].declLen = w.subtables[k + 1].off
  /\ w.subtables[n].off + w.subtables[n].declLen = w.tableLen
CmapStructOK(x) ==
  (x.has.cmap /\ x.has.maxp /\ x.built.cmap) =>
    /\ x.cmapw.walked
    /\ CmapHeaderOK(x.cmapw)
    /\ CmapBadSubtables(x) = {}
    /\ CmapTilesOK(x.cmapw)
\* for reporting: which part fails
CmapBadNames(x) ==
  IF ~(x.has.cmap /\ x.has.maxp /\ x.built.cmap) THEN {}
  ELSE IF ~x.cmapw.walked THEN {"walk"}
  ELSE (IF CmapHeaderOK(x.cmapw) THEN {} ELSE {"header"})
       \cup UNION {LET st == x.cmapw.subtables[k] IN
                    IF st.format = 4 /\ st.ok /\ ~st.big /\ st.declLen >= 0 /\ st.off + st.declLen <= x.cmapw.tableLen
                    THEN {"format4:" \o nm : nm \in F4Bad(st, x.numGlyphs)}
                    ELSE {"format" \o ToString(st.format)} : k \in CmapBadSubtables(x)}
       \cup (IF CmapBadSubtables(x) = {} /\ ~CmapTilesOK(x.cmapw) THEN {"tiling"} ELSE {})

\* ---- collection members: the table set belongs to the member that was asked for ---------
\* A collection (WOFF2 `ttcf` flavour, OpenType TTC) holds several fonts; tables may be shared between members
\* or private to one.  Every clause above judges a table set against ITS OWN maxp / hhea / head, so it holds
\* for member N only if the reader looked up member N's tables for every quantity it needs (numGlyphs,
\* numberOfHMetrics, indexToLocFormat, the glyf / loca / hmtx directory entries).  The collections are written by
\* the harness, so what each member consists of is a harness INPUT: x.member =
\*   [is, container, index, members,
\*    fields : Seq([name, want, got])            numGlyphs, nHM, locFormat, upem: prescribed / read from the table set
\*    tables : Seq([tag, want, got, rebuilt])]   identity <<hash hi, hash lo, length>> of the member's own table /
\*                                               of the table found (<<-1,-1,-1>> = absent); rebuilt = the operation
\*                                               re-serialises that table (judged by the clauses above instead)
\* What an operation has to hand on unchanged:
\*   woff2 (table set reconstructed for member N) and whole_font: every field, every table that is not rebuilt, no
\*     table the member does not have.  Dev_LocaUpgrade: a reconstructed short loca may come back long when the
\*     rebuilt glyf table has reached the end of the short format's range (>= 131070 bytes);
\*   instance: numGlyphs, unitsPerEm;   subset: unitsPerEm, numGlyphs only shrinks.
MemberFieldOK(x, f) ==
  CASE x.op \in {"woff2", "whole_font"} ->
         IF f.name = "locFormat"
         THEN \/ f.got = f.want
              \/ (x.op = "woff2" /\ f.want = 0 /\ f.got = 1 /\ x.built.loca /\ x.glyfLen >= 131070)
         ELSE f.got = f.want
    [] x.op = "instance" -> (f.name \in {"numGlyphs", "upem"} => f.got = f.want)
    [] x.op = "subset"   -> /\ (f.name = "upem" => f.got = f.want)
                            /\ (f.name = "numGlyphs" => f.got <= f.want)
    [] OTHER -> TRUE
MemberTableOK(x, t) == (x.op \in {"woff2", "whole_font"} /\ ~t.rebuilt) => t.got = t.want
MemberBadFields(x) == {k \in 1 .. Len(x.member.fields) : ~MemberFieldOK(x, x.member.fields[k])}
MemberBadTables(x) == {k \in 1 .. Len(x.member.tables) : ~MemberTableOK(x, x.member.tables[k])}
MemberOK(x) == x.member.is => (MemberBadFields(x) = {} /\ MemberBadTables(x) = {})
MemberBadNames(x) ==
  IF x.member.is THEN {x.member.fields[k].name : k \in MemberBadFields(x)} \cup {x.member.tables[k].tag : k \in MemberBadTables(x)}
  ELSE {}

CrossTableOK(x) == /\ HmtxOK(x) /\ LocaOK(x) /\ GlyphsOK(x) /\ LsbOK(x) /\ CffOK(x) /\ CmapOK(x) /\ PostOK(x) /\ ReloadOK(x)
                   /\ DerivedOK(x) /\ VmtxOK(x) /\ CffStructOK(x) /\ MemberOK(x) /\ CmapStructOK(x)
CrossViolated(x) ==
  (IF HmtxOK(x) THEN {} ELSE {"HmtxOK"}) \cup (IF LocaOK(x) THEN {} ELSE {"LocaOK"})
  \cup (IF CffOK(x) THEN {} ELSE {"CffOK"}) \cup (IF CmapOK(x) THEN {} ELSE {"CmapOK"})
  \cup (IF PostOK(x) THEN {} ELSE {"PostOK"}) \cup (IF ReloadOK(x) THEN {} ELSE {"ReloadOK"})
  \cup (IF GlyphsOK(x) THEN {} ELSE {"GlyphsOK"}) \cup (IF LsbOK(x) THEN {} ELSE {"LsbOK"})
  \cup (IF DerivedOK(x) THEN {} ELSE {"DerivedOK"}) \cup (IF VmtxOK(x) THEN {} ELSE {"VmtxOK"})
  \cup (IF CffStructOK(x) THEN {} ELSE {"CffStructOK"}) \cup (IF MemberOK(x) THEN {} ELSE {"MemberOK"})
  \cup (IF CmapStructOK(x) THEN {} ELSE {"CmapStructOK"})

---------------------------------------------------------------------------
\* MODEL of FontBuilder: tables keyed by tag (a later add of the same tag replaces the earlier
\* one), `data()` writes header, directory sorted by tag, then the bodies in the same order, each
\* padded to 4 bytes; head's checkSumAdjustment (bytes 8..11 of head) is filled last.

\* tbl : sequence of [tag : <<hi,lo>>, body : bytes]  sorted by tag
TagBytes(t) == U16(t[1]) \o U16(t[2])
Bytes32(a)  == U16(a[1]) \o U16(a[2])
Padded(b)   == b \o Zeros(Pad4(Len(b)))

RECURSIVE Offsets(_, _)
Offsets(tbl, p) == IF tbl = <<>> THEN <<>> ELSE <<p>> \o Offsets(Tail(tbl), p + Len(Padded(tbl[1].body)))

BuilderHeader(flavor, tbl) ==
  LET n == Len(tbl)  es == Log2(n)  sr == 16 * WPow2(es) IN
  flavor \o U16(n) \o U16(sr) \o U16(es) \o U16(16 * n - sr)

RECURSIVE BuilderDir(_, _)
BuilderDir(tbl, offs) ==
  IF tbl = <<>> THEN <<>>
  ELSE TagBytes(tbl[1].tag) \o Bytes32(WordSum(Padded(tbl[1].body))) \o U32(offs[1]) \o U32(Len(tbl[1].body))
       \o BuilderDir(Tail(tbl), Tail(offs))

RECURSIVE Bodies(_, _)
Bodies(tbl, adj) ==
  IF tbl = <<>> THEN <<>>
  ELSE (IF tbl[1].tag = HeadTag
        THEN Padded([k \in 1 .. Len(tbl[1].body) |-> IF k \in 9 .. 12 THEN Bytes32(adj)[k - 8] ELSE tbl[1].body[k]])
        ELSE Padded(tbl[1].body))
       \o Bodies(Tail(tbl), adj)

BuilderData(flavor, tbl) ==
  LET offs == Offsets(tbl, 12 + 16 * Len(tbl))
      hd   == BuilderHeader(flavor, tbl) \o BuilderDir(tbl, offs)
      adj  == Sub32(Magic, Add32(WordSum(hd), Sum32([k \in 1 .. Len(tbl) |-> WordSum(Padded(tbl[k].body))])))
  IN hd \o Bodies(tbl, adj)

\* Projection of bytes (the model's own independent reader; the harness has the same in Rust).
RECURSIVE ProjRecs(_, _, _)
ProjRecs(bs, p, n) ==
  IF n = 0 THEN <<>>
  ELSE LET tag == <<Rd16(bs, p), Rd16(bs, p + 2)>>
           off == Rd32(bs, p + 8)
           len == Rd32(bs, p + 12)
           body == SubSeq(bs, off + 1, off + len)
           zeroed == IF tag = HeadTag /\ len >= 12
                     THEN [k \in 1 .. len |-> IF k \in 9 .. 12 THEN 0 ELSE body[k]] ELSE body
           padEnd == IF off + len + Pad4(len) <= Len(bs) THEN off + len + Pad4(len) ELSE Len(bs)
           pad == SubSeq(bs, off + len + 1, padEnd)          \* the padding bytes that exist
       IN <<[tag |-> tag, off |-> off, len |-> len, sum |-> <<Rd16(bs, p + 4), Rd16(bs, p + 6)>>,
             measured |-> WordSum(zeroed), padZero |-> \A k \in 1 .. Len(pad) : pad[k] = 0]>>
            \o ProjRecs(bs, p + 16, n - 1)

HeadAdjOf(bs, recs) ==
  LET ks == {k \in 1 .. Len(recs) : recs[k].tag = HeadTag} IN
  IF ks = {} THEN <<0, 0>>
  ELSE LET r == recs[CHOOSE k \in ks : TRUE] IN <<Rd16(bs, r.off + 8), Rd16(bs, r.off + 10)>>

Project(bs) ==
  LET n == Rd16(bs, 4)  recs == ProjRecs(bs, 12, n) IN
  [version |-> <<Rd16(bs, 0), Rd16(bs, 2)>>, numTables |-> n, searchRange |-> Rd16(bs, 6),
   entrySelector |-> Rd16(bs, 8), rangeShift |-> Rd16(bs, 10), fileLen |-> Len(bs), records |-> recs,
   totalSum |-> WordSum(bs), dirSum |-> WordSum(SubSeq(bs, 1, 12 + 16 * n)), headAdj |-> HeadAdjOf(bs, recs)]

=============================================================================
