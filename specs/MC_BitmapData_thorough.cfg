CONSTANTS
  Deep = TRUE
SPECIFICATION Spec
INVARIANTS StepIsClosed Terminal SameImage PackInverse WantsOK Emit
CHECK_DEADLOCK FALSE
