-------------------------------- MODULE Morx --------------------------------
(***************************************************************************)
(* X01 - AAT `morx` (extended glyph metamorphosis) shaping.                 *)
(*                                                                         *)
(* Transcription of the TrueType Reference Manual chapter 'morx' (state     *)
(* table processing: start state, class of the current glyph, entry -> new  *)
(* state + flags, DONT_ADVANCE, the end-of-text step) at the grain of        *)
(* allsorts' src/layout/morx.rs: ONE STEP = ONE ENTRY PROCESSED (one        *)
(* iteration of the inner `'glyph: loop`), plus the end-of-text step.        *)
(*                                                                         *)
(* Run      = Seq([g, c, o])  g glyph id (65535 = the deleted glyph), c the  *)
(*            characters carried (input positions 1..n), o origin: 0 from a  *)
(*            character, 1 produced by a substitution (GlyphOrigin::Direct), *)
(*            2 a glyph deleted by a ligature action.                        *)
(* Program  = [ver, n, lay, req, chains]   n = numGlyphs; lay only steers    *)
(*            the harness' encoder (table layout variants), no semantics.    *)
(*   req    = [kind "mask" | "custom", tags : Seq(STRING)] the Features       *)
(*   chain  = [def, sh, feats : Seq([t, s, en, dis]), subs : Seq(Subtable)]  *)
(*            def/en/dis/flags are 16-bit windows of the 32-bit fields; the  *)
(*            encoder shifts all of them left by sh (no semantics).          *)
(*   Subtable = [type, cov, flags, ...]  cov = the top four coverage bits    *)
(*            (8 vertical-only, 4 descending, 2 both directions, 1 logical)  *)
(*     type 4  [lk : Lookup]                          noncontextual          *)
(*     type 1  [nc, cls : Lookup, rows, ents : Seq([ns, mark, da, mi, ci]),   *)
(*              subst : Seq(Lookup)]                  contextual             *)
(*     type 2  [nc, cls, rows, ents : Seq([ns, push, act, da, ai]),           *)
(*              acts : Seq([last, store, off]), comps, ligs]   ligature      *)
(*     type 0, 5  rearrangement / insertion: not implemented by allsorts,    *)
(*              modelled as "no effect" (Dev_UnimplementedTypes)             *)
(*   rows[s+1][c+1] = index into ents; mi / ci = -1 means 0xFFFF (none).     *)
(*   Lookup = [f, first, unit, vals, segs : Seq([lo, hi, v, vs])]            *)
(*            f = 0 simple array, 2 segment single, 4 segment array,          *)
(*            6 single table, 8 trimmed array, 10 trimmed array with unit     *)
(*                                                                         *)
(* Named deviation points                                                   *)
(*   dev.eagerLig  Dev_LigDeletedRemovedEagerly: the components a ligature    *)
(*       action deletes are REMOVED from the array at the end of the         *)
(*       subtable (allsorts; TRUE) or stay as glyph 0xFFFF of class          *)
(*       "deleted" for the following subtables (Apple's text; FALSE).  Both   *)
(*       accepted.                                                          *)
(*   Dev_DeletedInOutput: observations are compared modulo glyphs 0xFFFF     *)
(*       (Obs): Apple removes them before display, allsorts leaves the ones  *)
(*       a contextual substitution produced in its output.                   *)
(*   Dev_UnimplementedTypes: types 0 and 5 have no effect.                   *)
(*   Dev_MarkUnset: a mark substitution before any SET_MARK does nothing.    *)
(*   Dev_FeatureMapping: which AAT (type, setting) pairs a FeatureMask bit   *)
(*       requests is allsorts' table (should_apply_feature);                 *)
(*       Dev_CustomFeaturesUseDefaults: Features::Custom selects the         *)
(*       chain's default flags.                                             *)
(*   Dev_OriginBookkeeping: glyph_origin becomes Direct when a contextual     *)
(*       lookup finds the glyph (even mapped to itself), a noncontextual     *)
(*       lookup changes it, or a ligature is formed.                         *)
(* Non-conformant readings (bug.xxx), NEVER accepted, only used to give a       *)
(* mismatch a stable key: noEot, staleCur, staleMark, staleCls, delSubst,     *)
(* vert, desc, ligCode (see BugNone below).                                  *)
(***************************************************************************)
EXTENDS Integers, Sequences, FiniteSets, Bitwise, TLC

DEL == 65535

MinOfSet(S) == CHOOSE x \in S : \A y \in S : x <= y
MaxOfSet(S) == CHOOSE x \in S : \A y \in S : x >= y

InitRun(inp) == [k \in 1 .. Len(inp) |-> [g |-> inp[k], c |-> <<k>>, o |-> 0]]
Reverse(s) == [k \in 1 .. Len(s) |-> s[Len(s) + 1 - k]]
DelElem == [g |-> DEL, c |-> <<>>, o |-> 2]

\* an error of the code reading, in the place of a run
ErrRun(e) == <<[g |-> -1, c |-> <<>>, o |-> -1, err |-> e]>>
IsErrRun(r) == Len(r) = 1 /\ r[1].g = -1

\* what a client sees: deleted glyphs are not displayed (Dev_DeletedInOutput)
Obs(run) == SelectSeq(run, LAMBDA x : x.g # DEL)

DevStd   == [eagerLig |-> TRUE]
DevApple == [eagerLig |-> FALSE]
DevChoices == {DevStd, DevApple}

BugNone == [noEot |-> FALSE,      \* the end-of-text step is not performed
            staleCur |-> FALSE,   \* under DONT_ADVANCE the current-glyph substitution looks up the glyph first seen
            staleMark |-> FALSE,  \* the mark substitution looks up the glyph recorded when the mark was set
            staleCls |-> FALSE,   \* the class is recomputed only after a current-glyph substitution changed the glyph
            delSubst |-> FALSE,   \* a substitution lookup of glyph 0xFFFF yields 2 (the class code "deleted")
            vert |-> FALSE,       \* vertical-only subtables are applied to horizontal text
            desc |-> FALSE,       \* the descending-order coverage bit is ignored
            ligCode |-> FALSE]    \* ligature actions as allsorts performs them (start_pos / drain)
BugCode == [noEot |-> TRUE, staleCur |-> TRUE, staleMark |-> TRUE, staleCls |-> TRUE, delSubst |-> TRUE,
            vert |-> TRUE, desc |-> TRUE, ligCode |-> TRUE]

---------------------------------------------------------------------------
(* Lookup tables, one operator per format.  -1 = the glyph is not in the table *)
SegOf(lk, g) ==
  LET ks == {q \in 1 .. Len(lk.segs) : lk.segs[q].lo <= g /\ g <= lk.segs[q].hi} IN
  IF ks = {} THEN 0 ELSE MinOfSet(ks)
Lookup0(lk, g)  == IF g < Len(lk.vals) THEN lk.vals[g + 1] ELSE -1
Lookup2(lk, g)  == LET q == SegOf(lk, g) IN IF q = 0 THEN -1 ELSE lk.segs[q].v
Lookup4(lk, g)  == LET q == SegOf(lk, g) IN IF q = 0 THEN -1 ELSE lk.segs[q].vs[g - lk.segs[q].lo + 1]
Lookup6(lk, g)  == LET q == SegOf(lk, g) IN IF q = 0 THEN -1 ELSE lk.segs[q].v
Lookup8(lk, g)  == IF lk.first <= g /\ g < lk.first + Len(lk.vals) THEN lk.vals[g - lk.first + 1] ELSE -1
Lookup10(lk, g) == Lookup8(lk, g)

LookupVal(lk, g) ==
  CASE lk.f = 0  -> Lookup0(lk, g)
    [] lk.f = 2  -> Lookup2(lk, g)
    [] lk.f = 4  -> Lookup4(lk, g)
    [] lk.f = 6  -> Lookup6(lk, g)
    [] lk.f = 8  -> Lookup8(lk, g)
    [] lk.f = 10 -> Lookup10(lk, g)

\* predefined classes: 0 end of text, 1 out of bounds, 2 deleted glyph, 3 end of line
ClassEOT == 0
ClassOOB == 1
ClassDEL == 2
GlyphClass(cls, g) ==
  IF g = DEL THEN ClassDEL
  ELSE LET v == LookupVal(cls, g) IN IF v = -1 THEN ClassOOB ELSE v

\* substitution lookup: the deleted glyph is in no table
SubstVal(lk, g, bug) ==
  IF g = DEL THEN (IF bug.delSubst THEN 2 ELSE -1) ELSE LookupVal(lk, g)

LookupValues(lk) ==
  CASE lk.f \in {0, 8, 10} -> {lk.vals[k] : k \in 1 .. Len(lk.vals)}
    [] lk.f \in {2, 6}     -> {lk.segs[k].v : k \in 1 .. Len(lk.segs)}
    [] lk.f = 4            -> UNION {{lk.segs[k].vs[j] : j \in 1 .. Len(lk.segs[k].vs)} : k \in 1 .. Len(lk.segs)}

WFLookup(lk, n) ==
  /\ lk.f \in {0, 2, 4, 6, 8, 10}
  /\ lk.f = 0 => Len(lk.vals) = n
  /\ lk.f \in {2, 4, 6} =>
       /\ \A q \in 1 .. Len(lk.segs) : lk.segs[q].lo <= lk.segs[q].hi /\ lk.segs[q].hi < n /\ lk.segs[q].lo >= 0
       /\ \A q \in 1 .. Len(lk.segs) - 1 : lk.segs[q].hi < lk.segs[q + 1].lo
       /\ lk.f = 6 => \A q \in 1 .. Len(lk.segs) : lk.segs[q].lo = lk.segs[q].hi
       /\ lk.f = 4 => \A q \in 1 .. Len(lk.segs) : Len(lk.segs[q].vs) = lk.segs[q].hi - lk.segs[q].lo + 1
  /\ lk.f \in {8, 10} => lk.first >= 0 /\ lk.first + Len(lk.vals) <= n
  /\ lk.f = 10 => lk.unit \in {1, 2} /\ (lk.unit = 1 => \A v \in LookupValues(lk) : v < 256)

---------------------------------------------------------------------------
(* State tables *)
Entry(sub, s, c) == sub.ents[sub.rows[s + 1][c + 1] + 1]
NStates(sub) == Len(sub.rows)

\* states reachable from s by one DONT_ADVANCE entry (any class but end of text, where the flag is moot)
DaSucc(sub, s) == {Entry(sub, s, c).ns : c \in {k \in 1 .. sub.nc - 1 : Entry(sub, s, k).da = 1}}
RECURSIVE DaRankF(_, _, _)
DaRankF(sub, s, fuel) ==
  LET succ == DaSucc(sub, s) IN
  IF succ = {} THEN 0
  ELSE IF fuel = 0 THEN 1000
  ELSE 1 + MaxOfSet({DaRankF(sub, t, fuel - 1) : t \in succ})
\* longest chain of DONT_ADVANCE entries from state s; the DONT_ADVANCE bound of a well-formed table.
\* (allsorts itself has no bound: a table with a DONT_ADVANCE cycle makes it loop forever.)
DaRank(sub, s) == DaRankF(sub, s, NStates(sub))
DaAcyclic(sub) == \A s \in 0 .. NStates(sub) - 1 : DaRank(sub, s) < 1000

\* machine state of one subtable run
Aux0 == [fresh |-> TRUE, cg |-> -1, og |-> -1, ng |-> -1, cls |-> -1, mg |-> -1]
M0(run) == [run |-> run, i |-> 1, s |-> 0, mark |-> 0, stack |-> <<>>, done |-> FALSE, tags |-> {}, aux |-> Aux0]

---------------------------------------------------------------------------
(* Type 4: noncontextual substitution, one glyph per step *)
NonCtxStep(sub, bug, m) ==
  IF m.i > Len(m.run) THEN [m EXCEPT !.done = TRUE]
  ELSE LET g == m.run[m.i].g
           v == SubstVal(sub.lk, g, bug) IN
       IF v # -1 /\ v # g
       THEN [m EXCEPT !.run[m.i].g = v, !.run[m.i].o = 1, !.i = @ + 1,
                      !.tags = @ \cup {"nonctx-subst", "lookup-fmt" \o ToString(sub.lk.f)}]
       ELSE [m EXCEPT !.i = @ + 1, !.tags = @ \cup {IF v = -1 THEN "nonctx-miss" ELSE "nonctx-identity"}]

---------------------------------------------------------------------------
(* Type 1: contextual substitution.                                         *)
(* aux carries what allsorts' loop keeps in locals (current_glyph, old/new   *)
(* glyph, class, the glyph recorded with the mark); the conformant reading   *)
(* never reads it.                                                          *)
CtxGlyphStep(sub, bug, m) ==
  LET i  == m.i
      a0 == IF m.aux.fresh
            THEN [m.aux EXCEPT !.fresh = FALSE, !.cg = m.run[i].g, !.og = m.run[i].g, !.ng = m.run[i].g,
                               !.cls = GlyphClass(sub.cls, m.run[i].g)]
            ELSE m.aux
      c  == IF bug.staleCls THEN a0.cls ELSE GlyphClass(sub.cls, m.run[i].g)
      e  == Entry(sub, m.s, c)
      \* 1. substitution at the mark
      mgl == IF m.mark = 0 THEN -1 ELSE IF bug.staleMark THEN a0.mg ELSE m.run[m.mark].g
      mv == IF e.mi # -1 /\ m.mark # 0 THEN SubstVal(sub.subst[e.mi + 1], mgl, bug) ELSE -1
      r1 == IF mv # -1 THEN [m.run EXCEPT ![m.mark].g = mv, ![m.mark].o = 1] ELSE m.run
      \* 2. substitution of the current glyph
      cgl == IF bug.staleCur THEN a0.cg ELSE r1[i].g
      cv == IF e.ci # -1 THEN SubstVal(sub.subst[e.ci + 1], cgl, bug) ELSE -1
      r2 == IF cv # -1 THEN [r1 EXCEPT ![i].g = cv, ![i].o = 1] ELSE r1
      ng == IF cv # -1 THEN cv ELSE a0.ng
      \* 3. SET_MARK
      mark2 == IF e.mark = 1 THEN i ELSE m.mark
      mg2 == IF e.mark = 1 THEN r2[i].g ELSE a0.mg
      \* 4. DONT_ADVANCE
      a1 == IF e.da = 1
            THEN IF ng # a0.og THEN [a0 EXCEPT !.ng = ng, !.og = ng, !.cls = GlyphClass(sub.cls, ng), !.mg = mg2]
                 ELSE [a0 EXCEPT !.ng = ng, !.mg = mg2]
            ELSE [Aux0 EXCEPT !.mg = mg2]
      tg == {"ctx-class-" \o (IF c = ClassOOB THEN "oob" ELSE IF c = ClassDEL THEN "deleted" ELSE "table")}
            \cup (IF mv # -1 THEN {"ctx-mark-subst", "lookup-fmt" \o ToString(sub.subst[e.mi + 1].f)} ELSE {})
            \cup (IF cv # -1 THEN {"ctx-current-subst", "lookup-fmt" \o ToString(sub.subst[e.ci + 1].f)} ELSE {})
            \cup (IF e.mi # -1 /\ m.mark = 0 THEN {"ctx-mark-unset"} ELSE {})
            \cup (IF e.mi # -1 /\ m.mark # 0 /\ mv = -1 THEN {"ctx-mark-miss"} ELSE {})
            \cup (IF e.mi # -1 /\ m.mark = i THEN {"ctx-mark-is-current"} ELSE {})
            \cup (IF e.mark = 1 THEN {"ctx-set-mark"} ELSE {})
            \cup (IF e.da = 1 THEN {"ctx-dont-advance"} ELSE {})
            \cup (IF mv = DEL \/ cv = DEL THEN {"ctx-subst-to-deleted"} ELSE {})
            \cup (IF cv # -1 /\ r1[i].g # a0.cg THEN {"ctx-current-resubst"} ELSE {})
            \cup (IF mv # -1 /\ m.run[m.mark].g # a0.mg THEN {"ctx-mark-resubst"} ELSE {})
            \cup {"class-fmt" \o ToString(sub.cls.f)}
  IN [m EXCEPT !.run = r2, !.s = e.ns, !.mark = mark2, !.i = IF e.da = 1 THEN i ELSE i + 1,
               !.aux = a1, !.tags = @ \cup tg]

\* the end-of-text step: class 0, there is no current glyph; DONT_ADVANCE is moot
CtxEndOfText(sub, bug, m) ==
  IF bug.noEot THEN [m EXCEPT !.done = TRUE]
  ELSE LET e == Entry(sub, m.s, ClassEOT)
           mgl == IF m.mark = 0 THEN -1 ELSE IF bug.staleMark THEN m.aux.mg ELSE m.run[m.mark].g
           mv == IF e.mi # -1 /\ m.mark # 0 THEN SubstVal(sub.subst[e.mi + 1], mgl, bug) ELSE -1
           r1 == IF mv # -1 THEN [m.run EXCEPT ![m.mark].g = mv, ![m.mark].o = 1] ELSE m.run
       IN [m EXCEPT !.run = r1, !.s = e.ns, !.done = TRUE,
                    !.tags = @ \cup {"ctx-eot"} \cup (IF mv # -1 THEN {"ctx-eot-mark-subst"} ELSE {})]

CtxStep(sub, bug, m) ==
  IF m.i > Len(m.run) THEN CtxEndOfText(sub, bug, m) ELSE CtxGlyphStep(sub, bug, m)

---------------------------------------------------------------------------
(* Type 2: ligature.  The stack holds POSITIONS of the run.  A ligature      *)
(* action pops components, adds component-table values into an index of the  *)
(* ligature list; on LAST / STORE the ligature replaces the component popped  *)
(* last (the earliest in the text), the components popped before it become    *)
(* the deleted glyph, and the ligature is pushed back.                        *)
RECURSIVE LigActions(_, _, _, _, _, _, _)
\* popped: positions popped since the last store (ascending); acc: ligature index so far
LigActions(sub, run, stack, k, acc, popped, tags) ==
  IF stack = <<>> THEN [run |-> run, stack |-> stack, tags |-> tags \cup {"lig-underflow"}]
  ELSE IF k + 1 > Len(sub.acts) THEN [run |-> run, stack |-> stack, tags |-> tags \cup {"lig-actions-run-off"}]
  ELSE
    LET p == stack[Len(stack)]
        st1 == SubSeq(stack, 1, Len(stack) - 1)
        a == sub.acts[k + 1]
        idx == run[p].g + a.off IN
    IF idx < 0 \/ idx >= Len(sub.comps) THEN [run |-> run, stack |-> st1, tags |-> tags \cup {"lig-component-oob"}]
    ELSE
      LET acc1 == acc + sub.comps[idx + 1] IN
      IF a.last = 1 \/ a.store = 1
      THEN IF acc1 >= Len(sub.ligs) THEN [run |-> run, stack |-> st1, tags |-> tags \cup {"lig-ligature-oob"}]
           ELSE
             LET RECURSIVE Chars(_)
                 Chars(q) == IF q > Len(popped) THEN <<>> ELSE run[popped[q]].c \o Chars(q + 1)
                 hi == IF popped = <<>> THEN p ELSE popped[Len(popped)]
                 gap == \E q \in p + 1 .. hi : run[q].g # DEL /\ ~(\E j \in 1 .. Len(popped) : popped[j] = q)
                 r1 == [q \in 1 .. Len(run) |->
                          IF q = p THEN [g |-> sub.ligs[acc1 + 1], c |-> run[p].c \o Chars(1), o |-> 1]
                          ELSE IF \E j \in 1 .. Len(popped) : popped[j] = q THEN DelElem
                          ELSE run[q]]
                 tg == tags \cup {"lig-formed-" \o ToString(Len(popped) + 1)}
                       \cup (IF gap THEN {"lig-gap"} ELSE {})
                       \cup (IF st1 # <<>> THEN {"lig-stack-leftover"} ELSE {})
                       \cup (IF a.store = 0 THEN {"lig-last-without-store"} ELSE {})
                       \cup (IF a.off < 0 THEN {"lig-negative-offset"} ELSE {})
                       \cup (IF run[p].o = 1 THEN {"lig-of-ligature"} ELSE {})
             IN IF a.last = 1 THEN [run |-> r1, stack |-> Append(st1, p), tags |-> tg]
                ELSE LigActions(sub, r1, Append(st1, p), k + 1, acc1, <<>>, tg \cup {"lig-store-not-last"})
      ELSE LigActions(sub, run, st1, k + 1, acc1, <<p>> \o popped, tags)

LigGlyphStep(sub, m) ==
  LET i == m.i
      c == GlyphClass(sub.cls, m.run[i].g)
      e == Entry(sub, m.s, c)
      st1 == IF e.push = 1 THEN Append(m.stack, i) ELSE m.stack
      r == IF e.act = 1 THEN LigActions(sub, m.run, st1, e.ai, 0, <<>>, {"lig-action"})
           ELSE [run |-> m.run, stack |-> st1, tags |-> {}]
      tg == r.tags \cup {"class-fmt" \o ToString(sub.cls.f)}
            \cup (IF e.push = 1 THEN {"lig-push"} ELSE {})
            \cup (IF e.da = 1 THEN {"lig-dont-advance"} ELSE {})
            \cup (IF c = ClassDEL THEN {"lig-class-deleted"} ELSE {})
  IN [m EXCEPT !.run = r.run, !.stack = r.stack, !.s = e.ns, !.i = IF e.da = 1 THEN i ELSE i + 1, !.tags = @ \cup tg]

\* end of text: in the modelled fragment the end-of-text entries of a ligature table carry no flags
LigEndOfText(sub, m) == [m EXCEPT !.s = Entry(sub, m.s, ClassEOT).ns, !.done = TRUE]

LigStep(sub, m) == IF m.i > Len(m.run) THEN LigEndOfText(sub, m) ELSE LigGlyphStep(sub, m)

---------------------------------------------------------------------------
(* The ligature subtable as allsorts performs it (bug.ligCode): the stack    *)
(* holds glyph COPIES, start_pos is set when the stack grows to one element, *)
(* the ligature is stored at start_pos and everything up to the current       *)
(* glyph is drained; the stack is cleared on DONT_ADVANCE and the ligature is  *)
(* pushed back only when the next state is not 0.  Used only to classify a     *)
(* mismatch; st.err # "" = allsorts returns that error.                       *)
RECURSIVE LigCodeActions(_, _, _, _, _, _)
LigCodeActions(sub, st, endp, k, acc, lig) ==
  IF st.stack = <<>> THEN [st EXCEPT !.err = "Err(MissingValue)"]
  ELSE
    LET val == st.stack[Len(st.stack)]
        stk == SubSeq(st.stack, 1, Len(st.stack) - 1)
        lig1 == [lig EXCEPT !.c = val.c \o lig.c]
        a == sub.acts[k + 1]
        idx == val.g + a.off IN
    IF idx < 0 THEN [st EXCEPT !.err = "Err(BadValue)"]
    ELSE IF idx >= Len(sub.comps) THEN [st EXCEPT !.err = "Err(BadIndex)"]
    ELSE
      LET acc1 == acc + sub.comps[idx + 1] IN
      IF a.last = 1 \/ a.store = 1
      THEN IF acc1 >= Len(sub.ligs) THEN [st EXCEPT !.err = "Err(BadIndex)"]
           ELSE
             LET lig2 == [lig1 EXCEPT !.g = sub.ligs[acc1 + 1]]
                 sp == st.sp
                 run1 == SubSeq(st.run, 1, sp - 1) \o <<lig2>> \o SubSeq(st.run, endp + 1, Len(st.run))
                 \* what went wrong, for the key.  pv: where the component popped last really is
                 pvs == {q \in 1 .. Len(st.run) : st.run[q].c = val.c}
                 pv == IF pvs = {} THEN sp ELSE MinOfSet(pvs)
                 Lost(q) == \E j \in 1 .. Len(st.run[q].c) :
                               ~(\E j2 \in 1 .. Len(lig2.c) : lig2.c[j2] = st.run[q].c[j])
                 tg == st.tags \cup (IF sp # pv THEN {"code-start-pos-stale"} ELSE {})
                               \cup (IF \E q \in pv .. endp : Lost(q) THEN {"code-drained-non-components"} ELSE {})
                 st2 == [st EXCEPT !.run = run1, !.i = @ - (endp - sp), !.tags = tg,
                                   !.stack = IF st.s # 0 THEN Append(stk, lig2) ELSE stk]
             IN IF a.last = 1 THEN st2
                ELSE LigCodeActions(sub, st2, endp, k + 1, acc1, lig2)
      ELSE LigCodeActions(sub, [st EXCEPT !.stack = stk], endp, k + 1, acc1, lig1)

RECURSIVE LigCodeEntries(_, _, _, _)
LigCodeEntries(sub, st, glyph, c) ==
  LET e == Entry(sub, st.s, c)
      stk == IF e.push = 1 THEN Append(st.stack, glyph) ELSE st.stack
      sp == IF e.push = 1 /\ Len(stk) = 1 THEN st.i ELSE st.sp
      st1 == [st EXCEPT !.s = e.ns, !.stack = stk, !.sp = sp]
      st2 == IF e.act = 1 THEN LigCodeActions(sub, st1, st.i, e.ai, 0, [g |-> 0, c |-> <<>>, o |-> 1]) ELSE st1
  IN IF st2.err # "" \/ e.da = 0 THEN st2
     ELSE LigCodeEntries(sub, [st2 EXCEPT !.stack = <<>>], glyph, c)

RECURSIVE LigCodeLoop(_, _)
LigCodeLoop(sub, st) ==
  IF st.err # "" \/ st.i > Len(st.run) THEN st
  ELSE LET glyph == st.run[st.i]
           st1 == LigCodeEntries(sub, st, glyph, GlyphClass(sub.cls, glyph.g))
       IN LigCodeLoop(sub, [st1 EXCEPT !.i = @ + 1])

LigCodeRun(sub, run) ==
  LigCodeLoop(sub, [run |-> run, i |-> 1, s |-> 0, stack |-> <<>>, sp |-> 1, err |-> "", tags |-> {}])

---------------------------------------------------------------------------
(* One subtable *)
VertOnly(sub) == (sub.cov \div 8) % 2 = 1 /\ (sub.cov \div 2) % 2 = 0
Descending(sub) == (sub.cov \div 4) % 2 = 1

Step(sub, bug, m) ==
  CASE sub.type = 1 -> CtxStep(sub, bug, m)
    [] sub.type = 2 -> LigStep(sub, m)
    [] sub.type = 4 -> NonCtxStep(sub, bug, m)
    [] OTHER        -> [m EXCEPT !.done = TRUE, !.tags = @ \cup {"type-" \o ToString(sub.type) \o "-no-effect"}]

\* horizontal text: a vertical-only subtable is skipped
Applicable(sub, bug) == ~VertOnly(sub) \/ bug.vert
Reversed(sub, bug) == Descending(sub) /\ ~bug.desc /\ sub.type \in {1, 2, 4}

SubBegin(sub, bug, run) == IF Reversed(sub, bug) THEN Reverse(run) ELSE run
SubEnd(sub, dev, bug, run) ==
  LET r == IF Reversed(sub, bug) THEN Reverse(run) ELSE run IN
  IF dev.eagerLig THEN SelectSeq(r, LAMBDA x : x.o # 2) ELSE r

RECURSIVE RunMachine(_, _, _)
RunMachine(sub, bug, m) == IF m.done THEN m ELSE RunMachine(sub, bug, Step(sub, bug, m))

\* [run, tags, err]
ApplySub(sub, dev, bug, run) ==
  IF sub.type = 2 /\ bug.ligCode
  THEN LET st == LigCodeRun(sub, SubBegin(sub, bug, run)) IN
       [run |-> SubEnd(sub, dev, bug, st.run), tags |-> st.tags, err |-> st.err]
  ELSE LET m == RunMachine(sub, bug, M0(SubBegin(sub, bug, run))) IN
       [run |-> SubEnd(sub, dev, bug, m.run), tags |-> m.tags, err |-> ""]

---------------------------------------------------------------------------
(* Chains: sub-feature flag selection *)
Has(tags, x) == \E k \in 1 .. Len(tags) : tags[k] = x

\* Dev_FeatureMapping: allsorts' should_apply_feature
Requested(f, tags) ==
  CASE f.t = 21 /\ f.s = 1 -> Has(tags, "lnum")
    [] f.t = 21 /\ f.s = 0 -> Has(tags, "onum")
    [] f.t = 6 /\ f.s = 1  -> Has(tags, "pnum")
    [] f.t = 6 /\ f.s = 0  -> Has(tags, "tnum")
    [] f.t = 11 /\ f.s = 2 -> Has(tags, "frac")
    [] f.t = 11 /\ f.s = 1 -> Has(tags, "afrc")
    [] f.t = 11 /\ f.s = 0 -> ~Has(tags, "frac") /\ ~Has(tags, "afrc")
    [] f.t = 10 /\ f.s = 3 -> Has(tags, "ordn")
    [] f.t = 14 /\ f.s = 4 -> Has(tags, "zero")
    [] f.t = 14 /\ f.s = 5 -> ~Has(tags, "zero")
    [] f.t = 37 /\ f.s = 1 -> Has(tags, "smcp") \/ Has(tags, "c2sc")
    [] f.t = 38 /\ f.s = 1 -> Has(tags, "c2sc")
    [] f.t = 1 /\ f.s = 2  -> Has(tags, "liga")
    [] f.t = 1 /\ f.s = 3  -> ~Has(tags, "liga")
    [] f.t = 1 /\ f.s = 20 -> Has(tags, "hlig")
    [] f.t = 1 /\ f.s = 21 -> ~Has(tags, "hlig")
    [] f.t = 1 /\ f.s = 18 -> Has(tags, "clig")
    [] f.t = 1 /\ f.s = 19 -> ~Has(tags, "clig")
    [] OTHER -> FALSE

RECURSIVE FlagsFold(_, _, _, _)
FlagsFold(feats, tags, k, flags) ==
  IF k > Len(feats) THEN flags
  ELSE FlagsFold(feats, tags, k + 1,
                 IF Requested(feats[k], tags) THEN (flags & feats[k].dis) | feats[k].en ELSE flags)

SubFeatureFlags(chain, req) ==
  IF req.kind = "custom" THEN chain.def ELSE FlagsFold(chain.feats, req.tags, 1, chain.def)

Enabled(chain, req, sub) == (SubFeatureFlags(chain, req) & sub.flags) # 0

\* all subtables in table order: <<chain number, subtable number>> (1-based)
RECURSIVE FlatFrom(_, _)
FlatFrom(prog, ch) ==
  IF ch > Len(prog.chains) THEN <<>>
  ELSE [k \in 1 .. Len(prog.chains[ch].subs) |-> <<ch, k>>] \o FlatFrom(prog, ch + 1)
Flat(prog) == FlatFrom(prog, 1)

SubAt(prog, cs) == prog.chains[cs[1]].subs[cs[2]]
Active(prog, bug, cs) ==
  /\ Enabled(prog.chains[cs[1]], prog.req, SubAt(prog, cs))
  /\ Applicable(SubAt(prog, cs), bug)

\* the raw run after every subtable (a subtable that is not selected leaves it unchanged); after an error
\* of the code reading every further element is the error text
RECURSIVE StepsFrom(_, _, _, _, _, _)
StepsFrom(prog, dev, bug, flat, k, run) ==
  IF k > Len(flat) THEN <<>>
  ELSE IF ~Active(prog, bug, flat[k]) THEN <<run>> \o StepsFrom(prog, dev, bug, flat, k + 1, run)
  ELSE LET r == ApplySub(SubAt(prog, flat[k]), dev, bug, run) IN
       IF r.err # "" THEN [j \in 1 .. Len(flat) - k + 1 |-> ErrRun(r.err)]
       ELSE <<r.run>> \o StepsFrom(prog, dev, bug, flat, k + 1, r.run)

MorxSteps(prog, dev, bug, inp) == StepsFrom(prog, dev, bug, Flat(prog), 1, InitRun(inp))

RECURSIVE TagsFrom(_, _, _, _, _, _)
TagsFrom(prog, dev, bug, flat, k, run) ==
  IF k > Len(flat) THEN {}
  ELSE IF ~Active(prog, bug, flat[k]) THEN TagsFrom(prog, dev, bug, flat, k + 1, run)
  ELSE LET r == ApplySub(SubAt(prog, flat[k]), dev, bug, run) IN
       IF r.err # "" THEN r.tags
       ELSE r.tags \cup TagsFrom(prog, dev, bug, flat, k + 1, r.run)
MorxTags(prog, dev, bug, inp) == TagsFrom(prog, dev, bug, Flat(prog), 1, InitRun(inp))

\* the big-step semantics of morx::apply: chains x features x run -> run
MorxDenoteP(prog, dev, bug, inp) ==
  LET st == MorxSteps(prog, dev, bug, inp) IN IF st = <<>> THEN InitRun(inp) ELSE st[Len(st)]
MorxDenote(chains, features, run) ==
  LET prog == [chains |-> chains, req |-> features]
      RECURSIVE Go(_, _)
      Go(k, r) == IF k > Len(Flat(prog)) THEN r
                  ELSE Go(k + 1, IF Active(prog, BugNone, Flat(prog)[k])
                                 THEN ApplySub(SubAt(prog, Flat(prog)[k]), DevStd, BugNone, r).run ELSE r)
  IN Go(1, run)

\* observations: ObsRec is comparable whatever happened; ObsOf is the JSON shape (a run or an error text)
ObsRec(x) == IF IsErrRun(x) THEN [err |-> x[1].err, run |-> <<>>] ELSE [err |-> "", run |-> Obs(x)]
ObsOf(x) == IF IsErrRun(x) THEN x[1].err ELSE Obs(x)
ObsSteps(steps) == [k \in 1 .. Len(steps) |-> ObsOf(steps[k])]
RecSteps(steps) == [k \in 1 .. Len(steps) |-> ObsRec(steps[k])]

---------------------------------------------------------------------------
(* The modelled fragment ("well-formed morx program") *)
WFClassTable(lk, n, nc) ==
  /\ WFLookup(lk, n)
  /\ \A v \in LookupValues(lk) : v = ClassOOB \/ (v >= 4 /\ v < nc)
WFSubstTable(lk, n) ==
  /\ WFLookup(lk, n)
  /\ \A v \in LookupValues(lk) : (v >= 0 /\ v < n) \/ v = DEL

WFStateTable(sub) ==
  /\ sub.nc >= 4
  /\ NStates(sub) >= 2
  /\ \A s \in 1 .. NStates(sub) : Len(sub.rows[s]) = sub.nc
                                  /\ \A c \in 1 .. sub.nc : sub.rows[s][c] \in 0 .. Len(sub.ents) - 1
  /\ \A k \in 1 .. Len(sub.ents) : sub.ents[k].ns \in 0 .. NStates(sub) - 1 /\ sub.ents[k].da \in {0, 1}
  /\ DaAcyclic(sub)

\* does the action list starting at k end with LAST inside the table, STORE only together with LAST
RECURSIVE WFActions(_, _)
WFActions(sub, k) ==
  /\ k + 1 <= Len(sub.acts)
  /\ LET a == sub.acts[k + 1] IN
     /\ a.last \in {0, 1} /\ a.store \in {0, 1}
     /\ a.store = 1 => a.last = 1
     /\ a.off > -536870912 /\ a.off < 536870912
     /\ a.last = 0 => WFActions(sub, k + 1)

WFSub(sub, n) ==
  /\ sub.cov \in 0 .. 15
  /\ sub.flags \in 0 .. 65535
  /\ CASE sub.type = 4 -> WFSubstTable(sub.lk, n)
       [] sub.type = 1 ->
            /\ WFStateTable(sub)
            /\ WFClassTable(sub.cls, n, sub.nc)
            /\ Len(sub.subst) >= 1
            /\ \A k \in 1 .. Len(sub.subst) : WFSubstTable(sub.subst[k], n)
            /\ \A k \in 1 .. Len(sub.ents) :
                  /\ sub.ents[k].mark \in {0, 1}
                  /\ sub.ents[k].mi \in -1 .. Len(sub.subst) - 1
                  /\ sub.ents[k].ci \in -1 .. Len(sub.subst) - 1
            \* there is no current glyph at the end of the text
            /\ \A s \in 0 .. NStates(sub) - 1 : Entry(sub, s, ClassEOT).ci = -1
       [] sub.type = 2 ->
            /\ WFStateTable(sub)
            /\ WFClassTable(sub.cls, n, sub.nc)
            /\ \A k \in 1 .. Len(sub.ents) :
                  LET e == sub.ents[k] IN
                  /\ e.push \in {0, 1} /\ e.act \in {0, 1}
                  /\ e.act = 1 => WFActions(sub, e.ai)
                  \* DONT_ADVANCE only re-dispatches the glyph (what it means together with an action or a
                  \* push is not spelled out by the reference manual)
                  /\ e.da = 1 => e.act = 0 /\ e.push = 0
            /\ \A s \in 0 .. NStates(sub) - 1 :
                  LET e == Entry(sub, s, ClassEOT) IN e.push = 0 /\ e.act = 0
            /\ \A k \in 1 .. Len(sub.comps) : sub.comps[k] \in 0 .. 65535
            /\ \A k \in 1 .. Len(sub.ligs) : sub.ligs[k] \in 0 .. n - 1
       [] sub.type \in {0, 5} -> TRUE
       [] OTHER -> FALSE

WFChain(chain, n) ==
  /\ chain.def \in 0 .. 65535
  /\ chain.sh \in {0, 8, 16}
  /\ \A k \in 1 .. Len(chain.feats) :
        chain.feats[k].en \in 0 .. 65535 /\ chain.feats[k].dis \in 0 .. 65535
        /\ chain.feats[k].t \in 0 .. 65535 /\ chain.feats[k].s \in 0 .. 65535
  /\ \A k \in 1 .. Len(chain.subs) : WFSub(chain.subs[k], n)

WFProgram(prog) ==
  /\ prog.ver \in {2, 3}
  /\ prog.n \in 1 .. 65534
  /\ prog.req.kind \in {"mask", "custom"}
  /\ ~Has(prog.req.tags, "vert")                 \* horizontal text only
  /\ \A k \in 1 .. Len(prog.chains) : WFChain(prog.chains[k], prog.n)

---------------------------------------------------------------------------
(* The known non-conformant readings, in the order in which a mismatch is    *)
(* matched against them (generator and judge share the list)                 *)
Subs(prog) == {SubAt(prog, Flat(prog)[q]) : q \in 1 .. Len(Flat(prog))}
HasType(prog, t) == \E sb \in Subs(prog) : sb.type = t
HasDa(prog) == \E sb \in Subs(prog) : sb.type = 1 /\ \E q \in 1 .. Len(sb.ents) : sb.ents[q].da = 1
HasMarkSubst(prog) == \E sb \in Subs(prog) : sb.type = 1 /\ \E q \in 1 .. Len(sb.ents) : sb.ents[q].mi # -1
HasDelete(prog) == \E sb \in Subs(prog) : sb.type = 1 /\ \E q \in 1 .. Len(sb.subst) : DEL \in LookupValues(sb.subst[q])

BugReadings(prog) ==
  (IF HasType(prog, 1) THEN << [name |-> "end-of-text-step-missing", bug |-> [BugNone EXCEPT !.noEot = TRUE]] >> ELSE <<>>)
  \o (IF HasDa(prog) THEN << [name |-> "ctx-dont-advance-stale-glyph", bug |-> [BugNone EXCEPT !.staleCur = TRUE, !.staleCls = TRUE]] >> ELSE <<>>)
  \o (IF HasMarkSubst(prog) THEN << [name |-> "ctx-mark-lookup-stale-glyph", bug |-> [BugNone EXCEPT !.staleMark = TRUE]] >> ELSE <<>>)
  \o (IF HasDelete(prog) THEN << [name |-> "deleted-glyph-substituted-by-class-code", bug |-> [BugNone EXCEPT !.delSubst = TRUE]] >> ELSE <<>>)
  \o (IF \E sb \in Subs(prog) : VertOnly(sb) THEN << [name |-> "coverage-vertical-only-applied", bug |-> [BugNone EXCEPT !.vert = TRUE]] >> ELSE <<>>)
  \o (IF \E sb \in Subs(prog) : Descending(sb) THEN << [name |-> "coverage-descending-ignored", bug |-> [BugNone EXCEPT !.desc = TRUE]] >> ELSE <<>>)
  \o (IF HasType(prog, 2) THEN << [name |-> "lig-start-pos-drain", bug |-> [BugNone EXCEPT !.ligCode = TRUE]] >> ELSE <<>>)
  \o << [name |-> "several-known-defects", bug |-> BugCode] >>


CodeTags == {"code-start-pos-stale", "code-drained-non-components"}

\* dynamic well-formedness: tags a run must not produce (the table's own actions misbehave)
IllTags == {"lig-underflow", "lig-actions-run-off", "lig-component-oob", "lig-ligature-oob", "lig-store-not-last"}
=============================================================================
