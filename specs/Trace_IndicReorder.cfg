SPECIFICATION TSpec
INVARIANT Judged
POSTCONDITION AllConsumed
CHECK_DEADLOCK FALSE
