CONSTANTS
  LenOf <- LenThorough
SPECIFICATION Spec
INVARIANTS Check
CHECK_DEADLOCK FALSE
