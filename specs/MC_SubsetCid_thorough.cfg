CONSTANTS
  NGD = 4
  NFD = 3
  Pats = {0, 1, 2, 3, 4, 5}
  NHMsD = {3}
  Fd0Free = FALSE
SPECIFICATION Spec
INVARIANTS DesignOK EmitCase
CHECK_DEADLOCK FALSE
