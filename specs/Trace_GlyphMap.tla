-------------------------- MODULE Trace_GlyphMap --------------------------
(***************************************************************************)
(* Trace judge for X06 (impl -> spec), judging style.  One event per call  *)
(* on a Font:                                                              *)
(*   Map    a = [src, f, filt, k = "map",  t (text), m ("N" / "R"), v]      *)
(*   Look   a = [src, f, filt, k = "look", t = <<ch>>, m, v (selector)]     *)
(*          f = the abstract font (GlyphMap): for a repository font the    *)
(*          harness' independent reader restricts every record to the      *)
(*          codes the text can reach; filt = the image filter in force     *)
(*          o = [out = <<[c, g, v, u, x]>> one per glyph returned, panic]  *)
(*   Filter only when set_embedded_image_filter panicked                   *)
(*   Emoji  o = [ranges]: where bool_prop_emoji_presentation is true       *)
(* An event conforms iff the call did not panic and the observation equals *)
(* GlyphMap!OpOut under ONE conformant reading (glyph in the accepted set).*)
(* Otherwise it is attributed to the smallest set of named defect readings *)
(* under which it conforms (key defect|name), or is unexplained and the    *)
(* key names operation, encoding, mode, selector class, expected class and *)
(* observed class of the first offending glyph.                            *)
(***************************************************************************)
EXTENDS GlyphMap, Json, IOUtils

Rec == ndJsonDeserialize(IOEnv.TRACE)

VARIABLE l
tvars == <<l>>

OpOf(e) == [k |-> e.a.k, t |-> e.a.t, m |-> e.a.m, v |-> e.a.v]
ReaderFormats == {0, 4, 6, 12}

MatchesUnder(e, k, D) == Matches(OpOut(e.a.f, e.a.filt, WithDefects(ReadingSeq[k], D), OpOf(e)), e.o.out)
\* first conformant reading (0 = none); first defect set under which some reading conforms (0 = none)
RECURSIVE FirstReading(_, _, _)
FirstReading(e, D, k) == IF k > Len(ReadingSeq) THEN 0 ELSE IF MatchesUnder(e, k, D) THEN k ELSE FirstReading(e, D, k + 1)
\* the defect readings are models of the code: they are tried on top of the readings closest to it
\* (no format 14, five selectors; text presentation constrained or not)
CodeReadings == {4, 8}
RECURSIVE FirstDefects(_, _)
FirstDefects(e, j) == IF j > Len(DefectSets) THEN 0
                      ELSE IF \E k \in CodeReadings : MatchesUnder(e, k, DefectSets[j]) THEN j ELSE FirstDefects(e, j + 1)

\* selector (number, 0 = none) following the k-th output character under repertoire rep
VsAt(rep, op, k) ==
  IF op.k = "look" THEN op.v
  ELSE LET sel == Selectors(rep)
           pos == SelectSeq([i \in DOMAIN op.t |-> i], LAMBDA i : op.t[i] \notin sel)
       IN IF pos[k] < Len(op.t) /\ op.t[pos[k] + 1] \in sel THEN VsNum(op.t[pos[k] + 1]) ELSE 0
SelClass(vs) == CASE vs = 0 -> "none" [] vs = 15 -> "VS15" [] vs = 16 -> "VS16" [] vs \in {1, 2, 3} -> "VS1-3" [] OTHER -> "other"

Unexplained(e) ==
  LET F   == e.a.f
      op  == OpOf(e)
      rd5 == Rd("ign", "five", "outl", "plain", {})
      rd  == IF Len(Out(F, e.a.filt, rd5, op.t, op.m)) = Len(e.o.out) \/ op.k = "look" THEN rd5 ELSE Primary
      exp == OpOut(F, e.a.filt, rd, op)
      got == e.o.out
  IN IF Len(exp) # Len(got) \/ \E k \in DOMAIN exp : got[k].c # exp[k].c THEN <<op.k, "unexplained", "alignment">>
     ELSE LET k == Min({j \in DOMAIN exp : ~Matches(<<exp[j]>>, <<got[j]>>)}) IN
          IF got[k].v # exp[k].v THEN <<op.k, "unexplained", "used", "want=" \o ToString(exp[k].v), "got=" \o ToString(got[k].v)>>
          ELSE IF got[k].g \notin exp[k].g
          THEN LET vs == VsAt(rd.rep, op, k)
                   u  == IF vs # 0 /\ HasUvsRec(F) THEN UvsLookup(F, got[k].c, vs) ELSE <<"none">>
               IN <<op.k, "unexplained", "glyph", Encoding(F, rd), op.m, "sel=" \o SelClass(vs),
                    IF exp[k].g = {0} THEN "want=0" ELSE "want=nz",
                    IF got[k].g = 0 THEN "got=0"
                    ELSE IF got[k].g \in BaseGlyphs(F, rd, got[k].c) THEN "got=base"
                    ELSE IF u[1] = "non" /\ u[2] = got[k].g THEN "got=uvs" ELSE "got=other">>
          ELSE <<op.k, "unexplained", "fields">>

\* [ok, skip, dev, keys]
Verdict(e) ==
  IF e.ev = "Emoji"
  THEN IF e.o.panic # "" THEN [ok |-> FALSE, skip |-> FALSE, dev |-> "", keys |-> << <<"emoji", "panic">> >>]
       ELSE IF e.o.ranges = EmojiPresentationRanges THEN [ok |-> TRUE, skip |-> FALSE, dev |-> "", keys |-> <<>>]
       ELSE [ok |-> FALSE, skip |-> FALSE, dev |-> "", keys |-> << <<"emoji", "table">> >>]
  ELSE IF e.o.panic # "" THEN [ok |-> FALSE, skip |-> FALSE, dev |-> "", keys |-> << <<e.a.k, "panic">> >>]
  ELSE IF BaseIdx(e.a.f, Primary) = 0 \/ \E i \in DOMAIN e.a.f.recs : e.a.f.recs[i].fmt \notin ReaderFormats \cup {14}
       THEN [ok |-> TRUE, skip |-> TRUE, dev |-> "", keys |-> <<>>]      \* a subtable format the harness' reader does not handle
  ELSE LET c0 == FirstReading(e, {}, 1) IN
       IF c0 # 0 THEN [ok |-> TRUE, skip |-> FALSE, dev |-> IF c0 = 1 THEN "" ELSE RdName(ReadingSeq[c0]), keys |-> <<>>]
       ELSE LET j == FirstDefects(e, 1) IN
            IF j # 0 THEN [ok |-> FALSE, skip |-> FALSE, dev |-> "",
                           keys |-> SetToSeq({<<"defect", d>> : d \in DefectSets[j]})]
            ELSE [ok |-> FALSE, skip |-> FALSE, dev |-> "", keys |-> << Unexplained(e) >>]

TInit == l = 1
TNext == l <= Len(Rec) /\ l' = l + 1

Judged ==
  l <= Len(Rec) =>
     LET e == Rec[l]
         v == Verdict(e)
     IN IF v.ok
        THEN IF v.skip THEN PrintT(<<"SKIP", ToJson([i |-> e.i])>>)
             ELSE IF v.dev # "" THEN PrintT(<<"DEV", ToJson([i |-> e.i, r |-> v.dev])>>) ELSE TRUE
        ELSE PrintT(<<"MISMATCH", ToJson([i |-> e.i, case |-> e.case, ev |-> e.ev, keys |-> v.keys,
                                          want |-> IF e.ev = "Emoji" THEN <<>> ELSE OpOut(e.a.f, e.a.filt, Primary, OpOf(e))])>>)

TSpec == TInit /\ [][TNext]_tvars
AllConsumed == TLCGet("stats").diameter = Len(Rec) + 1
=============================================================================
