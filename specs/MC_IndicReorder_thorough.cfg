CONSTANTS
  Tier = "thorough"
SPECIFICATION Spec
INVARIANTS SearchInv Agree Design Emit
CHECK_DEADLOCK FALSE
