CONSTANTS
  Tier = "thorough"
SPECIFICATION Spec
INVARIANTS SearchInv AtEnd
CHECK_DEADLOCK FALSE
