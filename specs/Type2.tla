------------------------------- MODULE Type2 -------------------------------
(***************************************************************************)
(* The Type 2 charstring machine (Adobe TN5177, and the CFF2 charstring    *)
(* format of OpenType): property C18.                                      *)
(*                                                                         *)
(* A charstring is a sequence of BYTES.  The machine reads one item per    *)
(* step - a number in one of its encodings or an operator - exactly as the *)
(* interpreter in allsorts (src/cff/charstring.rs: visit_impl) does, so    *)
(* that real glyph programs can be handed to it unchanged:                 *)
(*     Step(fc, m)   one item (small step, explored by MC_Type2)           *)
(*     Run(fc, m)    Step until the machine halts (used by the generator   *)
(*                   and by the trace judge)                               *)
(* The meaning of a path operator is a pure function from its argument     *)
(* list to a list of RELATIVE segments (OpSegs); the path state only       *)
(* accumulates them (ApplySegs).  PathDenote gives the commands of an      *)
(* abstract path directly; MC_Type2 checks that every operator form that   *)
(* encodes a path is interpreted to exactly PathDenote(path).              *)
(*                                                                         *)
(* Numbers.  Every number is an integer scaled by 65536 (16.16), so the    *)
(* four charstring encodings (1, 2, 3 bytes and 5-byte 16.16) decode into  *)
(* one domain.  TLC integers are 32 bit, so the modelled domain is         *)
(* |coordinate| <= 16384.0, |delta| <= 4096.0 (blend deltas 1024.0): an    *)
(* operand outside it halts the machine with why = "Range" (not judged).   *)
(*                                                                         *)
(* Font context fc (constant during a run):                                *)
(*   kind    "cff" | "cff2"                                                *)
(*   nG, nL  number of global / local subroutines (decides the bias)       *)
(*   gsubrs, lsubrs   sparse subroutine tables: sequences of [i, b]        *)
(*   comps   charstrings of the glyphs a seac endchar may name: sparse     *)
(*           table [i |-> glyph id, b |-> bytes]                           *)
(*   charset, nGlyphs   the font's charset (format + ranges) and glyph     *)
(*           count: a seac code is resolved StandardEncoding code -> SID   *)
(*           -> glyph id through them (StdEncSid, SidToGid)                *)
(*   regions sequence (one per ItemVariationData) of sequences of regions; *)
(*           a region is a sequence of <<start, peak, end>> (F2Dot14 raw)  *)
(*   tuple   normalised coordinates (F2Dot14 raw), <<>> when not variable  *)
(*   dvs     vsindex of the Private DICT (default 0)                       *)
(***************************************************************************)
EXTENDS Integers, Sequences, FiniteSets, TLC

ONE == 65536
LIM  == 1073741824         \* 2^30: bound on coordinates (16384.0 units)
DLIM == 268435456          \* 2^28: bound on the deltas of moves and path operators (4096.0 units)
BLIM == 67108864           \* 2^26: bound on blend deltas (1024.0 units)

Abs(v) == IF v < 0 THEN 0 - v ELSE v
InDom(v) == v >= 0 - LIM /\ v <= LIM
\* v / 65536 is exactly representable as an IEEE single (24-bit significand)
F32Exact(v) ==
  LET a == IF v = -2147483647 - 1 THEN 0 ELSE Abs(v) IN
  IF a < 16777216 THEN TRUE
  ELSE IF a < 33554432 THEN a % 2 = 0
  ELSE IF a < 67108864 THEN a % 4 = 0
  ELSE IF a < 134217728 THEN a % 8 = 0
  ELSE IF a < 268435456 THEN a % 16 = 0
  ELSE IF a < 536870912 THEN a % 32 = 0
  ELSE IF a < 1073741824 THEN a % 64 = 0
  ELSE a % 128 = 0
AllWithin(a, lim) == \A i \in 1 .. Len(a) : a[i] >= 0 - lim /\ a[i] <= lim

---------------------------------------------------------------------------
\* Number encodings (TN5177 section 3.2)
S16(u) == IF u >= 32768 THEN u - 65536 ELSE u

IsNumByte(b0) == b0 = 28 \/ b0 >= 32
NumLen(b0) == IF b0 = 28 THEN 3 ELSE IF b0 = 255 THEN 5 ELSE IF b0 <= 246 THEN 1 ELSE 2

\* scaled value of the number that starts at c[p] (all its bytes present)
NumVal(c, p) ==
  LET b0 == c[p] IN
  IF b0 = 28 THEN S16(c[p + 1] * 256 + c[p + 2]) * ONE
  ELSE IF b0 = 255 THEN S16(c[p + 1] * 256 + c[p + 2]) * ONE + c[p + 3] * 256 + c[p + 4]
  ELSE IF b0 <= 246 THEN (b0 - 139) * ONE
  ELSE IF b0 <= 250 THEN ((b0 - 247) * 256 + c[p + 1] + 108) * ONE
  ELSE (0 - (b0 - 251) * 256 - c[p + 1] - 108) * ONE

IsInt(v) == v % ONE = 0
\* encoding forms available for a scaled value
NumForms(v) ==
  LET n == v \div ONE IN
     (IF IsInt(v) /\ n >= -107 /\ n <= 107 THEN {"b1"} ELSE {})
  \cup (IF IsInt(v) /\ ((n >= 108 /\ n <= 1131) \/ (n >= -1131 /\ n <= -108)) THEN {"b2"} ELSE {})
  \cup (IF IsInt(v) /\ n >= -32768 /\ n <= 32767 THEN {"b3"} ELSE {})
  \cup {"fx"}
U16Bytes(u) == <<u \div 256, u % 256>>
EncNum(v, form) ==
  LET n == v \div ONE IN
  CASE form = "b1" -> <<n + 139>>
    [] form = "b2" -> IF n > 0 THEN <<(n - 108) \div 256 + 247, (n - 108) % 256>>
                               ELSE <<(0 - n - 108) \div 256 + 251, (0 - n - 108) % 256>>
    [] form = "b3" -> <<28>> \o U16Bytes(IF n < 0 THEN n + 65536 ELSE n)
    [] form = "fx" -> <<255>> \o U16Bytes(IF n < 0 THEN n + 65536 ELSE n) \o U16Bytes(v % ONE)
\* the shortest form (what a font compiler writes)
MinForm(v) == IF "b1" \in NumForms(v) THEN "b1" ELSE IF "b2" \in NumForms(v) THEN "b2"
              ELSE IF "b3" \in NumForms(v) THEN "b3" ELSE "fx"

---------------------------------------------------------------------------
\* Operators
OpName(b) ==
  CASE b = 1 -> "hstem" [] b = 3 -> "vstem" [] b = 4 -> "vmoveto" [] b = 5 -> "rlineto"
    [] b = 6 -> "hlineto" [] b = 7 -> "vlineto" [] b = 8 -> "rrcurveto" [] b = 10 -> "callsubr"
    [] b = 11 -> "return" [] b = 14 -> "endchar" [] b = 15 -> "vsindex" [] b = 16 -> "blend"
    [] b = 18 -> "hstemhm" [] b = 19 -> "hintmask" [] b = 20 -> "cntrmask" [] b = 21 -> "rmoveto"
    [] b = 22 -> "hmoveto" [] b = 23 -> "vstemhm" [] b = 24 -> "rcurveline" [] b = 25 -> "rlinecurve"
    [] b = 26 -> "vvcurveto" [] b = 27 -> "hhcurveto" [] b = 29 -> "callgsubr" [] b = 30 -> "vhcurveto"
    [] b = 31 -> "hvcurveto" [] b = 12 -> "escape"
    [] OTHER -> "reserved"
EscName(b) ==
  CASE b = 34 -> "hflex" [] b = 35 -> "flex" [] b = 36 -> "hflex1" [] b = 37 -> "flex1"
    [] OTHER -> "unsupported"      \* arithmetic, storage and conditional operators: not modelled
OpCode(nm) ==
  CASE nm = "hstem" -> <<1>> [] nm = "vstem" -> <<3>> [] nm = "vmoveto" -> <<4>> [] nm = "rlineto" -> <<5>>
    [] nm = "hlineto" -> <<6>> [] nm = "vlineto" -> <<7>> [] nm = "rrcurveto" -> <<8>>
    [] nm = "callsubr" -> <<10>> [] nm = "return" -> <<11>> [] nm = "endchar" -> <<14>>
    [] nm = "vsindex" -> <<15>> [] nm = "blend" -> <<16>> [] nm = "hstemhm" -> <<18>>
    [] nm = "hintmask" -> <<19>> [] nm = "cntrmask" -> <<20>> [] nm = "rmoveto" -> <<21>>
    [] nm = "hmoveto" -> <<22>> [] nm = "vstemhm" -> <<23>> [] nm = "rcurveline" -> <<24>>
    [] nm = "rlinecurve" -> <<25>> [] nm = "vvcurveto" -> <<26>> [] nm = "hhcurveto" -> <<27>>
    [] nm = "callgsubr" -> <<29>> [] nm = "vhcurveto" -> <<30>> [] nm = "hvcurveto" -> <<31>>
    [] nm = "hflex" -> <<12, 34>> [] nm = "flex" -> <<12, 35>> [] nm = "hflex1" -> <<12, 36>>
    [] nm = "flex1" -> <<12, 37>>

PathOps == {"rlineto", "hlineto", "vlineto", "rrcurveto", "rcurveline", "rlinecurve", "vvcurveto",
            "hhcurveto", "vhcurveto", "hvcurveto", "hflex", "flex", "hflex1", "flex1"}

---------------------------------------------------------------------------
\* Relative segments
SegL(dx, dy) == [t |-> "L", d |-> <<dx, dy>>]
SegC(a, b, c, d, e, f) == [t |-> "C", d |-> <<a, b, c, d, e, f>>]
NoSegs == [ok |-> FALSE, segs |-> <<>>]
OkSegs(s) == [ok |-> TRUE, segs |-> s]

\* The meaning of a path operator: argument list -> relative segments (TN5177 section 4.1)
OpSegs(op, a) ==
  LET n == Len(a) IN
  CASE op = "rlineto" ->
         IF n >= 2 /\ n % 2 = 0
         THEN OkSegs([i \in 1 .. n \div 2 |-> SegL(a[2 * i - 1], a[2 * i])]) ELSE NoSegs
    [] op = "hlineto" ->
         IF n >= 1 THEN OkSegs([i \in 1 .. n |-> IF i % 2 = 1 THEN SegL(a[i], 0) ELSE SegL(0, a[i])])
         ELSE NoSegs
    [] op = "vlineto" ->
         IF n >= 1 THEN OkSegs([i \in 1 .. n |-> IF i % 2 = 1 THEN SegL(0, a[i]) ELSE SegL(a[i], 0)])
         ELSE NoSegs
    [] op = "rrcurveto" ->
         IF n >= 6 /\ n % 6 = 0
         THEN OkSegs([i \in 1 .. n \div 6 |->
                        LET b == 6 * (i - 1) IN SegC(a[b + 1], a[b + 2], a[b + 3], a[b + 4], a[b + 5], a[b + 6])])
         ELSE NoSegs
    [] op = "rcurveline" ->
         IF n >= 8 /\ (n - 2) % 6 = 0
         THEN OkSegs([i \in 1 .. (n - 2) \div 6 + 1 |->
                        LET b == 6 * (i - 1) IN
                        IF i <= (n - 2) \div 6
                        THEN SegC(a[b + 1], a[b + 2], a[b + 3], a[b + 4], a[b + 5], a[b + 6])
                        ELSE SegL(a[n - 1], a[n])])
         ELSE NoSegs
    [] op = "rlinecurve" ->
         IF n >= 8 /\ (n - 6) % 2 = 0
         THEN OkSegs([i \in 1 .. (n - 6) \div 2 + 1 |->
                        IF i <= (n - 6) \div 2 THEN SegL(a[2 * i - 1], a[2 * i])
                        ELSE SegC(a[n - 5], a[n - 4], a[n - 3], a[n - 2], a[n - 1], a[n])])
         ELSE NoSegs
    [] op = "hhcurveto" ->          \* dy1? {dxa dxb dyb dxc}+
         IF n >= 4 /\ n % 4 <= 1
         THEN LET off == n % 4 IN
              OkSegs([i \in 1 .. n \div 4 |->
                        LET b == off + 4 * (i - 1) IN
                        SegC(a[b + 1], IF i = 1 /\ off = 1 THEN a[1] ELSE 0, a[b + 2], a[b + 3], a[b + 4], 0)])
         ELSE NoSegs
    [] op = "vvcurveto" ->          \* dx1? {dya dxb dyb dyc}+
         IF n >= 4 /\ n % 4 <= 1
         THEN LET off == n % 4 IN
              OkSegs([i \in 1 .. n \div 4 |->
                        LET b == off + 4 * (i - 1) IN
                        SegC(IF i = 1 /\ off = 1 THEN a[1] ELSE 0, a[b + 1], a[b + 2], a[b + 3], 0, a[b + 4])])
         ELSE NoSegs
    [] op \in {"hvcurveto", "vhcurveto"} ->
         \* curves alternate between "starts horizontal, ends vertical" and the opposite; the last
         \* curve may carry one more argument, the otherwise omitted final delta
         IF n >= 4 /\ n % 4 <= 1
         THEN LET k == n \div 4
                  ext(i) == IF i = k /\ n % 4 = 1 THEN a[n] ELSE 0
                  startsH(i) == IF op = "hvcurveto" THEN i % 2 = 1 ELSE i % 2 = 0 IN
              OkSegs([i \in 1 .. k |->
                        LET b == 4 * (i - 1) IN
                        IF startsH(i) THEN SegC(a[b + 1], 0, a[b + 2], a[b + 3], ext(i), a[b + 4])
                                      ELSE SegC(0, a[b + 1], a[b + 2], a[b + 3], a[b + 4], ext(i))])
         ELSE NoSegs
    [] op = "flex" ->               \* 12 deltas and the flex depth
         IF n = 13 THEN OkSegs(<<SegC(a[1], a[2], a[3], a[4], a[5], a[6]),
                                 SegC(a[7], a[8], a[9], a[10], a[11], a[12])>>) ELSE NoSegs
    [] op = "hflex" ->              \* dx1 dx2 dy2 dx3 dx4 dx5 dx6
         IF n = 7 THEN OkSegs(<<SegC(a[1], 0, a[2], a[3], a[4], 0),
                                SegC(a[5], 0, a[6], 0 - a[3], a[7], 0)>>) ELSE NoSegs
    [] op = "hflex1" ->             \* dx1 dy1 dx2 dy2 dx3 dx4 dx5 dy5 dx6
         IF n = 9 THEN OkSegs(<<SegC(a[1], a[2], a[3], a[4], a[5], 0),
                                SegC(a[6], 0, a[7], a[8], a[9], 0 - (a[2] + a[4] + a[8]))>>) ELSE NoSegs
    [] op = "flex1" ->              \* dx1 dy1 ... dx5 dy5 d6
         IF n = 11
         THEN LET sx == a[1] + a[3] + a[5] + a[7] + a[9]
                  sy == a[2] + a[4] + a[6] + a[8] + a[10] IN
              OkSegs(<<SegC(a[1], a[2], a[3], a[4], a[5], a[6]),
                       IF Abs(sx) > Abs(sy) THEN SegC(a[7], a[8], a[9], a[10], a[11], 0 - sy)
                                            ELSE SegC(a[7], a[8], a[9], a[10], 0 - sx, a[11])>>)
         ELSE NoSegs

---------------------------------------------------------------------------
\* Commands delivered to the sink
Cmd(c, p) == [c |-> c, p |-> p]

\* one segment from (x, y): the command and the new current point
SegCmd(x, y, s) ==
  IF s.t = "L"
  THEN LET nx == x + s.d[1] ny == y + s.d[2] IN [cmd |-> Cmd("L", <<nx, ny>>), x |-> nx, y |-> ny]
  ELSE LET x1 == x + s.d[1]  y1 == y + s.d[2]
           x2 == x1 + s.d[3] y2 == y1 + s.d[4]
           x3 == x2 + s.d[5] y3 == y2 + s.d[6] IN
       [cmd |-> Cmd("C", <<x1, y1, x2, y2, x3, y3>>), x |-> x3, y |-> y3]
CmdInDom(c) == \A i \in 1 .. Len(c.p) : InDom(c.p[i])

\* The property's reference: the commands of an abstract path
\*   path = sequence of contours [mv |-> <<dx, dy>>, segs |-> relative segments]
\* (TLC re-evaluates a LET definition at every reference, operator parameters are evaluated once:
\*  recursive results are threaded through parameters / accumulators.)
RECURSIVE DenoteSegs(_, _, _, _, _)
DenoteSegs(x, y, segs, i, acc) ==
  IF i > Len(segs) THEN [cmds |-> acc, x |-> x, y |-> y]
  ELSE LET r == SegCmd(x, y, segs[i]) IN DenoteSegs(r.x, r.y, segs, i + 1, Append(acc, r.cmd))
RECURSIVE DenoteFrom(_, _, _, _, _)
DenoteContour(r, path, i, acc) ==      \* r: the denoted segments of contour i, which started with acc
  DenoteFrom(r.x, r.y, path, i + 1, r.cmds \o <<Cmd("Z", <<>>)>>)
DenoteFrom(x, y, path, i, acc) ==
  IF i > Len(path) THEN acc
  ELSE LET mx == x + path[i].mv[1] my == y + path[i].mv[2] IN
       DenoteContour(DenoteSegs(mx, my, path[i].segs, 1, Append(acc, Cmd("M", <<mx, my>>))), path, i, acc)
PathDenote(path) == DenoteFrom(0, 0, path, 1, <<>>)

\* "one closed contour per move": M (L|C)* Z repeated
RECURSIVE WellBracketed(_, _, _)
WellBracketed(cmds, i, open) ==
  IF i > Len(cmds) THEN ~open
  ELSE CASE cmds[i].c = "M" -> ~open /\ WellBracketed(cmds, i + 1, TRUE)
         [] cmds[i].c = "Z" -> open /\ WellBracketed(cmds, i + 1, FALSE)
         [] OTHER -> open /\ WellBracketed(cmds, i + 1, TRUE)

---------------------------------------------------------------------------
\* Font context helpers
RECURSIVE Find(_, _, _)
Find(tab, key, i) ==            \* index of the entry with .i = key in a sparse table, 0 if absent
  IF i > Len(tab) THEN 0 ELSE IF tab[i].i = key THEN i ELSE Find(tab, key, i + 1)

\* Subroutine bias (TN5176 section 16)
Bias(count) == IF count < 1240 THEN 107 ELSE IF count < 33900 THEN 1131 ELSE 32768

StackLimit(fc) == IF fc.kind = "cff2" THEN 513 ELSE 48
NestLimit == 10

\* Region scalar (OpenType variations overview): a fraction <<num, den>>, den > 0
RECURSIVE Gcd(_, _)
Gcd(a, b) == IF b = 0 THEN a ELSE Gcd(b, a % b)
Frac(n, d) == IF n = 0 THEN <<0, 1>> ELSE LET g == Gcd(Abs(n), d) IN <<n \div g, d \div g>>
AxisScalar(ax, c) ==
  LET s == ax[1] p == ax[2] e == ax[3] IN
  IF p = 0 THEN <<1, 1>>
  ELSE IF c < s \/ c > e THEN <<0, 1>>
  ELSE IF c = p THEN <<1, 1>>
  ELSE IF c < p THEN Frac(c - s, p - s) ELSE Frac(e - c, e - p)
\* a region axis is well formed when start <= peak <= end and the region does not straddle zero
\* with a non-zero peak (OpenType: otherwise the axis is to be ignored; not modelled, not judged)
AxisWF(ax) == ax[1] <= ax[2] /\ ax[2] <= ax[3] /\ ~(ax[1] < 0 /\ ax[3] > 0 /\ ax[2] # 0)
MulScal(a, r) ==
  IF a[1] = 0 \/ r[1] = 0 THEN (IF r[2] = 0 THEN r ELSE <<0, 1>>)
  ELSE IF a[2] > 32768 \/ r[2] > 32768 \/ r[2] = 0 THEN <<0, 0>>     \* outside the modelled domain
  ELSE Frac(a[1] * r[1], a[2] * r[2])
RECURSIVE RegionScalarFrom(_, _, _)
RegionScalarFrom(region, tuple, i) ==
  IF i > Len(region) \/ i > Len(tuple) THEN <<1, 1>>
  ELSE IF ~AxisWF(region[i]) THEN <<0, 0>>
  ELSE MulScal(AxisScalar(region[i], tuple[i]), RegionScalarFrom(region, tuple, i + 1))
RegionScalar(region, tuple) == RegionScalarFrom(region, tuple, 1)

---------------------------------------------------------------------------
\* seac: StandardEncoding code -> SID -> glyph id (TN5177 appendix C, TN5176 sections 12, 13 and
\* appendices B, C).
\* StandardEncoding: SID of a code, 0 where the encoding has no entry (.notdef)
StdEncSid(c) ==
  IF c >= 32 /\ c <= 126 THEN c - 31                      \* space .. asciitilde: SID 1 .. 95
  ELSE IF c >= 161 /\ c <= 175 THEN c - 65                \* exclamdown .. fl: 96 .. 110
  ELSE IF c >= 177 /\ c <= 180 THEN c - 66                \* endash .. periodcentered: 111 .. 114
  ELSE IF c >= 182 /\ c <= 189 THEN c - 67                \* paragraph .. perthousand: 115 .. 122
  ELSE IF c = 191 THEN 123                                \* questiondown
  ELSE IF c >= 193 /\ c <= 200 THEN c - 69                \* grave .. dieresis: 124 .. 131
  ELSE IF c >= 202 /\ c <= 203 THEN c - 70                \* ring, cedilla: 132, 133
  ELSE IF c >= 205 /\ c <= 208 THEN c - 71                \* hungarumlaut .. emdash: 134 .. 137
  ELSE IF c = 225 THEN 138                                \* AE
  ELSE IF c = 227 THEN 139                                \* ordfeminine
  ELSE IF c >= 232 /\ c <= 235 THEN c - 92                \* Lslash .. ordmasculine: 140 .. 143
  ELSE IF c = 241 THEN 144                                \* ae
  ELSE IF c = 245 THEN 145                                \* dotlessi
  ELSE IF c >= 248 /\ c <= 251 THEN c - 102               \* lslash .. germandbls: 146 .. 149
  ELSE 0

\* A charset is  [fmt, ranges]:
\*   fmt "iso" | "expert" | "expsub"   the predefined charsets (Top DICT charset offset 0 / 1 / 2); no ranges
\*   fmt "f0"                          ranges[i] = <<SID of glyph i, 0>>
\*   fmt "f1" | "f2"                   ranges[i] = <<first SID, nLeft>>: nLeft + 1 glyphs with consecutive SIDs
\* Glyph 0 (.notdef, SID 0) is never listed.
Ival(a, b) == [i \in 1 .. b - a + 1 |-> a + i - 1]
IsoAdobeSids == Ival(0, 228)
ExpertSids ==
  <<0, 1>> \o Ival(229, 238) \o <<13, 14, 15, 99>> \o Ival(239, 248) \o <<27, 28>> \o Ival(249, 266)
  \o <<109, 110>> \o Ival(267, 318) \o <<158, 155, 163>> \o Ival(319, 326) \o <<150, 164, 169>> \o Ival(327, 378)
ExpertSubsetSids ==
  <<0, 1, 231, 232>> \o Ival(235, 238) \o <<13, 14, 15, 99>> \o Ival(239, 248) \o <<27, 28, 249, 250, 251>>
  \o Ival(253, 266) \o <<109, 110>> \o Ival(267, 270) \o <<272, 300, 301, 302, 305, 314, 315, 158, 155, 163>>
  \o Ival(320, 326) \o <<150, 164, 169>> \o Ival(327, 346)
Predefined(cs) == cs.fmt \in {"iso", "expert", "expsub"}
PredefSids(fmt) == IF fmt = "iso" THEN IsoAdobeSids ELSE IF fmt = "expert" THEN ExpertSids ELSE ExpertSubsetSids

RECURSIVE PosIn(_, _, _)
PosIn(seq, v, i) == IF i > Len(seq) THEN 0 ELSE IF seq[i] = v THEN i ELSE PosIn(seq, v, i + 1)

\* the glyph a SID names in a range charset: walk the ranges, `gid` is the glyph id of the first glyph
\* of range i (a range of nLeft covers nLeft + 1 glyphs); -1 when no range holds the SID
RECURSIVE RangeGid(_, _, _, _)
RangeGid(ranges, sid, i, gid) ==
  IF i > Len(ranges) THEN -1
  ELSE IF ranges[i][1] <= sid /\ sid <= ranges[i][1] + ranges[i][2] THEN gid + (sid - ranges[i][1])
  ELSE RangeGid(ranges, sid, i + 1, gid + ranges[i][2] + 1)
RECURSIVE RangeIdx(_, _, _)
RangeIdx(ranges, sid, i) ==          \* which range holds the SID (0: none)
  IF i > Len(ranges) THEN 0
  ELSE IF ranges[i][1] <= sid /\ sid <= ranges[i][1] + ranges[i][2] THEN i
  ELSE RangeIdx(ranges, sid, i + 1)

\* SID -> glyph id in a font of nGlyphs glyphs; -1: the font has no glyph of that name
SidToGid(cs, nGlyphs, sid) ==
  LET g == IF sid = 0 THEN 0
           ELSE IF cs.fmt = "iso" THEN (IF sid <= 228 THEN sid ELSE -1)
           ELSE IF Predefined(cs) THEN PosIn(PredefSids(cs.fmt), sid, 1) - 1
           ELSE RangeGid(cs.ranges, sid, 1, 1) IN
  IF g >= 0 /\ g < nGlyphs THEN g ELSE -1

\* the other direction, defined on its own: the SIDs of glyph 0, 1, ... (MC_Type2 checks that the two agree)
RECURSIVE FlatRanges(_, _)
FlatRanges(ranges, i) ==
  IF i > Len(ranges) THEN <<>> ELSE Ival(ranges[i][1], ranges[i][1] + ranges[i][2]) \o FlatRanges(ranges, i + 1)
CharsetSids(cs, nGlyphs) ==
  LET all == IF Predefined(cs) THEN PredefSids(cs.fmt) ELSE <<0>> \o FlatRanges(cs.ranges, 1) IN
  SubSeq(all, 1, IF nGlyphs < Len(all) THEN nGlyphs ELSE Len(all))

\* glyph id of the glyph a seac code names: -1 the font has no such glyph, -2 the code is not in
\* StandardEncoding, -3 not a code
SeacGid(fc, code) ==
  IF code < 0 \/ code > 255 THEN -3
  ELSE IF StdEncSid(code) = 0 THEN -2
  ELSE SidToGid(fc.charset, fc.nGlyphs, StdEncSid(code))

---------------------------------------------------------------------------
\* Machine state
Frame(code, pc) == [code |-> code, pc |-> pc]
InitM(code) ==
  [frames |-> <<Frame(code, 1)>>, stack |-> <<>>, haveWidth |-> FALSE, width |-> <<>>,
   nStems |-> 0, x |-> 0, y |-> 0, open |-> FALSE, cmds |-> <<>>,
   halt |-> "", why |-> "", maxStack |-> 0, maxDepth |-> 0,
   fuzzy |-> FALSE,                \* some operand or coordinate is not exact in single precision
   vsindex |-> -1, seenBlend |-> FALSE,
   seac |-> 0, acc |-> <<>>,       \* seac: 0 none, 1 in base, 2 in accent; acc = <<adx, ady, accent glyph id>>
   compRet |-> <<FALSE, FALSE>>]   \* a subroutine called while the base / the accent of a seac glyph is drawn has
                                   \* returned to code that goes on (statistic: which programs exercise that)

Depth(m) == Len(m.frames) - 1
Top(m)   == m.frames[Len(m.frames)]
Fail(m, why) == [m EXCEPT !.halt = "err", !.why = why]
Advance(m, k) == [m EXCEPT !.frames[Len(m.frames)].pc = @ + k]
CmdExact(c) == \A i \in 1 .. Len(c.p) : F32Exact(c.p[i])
Emit(m, c) == IF CmdInDom(c) THEN [m EXCEPT !.cmds = Append(@, c), !.fuzzy = @ \/ ~CmdExact(c)]
              ELSE Fail(m, "Range")
CloseIfOpen(m) == IF m.open THEN [Emit(m, Cmd("Z", <<>>)) EXCEPT !.open = FALSE] ELSE m
Clear(m) == [m EXCEPT !.stack = <<>>]

\* Width (TN5177 section 3.1): the first stack-clearing operator may carry one extra, leading
\* argument.  `extra` says that the argument count shows one.  CFF2 charstrings have no width.
\* Result: the machine with the width taken, and the remaining arguments.
TakeWidth(fc, m, extra) ==
  IF extra
  THEN IF m.haveWidth \/ fc.kind = "cff2" THEN [ok |-> FALSE, m |-> m, a |-> <<>>]
       ELSE [ok |-> TRUE, m |-> [m EXCEPT !.haveWidth = TRUE, !.width = <<m.stack[1]>>], a |-> Tail(m.stack)]
  ELSE [ok |-> TRUE, m |-> [m EXCEPT !.haveWidth = TRUE], a |-> m.stack]

\* arguments of a moveto with `nargs` deltas: [ok, m (width taken, or failed), a]
MoveArgs(fc, m, nargs) ==
  LET w == TakeWidth(fc, m, Len(m.stack) = nargs + 1) IN
  IF ~w.ok \/ Len(w.a) # nargs THEN [ok |-> FALSE, m |-> Fail(m, "BadArgs"), a |-> <<>>]
  ELSE IF ~AllWithin(w.a, DLIM) THEN [ok |-> FALSE, m |-> Fail(m, "Range"), a |-> <<>>]
  ELSE w

\* apply relative segments to the open contour
RECURSIVE ApplySegs(_, _, _)
ApplySegs(m, segs, i) ==
  IF i > Len(segs) \/ m.halt # "" THEN m
  ELSE LET r == SegCmd(m.x, m.y, segs[i]) IN
       ApplySegs([Emit(m, r.cmd) EXCEPT !.x = r.x, !.y = r.y], segs, i + 1)

MoveTo(m, dx, dy) ==
  LET c == CloseIfOpen(m)
      nx == c.x + dx ny == c.y + dy IN
  IF c.halt # "" THEN c
  ELSE [Emit(c, Cmd("M", <<nx, ny>>)) EXCEPT !.x = nx, !.y = ny, !.open = TRUE]

\* ---- one action per operator; each returns the machine after the operator (pc already past it)
Op_rmoveto(fc, m) ==
  LET w == MoveArgs(fc, m, 2) IN IF ~w.ok THEN w.m ELSE Clear(MoveTo(w.m, w.a[1], w.a[2]))
Op_hmoveto(fc, m) ==
  LET w == MoveArgs(fc, m, 1) IN IF ~w.ok THEN w.m ELSE Clear(MoveTo(w.m, w.a[1], 0))
Op_vmoveto(fc, m) ==
  LET w == MoveArgs(fc, m, 1) IN IF ~w.ok THEN w.m ELSE Clear(MoveTo(w.m, 0, w.a[1]))

Op_path(fc, m, op) ==
  LET r == OpSegs(op, m.stack) IN
  IF ~m.open THEN Fail(m, "NoMoveTo")
  ELSE IF ~AllWithin(m.stack, DLIM) THEN Fail(m, "Range")
  ELSE IF ~r.ok THEN Fail(m, "BadArgs")
  ELSE Clear(ApplySegs(m, r.segs, 1))

\* hstem, vstem, hstemhm, vstemhm: pairs of arguments, each pair one stem hint
Op_stem(fc, m) ==
  LET w == TakeWidth(fc, m, Len(m.stack) % 2 = 1) IN
  IF ~w.ok \/ Len(w.a) < 2 THEN Fail(m, "BadArgs")
  ELSE Clear([w.m EXCEPT !.nStems = @ + Len(w.a) \div 2])

\* hintmask, cntrmask: arguments still on the stack are an implied vstem(hm); the operator is
\* followed by ceil(nStems / 8) mask bytes
Op_mask(fc, m) ==
  LET w == TakeWidth(fc, m, Len(m.stack) % 2 = 1) IN
  IF ~w.ok THEN Fail(m, "BadArgs")
  ELSE LET n == w.m.nStems + Len(w.a) \div 2
           bytes == (n + 7) \div 8
           f == Top(w.m) IN
       IF f.pc + bytes > Len(f.code) + 1 THEN Fail(m, "MaskTruncated")
       ELSE Advance(Clear([w.m EXCEPT !.nStems = n]), bytes)

\* callsubr / callgsubr
Op_call(fc, m, global) ==
  LET tab == IF global THEN fc.gsubrs ELSE fc.lsubrs
      cnt == IF global THEN fc.nG ELSE fc.nL IN
  IF Len(m.stack) < 1 THEN Fail(m, "BadArgs")
  ELSE LET v == m.stack[Len(m.stack)] IN
       IF ~IsInt(v) THEN Fail(m, "BadSubrNumber")
       ELSE LET idx == v \div ONE + Bias(cnt)
                k == Find(tab, idx, 1) IN
            IF idx < 0 \/ idx >= cnt THEN Fail(m, "BadSubrIndex")
            ELSE IF Depth(m) >= NestLimit THEN Fail(m, "NestingLimit")
            ELSE IF k = 0 THEN Fail(m, "SubrNotSupplied")       \* harness did not attach it
            ELSE [m EXCEPT !.stack = SubSeq(@, 1, Len(@) - 1),
                           !.frames = Append(@, Frame(tab[k].b, 1)),
                           !.maxDepth = IF Depth(m) + 1 > @ THEN Depth(m) + 1 ELSE @]

Op_return(fc, m) ==
  IF fc.kind = "cff2" THEN Fail(m, "InvalidOperator")
  ELSE IF Depth(m) = 0 THEN Fail(m, "ReturnAtTopLevel")
  ELSE LET f == m.frames[Len(m.frames) - 1] IN       \* the caller goes on behind the call
       IF m.seac > 0 /\ f.pc <= Len(f.code)
       THEN [m EXCEPT !.frames = SubSeq(@, 1, Len(@) - 1), !.compRet[m.seac] = TRUE]
       ELSE [m EXCEPT !.frames = SubSeq(@, 1, Len(@) - 1)]

\* Start a seac component: a complete charstring of its own (own width prefix, own hints)
StartComp(fc, m, gid, which, x, y) ==
  LET k == Find(fc.comps, gid, 1) IN
  IF k = 0 THEN Fail(m, "SeacGlyphNotSupplied")
  ELSE [m EXCEPT !.frames = <<Frame(fc.comps[k].b, 1)>>, !.stack = <<>>, !.haveWidth = FALSE,
                 !.nStems = 0, !.seac = which, !.x = x, !.y = y]

\* bchar and achar are StandardEncoding codes: both are resolved to glyphs of this font (code -> SID ->
\* charset -> glyph id) before the base is drawn.  A code outside StandardEncoding or a glyph the font
\* does not have: the program is not well formed (TN5177 appendix C requires both characters to be in
\* the font) - the machine rejects it, as FreeType and HarfBuzz do.
SeacStart(fc, m, adx, ady, bg, ag) ==
  IF bg = -3 \/ ag = -3 THEN Fail(m, "BadSeacCode")
  ELSE IF bg = -2 \/ ag = -2 THEN Fail(m, "SeacCodeNotEncoded")
  ELSE IF bg = -1 \/ ag = -1 THEN Fail(m, "SeacGlyphMissing")
  ELSE StartComp(fc, [CloseIfOpen(m) EXCEPT !.acc = <<adx, ady, ag>>], bg, 1, 0, 0)

Op_endchar(fc, m) ==
  IF fc.kind = "cff2" THEN Fail(m, "InvalidOperator")
  ELSE
  LET n == Len(m.stack) IN
  IF m.seac = 0 /\ n \in {4, 5}
  THEN \* adx ady bchar achar endchar (TN5177 appendix C)
       LET w == TakeWidth(fc, m, n = 5) IN
       IF ~w.ok \/ ~fc.seacOk THEN Fail(m, "BadArgs")
       ELSE LET a == w.a IN
            IF ~IsInt(a[3]) \/ ~IsInt(a[4]) THEN Fail(m, "BadSeacCode")
            ELSE SeacStart(fc, w.m, a[1], a[2], SeacGid(fc, a[3] \div ONE), SeacGid(fc, a[4] \div ONE))
  ELSE LET w == TakeWidth(fc, m, n = 1) IN
       IF ~w.ok \/ Len(w.a) # 0 THEN Fail(m, "BadArgs")
       ELSE LET c == Clear(CloseIfOpen(w.m)) IN
            IF c.halt # "" THEN c
            ELSE IF c.seac = 1 THEN StartComp(fc, c, c.acc[3], 2, c.acc[1], c.acc[2])
            ELSE [c EXCEPT !.halt = "done"]

\* CFF2: vsindex selects the ItemVariationData for the blends of this charstring
Op_vsindex(fc, m) ==
  IF fc.kind # "cff2" THEN Fail(m, "InvalidOperator")
  ELSE IF Len(m.stack) # 1 \/ m.vsindex >= 0 \/ m.seenBlend THEN Fail(m, "BadVsindex")
  ELSE IF ~IsInt(m.stack[1]) \/ m.stack[1] < 0 THEN Fail(m, "BadVsindex")
  ELSE Clear([m EXCEPT !.vsindex = m.stack[1] \div ONE])

\* CFF2 blend: n*(k+1) operands and n -> n values, value_i = default_i + sum_j scalar_j * delta_(i,j)
\* scalar * delta for a scalar <<num, den>> with 0 <= num <= den <= 32768: the floor of the exact
\* product and whether it is exact (a 16.16 delta times a fraction need not be a 16.16 number)
MulFrac(d, s) ==
  LET q == d \div s[2]  r == d % s[2] IN
  [v |-> q * s[1] + (r * s[1]) \div s[2], exact |-> (r * s[1]) % s[2] = 0]
RECURSIVE BlendSum(_, _, _, _, _, _)
BlendSum(deltas, scal, i, k, j, acc) ==      \* acc = [v, exact]: sum over the regions before j
  IF j > k THEN acc
  ELSE IF scal[j][1] = 0 THEN BlendSum(deltas, scal, i, k, j + 1, acc)
  ELSE LET p == MulFrac(deltas[(i - 1) * k + j], scal[j]) IN
       BlendSum(deltas, scal, i, k, j + 1, [v |-> acc.v + p.v, exact |-> acc.exact /\ p.exact])

BlendApply(m, base, n, defaults, sums) ==
  IF \E i \in 1 .. n : ~InDom(defaults[i] + sums[i].v) THEN Fail(m, "Range")
  ELSE [m EXCEPT !.stack = SubSeq(m.stack, 1, base) \o [i \in 1 .. n |-> defaults[i] + sums[i].v],
                 !.fuzzy = @ \/ \E i \in 1 .. n : ~sums[i].exact,
                 !.seenBlend = TRUE]

BlendWith(m, base, n, k, defaults, deltas, scal) ==
  IF \E j \in 1 .. k : scal[j][2] = 0 THEN Fail(m, "RegionNotModelled")
  ELSE BlendApply(m, base, n, defaults, [i \in 1 .. n |-> BlendSum(deltas, scal, i, k, 1, [v |-> 0, exact |-> TRUE])])

Op_blend(fc, m) ==
  IF fc.kind # "cff2" THEN Fail(m, "InvalidOperator")
  ELSE IF fc.tuple = <<>> THEN Fail(m, "NotVariable")
  ELSE IF Len(m.stack) < 1 THEN Fail(m, "BadArgs")
  ELSE
  LET vs == IF m.vsindex >= 0 THEN m.vsindex ELSE fc.dvs
      top == m.stack[Len(m.stack)] IN
  IF vs + 1 > Len(fc.regions) THEN Fail(m, "BadVsindex")
  ELSE IF ~IsInt(top) \/ top < 0 THEN Fail(m, "BadArgs")
  ELSE
  LET regs == fc.regions[vs + 1]
      k == Len(regs)
      n == top \div ONE
      need == n * (k + 1)
      have == Len(m.stack) - 1 IN
  IF have < need THEN Fail(m, "BadArgs")
  ELSE IF k > 15 \/ ~AllWithin(SubSeq(m.stack, have - need + 1, have - need + n), LIM \div 2)
            \/ ~AllWithin(SubSeq(m.stack, have - need + n + 1, have), BLIM) THEN Fail(m, "Range")
  ELSE
  BlendWith(m, have - need, n, k,
            SubSeq(m.stack, have - need + 1, have - need + n),        \* the n default values
            SubSeq(m.stack, have - need + n + 1, have),               \* n groups of k deltas
            \* (evaluated once: a function constructor is re-evaluated at every application)
            TLCEval([j \in 1 .. k |-> RegionScalar(regs[j], fc.tuple)]))

---------------------------------------------------------------------------
\* One step: one item of the charstring on top of the call stack
EndOfCode(fc, m) ==
  IF fc.kind = "cff2"
  THEN IF Depth(m) > 0 THEN [m EXCEPT !.frames = SubSeq(@, 1, Len(@) - 1)]     \* implicit return
       ELSE LET c == CloseIfOpen(m) IN
            IF c.halt # "" THEN c
            ELSE IF Len(c.stack) # 0 THEN Fail(c, "OperandsLeft") ELSE [c EXCEPT !.halt = "done"]
  ELSE IF Depth(m) > 0 THEN Fail(m, "SubrWithoutReturn") ELSE Fail(m, "MissingEndchar")

Step(fc, m) ==
  LET f == Top(m) IN
  IF f.pc > Len(f.code) THEN EndOfCode(fc, m)
  ELSE
  LET b0 == f.code[f.pc] IN
  IF IsNumByte(b0)
  THEN LET k == NumLen(b0) IN
       IF f.pc + k - 1 > Len(f.code) THEN Fail(m, "NumberTruncated")
       ELSE LET v == NumVal(f.code, f.pc) IN
            IF Len(m.stack) >= StackLimit(fc) THEN Fail(m, "StackOverflow")
            ELSE [Advance(m, k) EXCEPT !.stack = Append(@, v), !.fuzzy = @ \/ ~F32Exact(v),
                                       !.maxStack = IF Len(m.stack) + 1 > @ THEN Len(m.stack) + 1 ELSE @]
  ELSE
  LET nm == OpName(b0) IN
  IF nm = "escape"
  THEN IF f.pc + 1 > Len(f.code) THEN Fail(m, "OperatorTruncated")
       ELSE LET e == EscName(f.code[f.pc + 1]) IN
            IF e = "unsupported" THEN Fail(m, "UnsupportedOperator")
            ELSE Op_path(fc, Advance(m, 2), e)
  ELSE
  LET a == Advance(m, 1) IN
  CASE nm = "rmoveto" -> Op_rmoveto(fc, a)
    [] nm = "hmoveto" -> Op_hmoveto(fc, a)
    [] nm = "vmoveto" -> Op_vmoveto(fc, a)
    [] nm \in PathOps -> Op_path(fc, a, nm)
    [] nm \in {"hstem", "vstem", "hstemhm", "vstemhm"} -> Op_stem(fc, a)
    [] nm \in {"hintmask", "cntrmask"} -> Op_mask(fc, a)
    [] nm = "callsubr" -> Op_call(fc, a, FALSE)
    [] nm = "callgsubr" -> Op_call(fc, a, TRUE)
    [] nm = "return" -> Op_return(fc, a)
    [] nm = "endchar" -> Op_endchar(fc, a)
    [] nm = "vsindex" -> Op_vsindex(fc, a)
    [] nm = "blend" -> Op_blend(fc, a)
    [] OTHER -> Fail(m, "ReservedOperator")

RECURSIVE Run(_, _)
Run(fc, m) == IF m.halt # "" THEN m ELSE Run(fc, Step(fc, m))

Interp(fc, code) == Run(fc, InitM(code))

\* Result as seen by a sink
Outcome(m) == IF m.halt = "done" THEN [ok |-> TRUE, why |-> "", cmds |-> m.cmds, rounded |-> FALSE]
              ELSE [ok |-> FALSE, why |-> m.why, cmds |-> <<>>, rounded |-> FALSE]

---------------------------------------------------------------------------
\* Design invariants of the machine (checked by MC_Type2 in every explored state)
StackBound(fc, m)  == Len(m.stack) <= StackLimit(fc) /\ m.maxStack <= StackLimit(fc)
DepthBound(m)      == Depth(m) <= NestLimit
\* the command list is a prefix of a well-bracketed list whose bracket state is m.open
ContourState(m)    == m.halt = "err" \/ WellBracketed(m.cmds \o (IF m.open THEN <<Cmd("Z", <<>>)>> ELSE <<>>), 1, FALSE)
DoneClosed(m)      == m.halt = "done" => (~m.open /\ WellBracketed(m.cmds, 1, FALSE))
PointTracks(m)     ==       \* the current point is the last point delivered
  m.halt = "err" \/ ~m.open \/
  LET ks == {k \in 1 .. Len(m.cmds) : m.cmds[k].c # "Z"} IN
  ks # {} /\ LET c == m.cmds[CHOOSE k \in ks : \A j \in ks : j <= k] IN
             c.p[Len(c.p) - 1] = m.x /\ c.p[Len(c.p)] = m.y
=============================================================================
