CONSTANTS
  Tier = "quick"
SPECIFICATION Spec
INVARIANTS CursorInRun MarkInRun StackBounded LengthOnlyByLigature CharsConserved GlyphsSane NoIllTags ProgramsWellFormed SmallStepIsDenotation EmitCase EmitProg
CHECK_DEADLOCK FALSE
