--------------------------- MODULE MC_CmapSubset ---------------------------
(***************************************************************************)
(* Bounded exploration of CmapSubset and generator of replay cases (C08).  *)
(*                                                                         *)
(* A state is one case (source mapping, glyph id list, target), chosen by  *)
(* Init from the parameter families below; one Next step marks it done.    *)
(* On done states                                                          *)
(*   DesignOK : SubsetCmapOK on the model of the writer.  With FixFmt0 =   *)
(*              TRUE (repaired design) it must hold everywhere; with       *)
(*              FixFmt0 = FALSE (the code) it must fail exactly on the     *)
(*              cases named by Fmt0Overflow (the known finding).           *)
(*   EmitCase : prints the case: source pairs, glyph count, id list,       *)
(*              target, for every probe character the glyph the PROPERTY   *)
(*              prescribes (x) and what the writer model predicts (pm,     *)
(*              pred = the predicted encoding record).                     *)
(* Glyph "slots" 1..G stand for the glyphs that characters map to; `pad`   *)
(* unmapped glyphs are retained before (or after) them so that new glyph   *)
(* ids cross 255/256 and approach 65535.                                   *)
(***************************************************************************)
EXTENDS CmapSubset, Json

CONSTANT Deep           \* TRUE: thorough tier

VARIABLES par, done
vars == <<par, done>>

Asc(S) == SetToSortSeq(S, LAMBDA a, b : a < b)
SubsetsUpTo(S, k) == UNION {kSubset(j, S) : j \in 0 .. k}
InjSeqs(K) == UNION {{s \in [1 .. m -> 1 .. K] : \A i, j \in 1 .. m : i # j => s[i] # s[j]} : m \in 0 .. K}
Iota(k) == [i \in 1 .. k |-> i]
Rev(s) == [i \in 1 .. Len(s) |-> s[Len(s) + 1 - i]]
SwapAdj(s, j) == [i \in 1 .. Len(s) |-> IF i = j THEN s[j + 1] ELSE IF i = j + 1 THEN s[j] ELSE s[i]]
Drop(s, j) == [i \in 1 .. (Len(s) - 1) |-> IF i < j THEN s[i] ELSE s[i + 1]]
Targets == {"Unrestricted", "MacRoman"}

\* os2: the source font has an OS/2 table (usFirstCharIndex = first); FALSE only for Symbol sources
\* without one, where first = 32 is what Font and the subsetter fall back to.  Slot 0 is glyph 0.
PO(fam, enc, first, os2, codes, slots, list, G, pad, padpos, target) ==
  [fam |-> fam, enc |-> enc, first |-> first, os2 |-> os2, codes |-> codes, slots |-> slots, list |-> list,
   G |-> G, pad |-> pad, padpos |-> padpos, target |-> target, src |-> 0]
\* a source given as a table of module Cmap: src = number of the table in TabSources
PT(srcno, enc, list, G, target) ==
  [fam |-> "tab", enc |-> enc, first |-> 32, os2 |-> TRUE, codes |-> <<>>, slots |-> <<>>, list |-> list,
   G |-> G, pad |-> 0, padpos |-> "before", target |-> target, src |-> srcno]
P(fam, enc, first, codes, slots, list, G, pad, padpos, target) ==
  PO(fam, enc, first, TRUE, codes, slots, list, G, pad, padpos, target)

---------------------------------------------------------------------------
\* Unicode sources.  0xC4 is Mac Roman but not ASCII; 0x100 BMP; 0xFFFE/0xFFFF touch the final
\* format 4 segment; 0x10000.. astral.
UU == {65, 66, 67, 68, 72, 73, 78, 196, 256, 257, 65534, 65535, 65536, 65537}
XU == UU \cup {0, 64, 69, 71, 74, 77, 79, 126, 195, 197, 255, 258, 65531, 65532, 65533, 65538, 65539, 65540, 1114111}

\* every mapping of up to K codes onto K glyphs x every duplicate-free id list over them
KSmall == IF Deep THEN 3 ELSE 2
InitSmall ==
  \E S \in SubsetsUpTo(UU, KSmall) : \E a \in [1 .. Cardinality(S) -> 1 .. KSmall] :
  \E l \in InjSeqs(KSmall) : \E t \in Targets :
    par = P("small", "Unicode", 32, Asc(S), a, l, KSmall, 0, "before", t)

\* the format 4 segment builder: runs, gaps of 0..3 and of 4 and more, the compact rule (four
\* consecutive ids), non-consecutive ids, dropped glyphs; optionally one far code
B7 == {65, 66, 67, 68, 72, 73, 78}
Extras == IF Deep THEN {{}, {196}, {256, 257}, {65535}, {65534, 65535}, {65536}, {65531, 65535}}
                  ELSE {{}, {196}, {65534, 65535}, {65536}}
Lists(k) == {Iota(k), Rev(Iota(k))} \cup {SwapAdj(Iota(k), j) : j \in 1 .. (k - 1)} \cup {Drop(Iota(k), j) : j \in 1 .. k}
SegPads == IF Deep THEN {0, 253} ELSE {0}
InitSegs ==
  \E T \in {T \in SUBSET B7 : Cardinality(T) >= 3} : \E E \in Extras : \E t \in Targets :
    LET S == T \cup E  k == Cardinality(S) IN
    \/ \E l \in Lists(k) : \E pd \in SegPads : par = P("segs", "Unicode", 32, Asc(S), Iota(k), l, k, pd, "before", t)
    \/ par = P("segs", "Unicode", 32, Asc(S), [i \in 1 .. k |-> 1], <<1>>, 1, 0, "before", t)
    \* two neighbouring codes on one glyph (ids g, g+1, g+1 after a run)
    \/ \E j \in 1 .. (k - 1) :
         par = P("segs", "Unicode", 32, Asc(S), [i \in 1 .. k |-> IF i = j + 1 THEN j ELSE i], Iota(k), k, 0, "before", t)

\* the 255/256 threshold of format 0 and the u16 range
PadCodes == {65, 66, 196, 256, 65536}
Pads == IF Deep THEN {0, 252, 253, 254, 255, 300} ELSE {0, 253, 254, 300}
\* slot vectors: one glyph per code; all codes on one glyph; the first two codes on one glyph
\* (several characters per glyph on both sides of every threshold)
PadSlots(k) == {Iota(k), [i \in 1 .. k |-> 1]} \cup (IF k >= 3 THEN {[i \in 1 .. k |-> IF i = 1 THEN 1 ELSE i - 1]} ELSE {})
MaxOf(sq) == Max(ToSet(sq))
InitPad ==
  \E S \in SubsetsUpTo(PadCodes, 3) \ {{}} : \E pd \in Pads : \E pp \in {"before", "after"} : \E t \in Targets :
    LET k == Cardinality(S) IN
    \E sl \in PadSlots(k) : LET g == MaxOf(sl) IN
    \E l \in {Iota(g), Rev(Iota(g))} : par = P("pad", "Unicode", 32, Asc(S), sl, l, g, pd, pp, t)
InitHuge ==
  /\ Deep
  /\ \E S \in {{65}, {65, 66}, {196, 256}, {65, 65535}, {65, 65536}, {65536, 65537}} : \E t \in Targets :
       LET k == Cardinality(S) IN
       \/ par = P("huge", "Unicode", 32, Asc(S), Iota(k), Rev(Iota(k)), k, 65530, "before", t)
       \/ k = 2 /\ par = P("huge", "Unicode", 32, Asc(S), <<1, 1>>, <<1>>, 1, 65530, "before", t)    \* two characters, one glyph

\* characters mapped to glyph 0 explicitly (a covered code whose glyph is 0: a format 4 segment whose
\* idDelta leads to 0 / a glyphIdArray entry 0 / a format 12 group starting at glyph 0): one code of S
\* goes to glyph 0, the others to glyphs 1 .. k-1
KZero == IF Deep THEN 4 ELSE 3
InitZero ==
  \E S \in SubsetsUpTo(UU, KZero) \ {{}} : \E z \in S : \E t \in Targets :
    LET cs == Asc(S)  k == Cardinality(S)
        zi == CHOOSE i \in 1 .. k : cs[i] = z
        sl == [i \in 1 .. k |-> IF i = zi THEN 0 ELSE IF i < zi THEN i ELSE i - 1]
    IN \E l \in {Iota(k - 1), Rev(Iota(k - 1))} : par = P("zero", "Unicode", 32, cs, sl, l, k - 1, 0, "before", t)

\* the BMP / astral border: one run of consecutive codes lo .. hi around 0xFFFF / 0x10000 on consecutive
\* glyphs (a format 12 source group spanning the border; for hi = 0xFFFF a format 4 source whose LAST
\* segment is a real one, startCode < 0xFFFF, endCode = 0xFFFF) or on descending glyphs (one group each)
InitBorder ==
  \E lo \in 65532 .. 65535 : \E hi \in {65535, 65536, 65537, 65539} : \E t \in Targets :
    /\ lo < hi
    /\ LET k == hi - lo + 1  cs == [i \in 1 .. k |-> lo + i - 1] IN
       \E sl \in {Iota(k), Rev(Iota(k))} : \E l \in Lists(k) : par = P("border", "Unicode", 32, cs, sl, l, k, 0, "before", t)

---------------------------------------------------------------------------
\* Mac Roman source (format 0, record 1/0): codes; 0x80 is A dieresis.  The source glyph ids stay
\* below 256 (padding "front"), the new ids cross 255.
MU == {65, 66, 67, 68, 72, 73, 78, 128}
XM == {MacToUni(b) : b \in MU \cup {64, 69, 129, 255}} \cup {256, 65536}
InitMac ==
  \E S \in SubsetsUpTo(MU, 3) : \E pd \in (IF Deep THEN {0, 253} ELSE {0}) : \E t \in Targets :
    LET k == Cardinality(S) IN
    \E l \in {Iota(k), Rev(Iota(k))} \cup (IF k > 0 THEN {Drop(Iota(k), 1)} ELSE {}) :
      par = P("mac", "AppleRoman", 32, Asc(S), Iota(k), l, k, pd, "front", t)   \* format 0 holds glyphs <= 255

---------------------------------------------------------------------------
\* Windows Symbol source (format 4, record 3/0).  Codes in the byte range 0x20..0xFF, in the PUA block
\* 0xF020..0xF0FF and outside both; OS/2.usFirstCharIndex over the whole parameter space: no OS/2 table
\* (Font and the subsetter fall back to 0x20), 0, 0x10, 0x1F (below 0x20), 0x20, 0x21, 0xF000, 0xF020 (the
\* usual value), 0xF0FF, 0xF100 (above every code: inconsistent OS/2).  Every target.
SymFirsts == {0, 16, 31, 32, 33, 61440, 61472, 61695, 61696}
SULow  == {33, 49, 64, 65, 66, 81, 167, 196}                  \* 0x21 0x31 0x40 0x41 0x42 0x51 0xA7 0xC4 (not 0xA4: U+00A4 is an optional Mac Roman character)
SUHigh == {61472, 61473, 61505, 61506, 61636, 61695}          \* 0xF020 0xF021 0xF041 0xF042 0xF0C4 0xF0FF
SU == SULow \cup SUHigh \cup {31, 61696}
SUNear == SU \cup {32, 67, 255, 256, 61440, 61504, 61507, 61697, 65535}
\* probes of a Symbol case: the codes themselves (symbol characters), and as Unicode characters: what
\* reaches the codes by Font's rule for this usFirstCharIndex, the PUA image of those, the raw codes (a
\* conversion that forgets the offset keys the output by them), and fixed characters
XSOf(f) ==
  LET reach == {c + 32 - f : c \in SUNear} \cap (0 .. 1114111)
  IN {SYM + s : s \in SUNear}
     \cup {x \in reach : IsScalar(x)} \cup {61440 + x : x \in reach \cap (0 .. 255)}
     \cup SULow \cup {61505, 61506, 61636}
     \cup {0, 32, 65, 66, 67, 68, 72, 73, 78, 97, 196, 197, 256, 8364}
SymOS2(f) == IF f = 32 THEN {TRUE, FALSE} ELSE {TRUE}
InitSym ==
  \E S \in SubsetsUpTo(SU, IF Deep THEN 3 ELSE 2) : \E f \in SymFirsts : \E o \in SymOS2(f) : \E t \in Targets :
    LET k == Cardinality(S) IN
    \E l \in {Iota(k), Rev(Iota(k))} \cup (IF k > 0 THEN {Drop(Iota(k), 1)} ELSE {}) :
      par = PO("sym", "Symbol", f, o, Asc(S), Iota(k), l, k, 0, "before", t)

---------------------------------------------------------------------------
\* Sources given as TABLES of module Cmap (round 3, after the seeded change C08-r3m1): every format whose
\* enumeration the subsetter walks (mappings_fn: 0, 2, 4, 6, 10, 12), with holes (glyphIndexArray / glyphIdArray
\* entries 0, also under a non-zero idDelta), idDelta arithmetic that wraps, windows on the first / last code of
\* the format's range, shared arrays, explicit glyph 0.  Glyphs 1 .. TG; the id lists retain all of them (in
\* order, reversed) or drop one of the first three (the glyph a wrongly applied idDelta would name among them).
TG == 6
\* subHeaderKeys: byte leads[i] -> sub-header i (times 8), every other byte -> sub-header 0
Keys2(leads) == [b \in 1 .. 256 |-> LET S == {i \in 1 .. Len(leads) : leads[i] = b - 1} IN IF S = {} THEN 0 ELSE 8 * (CHOOSE i \in S : TRUE)]
\* idRangeOffset of sub-header k (0-based) of N whose window starts at glyphIndexArray[j]
RO2(N, k, j) == 8 * (N - k) - 6 + 2 * j
Sub(f, c, d, N, k, j) == [first |-> f, count |-> c, delta |-> d, ro |-> RO2(N, k, j)]
F2(leads, subs, gia) == [fmt |-> 2, keys |-> Keys2(leads), subs |-> subs, gia |-> gia]
\* idRangeOffset of segment i (1-based) of N whose window starts at glyphIdArray[j]
RO4(N, i, j) == 2 * (N - (i - 1) + j)
Seg(s, e, d, ro) == [s |-> s, e |-> e, delta |-> d, ro |-> ro]
LastSeg == Seg(65535, 65535, 1, 0)
Grp(s, e, g) == [s |-> s, e |-> e, g |-> g]
TS(name, p, e, enc, t) == [name |-> name, p |-> p, e |-> e, enc |-> enc, t |-> t]

TabSources == <<
  \* ---- format 2 under a Unicode record: the codes are the characters
  \* single-byte codes only, holes, idDelta 0
  TS("f2-single", 3, 1, "Unicode", F2(<<>>, <<Sub(65, 5, 0, 1, 0, 0)>>, <<1, 0, 2, 3, 0>>)),
  \* single-byte codes, holes under a non-zero idDelta (entry 0 stays glyph 0, not glyph idDelta)
  TS("f2-single-delta-holes", 3, 1, "Unicode", F2(<<>>, <<Sub(65, 5, 2, 1, 0, 0)>>, <<1, 0, 3, 0, 2>>)),
  \* two-byte codes, holes under a non-zero idDelta; glyph idDelta (2) is a glyph of the font
  TS("f2-double-delta-holes", 3, 1, "Unicode",
     F2(<<129>>, <<Sub(65, 2, 0, 2, 0, 0), Sub(64, 4, 2, 2, 1, 2)>>, <<5, 6, 1, 0, 2, 0>>)),
  \* idDelta arithmetic modulo 65536: negative delta, and entry + delta beyond 65535
  TS("f2-delta-wraps", 3, 1, "Unicode",
     F2(<<129, 130>>, <<Sub(65, 1, 0, 3, 0, 0), Sub(64, 4, -4, 3, 1, 1), Sub(161, 3, 3, 3, 2, 5)>>, <<1, 5, 6, 0, 10, 65535, 0, 65534>>)),
  \* two sub-headers whose windows overlap in the glyphIndexArray, different idDelta; two lead bytes with ONE sub-header
  TS("f2-shared-arrays", 3, 1, "Unicode",
     F2(<<129, 130>>, <<Sub(66, 1, 0, 3, 0, 0), Sub(64, 3, 0, 3, 1, 1), Sub(161, 2, 1, 3, 2, 2)>>, <<6, 1, 2, 3>>)),
  TS("f2-two-leads-one-subheader", 3, 1, "Unicode",
     [fmt |-> 2, keys |-> [b \in 1 .. 256 |-> IF b - 1 \in {129, 144} THEN 8 ELSE 0],
      subs |-> <<Sub(65, 2, 0, 2, 0, 0), Sub(64, 3, 1, 2, 1, 2)>>, gia |-> <<5, 6, 1, 0, 3>>]),
  \* windows on the boundaries: low byte 0 and 0xFF, lead bytes 0x01 and 0xFF, single-byte codes 0 and 0xFE, a
  \* sub-header without entries
  TS("f2-boundaries", 3, 1, "Unicode",
     F2(<<1, 255, 144>>, <<Sub(0, 1, 0, 4, 0, 0), Sub(0, 2, 1, 4, 1, 1), Sub(254, 2, 0, 4, 2, 3), Sub(64, 0, 5, 4, 3, 0)>>, <<1, 0, 2, 3, 4>>)),
  TS("f2-single-last", 3, 1, "Unicode", F2(<<>>, <<Sub(254, 2, 1, 1, 0, 0)>>, <<0, 1>>)),
  \* ---- format 2 under the Windows Big5 record (the route Big5 fonts take): ASCII single bytes, lead byte 0xA4
  \* with 0xA440 .. 0xA445 (holes at U+4E59, U+4E43; idDelta 1: glyph 1 exists)
  TS("big5-f2-delta-holes", 3, 4, "Big5",
     F2(<<164>>, <<Sub(65, 2, 0, 2, 0, 0), Sub(64, 6, 1, 2, 1, 2)>>, <<1, 6, 1, 0, 2, 3, 0, 4>>)),
  \* lead bytes 0xA1 (U+3000, U+3002; the codes between are holes), 0xA3 (U+03B5), 0xA6 (U+597D), 0xF9 (U+9F98)
  TS("big5-f2-sample", 3, 4, "Big5",
     F2(<<161, 163, 166, 249>>,
        <<Sub(126, 1, 0, 5, 0, 0), Sub(64, 4, 3, 5, 1, 1), Sub(96, 1, -2, 5, 2, 5), Sub(110, 1, 0, 5, 3, 6), Sub(213, 1, 65535 - 65536, 5, 4, 7)>>,
        <<6, 65534, 0, 0, 65535, 5, 4, 4>>)),
  \* single-byte sub-header only (an ASCII-only Big5 font), holes under idDelta 3
  TS("big5-f2-single", 3, 4, "Big5", F2(<<>>, <<Sub(65, 4, 3, 1, 0, 0)>>, <<1, 0, 0, 2>>)),
  \* ---- round 4: Big5 sources beyond the plain table
  \* codes that are NOT Big5 codes listing retained glyphs (they denote no character: nothing may be kept for them):
  \* single bytes 0xFE / 0xFF, the "lead" bytes 0x41 (ASCII), 0x80 and 0xFF (outside 0x81..0xFE) with trail byte
  \* 0x41 / 0x40, lead byte 0xA4 with the trail bytes 0x7F and 0xA0 (outside 0x40..0x7E / 0xA1..0xFE) next to the
  \* real 0xA440 (U+4E00 -> glyph 5).  A decoder that takes 0x4141 for two ASCII bytes keeps 'A', one that computes
  \* the index pointer of 0xA47F without the range test keeps U+4E5F (0xA45D has that pointer).
  TS("big5-f2-not-big5-codes", 3, 4, "Big5",
     F2(<<65, 128, 255, 164>>,
        <<Sub(254, 2, 0, 5, 0, 0), Sub(65, 1, 0, 5, 1, 2), Sub(64, 1, 0, 5, 2, 3), Sub(64, 1, 0, 5, 3, 4), Sub(64, 97, 0, 5, 4, 5)>>,
        <<1, 1, 2, 3, 4>> \o [i \in 1 .. 97 |-> IF i = 1 THEN 5 ELSE IF i \in {64, 97} THEN 6 ELSE 0])),
  \* characters Big5 holds twice (U+2550: 0xA2A4 / 0xF9F9, U+5341: 0xA2CC / 0xA451, U+5345: 0xA2CE / 0xA4CA), both
  \* codes of a character on ONE glyph (the second callback overwrites the first entry of the map); the codes
  \* between them in the windows are holes
  TS("big5-f2-characters-with-two-codes", 3, 4, "Big5",
     F2(<<162, 164, 249>>,
        <<Sub(66, 1, 0, 4, 0, 0), Sub(164, 43, 0, 4, 1, 1), Sub(81, 122, 0, 4, 2, 44), Sub(249, 1, 0, 4, 3, 166)>>,
        <<4>> \o [i \in 1 .. 43 |-> IF i = 1 THEN 1 ELSE IF i = 41 THEN 2 ELSE IF i = 43 THEN 3 ELSE 0]
              \o [i \in 1 .. 122 |-> IF i = 1 THEN 2 ELSE IF i = 122 THEN 3 ELSE 0] \o <<1>>)),
  \* a Big5 record over a format 4 sub-table (the encoding comes from the record, the format from the sub-table):
  \* ASCII by idDelta, 0xA440 .. 0xA443 by an idDelta that wraps, 0xA444 .. 0xA447 through the glyphIdArray with a hole
  TS("big5-f4", 3, 4, "Big5",
     [fmt |-> 4, segs |-> <<Seg(65, 66, -64, 0), Seg(42048, 42051, 23491, 0), Seg(42052, 42055, 0, RO4(4, 3, 0)), LastSeg>>,
      gia |-> <<1, 0, 2, 5>>]),
  \* ... and over a format 6 sub-table (single bytes only: an ASCII Big5 font), holes, a byte >= 0x80
  TS("big5-f6", 3, 4, "Big5", [fmt |-> 6, first |-> 125, gia |-> <<1, 2, 3, 4>>]),
  \* ---- format 2 under the Windows Symbol record
  TS("sym-f2-double-delta-holes", 3, 0, "Symbol",
     F2(<<240>>, <<Sub(65, 2, 0, 2, 0, 0), Sub(64, 4, 2, 2, 1, 2)>>, <<5, 6, 1, 0, 2, 0>>)),
  \* ---- format 6
  TS("f6-holes", 3, 1, "Unicode", [fmt |-> 6, first |-> 65, gia |-> <<1, 0, 2, 0, 0, 3>>]),
  TS("f6-first-code-0", 0, 3, "Unicode", [fmt |-> 6, first |-> 0, gia |-> <<1, 2, 0, 3>>]),
  TS("f6-ends-0xFFFF", 3, 1, "Unicode", [fmt |-> 6, first |-> 65533, gia |-> <<4, 0, 5>>]),
  TS("f6-leading-and-trailing-0", 3, 1, "Unicode", [fmt |-> 6, first |-> 64, gia |-> <<0, 6, 5, 0>>]),
  TS("mac-f6-holes", 1, 0, "AppleRoman", [fmt |-> 6, first |-> 65, gia |-> <<1, 0, 2>>]),
  TS("mac-f6-ends-0xFF", 1, 0, "AppleRoman", [fmt |-> 6, first |-> 253, gia |-> <<3, 0, 4>>]),
  TS("sym-f6-pua", 3, 0, "Symbol", [fmt |-> 6, first |-> 61505, gia |-> <<1, 0, 2>>]),
  \* ---- format 10
  TS("f10-holes", 3, 10, "Unicode", [fmt |-> 10, first |-> 65, gia |-> <<0, 1, 0, 2>>]),
  TS("f10-spans-bmp-border", 3, 10, "Unicode", [fmt |-> 10, first |-> 65534, gia |-> <<1, 0, 2, 3>>]),
  TS("f10-ends-0x10FFFF", 0, 4, "Unicode", [fmt |-> 10, first |-> 1114110, gia |-> <<5, 6>>]),
  TS("f10-first-code-0", 3, 10, "Unicode", [fmt |-> 10, first |-> 0, gia |-> <<4, 0, 3>>]),
  \* ---- format 0 under a Unicode record: codes 0 and 255, holes everywhere else
  TS("f0-unicode", 0, 3, "Unicode", [fmt |-> 0, gia |-> [b \in 1 .. 256 |-> IF b = 1 THEN 1 ELSE IF b = 66 THEN 2 ELSE IF b = 68 THEN 3 ELSE IF b = 256 THEN 4 ELSE 0]]),
  TS("mac-f0-first-last", 1, 0, "AppleRoman", [fmt |-> 0, gia |-> [b \in 1 .. 256 |-> IF b = 33 THEN 1 ELSE IF b = 66 THEN 2 ELSE IF b = 129 THEN 3 ELSE IF b = 256 THEN 4 ELSE 0]]),
  \* ---- format 4: glyphIdArray windows with holes under a non-zero idDelta, idDelta that wraps both ways
  TS("f4-gia-delta-holes", 3, 1, "Unicode",
     [fmt |-> 4, segs |-> <<Seg(65, 68, 3, RO4(2, 1, 0)), LastSeg>>, gia |-> <<1, 0, 2, 65535>>]),
  TS("f4-delta-wraps", 3, 1, "Unicode",
     [fmt |-> 4, segs |-> <<Seg(97, 99, -96, 0), Seg(65520, 65522, 20, 0), LastSeg>>, gia |-> <<>>]),
  TS("f4-shared-gia", 3, 1, "Unicode",
     [fmt |-> 4, segs |-> <<Seg(65, 66, 0, RO4(3, 1, 0)), Seg(72, 74, 1, RO4(3, 2, 1)), LastSeg>>, gia |-> <<1, 2, 0, 4>>]),
  TS("sym-f4-gia-delta-holes", 3, 0, "Symbol",
     [fmt |-> 4, segs |-> <<Seg(61505, 61508, 3, RO4(2, 1, 0)), LastSeg>>, gia |-> <<1, 0, 2, 65535>>]),
  \* ---- format 12: a group that starts at glyph 0, codes that are not characters (surrogates), the last scalar
  TS("f12-group-from-glyph-0", 3, 10, "Unicode", [fmt |-> 12, groups |-> <<Grp(65, 68, 0), Grp(72, 72, 5)>>]),
  TS("f12-surrogates", 3, 10, "Unicode", [fmt |-> 12, groups |-> <<Grp(55295, 55296, 3), Grp(57343, 57344, 1)>>]),
  TS("f12-last-scalar", 0, 4, "Unicode", [fmt |-> 12, groups |-> <<Grp(65535, 65536, 1), Grp(1114111, 1114111, 6)>>]) >>
NTab == Len(TabSources)
TabT(i) == TabSources[i].t

\* probes of a table source: the characters of the listed codes and of their neighbours (for format 2 only complete
\* codes: Cmap!Dev_Fmt2Incomplete leaves the others open), and fixed ones; no optional Mac Roman character
NearCodes(t) == LET C == Covered(t) IN C \cup {c - 1 : c \in C} \cup {c + 1 : c \in C} \cup {0, 65, 66, 255, 256, 65535, 65536, 1114111}
TabCodes(t) == {c \in NearCodes(t) : c >= 0 /\ c <= 1114111 /\ (t.fmt # 2 \/ c > 65535 \/ Valid2(t, c))}
XTOf(i) ==
  LET ts == TabSources[i]  C == TabCodes(ts.t) IN
  (CASE ts.enc = "Unicode"    -> {c \in C : IsScalar(c)}
     [] ts.enc = "Symbol"     -> {SYM + c : c \in C} \cup {c \in C : IsScalar(c) /\ c \notin PuaImage}
     [] ts.enc = "AppleRoman" -> {MacToUni(b) : b \in C \cap (0 .. 255)} \cup {256, 65536}
     [] ts.enc = "Big5"       -> Big5KnownChars \cup NotBig5Chars \cup {12289, 20058, 65536, 127, 128, 254, 255, 9553, 21314, 21316})
  \ MacOptionalChars
TabLists == {Iota(TG), Rev(Iota(TG)), Drop(Iota(TG), 1), Drop(Iota(TG), 2), Drop(Iota(TG), 3)}
            \cup (IF Deep THEN {Drop(Iota(TG), j) : j \in 4 .. TG} \cup {SwapAdj(Iota(TG), j) : j \in 1 .. (TG - 1)}
                                \cup {Drop(Drop(Iota(TG), 1), 1), <<2>>, <<>>}
                        ELSE {})
InitTab ==
  \E i \in 1 .. NTab : \E l \in TabLists : \E t \in Targets :
    par = PT(i, TabSources[i].enc, l, TG, t)

---------------------------------------------------------------------------
\* concretisation: slot j is glyph pad + j ("before") or j ("after", "front"); the pad glyphs are
\* listed before the slot glyphs ("before", "front") or after them ("after")
GidOf(p, slot) == IF slot = 0 THEN 0 ELSE IF p.padpos = "before" THEN p.pad + slot ELSE slot
CaseOf(p) ==
  [enc |-> p.enc, first |-> p.first, target |-> p.target,
   sm  |-> IF p.fam = "tab" THEN EnumSeq(TabT(p.src)) ELSE [i \in 1 .. Len(p.codes) |-> <<p.codes[i], GidOf(p, p.slots[i])>>],
   ids |-> CASE p.padpos = "before" -> <<0>> \o Iota(p.pad) \o [i \in 1 .. Len(p.list) |-> p.pad + p.list[i]]
             [] p.padpos = "after"  -> <<0>> \o p.list \o [i \in 1 .. p.pad |-> p.G + i]
             [] p.padpos = "front"  -> <<0>> \o [i \in 1 .. p.pad |-> p.G + i] \o p.list]
NumGlyphs(p) == 1 + p.G + p.pad
ProbesOf(p) == IF p.fam = "tab" THEN XTOf(p.src)
               ELSE CASE p.enc = "Unicode" -> XU [] p.enc = "AppleRoman" -> XM [] p.enc = "Symbol" -> XSOf(p.first)
ProbeSetName(p) == IF p.fam = "tab" THEN "XT" \o ToString(p.src)
                   ELSE CASE p.enc = "Unicode" -> "XU" [] p.enc = "AppleRoman" -> "XM" [] p.enc = "Symbol" -> "XS" \o ToString(p.first)

\* printed once: the probe characters of each family (all: every probe; Unicode / AppleRoman /
\* Symbol: the probes for which the Font view is judged when the output record has that encoding)
ProbeJson(X) == [all |-> Asc(X),
                 Unicode    |-> Asc({x \in X : FontViewApplies("Unicode", x)}),
                 AppleRoman |-> Asc({x \in X : FontViewApplies("AppleRoman", x)}),
                 Symbol     |-> Asc({x \in X : FontViewApplies("Symbol", x)})]
ASSUME PrintT(<<"PROBES", ToJson([XU |-> ProbeJson(XU), XM |-> ProbeJson(XM), sym |-> SYM] @@
                                 [n \in {"XS" \o ToString(f) : f \in SymFirsts} |->
                                    ProbeJson(XSOf(CHOOSE f \in SymFirsts : "XS" \o ToString(f) = n))] @@
                                 [n \in {"XT" \o ToString(i) : i \in 1 .. NTab} |->
                                    ProbeJson(XTOf(CHOOSE i \in 1 .. NTab : "XT" \o ToString(i) = n))])>>)

\* the table sources are sound, their enumeration is what their lookups say (Cmap!EnumerateEqualsLookups), every
\* non-zero glyph is one of the font, and a Big5 source lists glyphs only under codes this specification knows
ASSUME \A i \in 1 .. NTab :
         LET ts == TabSources[i] IN
         /\ SoundSource(ts.t)
         /\ EnumerateEqualsLookups(ts.t, TabCodes(ts.t))
         /\ \A k \in 1 .. Len(EnumSeq(ts.t)) : EnumSeq(ts.t)[k][2] \in 0 .. TG
         /\ ts.enc = "Big5" => \A k \in 1 .. Len(EnumSeq(ts.t)) :
                                  EnumSeq(ts.t)[k][2] # 0 => (Big5ToUni(EnumSeq(ts.t)[k][1]) # NoChar \/ ~ValidBig5Code(EnumSeq(ts.t)[k][1]))

\* ---- the inverse law of the Symbol -> Mac Roman conversion (CmapSubset!SymInverseLaw) -------------------
\* over every 16-bit code (a format 4 source holds no other), usFirstCharIndex on both sides of 0x20, of
\* 0xF000 / 0xF020 / 0xF0FF and at the ends of its range, and as characters: every Mac Roman character,
\* U+0000..U+02FF, the PUA image, and a few far ones
LawFirsts == SymFirsts \cup {1, 127, 61471, 61473, 65535}
LawCodes  == 0 .. 65535
LawChars  == MacRomanChars \cup (0 .. 767) \cup PuaImage \cup {8364, 65535, 65536, 1114111}
ASSUME FixSymInv => SymInverseLaw(SymToUni, LawFirsts, LawCodes, LawChars)
\* the law discriminates: the named wrong readings break it, exactly where the usual values cannot show it
ASSUME SymInverseLaw(SymToUni_SaturatingOffset, {f \in LawFirsts : f >= 32}, LawCodes, LawChars)
ASSUME \A f \in {0, 1, 16, 31} : ~SymInverseLaw(SymToUni_SaturatingOffset, {f}, LawCodes, LawChars)
ASSUME ~SymInverseLaw(SymToUni_PuaFirst, {32}, LawCodes, LawChars)

Init == (InitSmall \/ InitSegs \/ InitPad \/ InitHuge \/ InitZero \/ InitBorder \/ InitMac \/ InitSym \/ InitTab) /\ done = FALSE
Next == done = FALSE /\ done' = TRUE /\ UNCHANGED par
Spec == Init /\ [][Next]_vars

---------------------------------------------------------------------------
DesignOK ==
  done =>
    LET c == CaseOf(par)  X == ProbesOf(par) IN
    /\ \A x \in X : Cardinality(Expected(c, x)) = 1        \* no optional character among the probes
    \* a table source: the glyph the property speaks of is the one the table's LOOKUP gives the character's code
    /\ par.fam = "tab" => \A x \in X : LET code == SrcCodeV(c, x, 164) IN
                                        SrcGlyph(c, x) = (IF code = NoCode THEN 0 ELSE Map(TabT(par.src), code))
    /\ WrittenWellFormed(Subset(c))
    /\ ~Failed(Subset(c))
    /\ SubsetCmapOK(c, X) \/ (~FixFmt0 /\ Fmt0Overflow(c)) \/ (~FixSymInv /\ SymInvDiverges(c))
    /\ (~FixFmt0 /\ Fmt0Overflow(c)) => ~SubsetCmapOK(c, X)

\* the predicted record, flattened for JSON
PredOf(rec) ==
  [p |-> rec.p, e |-> rec.e, fmt |-> rec.tab.fmt,
   segs |-> IF rec.tab.fmt = 4
            THEN [i \in 1 .. Len(rec.tab.segs) |-> <<rec.tab.segs[i].s, rec.tab.segs[i].e, rec.tab.segs[i].delta, rec.tab.segs[i].ro>>]
            ELSE <<>>,
   gia  |-> IF rec.tab.fmt = 4 THEN rec.tab.gia ELSE <<>>,
   groups |-> IF rec.tab.fmt = 12
              THEN [i \in 1 .. Len(rec.tab.groups) |-> <<rec.tab.groups[i].s, rec.tab.groups[i].e, rec.tab.groups[i].g>>]
              ELSE <<>>,
   nz   |-> IF rec.tab.fmt = 0
            THEN LET N == Asc({b \in 0 .. 255 : rec.tab.gia[b + 1] # 0}) IN [i \in 1 .. Len(N) |-> <<N[i], rec.tab.gia[N[i] + 1]>>]
            ELSE <<>>]

NonZero(s) == SelectSeq(s, LAMBDA e : e[2] # 0)
CaseJson(p) ==
  LET c   == CaseOf(p)
      rec == Subset(c)
      X   == Asc(ProbesOf(p))
      xe  == NonZero([i \in 1 .. Len(X) |-> <<X[i], CHOOSE v \in Expected(c, X[i]) : TRUE>>])
      xp  == NonZero([i \in 1 .. Len(X) |-> <<X[i], OutMap(rec, X[i])>>])
  IN [fam |-> p.fam, enc |-> p.enc, first |-> p.first, os2 |-> p.os2, target |-> p.target, n |-> NumGlyphs(p),
      pad |-> p.pad, sm |-> c.sm, ids |-> c.ids,
      xs |-> ProbeSetName(p),
      \* a table source: the record and the sub-table to encode, in the vocabulary of module Cmap
      src |-> IF p.fam = "tab" THEN [name |-> TabSources[p.src].name, p |-> TabSources[p.src].p, e |-> TabSources[p.src].e, tab |-> TabT(p.src)]
              ELSE [name |-> "", p |-> 0, e |-> 0, tab |-> [fmt |-> -1]],
      x  |-> xe,                                  \* non-zero expectations; every other probe: 0
      same |-> xe = xp,                           \* the writer model predicts exactly x
      pm |-> IF xe = xp THEN <<>> ELSE xp,        \* otherwise: the model's non-zero predictions
      pred |-> PredOf(rec),
      shape |-> Shape(c),
      dev |-> (~FixFmt0 /\ Fmt0Overflow(c)) \/ (~FixSymInv /\ SymInvDiverges(c))]

EmitCase == done => PrintT(<<"CASE", ToJson(CaseJson(par))>>)
=============================================================================
