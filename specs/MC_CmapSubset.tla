--------------------------- MODULE MC_CmapSubset ---------------------------
(***************************************************************************)
(* Bounded exploration of CmapSubset and generator of replay cases (C08).  *)
(*                                                                         *)
(* A state is one case (source mapping, glyph id list, target), chosen by  *)
(* Init from the parameter families below; one Next step marks it done.    *)
(* On done states                                                          *)
(*   DesignOK : SubsetCmapOK on the model of the writer.  With FixFmt0 =   *)
(*              TRUE (repaired design) it must hold everywhere; with       *)
(*              FixFmt0 = FALSE (the code) it must fail exactly on the     *)
(*              cases named by Fmt0Overflow (the known finding).           *)
(*   EmitCase : prints the case: source pairs, glyph count, id list,       *)
(*              target, for every probe character the glyph the PROPERTY   *)
(*              prescribes (x) and what the writer model predicts (pm,     *)
(*              pred = the predicted encoding record).                     *)
(* Glyph "slots" 1..G stand for the glyphs that characters map to; `pad`   *)
(* unmapped glyphs are retained before (or after) them so that new glyph   *)
(* ids cross 255/256 and approach 65535.                                   *)
(***************************************************************************)
EXTENDS CmapSubset, Json

CONSTANT Deep           \* TRUE: thorough tier

VARIABLES par, done
vars == <<par, done>>

Asc(S) == SetToSortSeq(S, LAMBDA a, b : a < b)
SubsetsUpTo(S, k) == UNION {kSubset(j, S) : j \in 0 .. k}
InjSeqs(K) == UNION {{s \in [1 .. m -> 1 .. K] : \A i, j \in 1 .. m : i # j => s[i] # s[j]} : m \in 0 .. K}
Iota(k) == [i \in 1 .. k |-> i]
Rev(s) == [i \in 1 .. Len(s) |-> s[Len(s) + 1 - i]]
SwapAdj(s, j) == [i \in 1 .. Len(s) |-> IF i = j THEN s[j + 1] ELSE IF i = j + 1 THEN s[j] ELSE s[i]]
Drop(s, j) == [i \in 1 .. (Len(s) - 1) |-> IF i < j THEN s[i] ELSE s[i + 1]]
Targets == {"Unrestricted", "MacRoman"}

P(fam, enc, first, codes, slots, list, G, pad, padpos, target) ==
  [fam |-> fam, enc |-> enc, first |-> first, codes |-> codes, slots |-> slots, list |-> list,
   G |-> G, pad |-> pad, padpos |-> padpos, target |-> target]

---------------------------------------------------------------------------
\* Unicode sources.  0xC4 is Mac Roman but not ASCII; 0x100 BMP; 0xFFFE/0xFFFF touch the final
\* format 4 segment; 0x10000.. astral.
UU == {65, 66, 67, 68, 72, 73, 78, 196, 256, 257, 65534, 65535, 65536, 65537}
XU == UU \cup {0, 64, 69, 71, 74, 77, 79, 126, 195, 197, 255, 258, 65531, 65533, 65538, 1114111}

\* every mapping of up to K codes onto K glyphs x every duplicate-free id list over them
KSmall == IF Deep THEN 3 ELSE 2
InitSmall ==
  \E S \in SubsetsUpTo(UU, KSmall) : \E a \in [1 .. Cardinality(S) -> 1 .. KSmall] :
  \E l \in InjSeqs(KSmall) : \E t \in Targets :
    par = P("small", "Unicode", 32, Asc(S), a, l, KSmall, 0, "before", t)

\* the format 4 segment builder: runs, gaps of 0..3 and of 4 and more, the compact rule (four
\* consecutive ids), non-consecutive ids, dropped glyphs; optionally one far code
B7 == {65, 66, 67, 68, 72, 73, 78}
Extras == IF Deep THEN {{}, {196}, {256, 257}, {65535}, {65534, 65535}, {65536}, {65531, 65535}}
                  ELSE {{}, {196}, {65534, 65535}, {65536}}
Lists(k) == {Iota(k), Rev(Iota(k))} \cup {SwapAdj(Iota(k), j) : j \in 1 .. (k - 1)} \cup {Drop(Iota(k), j) : j \in 1 .. k}
SegPads == IF Deep THEN {0, 253} ELSE {0}
InitSegs ==
  \E T \in {T \in SUBSET B7 : Cardinality(T) >= 3} : \E E \in Extras : \E t \in Targets :
    LET S == T \cup E  k == Cardinality(S) IN
    \/ \E l \in Lists(k) : \E pd \in SegPads : par = P("segs", "Unicode", 32, Asc(S), Iota(k), l, k, pd, "before", t)
    \/ par = P("segs", "Unicode", 32, Asc(S), [i \in 1 .. k |-> 1], <<1>>, 1, 0, "before", t)
    \* two neighbouring codes on one glyph (ids g, g+1, g+1 after a run)
    \/ \E j \in 1 .. (k - 1) :
         par = P("segs", "Unicode", 32, Asc(S), [i \in 1 .. k |-> IF i = j + 1 THEN j ELSE i], Iota(k), k, 0, "before", t)

\* the 255/256 threshold of format 0 and the u16 range
PadCodes == {65, 66, 196, 256, 65536}
Pads == IF Deep THEN {0, 252, 253, 254, 255, 300} ELSE {0, 253, 254, 300}
InitPad ==
  \E S \in SubsetsUpTo(PadCodes, 3) \ {{}} : \E pd \in Pads : \E pp \in {"before", "after"} : \E t \in Targets :
    LET k == Cardinality(S) IN
    \E l \in {Iota(k), Rev(Iota(k))} : par = P("pad", "Unicode", 32, Asc(S), Iota(k), l, k, pd, pp, t)
InitHuge ==
  /\ Deep
  /\ \E S \in {{65}, {65, 66}, {196, 256}, {65, 65535}, {65, 65536}, {65536, 65537}} : \E t \in Targets :
       LET k == Cardinality(S) IN par = P("huge", "Unicode", 32, Asc(S), Iota(k), Rev(Iota(k)), k, 65530, "before", t)

---------------------------------------------------------------------------
\* Mac Roman source (format 0, record 1/0): codes; 0x80 is A dieresis.  The source glyph ids stay
\* below 256 (padding "front"), the new ids cross 255.
MU == {65, 66, 67, 68, 72, 73, 78, 128}
XM == {MacToUni(b) : b \in MU \cup {64, 69, 129, 255}} \cup {256, 65536}
InitMac ==
  \E S \in SubsetsUpTo(MU, 3) : \E pd \in (IF Deep THEN {0, 253} ELSE {0}) : \E t \in Targets :
    LET k == Cardinality(S) IN
    \E l \in {Iota(k), Rev(Iota(k))} \cup (IF k > 0 THEN {Drop(Iota(k), 1)} ELSE {}) :
      par = P("mac", "AppleRoman", 32, Asc(S), Iota(k), l, k, pd, "front", t)   \* format 0 holds glyphs <= 255

---------------------------------------------------------------------------
\* Windows Symbol source (format 4, record 3/0): codes in the PUA block F000..F0FF, below 0x100
\* and outside both; usFirstCharIndex 0xF020 (the usual), 0x20, or 0xF100 (above the codes: inconsistent OS/2)
SU == {61505, 61506, 61507, 61508, 61512, 61513, 61518, 61636, 65, 66, 61696}
XS == {SYM + s : s \in SU \cup {61504, 61509, 64, 67, 61695, 61697, 65535}}
      \cup {65, 66, 67, 68, 72, 73, 78, 196, 64, 197, 61505, 61506, 61636, 256}
InitSym ==
  \E S \in SubsetsUpTo(SU, IF Deep THEN 3 ELSE 2) : \E f \in {61472, 32, 61696} : \E t \in Targets :
    LET k == Cardinality(S) IN
    \E l \in {Iota(k), Rev(Iota(k))} \cup (IF k > 0 THEN {Drop(Iota(k), 1)} ELSE {}) :
      par = P("sym", "Symbol", f, Asc(S), Iota(k), l, k, 0, "before", t)

---------------------------------------------------------------------------
\* concretisation: slot j is glyph pad + j ("before") or j ("after", "front"); the pad glyphs are
\* listed before the slot glyphs ("before", "front") or after them ("after")
GidOf(p, slot) == IF p.padpos = "before" THEN p.pad + slot ELSE slot
CaseOf(p) ==
  [enc |-> p.enc, first |-> p.first, target |-> p.target,
   sm  |-> [i \in 1 .. Len(p.codes) |-> <<p.codes[i], GidOf(p, p.slots[i])>>],
   ids |-> CASE p.padpos = "before" -> <<0>> \o Iota(p.pad) \o [i \in 1 .. Len(p.list) |-> p.pad + p.list[i]]
             [] p.padpos = "after"  -> <<0>> \o p.list \o [i \in 1 .. p.pad |-> p.G + i]
             [] p.padpos = "front"  -> <<0>> \o [i \in 1 .. p.pad |-> p.G + i] \o p.list]
NumGlyphs(p) == 1 + p.G + p.pad
ProbesOf(p) == CASE p.enc = "Unicode" -> XU [] p.enc = "AppleRoman" -> XM [] p.enc = "Symbol" -> XS
ProbeSetName(p) == CASE p.enc = "Unicode" -> "XU" [] p.enc = "AppleRoman" -> "XM" [] p.enc = "Symbol" -> "XS"

\* printed once: the probe characters of each family (all: every probe; Unicode / AppleRoman /
\* Symbol: the probes for which the Font view is judged when the output record has that encoding)
ProbeJson(X) == [all |-> Asc(X),
                 Unicode    |-> Asc({x \in X : FontViewApplies("Unicode", x)}),
                 AppleRoman |-> Asc({x \in X : FontViewApplies("AppleRoman", x)}),
                 Symbol     |-> Asc({x \in X : FontViewApplies("Symbol", x)})]
ASSUME PrintT(<<"PROBES", ToJson([XU |-> ProbeJson(XU), XM |-> ProbeJson(XM), XS |-> ProbeJson(XS), sym |-> SYM])>>)

Init == (InitSmall \/ InitSegs \/ InitPad \/ InitHuge \/ InitMac \/ InitSym) /\ done = FALSE
Next == done = FALSE /\ done' = TRUE /\ UNCHANGED par
Spec == Init /\ [][Next]_vars

---------------------------------------------------------------------------
DesignOK ==
  done =>
    LET c == CaseOf(par)  X == ProbesOf(par) IN
    /\ \A x \in X : Cardinality(Expected(c, x)) = 1        \* no optional character among the probes
    /\ WrittenWellFormed(Subset(c))
    /\ ~Failed(Subset(c))
    /\ SubsetCmapOK(c, X) \/ (~FixFmt0 /\ Fmt0Overflow(c)) \/ (~FixSymInv /\ SymInvDiverges(c))
    /\ (~FixFmt0 /\ Fmt0Overflow(c)) => ~SubsetCmapOK(c, X)

\* the predicted record, flattened for JSON
PredOf(rec) ==
  [p |-> rec.p, e |-> rec.e, fmt |-> rec.tab.fmt,
   segs |-> IF rec.tab.fmt = 4
            THEN [i \in 1 .. Len(rec.tab.segs) |-> <<rec.tab.segs[i].s, rec.tab.segs[i].e, rec.tab.segs[i].delta, rec.tab.segs[i].ro>>]
            ELSE <<>>,
   gia  |-> IF rec.tab.fmt = 4 THEN rec.tab.gia ELSE <<>>,
   groups |-> IF rec.tab.fmt = 12
              THEN [i \in 1 .. Len(rec.tab.groups) |-> <<rec.tab.groups[i].s, rec.tab.groups[i].e, rec.tab.groups[i].g>>]
              ELSE <<>>,
   nz   |-> IF rec.tab.fmt = 0
            THEN LET N == Asc({b \in 0 .. 255 : rec.tab.gia[b + 1] # 0}) IN [i \in 1 .. Len(N) |-> <<N[i], rec.tab.gia[N[i] + 1]>>]
            ELSE <<>>]

NonZero(s) == SelectSeq(s, LAMBDA e : e[2] # 0)
CaseJson(p) ==
  LET c   == CaseOf(p)
      rec == Subset(c)
      X   == Asc(ProbesOf(p))
      xe  == NonZero([i \in 1 .. Len(X) |-> <<X[i], CHOOSE v \in Expected(c, X[i]) : TRUE>>])
      xp  == NonZero([i \in 1 .. Len(X) |-> <<X[i], OutMap(rec, X[i])>>])
  IN [fam |-> p.fam, enc |-> p.enc, first |-> p.first, target |-> p.target, n |-> NumGlyphs(p),
      pad |-> p.pad, sm |-> c.sm, ids |-> c.ids,
      xs |-> ProbeSetName(p),
      x  |-> xe,                                  \* non-zero expectations; every other probe: 0
      same |-> xe = xp,                           \* the writer model predicts exactly x
      pm |-> IF xe = xp THEN <<>> ELSE xp,        \* otherwise: the model's non-zero predictions
      pred |-> PredOf(rec),
      shape |-> Shape(c),
      dev |-> Fmt0Overflow(c) \/ SymInvDiverges(c)]

EmitCase == done => PrintT(<<"CASE", ToJson(CaseJson(par))>>)
=============================================================================
