--------------------------- MODULE MC_CmapSubset ---------------------------
(***************************************************************************)
(* Bounded exploration of CmapSubset and generator of replay cases (C08).  *)
(*                                                                         *)
(* A state is one case (source mapping, glyph id list, target), chosen by  *)
(* Init from the parameter families below; one Next step marks it done.    *)
(* On done states                                                          *)
(*   DesignOK : SubsetCmapOK on the model of the writer.  With FixFmt0 =   *)
(*              TRUE (repaired design) it must hold everywhere; with       *)
(*              FixFmt0 = FALSE (the code) it must fail exactly on the     *)
(*              cases named by Fmt0Overflow (the known finding).           *)
(*   EmitCase : prints the case: source pairs, glyph count, id list,       *)
(*              target, for every probe character the glyph the PROPERTY   *)
(*              prescribes (x) and what the writer model predicts (pm,     *)
(*              pred = the predicted encoding record).                     *)
(* Glyph "slots" 1..G stand for the glyphs that characters map to; `pad`   *)
(* unmapped glyphs are retained before (or after) them so that new glyph   *)
(* ids cross 255/256 and approach 65535.                                   *)
(***************************************************************************)
EXTENDS CmapSubset, Json

CONSTANT Deep           \* TRUE: thorough tier

VARIABLES par, done
vars == <<par, done>>

Asc(S) == SetToSortSeq(S, LAMBDA a, b : a < b)
SubsetsUpTo(S, k) == UNION {kSubset(j, S) : j \in 0 .. k}
InjSeqs(K) == UNION {{s \in [1 .. m -> 1 .. K] : \A i, j \in 1 .. m : i # j => s[i] # s[j]} : m \in 0 .. K}
Iota(k) == [i \in 1 .. k |-> i]
Rev(s) == [i \in 1 .. Len(s) |-> s[Len(s) + 1 - i]]
SwapAdj(s, j) == [i \in 1 .. Len(s) |-> IF i = j THEN s[j + 1] ELSE IF i = j + 1 THEN s[j] ELSE s[i]]
Drop(s, j) == [i \in 1 .. (Len(s) - 1) |-> IF i < j THEN s[i] ELSE s[i + 1]]
Targets == {"Unrestricted", "MacRoman"}

\* os2: the source font has an OS/2 table (usFirstCharIndex = first); FALSE only for Symbol sources
\* without one, where first = 32 is what Font and the subsetter fall back to.  Slot 0 is glyph 0.
PO(fam, enc, first, os2, codes, slots, list, G, pad, padpos, target) ==
  [fam |-> fam, enc |-> enc, first |-> first, os2 |-> os2, codes |-> codes, slots |-> slots, list |-> list,
   G |-> G, pad |-> pad, padpos |-> padpos, target |-> target]
P(fam, enc, first, codes, slots, list, G, pad, padpos, target) ==
  PO(fam, enc, first, TRUE, codes, slots, list, G, pad, padpos, target)

---------------------------------------------------------------------------
\* Unicode sources.  0xC4 is Mac Roman but not ASCII; 0x100 BMP; 0xFFFE/0xFFFF touch the final
\* format 4 segment; 0x10000.. astral.
UU == {65, 66, 67, 68, 72, 73, 78, 196, 256, 257, 65534, 65535, 65536, 65537}
XU == UU \cup {0, 64, 69, 71, 74, 77, 79, 126, 195, 197, 255, 258, 65531, 65532, 65533, 65538, 65539, 65540, 1114111}

\* every mapping of up to K codes onto K glyphs x every duplicate-free id list over them
KSmall == IF Deep THEN 3 ELSE 2
InitSmall ==
  \E S \in SubsetsUpTo(UU, KSmall) : \E a \in [1 .. Cardinality(S) -> 1 .. KSmall] :
  \E l \in InjSeqs(KSmall) : \E t \in Targets :
    par = P("small", "Unicode", 32, Asc(S), a, l, KSmall, 0, "before", t)

\* the format 4 segment builder: runs, gaps of 0..3 and of 4 and more, the compact rule (four
\* consecutive ids), non-consecutive ids, dropped glyphs; optionally one far code
B7 == {65, 66, 67, 68, 72, 73, 78}
Extras == IF Deep THEN {{}, {196}, {256, 257}, {65535}, {65534, 65535}, {65536}, {65531, 65535}}
                  ELSE {{}, {196}, {65534, 65535}, {65536}}
Lists(k) == {Iota(k), Rev(Iota(k))} \cup {SwapAdj(Iota(k), j) : j \in 1 .. (k - 1)} \cup {Drop(Iota(k), j) : j \in 1 .. k}
SegPads == IF Deep THEN {0, 253} ELSE {0}
InitSegs ==
  \E T \in {T \in SUBSET B7 : Cardinality(T) >= 3} : \E E \in Extras : \E t \in Targets :
    LET S == T \cup E  k == Cardinality(S) IN
    \/ \E l \in Lists(k) : \E pd \in SegPads : par = P("segs", "Unicode", 32, Asc(S), Iota(k), l, k, pd, "before", t)
    \/ par = P("segs", "Unicode", 32, Asc(S), [i \in 1 .. k |-> 1], <<1>>, 1, 0, "before", t)
    \* two neighbouring codes on one glyph (ids g, g+1, g+1 after a run)
    \/ \E j \in 1 .. (k - 1) :
         par = P("segs", "Unicode", 32, Asc(S), [i \in 1 .. k |-> IF i = j + 1 THEN j ELSE i], Iota(k), k, 0, "before", t)

\* the 255/256 threshold of format 0 and the u16 range
PadCodes == {65, 66, 196, 256, 65536}
Pads == IF Deep THEN {0, 252, 253, 254, 255, 300} ELSE {0, 253, 254, 300}
\* slot vectors: one glyph per code; all codes on one glyph; the first two codes on one glyph
\* (several characters per glyph on both sides of every threshold)
PadSlots(k) == {Iota(k), [i \in 1 .. k |-> 1]} \cup (IF k >= 3 THEN {[i \in 1 .. k |-> IF i = 1 THEN 1 ELSE i - 1]} ELSE {})
MaxOf(sq) == Max(ToSet(sq))
InitPad ==
  \E S \in SubsetsUpTo(PadCodes, 3) \ {{}} : \E pd \in Pads : \E pp \in {"before", "after"} : \E t \in Targets :
    LET k == Cardinality(S) IN
    \E sl \in PadSlots(k) : LET g == MaxOf(sl) IN
    \E l \in {Iota(g), Rev(Iota(g))} : par = P("pad", "Unicode", 32, Asc(S), sl, l, g, pd, pp, t)
InitHuge ==
  /\ Deep
  /\ \E S \in {{65}, {65, 66}, {196, 256}, {65, 65535}, {65, 65536}, {65536, 65537}} : \E t \in Targets :
       LET k == Cardinality(S) IN
       \/ par = P("huge", "Unicode", 32, Asc(S), Iota(k), Rev(Iota(k)), k, 65530, "before", t)
       \/ k = 2 /\ par = P("huge", "Unicode", 32, Asc(S), <<1, 1>>, <<1>>, 1, 65530, "before", t)    \* two characters, one glyph

\* characters mapped to glyph 0 explicitly (a covered code whose glyph is 0: a format 4 segment whose
\* idDelta leads to 0 / a glyphIdArray entry 0 / a format 12 group starting at glyph 0): one code of S
\* goes to glyph 0, the others to glyphs 1 .. k-1
KZero == IF Deep THEN 4 ELSE 3
InitZero ==
  \E S \in SubsetsUpTo(UU, KZero) \ {{}} : \E z \in S : \E t \in Targets :
    LET cs == Asc(S)  k == Cardinality(S)
        zi == CHOOSE i \in 1 .. k : cs[i] = z
        sl == [i \in 1 .. k |-> IF i = zi THEN 0 ELSE IF i < zi THEN i ELSE i - 1]
    IN \E l \in {Iota(k - 1), Rev(Iota(k - 1))} : par = P("zero", "Unicode", 32, cs, sl, l, k - 1, 0, "before", t)

\* the BMP / astral border: one run of consecutive codes lo .. hi around 0xFFFF / 0x10000 on consecutive
\* glyphs (a format 12 source group spanning the border; for hi = 0xFFFF a format 4 source whose LAST
\* segment is a real one, startCode < 0xFFFF, endCode = 0xFFFF) or on descending glyphs (one group each)
InitBorder ==
  \E lo \in 65532 .. 65535 : \E hi \in {65535, 65536, 65537, 65539} : \E t \in Targets :
    /\ lo < hi
    /\ LET k == hi - lo + 1  cs == [i \in 1 .. k |-> lo + i - 1] IN
       \E sl \in {Iota(k), Rev(Iota(k))} : \E l \in Lists(k) : par = P("border", "Unicode", 32, cs, sl, l, k, 0, "before", t)

---------------------------------------------------------------------------
\* Mac Roman source (format 0, record 1/0): codes; 0x80 is A dieresis.  The source glyph ids stay
\* below 256 (padding "front"), the new ids cross 255.
MU == {65, 66, 67, 68, 72, 73, 78, 128}
XM == {MacToUni(b) : b \in MU \cup {64, 69, 129, 255}} \cup {256, 65536}
InitMac ==
  \E S \in SubsetsUpTo(MU, 3) : \E pd \in (IF Deep THEN {0, 253} ELSE {0}) : \E t \in Targets :
    LET k == Cardinality(S) IN
    \E l \in {Iota(k), Rev(Iota(k))} \cup (IF k > 0 THEN {Drop(Iota(k), 1)} ELSE {}) :
      par = P("mac", "AppleRoman", 32, Asc(S), Iota(k), l, k, pd, "front", t)   \* format 0 holds glyphs <= 255

---------------------------------------------------------------------------
\* Windows Symbol source (format 4, record 3/0).  Codes in the byte range 0x20..0xFF, in the PUA block
\* 0xF020..0xF0FF and outside both; OS/2.usFirstCharIndex over the whole parameter space: no OS/2 table
\* (Font and the subsetter fall back to 0x20), 0, 0x10, 0x1F (below 0x20), 0x20, 0x21, 0xF000, 0xF020 (the
\* usual value), 0xF0FF, 0xF100 (above every code: inconsistent OS/2).  Every target.
SymFirsts == {0, 16, 31, 32, 33, 61440, 61472, 61695, 61696}
SULow  == {33, 49, 64, 65, 66, 81, 167, 196}                  \* 0x21 0x31 0x40 0x41 0x42 0x51 0xA7 0xC4 (not 0xA4: U+00A4 is an optional Mac Roman character)
SUHigh == {61472, 61473, 61505, 61506, 61636, 61695}          \* 0xF020 0xF021 0xF041 0xF042 0xF0C4 0xF0FF
SU == SULow \cup SUHigh \cup {31, 61696}
SUNear == SU \cup {32, 67, 255, 256, 61440, 61504, 61507, 61697, 65535}
\* probes of a Symbol case: the codes themselves (symbol characters), and as Unicode characters: what
\* reaches the codes by Font's rule for this usFirstCharIndex, the PUA image of those, the raw codes (a
\* conversion that forgets the offset keys the output by them), and fixed characters
XSOf(f) ==
  LET reach == {c + 32 - f : c \in SUNear} \cap (0 .. 1114111)
  IN {SYM + s : s \in SUNear}
     \cup {x \in reach : IsScalar(x)} \cup {61440 + x : x \in reach \cap (0 .. 255)}
     \cup SULow \cup {61505, 61506, 61636}
     \cup {0, 32, 65, 66, 67, 68, 72, 73, 78, 97, 196, 197, 256, 8364}
SymOS2(f) == IF f = 32 THEN {TRUE, FALSE} ELSE {TRUE}
InitSym ==
  \E S \in SubsetsUpTo(SU, IF Deep THEN 3 ELSE 2) : \E f \in SymFirsts : \E o \in SymOS2(f) : \E t \in Targets :
    LET k == Cardinality(S) IN
    \E l \in {Iota(k), Rev(Iota(k))} \cup (IF k > 0 THEN {Drop(Iota(k), 1)} ELSE {}) :
      par = PO("sym", "Symbol", f, o, Asc(S), Iota(k), l, k, 0, "before", t)

---------------------------------------------------------------------------
\* concretisation: slot j is glyph pad + j ("before") or j ("after", "front"); the pad glyphs are
\* listed before the slot glyphs ("before", "front") or after them ("after")
GidOf(p, slot) == IF slot = 0 THEN 0 ELSE IF p.padpos = "before" THEN p.pad + slot ELSE slot
CaseOf(p) ==
  [enc |-> p.enc, first |-> p.first, target |-> p.target,
   sm  |-> [i \in 1 .. Len(p.codes) |-> <<p.codes[i], GidOf(p, p.slots[i])>>],
   ids |-> CASE p.padpos = "before" -> <<0>> \o Iota(p.pad) \o [i \in 1 .. Len(p.list) |-> p.pad + p.list[i]]
             [] p.padpos = "after"  -> <<0>> \o p.list \o [i \in 1 .. p.pad |-> p.G + i]
             [] p.padpos = "front"  -> <<0>> \o [i \in 1 .. p.pad |-> p.G + i] \o p.list]
NumGlyphs(p) == 1 + p.G + p.pad
ProbesOf(p) == CASE p.enc = "Unicode" -> XU [] p.enc = "AppleRoman" -> XM [] p.enc = "Symbol" -> XSOf(p.first)
ProbeSetName(p) == CASE p.enc = "Unicode" -> "XU" [] p.enc = "AppleRoman" -> "XM" [] p.enc = "Symbol" -> "XS" \o ToString(p.first)

\* printed once: the probe characters of each family (all: every probe; Unicode / AppleRoman /
\* Symbol: the probes for which the Font view is judged when the output record has that encoding)
ProbeJson(X) == [all |-> Asc(X),
                 Unicode    |-> Asc({x \in X : FontViewApplies("Unicode", x)}),
                 AppleRoman |-> Asc({x \in X : FontViewApplies("AppleRoman", x)}),
                 Symbol     |-> Asc({x \in X : FontViewApplies("Symbol", x)})]
ASSUME PrintT(<<"PROBES", ToJson([XU |-> ProbeJson(XU), XM |-> ProbeJson(XM), sym |-> SYM] @@
                                 [n \in {"XS" \o ToString(f) : f \in SymFirsts} |->
                                    ProbeJson(XSOf(CHOOSE f \in SymFirsts : "XS" \o ToString(f) = n))])>>)

\* ---- the inverse law of the Symbol -> Mac Roman conversion (CmapSubset!SymInverseLaw) -------------------
\* over every 16-bit code (a format 4 source holds no other), usFirstCharIndex on both sides of 0x20, of
\* 0xF000 / 0xF020 / 0xF0FF and at the ends of its range, and as characters: every Mac Roman character,
\* U+0000..U+02FF, the PUA image, and a few far ones
LawFirsts == SymFirsts \cup {1, 127, 61471, 61473, 65535}
LawCodes  == 0 .. 65535
LawChars  == MacRomanChars \cup (0 .. 767) \cup PuaImage \cup {8364, 65535, 65536, 1114111}
ASSUME FixSymInv => SymInverseLaw(SymToUni, LawFirsts, LawCodes, LawChars)
\* the law discriminates: the named wrong readings break it, exactly where the usual values cannot show it
ASSUME SymInverseLaw(SymToUni_SaturatingOffset, {f \in LawFirsts : f >= 32}, LawCodes, LawChars)
ASSUME \A f \in {0, 1, 16, 31} : ~SymInverseLaw(SymToUni_SaturatingOffset, {f}, LawCodes, LawChars)
ASSUME ~SymInverseLaw(SymToUni_PuaFirst, {32}, LawCodes, LawChars)

Init == (InitSmall \/ InitSegs \/ InitPad \/ InitHuge \/ InitZero \/ InitBorder \/ InitMac \/ InitSym) /\ done = FALSE
Next == done = FALSE /\ done' = TRUE /\ UNCHANGED par
Spec == Init /\ [][Next]_vars

---------------------------------------------------------------------------
DesignOK ==
  done =>
    LET c == CaseOf(par)  X == ProbesOf(par) IN
    /\ \A x \in X : Cardinality(Expected(c, x)) = 1        \* no optional character among the probes
    /\ WrittenWellFormed(Subset(c))
    /\ ~Failed(Subset(c))
    /\ SubsetCmapOK(c, X) \/ (~FixFmt0 /\ Fmt0Overflow(c)) \/ (~FixSymInv /\ SymInvDiverges(c))
    /\ (~FixFmt0 /\ Fmt0Overflow(c)) => ~SubsetCmapOK(c, X)

\* the predicted record, flattened for JSON
PredOf(rec) ==
  [p |-> rec.p, e |-> rec.e, fmt |-> rec.tab.fmt,
   segs |-> IF rec.tab.fmt = 4
            THEN [i \in 1 .. Len(rec.tab.segs) |-> <<rec.tab.segs[i].s, rec.tab.segs[i].e, rec.tab.segs[i].delta, rec.tab.segs[i].ro>>]
            ELSE <<>>,
   gia  |-> IF rec.tab.fmt = 4 THEN rec.tab.gia ELSE <<>>,
   groups |-> IF rec.tab.fmt = 12
              THEN [i \in 1 .. Len(rec.tab.groups) |-> <<rec.tab.groups[i].s, rec.tab.groups[i].e, rec.tab.groups[i].g>>]
              ELSE <<>>,
   nz   |-> IF rec.tab.fmt = 0
            THEN LET N == Asc({b \in 0 .. 255 : rec.tab.gia[b + 1] # 0}) IN [i \in 1 .. Len(N) |-> <<N[i], rec.tab.gia[N[i] + 1]>>]
            ELSE <<>>]

NonZero(s) == SelectSeq(s, LAMBDA e : e[2] # 0)
CaseJson(p) ==
  LET c   == CaseOf(p)
      rec == Subset(c)
      X   == Asc(ProbesOf(p))
      xe  == NonZero([i \in 1 .. Len(X) |-> <<X[i], CHOOSE v \in Expected(c, X[i]) : TRUE>>])
      xp  == NonZero([i \in 1 .. Len(X) |-> <<X[i], OutMap(rec, X[i])>>])
  IN [fam |-> p.fam, enc |-> p.enc, first |-> p.first, os2 |-> p.os2, target |-> p.target, n |-> NumGlyphs(p),
      pad |-> p.pad, sm |-> c.sm, ids |-> c.ids,
      xs |-> ProbeSetName(p),
      x  |-> xe,                                  \* non-zero expectations; every other probe: 0
      same |-> xe = xp,                           \* the writer model predicts exactly x
      pm |-> IF xe = xp THEN <<>> ELSE xp,        \* otherwise: the model's non-zero predictions
      pred |-> PredOf(rec),
      shape |-> Shape(c),
      dev |-> (~FixFmt0 /\ Fmt0Overflow(c)) \/ (~FixSymInv /\ SymInvDiverges(c))]

EmitCase == done => PrintT(<<"CASE", ToJson(CaseJson(par))>>)
=============================================================================
