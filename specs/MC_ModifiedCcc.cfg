SPECIFICATION Spec
INVARIANTS ClassOK Emit
CHECK_DEADLOCK FALSE
