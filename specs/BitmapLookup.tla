---------------------------- MODULE BitmapLookup ----------------------------
(***************************************************************************)
(* X03 (extra) - embedded glyph images: which image Font::lookup_glyph_image*)
(* returns for (glyph, target ppem, maximum bit depth).                    *)
(*                                                                         *)
(* Grain of the code (src/font.rs image part, src/bitmap.rs,               *)
(* src/bitmap/cbdt.rs, src/bitmap/sbix.rs, src/tables/svg.rs):             *)
(*   Select        embedded_images(): the ONE table consulted, by the      *)
(*                 preference SVG > CBDT > sbix > EBDT among the tables    *)
(*                 that are present and pass the image filter              *)
(*   Best          CBLCTable::find_strike / Sbix::find_strike: the strike  *)
(*                 chosen among those that contain the glyph               *)
(*   SubOf/Locate  BitmapSize::index_sub_table_index, MatchingStrike::     *)
(*                 bitmap: index sub-table formats 1-5 -> [offset, length] *)
(*                 of the glyph's record inside EBDT / CBDT                *)
(*   ParseRecord   ImageFormat::read_dep: glyph bitmap data formats        *)
(*                 1, 2, 5, 6, 7, 8, 9, 17, 18, 19                         *)
(*   ToGlyph       BitmapGlyph::try_from((info, data)): metrics, unpacking *)
(*                 of bit-aligned rows, BGRA -> RGBA                       *)
(*   SbixLocate / SbixParse / SbixResolve   strike offsets (numGlyphs + 1),*)
(*                 glyph header, graphic type, 'dupe' indirection          *)
(*   SvgLookup     SvgTable::lookup_glyph                                  *)
(*                                                                         *)
(* The ORDER on strikes is stated from allsorts' documentation ("If an     *)
(* exact match can't be found the nearest one will be returned, favouring  *)
(* being oversize vs. undersized", "maximises size and bit depth") and the *)
(* OpenType EBLC / sbix chapters: an exact size is best, then the smallest *)
(* strike above the target, then the largest below it; at equal size the   *)
(* higher bit depth (within the caller's maximum).                         *)
(*                                                                         *)
(* Vocabulary                                                              *)
(*   loc    table of EBLC / CBLC kind:                                     *)
(*          [strikes : Seq([px, py, bd, fl, start, end, ha, hd, va, vd,    *)
(*                          subs : Seq(sub)]),                             *)
(*           dat : Seq(byte)]        the whole EBDT / CBDT table           *)
(*   sub    [first, last, ifmt 1..5, imf, ido, offs, size, bm, gids, pairs]*)
(*   sbix   [strikes : Seq([ppem, ppi, offs, bytes])]   bytes = the strike *)
(*          from its first byte (offsets are relative to it)               *)
(*   svg    [recs : Seq([s, e, doc]), docs : Seq([gz, plain])]             *)
(*   result [r, px, py, kind, bd, w, h, data, mh, mv, org, tag]            *)
(***************************************************************************)
EXTENDS Integers, Sequences, FiniteSets, FiniteSetsExt, SequencesExt, TLC

BitDepths == {1, 2, 4, 8, 32}
PrefOrder == <<"svg", "cbdt", "sbix", "ebdt">>
DefaultFilter == {"svg", "sbix", "cbdt"}

---------------------------------------------------------------------------
\* (d) table preference and the image filter

Select(present, filt) ==
  LET ok == {k \in 1 .. 4 : PrefOrder[k] \in present /\ PrefOrder[k] \in filt} IN
  IF ok = {} THEN "none" ELSE PrefOrder[Min(ok)]

\* Dev_NoFallThrough: only the selected table is ever consulted; a glyph that the selected table
\* lacks has no image even when a table of lower preference has one (the code; OpenType leaves
\* the choice among several colour formats to the application).

---------------------------------------------------------------------------
\* (a) strike order

\* d1, d2 : strike size minus target size.  TRUE when d1 is strictly preferred.
SizeBetter(d1, d2) ==
  IF d1 = d2 THEN FALSE
  ELSE IF d1 = 0 THEN TRUE
  ELSE IF d2 = 0 THEN FALSE
  ELSE IF d1 > 0 /\ d2 > 0 THEN d1 < d2
  ELSE IF d1 > 0 THEN TRUE
  ELSE IF d2 > 0 THEN FALSE
  ELSE d1 > d2

\* a, b : [size, bd]
Better(a, b, t) ==
  \/ SizeBetter(a.size - t, b.size - t)
  \/ (a.size = b.size /\ a.bd > b.bd)

\* the maximal elements of C (indices into S, a sequence of [size, bd])
Best(S, C, t) == {i \in C : \A j \in C : ~Better(S[j], S[i], t)}

\* The same statement in words: the smallest size >= target, else the largest size; among
\* those the highest bit depth.
BestInWords(S, C, t) ==
  LET above == {i \in C : S[i].size >= t}
      sz    == IF above # {} THEN Min({S[i].size : i \in above}) ELSE Max({S[i].size : i \in C})
      atsz  == {i \in C : S[i].size = sz}
      bd    == Max({S[i].bd : i \in atsz})
  IN IF C = {} THEN {} ELSE {i \in atsz : S[i].bd = bd}

\* allsorts' helper bitmap::bigger_or_closer_to_zero, transcribed (used by the code readings and
\* by the lemma that it agrees with SizeBetter on DISTINCT differences)
BiggerOrCloser(v, cur) ==
  IF v = 0 THEN TRUE
  ELSE IF cur = 0 THEN FALSE
  ELSE IF cur > 0 /\ v > 0 THEN v < cur
  ELSE IF cur > 0 THEN FALSE
  ELSE IF v > 0 THEN TRUE
  ELSE v > cur

\* NON-conformant reading "code": the loop of CBLCTable::find_strike as written.  At an exact
\* size match (difference 0 on both sides) bigger_or_closer_to_zero(0, 0) is TRUE, so a later
\* strike of the same size replaces the current best even when its bit depth is LOWER.
RECURSIVE CodeFindCblc(_, _, _, _, _)
CodeFindCblc(S, C, t, i, best) ==
  IF i > Len(S) THEN best
  ELSE IF i \notin C THEN CodeFindCblc(S, C, t, i + 1, best)
  ELSE IF best = 0 THEN CodeFindCblc(S, C, t, i + 1, i)
  ELSE LET d == S[i].size - t  cb == S[best].size - t IN
       IF (d = cb /\ S[i].bd > S[best].bd) \/ BiggerOrCloser(d, cb)
       THEN CodeFindCblc(S, C, t, i + 1, i)
       ELSE CodeFindCblc(S, C, t, i + 1, best)

\* NON-conformant reading "code": the loop of Sbix::find_strike as written - it hands the
\* strike's ppem, not its difference from the target, to bigger_or_closer_to_zero.
RECURSIVE CodeFindSbix(_, _, _, _, _)
CodeFindSbix(S, C, t, i, best) ==
  IF i > Len(S) THEN best
  ELSE IF i \notin C THEN CodeFindSbix(S, C, t, i + 1, best)
  ELSE IF best = 0 THEN CodeFindSbix(S, C, t, i + 1, i)
  ELSE IF BiggerOrCloser(S[i].size, S[best].size - t)
       THEN CodeFindSbix(S, C, t, i + 1, i)
       ELSE CodeFindSbix(S, C, t, i + 1, best)

\* how a wrong pick w differs from a best pick b (stable name for a finding)
PickSituation(S, w, b, t) ==
  IF S[w].size = S[b].size THEN "lower-depth-chosen-at-equal-size"
  ELSE IF S[b].size >= t /\ S[w].size < t THEN "undersize-chosen-though-oversize-exists"
  ELSE IF S[b].size >= t THEN "larger-oversize-chosen"
  ELSE "smaller-undersize-chosen"

---------------------------------------------------------------------------
\* bytes

U16At(b, i) == b[i] * 256 + b[i + 1]
U32At(b, i) == ((b[i] * 256 + b[i + 1]) * 256 + b[i + 2]) * 256 + b[i + 3]   \* b[i] < 128 in the modelled tables
I8(x)  == IF x >= 128 THEN x - 256 ELSE x
I16(x) == IF x >= 32768 THEN x - 65536 ELSE x
CeilDiv(a, b) == (a + b - 1) \div b

\* bytes [o, o + l) of a table given as the sequence of all its bytes (o is 0-based)
InTable(dat, o, l) == o >= 0 /\ l >= 0 /\ o + l <= Len(dat)
Cut(dat, o, l) == SubSeq(dat, o + 1, o + l)

---------------------------------------------------------------------------
\* (b) EBLC / CBLC: index sub-tables

\* BitmapSize::index_sub_table_index: the glyph must lie inside the strike's own
\* [startGlyphIndex, endGlyphIndex] and inside the range of a sub-table record; the first such
\* record counts.  0 = the strike does not contain the glyph.
SubOf(s, g) ==
  IF g < s.start \/ g > s.end THEN 0
  ELSE LET K == {k \in 1 .. Len(s.subs) : s.subs[k].first <= g /\ g <= s.subs[k].last} IN
       IF K = {} THEN 0 ELSE Min(K)

Img(o, l) == [t |-> "img", o |-> o, l |-> l]
Absent    == [t |-> "absent", o |-> 0, l |-> 0]
LocErr    == [t |-> "err", o |-> 0, l |-> 0]

\* position of g in a strictly ascending sequence of glyph ids (0 = not there); the search
\* stops at the first id above g, which is the same thing for a sorted array
IndexIn(ids, g) ==
  LET K == {j \in 1 .. Len(ids) : ids[j] = g} IN IF K = {} THEN 0 ELSE Min(K)

\* MatchingStrike::bitmap: where the record of glyph g lies inside the data table.
Locate(sub, g) ==
  LET i == g - sub.first IN        \* 0-based position inside the range
  CASE sub.ifmt \in {1, 3} ->
         \* offsets[i], offsets[i+1] relative to imageDataOffset; equal offsets = no image
         IF i + 2 > Len(sub.offs) THEN LocErr
         ELSE LET a == sub.offs[i + 1]  b == sub.offs[i + 2] IN
              IF b < a THEN LocErr ELSE IF b = a THEN Absent ELSE Img(sub.ido + a, b - a)
    [] sub.ifmt = 2 -> Img(sub.ido + i * sub.size, sub.size)
    [] sub.ifmt = 4 ->
         \* pairs <<glyph id, offset>>, one more than glyphs; the length is the next pair's offset
         \* minus this one's.  The sentinel pair itself never answers.
         LET n == Len(sub.pairs) - 1
             j == IndexIn([q \in 1 .. n |-> sub.pairs[q][1]], g) IN
         IF j = 0 THEN Absent
         ELSE IF sub.pairs[j + 1][2] < sub.pairs[j][2] THEN LocErr
         ELSE Img(sub.ido + sub.pairs[j][2], sub.pairs[j + 1][2] - sub.pairs[j][2])
    [] sub.ifmt = 5 ->
         LET j == IndexIn(sub.gids, g) IN
         IF j = 0 THEN Absent ELSE Img(sub.ido + (j - 1) * sub.size, sub.size)
    [] OTHER -> LocErr

\* Whether a strike contains a glyph.
\* Dev_ContainsByRange: allsorts asks the sub-table RANGES only (precise = FALSE): a glyph inside
\* a range but without data (equal offsets in formats 1 / 3, not listed in formats 4 / 5) still
\* makes its strike a candidate and the lookup then answers "no image".  precise = TRUE asks the
\* sub-table itself, the reading of the EBLC chapter ("the IndexSubTables determine which glyphs
\* are actually present").  Either is accepted.
StrikeHas(s, g, precise) ==
  LET k == SubOf(s, g) IN
  k # 0 /\ (precise => Locate(s.subs[k], g).t = "img")

CblcCandidates(loc, g, maxbd, precise) ==
  {i \in 1 .. Len(loc.strikes) : loc.strikes[i].bd <= maxbd /\ StrikeHas(loc.strikes[i], g, precise)}

CblcKeys(loc) == [i \in 1 .. Len(loc.strikes) |-> [size |-> loc.strikes[i].px, bd |-> loc.strikes[i].bd]]
\* Dev_PpemXOnly: the horizontal ppem alone orders the strikes (ppemY is reported, not compared).

---------------------------------------------------------------------------
\* glyph bitmap data formats (EBDT / CBDT records)

SmallOf(b, at) == [h |-> b[at], w |-> b[at + 1], bx |-> I8(b[at + 2]), by |-> I8(b[at + 3]), adv |-> b[at + 4]]
BigOf(b, at) == [h |-> b[at], w |-> b[at + 1], hbx |-> I8(b[at + 2]), hby |-> I8(b[at + 3]), hadv |-> b[at + 4],
                 vbx |-> I8(b[at + 5]), vby |-> I8(b[at + 6]), vadv |-> b[at + 7]]
NoSmall == [h |-> 0, w |-> 0, bx |-> 0, by |-> 0, adv |-> 0]
NoBig   == [h |-> 0, w |-> 0, hbx |-> 0, hby |-> 0, hadv |-> 0, vbx |-> 0, vby |-> 0, vadv |-> 0]

\* [ok, imf, mk "small"/"big", sm, bg, hdr (bytes before the image data), n (image data length,
\*  number of components for formats 8 / 9), png, comp]
\*  rec = the bytes of the record, bm = the big metrics of the index sub-table (formats 2 / 5),
\*  hasbm = whether the index sub-table carries metrics
PR(ok, imf, mk, sm, bg, hdr, n, png, comp) ==
  [ok |-> ok, imf |-> imf, mk |-> mk, sm |-> sm, bg |-> bg, hdr |-> hdr, n |-> n, png |-> png, comp |-> comp]
PRErr(imf) == PR(FALSE, imf, "small", NoSmall, NoBig, 0, 0, FALSE, FALSE)

ParseRecord(imf, rec, bm, hasbm) ==
  LET L == Len(rec) IN
  CASE imf \in {1, 2} -> IF L < 5 THEN PRErr(imf) ELSE PR(TRUE, imf, "small", SmallOf(rec, 1), NoBig, 5, L - 5, FALSE, FALSE)
    [] imf = 5        -> IF ~hasbm THEN PRErr(imf) ELSE PR(TRUE, imf, "big", NoSmall, bm, 0, L, FALSE, FALSE)
    [] imf \in {6, 7} -> IF L < 8 THEN PRErr(imf) ELSE PR(TRUE, imf, "big", NoSmall, BigOf(rec, 1), 8, L - 8, FALSE, FALSE)
    [] imf = 8        -> IF L < 8 THEN PRErr(imf) ELSE IF L < 8 + 4 * U16At(rec, 7) THEN PRErr(imf)
                         ELSE PR(TRUE, imf, "small", SmallOf(rec, 1), NoBig, 8, U16At(rec, 7), FALSE, TRUE)
    [] imf = 9        -> IF L < 10 THEN PRErr(imf) ELSE IF L < 10 + 4 * U16At(rec, 9) THEN PRErr(imf)
                         ELSE PR(TRUE, imf, "big", NoSmall, BigOf(rec, 1), 10, U16At(rec, 9), FALSE, TRUE)
    [] imf = 17       -> IF L < 9 THEN PRErr(imf) ELSE IF L < 9 + U32At(rec, 6) THEN PRErr(imf)
                         ELSE PR(TRUE, imf, "small", SmallOf(rec, 1), NoBig, 9, U32At(rec, 6), TRUE, FALSE)
    [] imf = 18       -> IF L < 12 THEN PRErr(imf) ELSE IF L < 12 + U32At(rec, 9) THEN PRErr(imf)
                         ELSE PR(TRUE, imf, "big", NoSmall, BigOf(rec, 1), 12, U32At(rec, 9), TRUE, FALSE)
    [] imf = 19       -> IF L < 4 \/ ~hasbm THEN PRErr(imf) ELSE IF L < 4 + U32At(rec, 1) THEN PRErr(imf)
                         ELSE PR(TRUE, imf, "big", NoSmall, bm, 4, U32At(rec, 1), TRUE, FALSE)
    [] OTHER -> PRErr(imf)

\* bit-aligned rows -> byte-aligned rows (unpack_bit_aligned_data)
BitsOfByte(x) == [k \in 1 .. 8 |-> (x \div (2 ^ (8 - k))) % 2]
BitsOf(bytes) == [q \in 1 .. 8 * Len(bytes) |-> BitsOfByte(bytes[((q - 1) \div 8) + 1])[((q - 1) % 8) + 1]]
ByteOfBits(bs) == \* up to 8 bits, MSB first, padded with zero bits on the right
  LET v[k \in 0 .. 8] == IF k = 0 THEN 0 ELSE 2 * v[k - 1] + (IF k <= Len(bs) THEN bs[k] ELSE 0) IN v[8]
RowBytes(bits) == [q \in 1 .. CeilDiv(Len(bits), 8) |-> ByteOfBits(SubSeq(bits, 8 * (q - 1) + 1, IF 8 * q <= Len(bits) THEN 8 * q ELSE Len(bits)))]
UnpackOK(bd, w, h, data) == 8 * Len(data) >= h * bd * w
Unpack(bd, w, h, data) ==
  LET bits == TLCEval(BitsOf(data))
      bpr  == bd * w
      RECURSIVE rows(_)
      rows(r) == IF r >= h THEN <<>> ELSE RowBytes(SubSeq(bits, r * bpr + 1, (r + 1) * bpr)) \o rows(r + 1)
  IN rows(0)

\* BGRA -> RGBA for 32-bit strikes
Swizzle(data) == [q \in 1 .. Len(data) |-> CASE (q - 1) % 4 = 0 -> data[q + 2] [] (q - 1) % 4 = 2 -> data[q - 2] [] OTHER -> data[q]]

---------------------------------------------------------------------------
\* results

\* tag : the graphic type of an sbix image that is none of jpg / png / tiff (kind "other")
Res(r, px, py, kind, bd, w, h, data, mh, mv, org, tag) ==
  [r |-> r, px |-> px, py |-> py, kind |-> kind, bd |-> bd, w |-> w, h |-> h,
   data |-> data, mh |-> mh, mv |-> mv, org |-> org, tag |-> tag]
ResNone == Res("none", -1, -1, "", 0, 0, 0, <<>>, <<>>, <<>>, <<>>, <<>>)
ResErr  == Res("err",  -1, -1, "", 0, 0, 0, <<>>, <<>>, <<>>, <<>>, <<>>)

\* BitmapGlyph::try_from((info, GlyphBitmapData)).  mh / mv = <<origin offset x, origin offset y,
\* advance, ascender, descender>> for the horizontal / vertical direction, <<>> when absent.
\* Small metrics carry ONE direction: horizontal when flag bit 0 is set, else vertical when bit 1
\* is set, else (no direction flag) horizontal.
ToGlyph(s, p, rec) ==
  LET dataRaw == SubSeq(rec, p.hdr + 1, p.hdr + p.n)
      w == IF p.mk = "small" THEN p.sm.w ELSE p.bg.w
      h == IF p.mk = "small" THEN p.sm.h ELSE p.bg.h
      horiSmall == (s.fl % 2 = 1) \/ ((s.fl \div 2) % 2 = 0)
      mh == IF p.mk = "small"
            THEN (IF horiSmall THEN <<p.sm.bx, p.sm.by - p.sm.h, p.sm.adv, s.ha, s.hd>> ELSE <<>>)
            ELSE <<p.bg.hbx, p.bg.hby - p.bg.h, p.bg.hadv, s.ha, s.hd>>
      mv == IF p.mk = "small"
            THEN (IF horiSmall THEN <<>> ELSE <<p.sm.bx, p.sm.by - p.sm.h, p.sm.adv, s.va, s.vd>>)
            ELSE <<p.bg.vbx, p.bg.vby - p.bg.h, p.bg.vadv, s.va, s.vd>>
  IN
  IF ~p.ok THEN ResErr
  ELSE IF p.comp THEN ResErr                        \* Dev_ComponentsNotImplemented (formats 8, 9)
  ELSE IF p.png THEN Res("img", s.px, s.py, "png", 0, 0, 0, dataRaw, mh, mv, <<>>, <<>>)
  ELSE LET bitAligned == p.imf \in {2, 5, 7} IN
       IF bitAligned /\ ~UnpackOK(s.bd, w, h, dataRaw) THEN ResErr
       ELSE LET d1 == IF bitAligned THEN Unpack(s.bd, w, h, dataRaw) ELSE dataRaw IN
            IF s.bd = 32 /\ Len(d1) % 4 # 0 THEN ResErr
            ELSE Res("img", s.px, s.py, "raw", s.bd, w, h, IF s.bd = 32 THEN Swizzle(d1) ELSE d1, mh, mv, <<>>, <<>>)

\* The glyph of strike i (after the strike has been chosen).
CblcGlyphOf(loc, i, g) ==
  LET s == loc.strikes[i]
      k == SubOf(s, g)
      sub == s.subs[k]
      l == Locate(sub, g)
  IN IF l.t = "absent" THEN ResNone
     ELSE IF l.t = "err" \/ ~InTable(loc.dat, l.o, l.l) THEN ResErr
     ELSE LET rec == Cut(loc.dat, l.o, l.l)
              hasbm == sub.ifmt \in {2, 5}
              p == ParseRecord(sub.imf, rec, sub.bm, hasbm)
          IN ToGlyph(s, p, rec)

\* What MatchingStrike::bitmap returns, as the harness can observe it without the conversion:
\* image format, position and length of the image data inside the data table.
LowRes(r, imf, doff, dlen, bd) == [r |-> r, imf |-> imf, doff |-> doff, dlen |-> dlen, bd |-> bd]
CblcLowOf(loc, i, g) ==
  LET s == loc.strikes[i]
      k == SubOf(s, g)
      sub == s.subs[k]
      l == Locate(sub, g)
  IN IF l.t = "absent" THEN LowRes("absent", 0, 0, 0, s.bd)
     ELSE IF l.t = "err" \/ ~InTable(loc.dat, l.o, l.l) THEN LowRes("err", 0, 0, 0, 0)
     ELSE LET p == ParseRecord(sub.imf, Cut(loc.dat, l.o, l.l), sub.bm, sub.ifmt \in {2, 5}) IN
          IF ~p.ok THEN LowRes("err", 0, 0, 0, 0)
          ELSE LowRes("img", sub.imf, IF p.comp THEN -1 ELSE l.o + p.hdr, p.n, s.bd)

\* Font::lookup_glyph_image clamps the target to 255 for EBLC / CBLC (ppem is a uint8 there).
ClampPpem(t) == IF t > 255 THEN 255 ELSE t

\* all conformant answers (ties between strikes of equal size and depth: any; Dev_ContainsByRange)
CblcLookup(loc, g, t, maxbd) ==
  UNION {LET C == CblcCandidates(loc, g, maxbd, precise) IN
         IF C = {} THEN {ResNone} ELSE {CblcGlyphOf(loc, i, g) : i \in Best(CblcKeys(loc), C, ClampPpem(t))}
         : precise \in BOOLEAN}

CblcLow(loc, g, t, maxbd) ==
  UNION {LET C == CblcCandidates(loc, g, maxbd, precise) IN
         IF C = {} THEN {LowRes("none", 0, 0, 0, 0)} ELSE {CblcLowOf(loc, i, g) : i \in Best(CblcKeys(loc), C, t)}
         : precise \in BOOLEAN}

\* the code reading (candidates by range, loop as written)
CblcCodePick(loc, g, t, maxbd) == CodeFindCblc(CblcKeys(loc), CblcCandidates(loc, g, maxbd, FALSE), t, 1, 0)
CblcCodeLookup(loc, g, t, maxbd) ==
  LET i == CblcCodePick(loc, g, ClampPpem(t), maxbd) IN IF i = 0 THEN ResNone ELSE CblcGlyphOf(loc, i, g)
CblcCodeLow(loc, g, t, maxbd) ==
  LET i == CblcCodePick(loc, g, t, maxbd) IN IF i = 0 THEN LowRes("none", 0, 0, 0, 0) ELSE CblcLowOf(loc, i, g)

---------------------------------------------------------------------------
\* (c) sbix

\* glyph_offset_end / read_glyph: offsets[g], offsets[g + 1] relative to the strike's first byte
SbixLocate(st, g) ==
  IF g < 0 \/ g + 2 > Len(st.offs) THEN LocErr          \* BadIndex: no such glyph
  ELSE LET a == st.offs[g + 1]  b == st.offs[g + 2] IN
       IF b < a THEN LocErr ELSE IF b = a THEN Absent ELSE Img(a, b - a)

SbixContains(st, g) == SbixLocate(st, g).t = "img"
SbixKeys(sb) == [i \in 1 .. Len(sb.strikes) |-> [size |-> sb.strikes[i].ppem, bd |-> 32]]
\* Dev_SbixPpiIgnored: the ppi of a strike plays no part; max_bit_depth is ignored for sbix.
SbixCandidates(sb, g) == {i \in 1 .. Len(sb.strikes) : SbixContains(sb.strikes[i], g)}

Tag(a, b, c, d) == <<a, b, c, d>>
TagDupe == <<100, 117, 112, 101>>
TagPng  == <<112, 110, 103, 32>>
TagJpg  == <<106, 112, 103, 32>>
TagTiff == <<116, 105, 102, 102>>
KindOfTag(tg) == CASE tg = TagPng -> "png" [] tg = TagJpg -> "jpg" [] tg = TagTiff -> "tiff" [] OTHER -> "other"

\* glyph header: originOffsetX, originOffsetY (int16), graphicType (tag), data
SbixParse(rec) == [ox |-> I16(U16At(rec, 1)), oy |-> I16(U16At(rec, 3)), tag |-> SubSeq(rec, 5, 8), data |-> SubSeq(rec, 9, Len(rec))]

\* The image of glyph g in strike i, following 'dupe' records.
\*   dev.full  FALSE: ONE level of indirection, a dupe that points at a dupe has no image
\*                    (allsorts, "to avoid potential infinite recursion")
\*             TRUE : chains are followed; a cycle has no image
\*   dev.same  TRUE : the glyph a dupe names is looked up in the SAME strike (OpenType sbix:
\*                    "the bitmap data for the indicated glyph should be used for the current
\*                    glyph")
\*             FALSE: the strike is chosen afresh for the named glyph (allsorts)
\* pick : glyph -> strike index chosen for that glyph (0 = none) under the reading in force.
\* Termination: `seen` grows with every indirection and is bounded by the glyph count.
SbixNG(sb) == IF Len(sb.strikes) = 0 THEN 0 ELSE Len(sb.strikes[1].offs) - 1
RECURSIVE SbixResolve(_, _, _, _, _, _, _)
SbixResolve(sb, i, g, seen, level, dev, pick) ==
  IF i = 0 THEN ResNone
  ELSE LET st == sb.strikes[i]
           l  == SbixLocate(st, g) IN
       IF l.t = "absent" THEN ResNone
       ELSE IF l.t = "err" THEN ResErr
       ELSE IF ~InTable(st.bytes, l.o, l.l) \/ l.l < 8 THEN ResErr
       ELSE LET p == SbixParse(Cut(st.bytes, l.o, l.l)) IN
            IF p.tag # TagDupe
            THEN Res("img", st.ppem, st.ppem, KindOfTag(p.tag), 0, 0, 0, p.data, <<>>, <<>>, <<p.ox, p.oy>>,
                     IF KindOfTag(p.tag) = "other" THEN p.tag ELSE <<>>)
            ELSE IF Len(p.data) < 2 THEN ResErr
            ELSE IF ~dev.full /\ level >= 1 THEN ResNone
            ELSE LET tgt == U16At(p.data, 1)
                     ni  == IF dev.same THEN (IF SbixContains(st, tgt) THEN i ELSE 0)
                            ELSE IF tgt \in DOMAIN pick THEN pick[tgt] ELSE 0 IN
                 IF tgt \in seen \cup {g} THEN ResNone
                 ELSE SbixResolve(sb, ni, tgt, seen \cup {g}, level + 1, dev, pick)

SbixDevs == [full : BOOLEAN, same : BOOLEAN]

SbixLookup(sb, g, t) ==
  LET K == SbixKeys(sb)
      B(gg) == Best(K, SbixCandidates(sb, gg), t)
      pick == [gg \in 0 .. (SbixNG(sb) - 1) |-> IF B(gg) = {} THEN 0 ELSE Min(B(gg))] IN
  IF B(g) = {} THEN {ResNone}
  ELSE {SbixResolve(sb, i, g, {}, 0, dev, pick) : i \in B(g), dev \in SbixDevs}

SbixCodePick(sb, g, t) == CodeFindSbix(SbixKeys(sb), SbixCandidates(sb, g), t, 1, 0)
SbixCodeLookup(sb, g, t) ==
  LET pick == [gg \in 0 .. (SbixNG(sb) - 1) |-> SbixCodePick(sb, gg, t)] IN
  SbixResolve(sb, SbixCodePick(sb, g, t), g, {}, 0, [full |-> FALSE, same |-> FALSE], pick)

\* Sbix::find_strike + SbixStrike::read_glyph as the harness observes them directly
SbixLowRes(r, ppem, ppi, ox, oy, tag, n) == [r |-> r, ppem |-> ppem, ppi |-> ppi, ox |-> ox, oy |-> oy, tag |-> tag, n |-> n]
SbixLowOf(sb, i, g) ==
  LET st == sb.strikes[i]  l == SbixLocate(st, g) IN
  IF l.t # "img" \/ ~InTable(st.bytes, l.o, l.l) \/ l.l < 8 THEN SbixLowRes("err", st.ppem, st.ppi, 0, 0, <<>>, 0)
  ELSE LET p == SbixParse(Cut(st.bytes, l.o, l.l)) IN SbixLowRes("img", st.ppem, st.ppi, p.ox, p.oy, p.tag, Len(p.data))
SbixLow(sb, g, t) ==
  LET B == Best(SbixKeys(sb), SbixCandidates(sb, g), t) IN
  IF B = {} THEN {SbixLowRes("none", 0, 0, 0, 0, <<>>, 0)} ELSE {SbixLowOf(sb, i, g) : i \in B}
SbixCodeLow(sb, g, t) ==
  LET i == SbixCodePick(sb, g, t) IN IF i = 0 THEN SbixLowRes("none", 0, 0, 0, 0, <<>>, 0) ELSE SbixLowOf(sb, i, g)

---------------------------------------------------------------------------
\* SVG

\* SvgTable::lookup_glyph: the first document record whose range holds the glyph.
\* A document stored gzip-compressed is returned inflated.
SvgLookup(svg, g) ==
  LET K == {k \in 1 .. Len(svg.recs) : svg.recs[k].s <= g /\ g <= svg.recs[k].e} IN
  IF K = {} THEN {ResNone}
  ELSE {Res("img", -1, -1, "svg", 0, 0, 0, svg.docs[svg.recs[Min(K)].doc].plain, <<>>, <<>>, <<0, 0>>, <<>>)}

---------------------------------------------------------------------------
\* Font::lookup_glyph_image on a font [has, cblc, eblc, sbix, svg] with the table `sel` selected

FontLookup(font, sel, g, t, maxbd) ==
  CASE sel = "none" -> {ResNone}
    [] sel = "svg"  -> SvgLookup(font.svg, g)
    [] sel = "cbdt" -> CblcLookup(font.cblc, g, t, maxbd)
    [] sel = "ebdt" -> CblcLookup(font.eblc, g, t, maxbd)
    [] sel = "sbix" -> SbixLookup(font.sbix, g, t)

FontCodeLookup(font, sel, g, t, maxbd) ==
  CASE sel = "none" -> ResNone
    [] sel = "svg"  -> CHOOSE x \in SvgLookup(font.svg, g) : TRUE
    [] sel = "cbdt" -> CblcCodeLookup(font.cblc, g, t, maxbd)
    [] sel = "ebdt" -> CblcCodeLookup(font.eblc, g, t, maxbd)
    [] sel = "sbix" -> SbixCodeLookup(font.sbix, g, t)

---------------------------------------------------------------------------
\* design properties (checked by TLC in MC_BitmapLookup)

\* the order is irreflexive, antisymmetric, transitive, and total on distinct (size, depth)
OrderLemmas(Sizes, Depths, Targets) ==
  LET K == [size : Sizes, bd : Depths] IN
  /\ \A t \in Targets : \A a \in K : ~Better(a, a, t)
  /\ \A t \in Targets : \A a \in K, b \in K : ~(Better(a, b, t) /\ Better(b, a, t))
  /\ \A t \in Targets : \A a \in K, b \in K : a # b => (Better(a, b, t) \/ Better(b, a, t))
  /\ \A t \in Targets : \A a \in K, b \in K, c \in K : Better(a, b, t) /\ Better(b, c, t) => Better(a, c, t)

\* allsorts' helper agrees with the order wherever the two differences differ
HelperLemma(D) == \A v \in D, c \in D : v # c => (BiggerOrCloser(v, c) <=> SizeBetter(v, c))

\* properties of a choice: it contains the glyph, it is within the depth limit, no containing
\* strike is strictly better, and it is the strike "in words"
ChoiceOK(K, C, t) ==
  LET B == Best(K, C, t) IN
  /\ B \subseteq C
  /\ (C # {} => B # {})
  /\ \A i \in B : \A j \in C : ~Better(K[j], K[i], t)
  /\ \A i \in B, j \in B : K[i] = K[j]
  /\ B = BestInWords(K, C, t)
=============================================================================
