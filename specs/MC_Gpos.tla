------------------------------ MODULE MC_Gpos ------------------------------
(***************************************************************************)
(* Bounded exploration of Gpos / Kern / Position and generator of replay   *)
(* cases (spec -> impl) for C05.                                           *)
(*                                                                         *)
(* A state is one case: a program template and a glyph string over the     *)
(* template's alphabet.  For every state the invariants                    *)
(*   - check the design properties of the specification on every outcome   *)
(*     (AttachInRun, MarkRelativeToBase = "RTL mirrors LTR", JoinHolds,    *)
(*     AdvanceIsSum, the case stays inside the modelled fragment),         *)
(*   - print one CASE line: the set of conformant outcomes (one per        *)
(*     reading of the named Dev_ choices ), each with the glyph origins    *)
(*     and total advance for both text directions.                         *)
(* Programs are printed once (TPL lines).  The harness encodes each        *)
(* program into real GDEF/GPOS/kern/hmtx bytes and replays every case on   *)
(* allsorts.                                                               *)
(*                                                                         *)
(* Glyphs: 0 .notdef, 1 A, 2 B, 7 C (bases), 3 L (ligature), 4 M1 (mark,   *)
(* attachment class 1, in mark set 0), 5 M2 (mark, class 2, not in set 0), *)
(* 6 U (no GDEF class); the *-gdef families put the same programs into     *)
(* fonts without GDEF / GlyphClassDef or with M1 / M2 not classed as marks.*)
(* Metric values are chosen distinct per field so                          *)
(* that any mix-up of fields, records, classes or anchors changes a result.*)
(***************************************************************************)
EXTENDS Gpos, Position, Json, SequencesExt

CONSTANT Tier        \* "quick" | "thorough"

VARIABLES tpl, w, done
vars == <<tpl, w, done>>

Quick == Tier = "quick"

\* ---- fixed font data ---------------------------------------------------------
Gdef == [tab  |-> "full",
         cls  |-> <<0, 1, 1, 2, 3, 3, 0, 1>>,
         att  |-> <<0, 0, 0, 0, 1, 2, 0, 0>>,
         sets |-> << <<4>> >>]
\* GDEF variants: what the font says about the glyphs the lookups treat as marks (4 and 5)
\*   "absent"      no GDEF table            "noclassdef"  GDEF without GlyphClassDef
\*   "m1-uncl"     M1 left unclassified     "m2-uncl"     M2 left unclassified
\*   "m2-base"     M2 classed as a base glyph
GdefV(v) ==
  CASE v = "full"       -> Gdef
    [] v = "absent"     -> [Gdef EXCEPT !.tab = "absent"]
    [] v = "noclassdef" -> [Gdef EXCEPT !.tab = "noclassdef"]
    [] v = "m1-uncl"    -> [Gdef EXCEPT !.cls[5] = 0]
    [] v = "m2-uncl"    -> [Gdef EXCEPT !.cls[6] = 0]
    [] v = "m2-base"    -> [Gdef EXCEPT !.cls[6] = 1]
GdefVariants == {"absent", "noclassdef", "m1-uncl", "m2-uncl", "m2-base"}
\* hmtx advances; marks have zero advance (m = 0) or advances of their own (m = 1)
AdvOf(m) == <<500, 137, 241, 353, IF m = 0 THEN 0 ELSE 61, IF m = 0 THEN 0 ELSE 83, 467, 571>>

It(g)     == [g |-> g, lc |-> 0, lig |-> FALSE]
ItC(g, c) == [g |-> g, lc |-> c, lig |-> FALSE]
Items(S)  == {It(g) : g \in S}
Strs(alpha, n) == UNION {[1 .. k -> alpha] : k \in 1 .. n}

\* value record r: fields distinct within and across records; odd records are negative
V(r) == LET sg == IF r % 2 = 1 THEN 1 ELSE -1 IN
        [xp |-> sg * (1 + 16 * r), yp |-> sg * (2 + 16 * r), xa |-> sg * (4 + 16 * r), ya |-> 0]
\* anchor k in anchor format af
An(af, k) == [f |-> af, x |-> 10 + 37 * k, y |-> 5 + 23 * k - 3 * k * k]
Null == [f |-> 0, x |-> 0, y |-> 0]

Cov(cf, gs) == [f |-> cf, g |-> gs]
Cd(cf, m)   == [f |-> cf, m |-> m]
Lk(ty, flag, mfs, ext, subs) == [ty |-> ty, flag |-> flag, mfs |-> mfs, ext |-> ext, subs |-> subs]

Prog(tag, script, lookups, feat, kern, gpos, m) ==
  [gdef |-> Gdef, adv |-> AdvOf(m), tag |-> tag, script |-> script, lookups |-> lookups,
   feat |-> feat, kern |-> kern, gpos |-> gpos]

\* the same program in a font whose GDEF is the variant gv
ProgG(gv, tag, script, lookups, feat, kern, gpos, m) ==
  [Prog(tag, script, lookups, feat, kern, gpos, m) EXCEPT !.gdef = GdefV(gv)]

T(id, prog, alpha, n) == [id |-> id, prog |-> prog, alpha |-> alpha, n |-> n, ws |-> {}]
\* a template with an explicit set of glyph strings (the combination families below)
TW(id, prog, ws) == [id |-> id, prog |-> prog, alpha |-> {}, n |-> 0, ws |-> ws]

\* lookup flags with their mark filtering set
Flags == {<<0, -1>>, <<2, -1>>, <<4, -1>>, <<8, -1>>, <<256, -1>>, <<512, -1>>, <<16, 0>>, <<6, -1>>, <<14, -1>>}

\* ---- type 1 ---------------------------------------------------------------------
SingleVf ==
  {T(<<"single1-vf", vf>>,
     Prog("kern", "latn", <<Lk(1, 0, -1, FALSE, <<[f |-> 1, cov |-> Cov(1, <<1, 4>>), vf |-> vf, v |-> V(1)]>>)>>,
          <<0>>, <<>>, TRUE, 1),
     Items({1, 2, 4}), 2) : vf \in 0 .. 255}

SingleFlag ==
  {T(<<"single2-flag", fl[1], cf, ext>>,
     Prog("kern", "latn",
          <<Lk(1, fl[1], fl[2], ext,
               <<[f |-> 2, cov |-> Cov(cf, <<1, 2, 3, 4, 5, 6>>), vf |-> 7, vs |-> [k \in 1 .. 6 |-> V(k)]]>>)>>,
          <<0>>, <<>>, TRUE, 1),
     Items({1, 2, 3, 4, 5, 6}), 2) : fl \in Flags, cf \in {1, 2}, ext \in BOOLEAN}

\* lookup flags in a font without glyph classes: nothing may be skipped
SingleFlagG ==
  {T(<<"single2-flag-gdef", fl[1], gv>>,
     ProgG(gv, "kern", "latn",
           <<Lk(1, fl[1], fl[2], FALSE,
                <<[f |-> 2, cov |-> Cov(1, <<1, 2, 3, 4, 5, 6>>), vf |-> 7, vs |-> [k \in 1 .. 6 |-> V(k)]]>>)>>,
           <<0>>, <<>>, TRUE, 1),
     Items({1, 2, 3, 4, 5, 6}), 2) : fl \in Flags, gv \in {"absent", "noclassdef", "m2-uncl"}}

Single2 ==
  {T(<<"single2-vf", vf, cf>>,
     Prog("kern", "latn",
          <<Lk(1, 0, -1, FALSE, <<[f |-> 2, cov |-> Cov(cf, <<1, 3, 4>>), vf |-> vf, vs |-> <<V(1), V(2), V(3)>>]>>)>>,
          <<0>>, <<>>, TRUE, 1),
     Items({1, 2, 3, 4}), 2) : vf \in {1, 2, 4, 7, 15, 85, 255}, cf \in {1, 2}}

SingleMulti ==
  {T(<<"single-multi">>,
     Prog("kern", "latn",
          <<Lk(1, 0, -1, FALSE, <<[f |-> 1, cov |-> Cov(1, <<1>>), vf |-> 5, v |-> V(1)],
                                  [f |-> 2, cov |-> Cov(2, <<1, 2>>), vf |-> 6, vs |-> <<V(2), V(3)>>]>>)>>,
          <<0>>, <<>>, TRUE, 1),
     Items({1, 2, 4}), 3)}

\* ---- type 2 ---------------------------------------------------------------------
Vf7 == {0, 1, 4, 5, 7, 15, 68}
Pair1Sub(cf, vf1, vf2) ==
  [f |-> 1, cov |-> Cov(cf, <<1, 2>>), vf1 |-> vf1, vf2 |-> vf2,
   sets |-> << <<[g2 |-> 2, v1 |-> V(1), v2 |-> V(2)], [g2 |-> 4, v1 |-> V(3), v2 |-> V(4)]>>,
               <<[g2 |-> 1, v1 |-> V(5), v2 |-> V(6)], [g2 |-> 2, v1 |-> V(7), v2 |-> V(8)]>> >>]

Pair1Vf ==
  {T(<<"pair1-vf", vf1, vf2, fl>>,
     Prog("kern", "latn", <<Lk(2, fl, -1, FALSE, <<Pair1Sub(1, vf1, vf2)>>)>>, <<0>>, <<>>, TRUE, 1),
     Items({1, 2, 4}), 3) : vf1 \in Vf7, vf2 \in Vf7, fl \in {0, 8}}

Pair1Long ==
  {T(<<"pair1-long", vv[1], vv[2], fl[1], ext>>,
     Prog("kern", "latn", <<Lk(2, fl[1], fl[2], ext, <<Pair1Sub(2, vv[1], vv[2])>>)>>, <<0>>, <<>>, TRUE, 1),
     Items({1, 2, 4, 5}), 4) :
     vv \in {<<5, 5>>, <<4, 0>>, <<4, 4>>}, fl \in {<<0, -1>>, <<8, -1>>, <<256, -1>>, <<16, 0>>}, ext \in BOOLEAN}

Pair1LongG ==
  {T(<<"pair1-long-gdef", fl[1], gv>>,
     ProgG(gv, "kern", "latn", <<Lk(2, fl[1], fl[2], FALSE, <<Pair1Sub(2, 5, 5)>>)>>, <<0>>, <<>>, TRUE, 1),
     Items({1, 2, 4, 5}), 4) :
     fl \in {<<8, -1>>, <<256, -1>>, <<16, 0>>}, gv \in {"absent", "noclassdef", "m1-uncl"}}

Pair2Sub(cf, vf1, vf2) ==
  [f |-> 2, cov |-> Cov(cf, <<1, 2, 3>>), vf1 |-> vf1, vf2 |-> vf2,
   cd1 |-> Cd(cf, <<0, 1, 2, 0, 0, 0, 0, 0>>), cd2 |-> Cd(3 - cf, <<0, 0, 1, 0, 2, 0, 0, 1>>),
   recs |-> [c1 \in 1 .. 3 |-> [c2 \in 1 .. 3 |-> [v1 |-> V(3 * c1 + c2), v2 |-> V(3 * c1 + c2 + 10)]]]]

Pair2 ==
  {T(<<"pair2", vv[1], vv[2], cf, fl[1]>>,
     Prog("kern", "latn", <<Lk(2, fl[1], fl[2], FALSE, <<Pair2Sub(cf, vv[1], vv[2])>>)>>, <<0>>, <<>>, TRUE, 1),
     Items({1, 2, 3, 4}), 3) :
     vv \in {<<4, 0>>, <<5, 4>>, <<15, 15>>, <<4, 1>>}, cf \in {1, 2}, fl \in {<<0, -1>>, <<8, -1>>, <<16, 0>>}}

\* first subtable lists only (A, B); every other pair falls through to the class subtable
PairMulti ==
  {T(<<"pair-multi">>,
     Prog("kern", "latn",
          <<Lk(2, 0, -1, FALSE,
               <<[f |-> 1, cov |-> Cov(1, <<1>>), vf1 |-> 4, vf2 |-> 0,
                  sets |-> << <<[g2 |-> 2, v1 |-> V(9), v2 |-> V(9)]>> >>],
                 Pair2Sub(1, 4, 0)>>)>>,
          <<0>>, <<>>, TRUE, 1),
     Items({1, 2, 3}), 3)}

\* ---- type 3 ---------------------------------------------------------------------
\* anchor shapes: "gen" arbitrary; "x0" entry anchors at x = 0; "flat" also all y = 0;
\* "fit" exit anchors at the origin and entry anchors at the advance width, all y = 0
\* "fitx" B has an exit anchor off the origin and every entry anchor at advance + own exit.x:
\*        right-to-left the join A -> B -> A is exact AND changes an advance (that of B)
ExitX(g) == IF g = 2 THEN 29 ELSE 0
CAn(shape, af, k, isEntry, g) ==
  CASE shape = "gen"  -> An(af, k)
    [] shape = "x0"   -> [An(af, k) EXCEPT !.x = IF isEntry THEN 0 ELSE @]
    [] shape = "flat" -> [An(af, k) EXCEPT !.x = IF isEntry THEN 0 ELSE @, !.y = 0]
    [] shape = "fit"  -> [f |-> af, x |-> IF isEntry THEN AdvOf(0)[g + 1] ELSE 0, y |-> 0]
    [] shape = "fity" -> [f |-> af, x |-> IF isEntry THEN AdvOf(0)[g + 1] ELSE 0, y |-> An(af, k).y]
    [] shape = "fitx" -> [f |-> af, x |-> IF isEntry THEN AdvOf(0)[g + 1] + ExitX(g) ELSE ExitX(g), y |-> An(af, k).y]

CursSub(cf, af, shape, bexit) ==
  [cov |-> Cov(cf, <<1, 2, 3>>),
   recs |-> <<[en |-> CAn(shape, af, 1, TRUE, 1), ex |-> CAn(shape, af, 2, FALSE, 1)],
              [en |-> CAn(shape, af, 3, TRUE, 2), ex |-> IF bexit THEN CAn(shape, af, 4, FALSE, 2) ELSE Null],
              [en |-> Null, ex |-> CAn(shape, af, 6, FALSE, 3)]>>]

CursShapes == {"gen", "x0", "flat", "fit", "fity"}
Curs ==
  {T(<<"curs", shape, af, bexit, fl, m>>,
     Prog("curs", "arab", <<Lk(3, fl, -1, FALSE, <<CursSub(1, af, shape, bexit)>>)>>, <<0>>, <<>>, TRUE, m),
     Items({1, 2, 3, 4}), IF af = 1 THEN 4 ELSE 3) :
     shape \in CursShapes, af \in {1, 2, 3}, bexit \in BOOLEAN, fl \in {8, 9}, m \in {0, 1}}
  \cup
  {T(<<"curs-nomarks", shape, fl, ext>>,
     Prog("curs", "arab", <<Lk(3, fl, -1, ext, <<CursSub(2, 1, shape, TRUE)>>)>>, <<0>>, <<>>, TRUE, 0),
     Items({1, 2, 3}), 4) : shape \in CursShapes, fl \in {0, 1}, ext \in BOOLEAN}

\* ---- types 4, 5, 6 ----------------------------------------------------------------
MarkRecs(af) == <<[c |-> 0, a |-> An(af, 1)], [c |-> 1, a |-> An(af, 2)]>>
MarkBaseSub(cf, af) ==
  [mcov |-> Cov(cf, <<4, 5>>), bcov |-> Cov(cf, <<1, 2, 3>>), nc |-> 2, marks |-> MarkRecs(af),
   bases |-> << <<An(af, 3), An(af, 4)>>, <<An(af, 5), Null>>, <<An(af, 6), An(af, 7)>> >>]

MarkBase ==
  {T(<<"markbase", cf, af, m, ext>>,
     Prog("mark", "latn", <<Lk(4, 0, -1, ext, <<MarkBaseSub(cf, af)>>)>>, <<0>>, <<>>, TRUE, m),
     Items({1, 2, 3, 4, 5, 6}), IF af = 1 /\ cf = 1 /\ ~ext THEN 4 ELSE 3) :
     cf \in {1, 2}, af \in {1, 2, 3}, m \in {0, 1}, ext \in BOOLEAN}

\* mark coverage glyphs that GDEF does not class as marks: the lookup attaches them all the same
MarkBaseG ==
  {T(<<"markbase-gdef", gv, cf, m>>,
     ProgG(gv, "mark", "latn", <<Lk(4, 0, -1, FALSE, <<MarkBaseSub(cf, 1)>>)>>, <<0>>, <<>>, TRUE, m),
     Items({1, 2, 3, 4, 5, 6}), 3) : gv \in GdefVariants, cf \in {1, 2}, m \in {0, 1}}
  \cup
  {T(<<"markbase-gdef-long", gv, m>>,
     ProgG(gv, "mark", "latn", <<Lk(4, 0, -1, TRUE, <<MarkBaseSub(1, 2)>>)>>, <<0>>, <<>>, TRUE, m),
     Items({1, 4, 5}), 4) : gv \in GdefVariants, m \in {0, 1}}

\* second subtable serves what the first cannot (B has no anchor for class 1 in the first)
MarkBaseMulti ==
  {T(<<"markbase-multi", m>>,
     Prog("mark", "latn",
          <<Lk(4, 0, -1, FALSE,
               <<MarkBaseSub(1, 1),
                 [mcov |-> Cov(1, <<5>>), bcov |-> Cov(1, <<2, 7>>), nc |-> 1, marks |-> <<[c |-> 0, a |-> An(1, 8)]>>,
                  bases |-> << <<An(2, 9)>>, <<An(3, 10)>> >>]>>)>>,
          <<0>>, <<>>, TRUE, m),
     Items({1, 2, 7, 4, 5}), 3) : m \in {0, 1}}

MarkLigSub(cf, af) ==
  [mcov |-> Cov(cf, <<4, 5>>), lcov |-> Cov(cf, <<3>>), nc |-> 2, marks |-> MarkRecs(af),
   ligs |-> << << <<An(af, 3), An(af, 4)>>, <<An(af, 5), Null>> >> >>]

MarkLig ==
  {T(<<"marklig", cf, af, m>>,
     Prog("mark", "latn", <<Lk(5, 0, -1, FALSE, <<MarkLigSub(cf, af)>>)>>, <<0>>, <<>>, TRUE, m),
     {It(3), It(1), ItC(4, 0), ItC(4, 1), ItC(4, 2), ItC(5, 0), ItC(5, 1)}, 3) :
     cf \in {1, 2}, af \in {1, 3}, m \in {0, 1}}

MarkLigG ==
  {T(<<"marklig-gdef", gv, m>>,
     ProgG(gv, "mark", "latn", <<Lk(5, 0, -1, FALSE, <<MarkLigSub(1, 1)>>)>>, <<0>>, <<>>, TRUE, m),
     {It(3), It(1), ItC(4, 0), ItC(4, 1), ItC(4, 2), ItC(5, 0), ItC(5, 1)}, 3) :
     gv \in GdefVariants, m \in {0, 1}}

MarkMarkSub(cf, af, m1, m2) ==
  [mcov |-> Cov(cf, m1), bcov |-> Cov(cf, m2), nc |-> 2,
   marks |-> [k \in 1 .. Len(m1) |-> [c |-> (k - 1) % 2, a |-> An(af, k)]],
   bases |-> [k \in 1 .. Len(m2) |-> <<An(af, 2 * k + 1), An(af, 2 * k + 2)>>]]

\* the base mark is the preceding mark the lookup flag sees; the generated programs filter
\* with the flag exactly the marks their Mark2Coverage lists (as fonts do)
MarkMark ==
  {T(<<"markmark", fl[1], cf, m>>,
     Prog("mkmk", "latn",
          <<Lk(6, fl[1], fl[2], FALSE,
               <<IF fl[1] = 0 THEN MarkMarkSub(cf, 1, <<4, 5>>, <<4, 5>>) ELSE MarkMarkSub(cf, 2, <<4>>, <<4>>)>>)>>,
          <<0>>, <<>>, TRUE, m),
     Items(IF fl[1] = 0 THEN {1, 4, 5, 6} ELSE {1, 4, 5}), 4) :
     fl \in {<<0, -1>>, <<256, -1>>, <<16, 0>>}, cf \in {1, 2}, m \in {0, 1}}

\* MarkMark where GDEF does not class (all of) the covered glyphs as marks; flag 0, both coverages
\* list every glyph that can count as a mark (MkMkFragment below)
MarkMarkG ==
  {T(<<"markmark-gdef", gv, cf, m>>,
     ProgG(gv, "mkmk", "latn", <<Lk(6, 0, -1, FALSE, <<MarkMarkSub(cf, 1, <<4, 5>>, <<4, 5>>)>>)>>,
           <<0>>, <<>>, TRUE, m),
     Items({1, 4, 5, 6}), 4) : gv \in GdefVariants, cf \in {1, 2}, m \in {0, 1}}

\* ---- types 7, 8 ---------------------------------------------------------------------
\* nested lookups (not listed in the feature): index 1 single, 2 pair, 3 markbase, 4 markmark,
\* 5 cursive, 6 single with another flag
NestedLookups(nf) ==
  <<Lk(1, nf, -1, FALSE, <<[f |-> 2, cov |-> Cov(1, <<1, 2, 4, 6>>), vf |-> 5, vs |-> <<V(1), V(2), V(3), V(4)>>]>>),
    Lk(2, nf, -1, FALSE, <<Pair1Sub(1, 4, 4)>>),
    Lk(4, 0, -1, FALSE, <<MarkBaseSub(1, 1)>>),
    Lk(6, 0, -1, FALSE, <<MarkMarkSub(1, 1, <<4, 5>>, <<4, 5>>)>>),
    Lk(3, 8, -1, FALSE, <<CursSub(1, 1, "flat", TRUE)>>),
    Lk(1, 0, -1, TRUE, <<[f |-> 1, cov |-> Cov(1, <<1, 2, 4, 5, 6>>), vf |-> 4, v |-> V(7)]>>)>>

CtxSubs(ty, f) ==
  IF ty = 7
  THEN CASE f = 1 ->
              <<[f |-> 1, cov |-> Cov(1, <<1, 2>>),
                 sets |-> << <<[inp |-> <<2>>, recs |-> << <<0, 1>>, <<1, 6>> >>],
                               [inp |-> <<1, 2>>, recs |-> << <<2, 1>> >>]>>,
                             <<[inp |-> <<1>>, recs |-> << <<0, 2>> >>]>> >>]>>
         [] f = 2 ->
              <<[f |-> 2, cov |-> Cov(2, <<1, 2, 6>>), cd |-> Cd(1, <<0, 1, 2, 0, 3, 3, 0, 0>>),
                 sets |-> << <<[inp |-> <<1>>, recs |-> << <<1, 1>> >>]>>,
                             <<[inp |-> <<2>>, recs |-> << <<0, 1>>, <<1, 1>> >>],
                               [inp |-> <<3>>, recs |-> << <<1, 3>> >>]>>,
                             <<>>,
                             <<>> >>]>>
         [] f = 3 ->
              <<[f |-> 3, covs |-> <<Cov(1, <<1, 2>>), Cov(2, <<4, 5>>), Cov(1, <<4, 5>>)>>,
                 recs |-> << <<1, 3>>, <<2, 3>>, <<2, 4>> >>]>>
  ELSE CASE f = 1 ->
              <<[f |-> 1, cov |-> Cov(1, <<1, 2>>),
                 sets |-> << <<[bt |-> <<2>>, inp |-> <<>>, la |-> <<1>>, recs |-> << <<0, 1>> >>],
                               [bt |-> <<>>, inp |-> <<2>>, la |-> <<6>>, recs |-> << <<0, 2>>, <<1, 1>> >>]>>,
                             <<[bt |-> <<1, 1>>, inp |-> <<>>, la |-> <<>>, recs |-> << <<0, 6>> >>]>> >>]>>
         [] f = 2 ->
              <<[f |-> 2, cov |-> Cov(1, <<1, 2>>),
                 bcd |-> Cd(1, <<0, 1, 1, 0, 0, 0, 2, 0>>), icd |-> Cd(2, <<0, 1, 2, 0, 0, 0, 0, 0>>),
                 lcd |-> Cd(1, <<0, 0, 1, 0, 2, 2, 0, 0>>),
                 sets |-> << <<>>,
                             <<[bt |-> <<1>>, inp |-> <<2>>, la |-> <<>>, recs |-> << <<1, 1>> >>],
                               [bt |-> <<>>, inp |-> <<>>, la |-> <<2>>, recs |-> << <<0, 1>>, <<1, 3>> >>]>>,
                             <<[bt |-> <<2>>, inp |-> <<>>, la |-> <<1>>, recs |-> << <<0, 6>> >>]>> >>]>>
         [] f = 3 ->
              <<[f |-> 3, bt |-> <<Cov(1, <<1, 2>>)>>, inp |-> <<Cov(1, <<1, 2>>), Cov(2, <<1, 2, 6>>)>>,
                 la |-> <<Cov(1, <<1, 4>>)>>, recs |-> << <<0, 5>>, <<1, 6>> >>]>>

Ctx ==
  {T(<<"ctx", ty, f, fl, nf, ext>>,
     Prog("kern", "latn", <<Lk(ty, fl, -1, ext, CtxSubs(ty, f))>> \o NestedLookups(nf), <<0>>, <<>>, TRUE, 1),
     Items({1, 2, 4, 6}), 4) :
     ty \in {7, 8}, f \in {1, 2, 3}, fl \in {0, 8}, nf \in {0, 8}, ext \in BOOLEAN}

\* nested Mark* lookups and flags of context lookups in fonts without (complete) glyph classes
CtxG ==
  {T(<<"ctx-gdef", gv, ty, f, fl>>,
     ProgG(gv, "kern", "latn", <<Lk(ty, fl, -1, FALSE, CtxSubs(ty, f))>> \o NestedLookups(fl), <<0>>, <<>>, TRUE, 1),
     Items({1, 2, 4, 6}), 3) :
     gv \in {"absent", "m1-uncl"}, ty \in {7, 8}, f \in {1, 2, 3}, fl \in {0, 8}}

\* a contextual rule that re-anchors the SECOND mark of a stack: the nested MarkBase / MarkLig
\* lookup (flag 0) attaches to the preceding base / ligature, stepping over the first mark
CtxMarkStack ==
  {T(<<"ctx-markstack", ty, nty, m>>,
     Prog("kern", "latn",
          <<Lk(ty, 0, -1, FALSE,
               <<IF ty = 7
                 THEN [f |-> 3, covs |-> <<Cov(1, <<1, 2, 3>>), Cov(2, <<4, 5>>), Cov(1, <<4, 5>>)>>, recs |-> << <<2, 1>> >>]
                 ELSE [f |-> 3, bt |-> <<Cov(1, <<1, 2, 3>>)>>, inp |-> <<Cov(1, <<4, 5>>), Cov(2, <<4, 5>>)>>, la |-> <<>>,
                       recs |-> << <<1, 1>> >>]>>),
            IF nty = 4 THEN Lk(4, 0, -1, FALSE, <<MarkBaseSub(1, 1)>>) ELSE Lk(5, 0, -1, FALSE, <<MarkLigSub(1, 1)>>)>>,
          <<0>>, <<>>, TRUE, m),
     IF nty = 4 THEN Items({1, 2, 4, 5}) ELSE {It(3), It(1), ItC(4, 0), ItC(4, 1), ItC(5, 0)}, 3) :
     ty \in {7, 8}, nty \in {4, 5}, m \in {0, 1}}

\* ---- several lookups adjusting the same glyphs (accumulation, order) -------------------
SingleOn(cov, vf, r) == Lk(1, 0, -1, FALSE, <<[f |-> 1, cov |-> Cov(1, cov), vf |-> vf, v |-> V(r)]>>)
MultiOf(m) ==
  {T(<<"multi", "adv+place", m>>,
     Prog("kern", "latn", <<SingleOn(<<1, 4>>, 4, 1), SingleOn(<<1, 2>>, 3, 2), SingleOn(<<1, 2, 4>>, 7, 3)>>,
          <<2, 0, 1, 0>>, <<>>, TRUE, m), Items({1, 2, 4}), 3),
   T(<<"multi", "base-displaced+mark", m>>,
     Prog("mark", "latn", <<SingleOn(<<1, 2>>, 3, 2), Lk(4, 0, -1, FALSE, <<MarkBaseSub(1, 1)>>)>>,
          <<0, 1>>, <<>>, TRUE, m), Items({1, 2, 4, 5}), 3),
   T(<<"multi", "mark+mark-displaced", m>>,
     Prog("mark", "latn", <<Lk(4, 0, -1, FALSE, <<MarkBaseSub(1, 1)>>), SingleOn(<<4>>, 7, 3)>>,
          <<0, 1>>, <<>>, TRUE, m), Items({1, 2, 4, 5}), 3),
   T(<<"multi", "mark-displaced+mark", m>>,
     Prog("mark", "latn", <<SingleOn(<<4>>, 3, 3), Lk(4, 0, -1, FALSE, <<MarkBaseSub(1, 1)>>)>>,
          <<0, 1>>, <<>>, TRUE, m), Items({1, 2, 4, 5}), 3),
   T(<<"multi", "markbase+markmark", m>>,
     Prog("mark", "latn", <<Lk(4, 0, -1, FALSE, <<MarkBaseSub(1, 1)>>),
                            Lk(6, 0, -1, FALSE, <<MarkMarkSub(1, 1, <<4, 5>>, <<4, 5>>)>>)>>,
          <<0, 1>>, <<>>, TRUE, m), Items({1, 2, 4, 5}), 4),
   T(<<"multi", "pair+single", m>>,
     Prog("kern", "latn", <<Lk(2, 0, -1, FALSE, <<Pair1Sub(1, 5, 4)>>), SingleOn(<<1, 2>>, 4, 3)>>,
          <<1, 0>>, <<>>, TRUE, m), Items({1, 2, 4}), 3)}
Multi == MultiOf(0) \cup MultiOf(1)

\* attachment by one lookup decides what later lookups take for a mark (Dev_MarkAttachedIsMark)
MultiG ==
  {T(<<"multi-gdef", "markbase+markmark", gv, m>>,
     ProgG(gv, "mark", "latn", <<Lk(4, 0, -1, FALSE, <<MarkBaseSub(1, 1)>>),
                                 Lk(6, 0, -1, FALSE, <<MarkMarkSub(1, 1, <<4, 5>>, <<4, 5>>)>>)>>,
           <<0, 1>>, <<>>, TRUE, m), Items({1, 2, 4, 5}), 4) : gv \in GdefVariants, m \in {0, 1}}
  \cup
  {T(<<"multi-gdef", "mark-displaced+mark", gv, m>>,
     ProgG(gv, "mark", "latn", <<SingleOn(<<4, 5>>, 3, 3), Lk(4, 0, -1, FALSE, <<MarkBaseSub(1, 1)>>), SingleOn(<<5>>, 7, 2)>>,
           <<0, 1, 2>>, <<>>, TRUE, m), Items({1, 2, 4, 5}), 3) : gv \in {"absent", "m2-uncl"}, m \in {0, 1}}
  \cup
  {T(<<"multi-gdef", "markbase+marklig", gv, m>>,
     ProgG(gv, "mark", "latn", <<Lk(5, 0, -1, FALSE, <<MarkLigSub(1, 1)>>), Lk(4, 0, -1, FALSE, <<MarkBaseSub(2, 3)>>)>>,
           <<0, 1>>, <<>>, TRUE, m), {It(3), It(1), ItC(4, 0), ItC(4, 1), ItC(5, 0), ItC(5, 2)}, 3) :
     gv \in {"absent", "m1-uncl"}, m \in {0, 1}}

\* ---- legacy kern ---------------------------------------------------------------------------
K0(cov, ps) == [f |-> 0, cov |-> cov, pairs |-> ps]
PairsA == << <<1, 2, -30>>, <<1, 4, 12>>, <<2, 1, 25>>, <<4, 2, -7>> >>
PairsB == << <<1, 2, 9>>, <<2, 1, -40>>, <<2, 2, 3>>, <<6, 1, 14>> >>
\* format 2: left glyphs 1..3 (A class 1, B class 2, L class 0), right glyphs from 2;
\* nr = number of right glyphs listed, 3 right classes, row width 6, 3 left classes.
\* base = "array": left values are class * rowWidth; "subtable": they include the array offset.
K2(cov, nr, base) ==
  LET ao == 14 + (4 + 2 * 3) + (4 + 2 * nr)
      rvals == [k \in 1 .. nr |-> 2 * (<<1, 0, 2, 1, 0, 2>>[k])] IN
  [f |-> 2, cov |-> cov, rw |-> 6, ao |-> ao,
   lt |-> [first |-> 1, vals |-> [k \in 1 .. 3 |-> (IF base = "array" THEN 0 ELSE ao) + 6 * (<<1, 2, 0>>[k])]],
   rt |-> [first |-> 2, vals |-> rvals],
   arr |-> <<0, 0, 0, 5, -11, 21, -33, 45, -57>>]

\* coverage bits: 1 horizontal, 2 minimum, 4 cross-stream, 8 override; 0 in bit 0 = vertical
KernCrossTables ==
  {<<"cross", <<K0(5, PairsA)>> >>,
   <<"h+cross", <<K0(1, PairsA), K0(5, PairsB)>> >>,
   <<"cross+h", <<K0(5, PairsB), K0(1, PairsA)>> >>,
   <<"h+cross+h", <<K0(1, PairsA), K0(5, PairsA), K0(1, PairsB)>> >>,
   <<"h+cross-override", <<K0(1, PairsA), K0(13, PairsB)>> >>,
   <<"h+override+cross", <<K0(1, PairsA), K0(9, PairsB), K0(5, PairsA)>> >>,
   <<"h+cross-minimum", <<K0(1, PairsA), K0(7, PairsB)>> >>,
   <<"cross+cross-override", <<K0(5, PairsA), K0(13, PairsB), K0(1, PairsB)>> >>,
   <<"h+vcross", <<K0(1, PairsA), K0(4, PairsB)>> >>,
   <<"h+v-override", <<K0(1, PairsA), K0(8, PairsB)>> >>,
   <<"h+v-minimum", <<K0(1, PairsA), K0(2, PairsB)>> >>,
   <<"h+vcross-override", <<K0(1, PairsA), K0(12, PairsB)>> >>,
   <<"h+fmt2-cross", <<K0(1, PairsA), K2(5, 3, "array")>> >>,
   <<"fmt2-cross", <<K2(5, 3, "array")>> >>}

KernTables ==
  {<<"h", <<K0(1, PairsA)>> >>,
   <<"v", <<K0(0, PairsA)>> >>,
   <<"h+h", <<K0(1, PairsA), K0(1, PairsB)>> >>,
   <<"h+override", <<K0(1, PairsA), K0(9, PairsB)>> >>,
   <<"h+minimum", <<K0(1, PairsA), K0(3, PairsB)>> >>,
   <<"v+h", <<K0(0, PairsB), K0(1, PairsA)>> >>,
   <<"fmt2-fit", <<K2(1, 3, "array")>> >>,
   <<"fmt2-short", <<K2(1, 2, "array")>> >>,
   <<"fmt2-long", <<K2(1, 6, "array")>> >>,
   <<"fmt2-fit-apple", <<K2(1, 3, "subtable")>> >>,
   <<"h+fmt2", <<K0(1, PairsA), K2(1, 3, "array")>> >>,
   <<"fmt2+h", <<K2(1, 3, "array"), K0(1, PairsA)>> >>} \cup KernCrossTables

KernFallback ==
  {T(<<"kern-fallback", kt[1]>>, Prog("kern", "latn", <<>>, <<>>, kt[2], FALSE, 1), Items({1, 2, 3, 4, 6}), 3) :
     kt \in KernTables}
KernWithGpos ==
  {T(<<"kern+gpos-mark", kt[1]>>,
     Prog("mark", "latn", <<Lk(4, 0, -1, FALSE, <<MarkBaseSub(1, 1)>>)>>, <<0>>, kt[2], TRUE, 1),
     Items({1, 2, 4, 6}), 3) : kt \in {k \in KernTables : k[1] \in {"h", "h+h", "h+override", "h+cross", "cross+h",
                                                                    "h+cross-override"}}}
\* a GPOS `dist` feature adjusting advances, and a kern table for the same glyphs
KernWithDist ==
  {T(<<"kern+gpos-dist", kt[1]>>,
     Prog("dist", "latn", <<SingleOn(<<1, 2, 4>>, 4, 2)>>, <<0>>, kt[2], TRUE, 1),
     Items({1, 2, 4}), 3) : kt \in {k \in KernTables : k[1] \in {"h", "h+cross", "h+vcross"}}}
\* a kern table with cross-stream subtables next to a GPOS without GDEF
KernWithGposG ==
  {T(<<"kern+gpos-mark-gdef", kt[1], gv>>,
     ProgG(gv, "mark", "latn", <<Lk(4, 0, -1, FALSE, <<MarkBaseSub(1, 1)>>)>>, <<0>>, kt[2], TRUE, 1),
     Items({1, 2, 4, 5}), 3) : kt \in {k \in KernTables : k[1] \in {"h", "h+cross"}}, gv \in {"absent", "m2-uncl"}}

\* ---- combinations: cursive chains, marks (on marks), displacements and kerning in ONE run ----
\* "The final pen positions equal font advances plus these adjustments, with each mark placed
\*  at base anchor minus mark anchor relative to its base": the mechanisms compose.  A mark
\*  (or a mark on a mark) sits on the first / a middle / the last glyph of a cursive chain of
\*  2..4 glyphs that the join really moves (across the line, RIGHT_TO_LEFT flag set or clear;
\*  along the line through the fitted advance), marks are skipped between the joined glyphs,
\*  a displaced mark stands inside a chain, a displaced base with marks beside it, kerning
\*  (PairPos or kern table) adjusts the chain's glyphs and the glyph after it, a ligature
\*  carries marks on its components and starts a chain.
\* anchors of the mark lookups: values that no cursive anchor (An) has
AnC(af, k) == [f |-> af, x |-> 13 + 41 * k, y |-> 19 * k - 7 - 2 * k * k]
CombMarkBase(withL) ==
  Lk(4, 0, -1, FALSE,
     <<[mcov |-> Cov(1, <<4, 5>>), bcov |-> Cov(2, IF withL THEN <<1, 2, 3, 7>> ELSE <<1, 2, 7>>), nc |-> 2,
        marks |-> <<[c |-> 0, a |-> AnC(1, 1)], [c |-> 1, a |-> AnC(1, 2)]>>,
        bases |-> IF withL
                  THEN << <<AnC(1, 3), AnC(1, 4)>>, <<AnC(1, 5), Null>>, <<AnC(2, 6), AnC(3, 7)>>, <<AnC(1, 8), AnC(1, 9)>> >>
                  ELSE << <<AnC(1, 3), AnC(1, 4)>>, <<AnC(1, 5), Null>>, <<AnC(1, 8), AnC(1, 9)>> >>]>>)
CombMkMk ==
  Lk(6, 0, -1, FALSE,
     <<[mcov |-> Cov(1, <<4, 5>>), bcov |-> Cov(1, <<4, 5>>), nc |-> 2,
        marks |-> <<[c |-> 0, a |-> AnC(1, 11)], [c |-> 1, a |-> AnC(1, 12)]>>,
        bases |-> << <<AnC(1, 13), AnC(1, 14)>>, <<AnC(1, 15), AnC(1, 16)>> >>]>>)
CombLig ==
  Lk(5, 0, -1, FALSE,
     <<[mcov |-> Cov(1, <<4, 5>>), lcov |-> Cov(1, <<3>>), nc |-> 2,
        marks |-> <<[c |-> 0, a |-> AnC(1, 17)], [c |-> 1, a |-> AnC(1, 18)]>>,
        ligs |-> << << <<AnC(1, 19), AnC(1, 20)>>, <<AnC(1, 21), Null>> >> >>]>>)
CombCurs(shape, fl, bexit) == Lk(3, fl, -1, FALSE, <<CursSub(1, 1, shape, bexit)>>)
\* placement (and, with bit 2, advance) of M2 and of C, neither of which a cursive lookup covers
CombDist(vf) == Lk(1, 0, -1, FALSE, <<[f |-> 2, cov |-> Cov(1, <<5, 7>>), vf |-> vf, vs |-> <<V(3), V(4)>>]>>)
\* kerning that skips marks: (A|B, C) adjusts the advance of the chain's glyph and displaces C;
\* pairs inside a chain and (C, A|B) adjust advances only
CombPair ==
  Lk(2, 8, -1, FALSE,
     <<[f |-> 1, cov |-> Cov(1, <<1, 2>>), vf1 |-> 4, vf2 |-> 5,
        sets |-> << <<[g2 |-> 7, v1 |-> V(1), v2 |-> V(2)]>>, <<[g2 |-> 7, v1 |-> V(3), v2 |-> V(4)]>> >>],
       [f |-> 1, cov |-> Cov(2, <<1, 2, 7>>), vf1 |-> 4, vf2 |-> 0,
        sets |-> << <<[g2 |-> 2, v1 |-> V(5), v2 |-> V(5)]>>, <<[g2 |-> 1, v1 |-> V(6), v2 |-> V(6)]>>,
                    <<[g2 |-> 1, v1 |-> V(7), v2 |-> V(7)], [g2 |-> 2, v1 |-> V(8), v2 |-> V(8)]>> >>]>>)
PairsC == << <<1, 2, -30>>, <<2, 1, 25>>, <<2, 7, -19>>, <<7, 1, 33>> >>

AllOf(ls) == [k \in 1 .. Len(ls) |-> k - 1]
RevOf(ls) == [k \in 1 .. Len(ls) |-> Len(ls) - k]
CombProg(ls, kern, m) == Prog("curs", "arab", ls, AllOf(ls), kern, TRUE, m)
CombOrd(ord, curs, rest) == IF ord = "cm" THEN <<curs>> \o rest ELSE rest \o <<curs>>

\* glyph strings: a chain whose glyphs are each followed by one of the mark sequences D
ItSeq(gs) == [q \in 1 .. Len(gs) |-> It(gs[q])]
DecoStr(chain, d) == ConcatAll([k \in 1 .. Len(chain) |-> <<It(chain[k])>> \o d[k]])
DecoStrs(chains, D) == UNION {{DecoStr(c, d) : d \in [1 .. Len(c) -> D]} : c \in chains}
Affix(pre, S, suf) == {ItSeq(p) \o x \o ItSeq(q) : p \in pre, x \in S, q \in suf}
Gs(D) == {ItSeq(d) : d \in D}

DecoQ == Gs({<<>>, <<4>>, <<4, 5>>})
DecoT == Gs({<<>>, <<4>>, <<4, 5>>, <<5>>, <<4, 4>>, <<5, 4>>})
Deco1 == Gs({<<>>, <<4>>})
Deco5 == Gs({<<>>, <<5>>, <<4, 5>>})
Chains2 == {<<1, 2>>, <<2, 1>>, <<3, 1>>}
Chains3 == IF Quick THEN {<<1, 2, 1>>, <<3, 2, 2>>} ELSE {<<1, 2, 1>>, <<3, 2, 2>>, <<2, 1, 1>>}
Chains4 == IF Quick THEN {<<1, 2, 2, 1>>} ELSE {<<1, 2, 2, 1>>, <<3, 1, 2, 1>>}

CombStrs1 ==
  IF Quick
  THEN DecoStrs(Chains2, DecoQ) \cup DecoStrs(Chains3, DecoQ) \cup DecoStrs(Chains4, Deco1)
  ELSE DecoStrs(Chains2, DecoT) \cup DecoStrs(Chains3, DecoT) \cup DecoStrs(Chains4, DecoQ)

CombShapes == {"gen", "x0", "flat", "fit", "fity", "fitx"}
CombCursMark ==
  {TW(<<"comb-curs-mark", c[1], c[2], c[3], c[4], c[5]>>,
      CombProg(CombOrd(c[4], CombCurs(c[1], c[2], c[5]), <<CombMarkBase(TRUE), CombMkMk>>), <<>>, c[3]),
      CombStrs1) :
     c \in {c \in CombShapes \X {8, 9} \X {0, 1} \X {"cm", "mc"} \X BOOLEAN :
              /\ c[4] = "cm" \/ ~Quick \/ c[1] \in {"x0", "fity"}
              /\ c[5] \/ ~Quick}}

\* a ligature with marks on its components (one component number out of range) that starts a chain
LigDeco == {<<>>, <<ItC(4, 0)>>, <<ItC(4, 1)>>, <<ItC(4, 0), ItC(5, 1)>>, <<ItC(5, 0), ItC(4, 1)>>, <<ItC(4, 2)>>,
            <<ItC(4, 0), ItC(5, 0)>>}
CombStrsLig ==
  {<<It(3)>> \o dl \o <<It(1)>> \o da \o rest :
     dl \in LigDeco, da \in Deco1,
     rest \in {<<>>} \cup {<<It(2)>> \o db : db \in Deco1} \cup (IF Quick THEN {} ELSE {<<It(2)>> \o db \o <<It(1), It(4)>> : db \in Deco1})}
CombCursLig ==
  {TW(<<"comb-curs-marklig", shape, fl, m>>,
      CombProg(<<CombCurs(shape, fl, TRUE), CombLig, CombMarkBase(FALSE), CombMkMk>>, <<>>, m),
      CombStrsLig) :
     shape \in {"x0", "fity", "gen", "fitx"}, fl \in {8, 9}, m \in {0, 1}}

\* a displaced mark (M2, unattached after B) inside a chain, a displaced base (C) with marks beside a chain
CombStrsDist ==
  Affix({<<>>, <<7, 4>>}, DecoStrs(IF Quick THEN {<<1, 2>>, <<1, 2, 1>>} ELSE {<<1, 2>>, <<1, 2, 1>>, <<2, 2, 1>>}, Deco5),
        {<<>>, <<7>>, <<7, 5>>})
CombCursDist ==
  {TW(<<"comb-curs-dist", c[1], c[2], c[3], c[4]>>,
      \* (the feature lists its lookups in decreasing order: they still apply in lookup-list order)
      [CombProg(IF c[4]
               THEN <<CombDist(IF c[3] = 0 THEN 3 ELSE 7), CombCurs(c[1], c[2], TRUE), CombMarkBase(TRUE), CombMkMk>>
               ELSE <<CombCurs(c[1], c[2], TRUE), CombMarkBase(TRUE), CombMkMk, CombDist(IF c[3] = 0 THEN 3 ELSE 7)>>,
               <<>>, c[3]) EXCEPT !.feat = RevOf(@)],
      CombStrsDist) :
     c \in {c \in {"x0", "fity", "gen"} \X {8, 9} \X {0, 1} \X BOOLEAN : ~c[4] \/ ~Quick \/ c[2] = 9}}

\* kerning between the glyphs of a chain and between a chain and a following glyph that carries marks
CombStrsKern ==
  LET S == DecoStrs({<<1, 2>>, <<2, 1>>, <<1, 2, 1>>}, IF Quick THEN Deco1 ELSE DecoQ) IN
  Affix({<<>>}, S, {<<7>>, <<7, 4>>, <<7, 4, 5>>}) \cup Affix({<<7, 4>>}, S, {<<>>})
CombCursKern ==
  {TW(<<"comb-curs-kern", shape, fl, m>>,
      CombProg(<<CombCurs(shape, fl, TRUE), CombPair, CombMarkBase(TRUE), CombMkMk>>, <<>>, m),
      CombStrsKern) :
     shape \in {"x0", "fity", "gen", "fit"}, fl \in {8, 9}, m \in {0, 1}}
  \cup
  {TW(<<"comb-curs-kerntable", kt[1], shape, fl, m>>,
      CombProg(<<CombCurs(shape, fl, TRUE), CombMarkBase(TRUE)>>, kt[2], m),
      CombStrsKern) :
     kt \in {<<"h", <<K0(1, PairsA)>> >>, <<"hc", <<K0(1, PairsC)>> >>},
     shape \in {"x0", "fity", "gen"}, fl \in {8, 9}, m \in {0, 1}}

\* the same in fonts whose GDEF does not class M1 as a mark / that have no GDEF: the cursive
\* lookup cannot skip such a "mark" (the chain breaks there), the mark lookups attach it all the same
CombGdef ==
  {TW(<<"comb-curs-mark-gdef", gv, shape, fl>>,
      [CombProg(<<CombCurs(shape, fl, TRUE), CombMarkBase(TRUE), CombMkMk>>, <<>>, 0) EXCEPT !.gdef = GdefV(gv)],
      DecoStrs({<<1, 2>>, <<1, 2, 1>>}, DecoQ)) :
     gv \in {"m1-uncl", "absent"}, shape \in {"x0", "fity"}, fl \in {8, 9}}

Comb == CombCursMark \cup CombCursLig \cup CombCursDist \cup CombCursKern \cup CombGdef

\* ---- variation deltas (round 4): VariationIndex / Device tables behind value records and anchors ----
\* one axis: R0 ramp 0..1, R1 tent peaking at 0.5, R2 the negative side; two axes: R0 ignores the
\* second axis (peak 0), R1 is the corner (1, 1)
VarD(o, i) == [k |-> "var", o |-> o, i |-> i]
HintD(f)   == [k |-> "hint", fmt |-> f]
Regions1 == << <<[s |-> 0, p |-> 16384, e |-> 16384]>>, <<[s |-> 0, p |-> 8192, e |-> 16384]>>,
               <<[s |-> -16384, p |-> -16384, e |-> 0]>> >>
Regions2 == << <<[s |-> 0, p |-> 16384, e |-> 16384], [s |-> 0, p |-> 0, e |-> 0]>>,
               <<[s |-> 0, p |-> 16384, e |-> 16384], [s |-> 0, p |-> 16384, e |-> 16384]>>,
               <<[s |-> -16384, p |-> -16384, e |-> 0], [s |-> 0, p |-> 8192, e |-> 16384]>> >>
\* block 0: two 16-bit columns (rows 2 and 3 give ties at 0.5: +1.5 / -1.5); block 1: two 8-bit
\* columns; block 2: one 16-bit and two 8-bit columns
VarData == <<[regs |-> <<0, 1>>, wc |-> 2, sets |-> << <<40, -12>>, <<-7, 30>>, <<3, 0>>, <<-3, 0>>, <<0, 21>> >>],
             [regs |-> <<2, 0>>, wc |-> 0, sets |-> << <<-20, 10>>, <<5, -6>> >>],
             [regs |-> <<0, 1, 2>>, wc |-> 1, sets |-> << <<300, -5, 9>> >>]>>
\* tuples: shaping without one, the default instance, and instances inside / at the end of regions
Tuples == {<<"none", [has |-> FALSE, c |-> <<0>>]>>, <<"default", [has |-> TRUE, c |-> <<0>>]>>,
           <<"quarter", [has |-> TRUE, c |-> <<4096>>]>>, <<"half", [has |-> TRUE, c |-> <<8192>>]>>,
           <<"full", [has |-> TRUE, c |-> <<16384>>]>>, <<"neg", [has |-> TRUE, c |-> <<-8192>>]>>,
           <<"2d", [has |-> TRUE, c |-> <<8192, 8192>>]>>, <<"2d-neg", [has |-> TRUE, c |-> <<-16384, 4096>>]>>}
VarOf(tv, store) == [tuple |-> tv[2], store |-> store,
                     regions |-> IF Len(tv[2].c) = 1 THEN Regions1 ELSE Regions2, data |-> VarData]
ProgV(var, gv, tag, script, lookups, feat, m) ==
  [gdef |-> GdefV(gv), adv |-> AdvOf(m), tag |-> tag, script |-> script, lookups |-> lookups,
   feat |-> feat, kern |-> <<>>, gpos |-> TRUE, var |-> var]

\* value records with device / variation-index offsets.  z: both placement defaults are zero
VD(r, z, dev) == [xp |-> IF z THEN 0 ELSE V(r).xp, yp |-> IF z THEN 0 ELSE V(r).yp, xa |-> V(r).xa, ya |-> 0, dev |-> dev]
DevsA == <<VarD(0, 0), VarD(0, 1), VarD(1, 0), HintD(1)>>
DevsB == <<VarD(0, 2), VarD(0, 3), VarD(2, 0), DevNull>>       \* ties
DevsC == <<VarD(5, 0), HintD(3), VarD(0, 9), HintD(2)>>        \* index names no delta set; hinting tables
DevsE == <<VarD(1, 1), VarD(0, 4), VarD(0, 0), DevNull>>
\* value formats: 0x75 xp xa + three devices, 0x44 xa + its device, 0x40 a device only, 0xF7 everything but
\* yAdvance, 0x14 xAdvance and an xPlacement device, 0x33 placements + their devices, 0x30 two devices only
VarVfs == {117, 68, 64, 247, 20, 51, 48}
VarSingle ==
  {T(<<"var-single", tv[1], c[1], c[2], c[3]>>,
     ProgV(VarOf(tv, TRUE), "full", "kern", "latn",
           <<Lk(1, 0, -1, c[2] = 2,
                <<IF c[2] = 1 THEN [f |-> 1, cov |-> Cov(1, <<1, 4>>), vf |-> c[1], v |-> VD(1, c[3], DevsA)]
                  ELSE [f |-> 2, cov |-> Cov(2, <<1, 2, 4>>), vf |-> c[1],
                        vs |-> <<VD(1, c[3], DevsA), VD(2, c[3], DevsB), VD(3, c[3], DevsC)>>]>>)>>,
           <<0>>, 1),
     Items({1, 2, 4}), 2) :
     tv \in Tuples, c \in {c \in VarVfs \X {1, 2} \X BOOLEAN : c[3] => c[1] \in {51, 247}}}
\* the same value records in a font whose GDEF has no ItemVariationStore / that has no GDEF: no deltas
VarSingleNoStore ==
  {T(<<"var-single-nostore", tv[1], c[1], c[2]>>,
     ProgV(VarOf(tv, c[2]), c[1], "kern", "latn",
           <<Lk(1, 0, -1, FALSE, <<[f |-> 2, cov |-> Cov(1, <<1, 2, 4>>), vf |-> 117,
                                    vs |-> <<VD(1, FALSE, DevsA), VD(2, FALSE, DevsB), VD(3, FALSE, DevsC)>>]>>)>>,
           <<0>>, 1),
     Items({1, 2, 4}), 2) :
     tv \in {t \in Tuples : t[1] \in {"half", "none"}},
     c \in {c \in {"full", "absent", "noclassdef"} \X BOOLEAN : c[2] => c[1] # "full"}}
\* PairPos: format 1 resolves the offsets from the PairSet, format 2 from the subtable
VarPair1Sub(vf1, vf2, z) ==
  [f |-> 1, cov |-> Cov(1, <<1, 2>>), vf1 |-> vf1, vf2 |-> vf2,
   sets |-> << <<[g2 |-> 2, v1 |-> VD(1, z, DevsA), v2 |-> VD(2, z, DevsE)], [g2 |-> 4, v1 |-> VD(3, z, DevsB), v2 |-> VD(4, z, DevsC)]>>,
               <<[g2 |-> 1, v1 |-> VD(5, z, DevsE), v2 |-> VD(6, z, DevsA)], [g2 |-> 2, v1 |-> VD(7, z, DevsC), v2 |-> VD(8, z, DevsB)]>> >>]
VarPair2Sub(vf1, vf2, z) ==
  [f |-> 2, cov |-> Cov(2, <<1, 2, 3>>), vf1 |-> vf1, vf2 |-> vf2,
   cd1 |-> Cd(1, <<0, 1, 2, 0, 0, 0, 0, 0>>), cd2 |-> Cd(2, <<0, 0, 1, 0, 2, 0, 0, 1>>),
   recs |-> [c1 \in 1 .. 3 |-> [c2 \in 1 .. 3 |->
               [v1 |-> VD(3 * c1 + c2, z, <<DevsA, DevsB, DevsE>>[c2]), v2 |-> VD(3 * c1 + c2 + 10, z, <<DevsE, DevsC, DevsA>>[c1])]]]]
VarPair ==
  {T(<<"var-pair", tv[1], f, vv[1], vv[2], vv[4]>>,
     ProgV(VarOf(tv, TRUE), "full", "kern", "latn",
           <<Lk(2, 8, -1, vv[4], <<IF f = 1 THEN VarPair1Sub(vv[1], vv[2], vv[3]) ELSE VarPair2Sub(vv[1], vv[2], vv[3])>>)>>, <<0>>, 1),
     Items({1, 2, 4}), 3) :
     tv \in {t \in Tuples : t[1] \in {"none", "half", "full", "2d", "neg"}}, f \in {1, 2},
     vv \in {<<68, 0, FALSE, FALSE>>, <<69, 81, FALSE, FALSE>>, <<69, 81, FALSE, TRUE>>, <<64, 64, FALSE, FALSE>>,
             <<20, 68, FALSE, FALSE>>, <<247, 51, TRUE, FALSE>>}}
\* a context rule invoking a SinglePos lookup whose records vary; a varying Distance on an attached mark
VarNested ==
  {T(<<"var-ctx", tv[1], ty>>,
     ProgV(VarOf(tv, TRUE), "full", "kern", "latn",
           <<Lk(ty, 0, -1, FALSE,
                <<IF ty = 7 THEN [f |-> 3, covs |-> <<Cov(1, <<1, 2>>), Cov(1, <<1, 2, 4>>)>>, recs |-> << <<1, 1>>, <<0, 1>> >>]
                  ELSE [f |-> 3, bt |-> <<Cov(1, <<1, 2>>)>>, inp |-> <<Cov(1, <<1, 2, 4>>)>>, la |-> <<>>, recs |-> << <<0, 1>> >>]>>),
             Lk(1, 0, -1, FALSE, <<[f |-> 2, cov |-> Cov(1, <<1, 2, 4>>), vf |-> 117,
                                    vs |-> <<VD(1, FALSE, DevsA), VD(2, FALSE, DevsB), VD(3, FALSE, DevsE)>>]>>)>>,
           <<0>>, 1),
     Items({1, 2, 4}), 3) : tv \in {t \in Tuples : t[1] \in {"none", "half", "2d"}}, ty \in {7, 8}}
  \cup
  {T(<<"var-mark-displaced", tv[1], ord>>,
     ProgV(VarOf(tv, TRUE), "full", "mark", "latn",
           LET mb == Lk(4, 0, -1, FALSE, <<MarkBaseSub(1, 1)>>)
               sp == Lk(1, 0, -1, FALSE, <<[f |-> 1, cov |-> Cov(1, <<2, 4>>), vf |-> 55, v |-> VD(3, FALSE, DevsA)]>>) IN
           IF ord = 0 THEN <<mb, sp>> ELSE <<sp, mb>>,
           <<0, 1>>, 0),
     Items({1, 2, 4, 5}), 3) : tv \in {t \in Tuples : t[1] \in {"none", "half", "neg"}}, ord \in {0, 1}}
\* anchors of format 3 whose x / y offsets point at VariationIndex or hinting Device tables
AnV(k, dev) == [f |-> 3, x |-> 10 + 37 * k, y |-> 5 + 23 * k - 3 * k * k, dev |-> dev]
VarMarkBaseSub ==
  [mcov |-> Cov(1, <<4, 5>>), bcov |-> Cov(1, <<1, 2, 3>>), nc |-> 2,
   marks |-> <<[c |-> 0, a |-> AnV(1, <<VarD(0, 0), VarD(0, 1)>>)], [c |-> 1, a |-> AnV(2, <<HintD(1), DevNull>>)]>>,
   bases |-> << <<AnV(3, <<VarD(1, 0), VarD(2, 0)>>), An(1, 4)>>, <<AnV(5, <<DevNull, VarD(0, 3)>>), Null>>,
                <<AnV(6, <<HintD(2), HintD(3)>>), AnV(7, <<VarD(0, 4), VarD(7, 7)>>)>> >>]
VarCursSub ==
  [cov |-> Cov(1, <<1, 2, 3>>),
   recs |-> <<[en |-> [AnV(1, <<DevNull, VarD(0, 0)>>) EXCEPT !.x = 0], ex |-> AnV(2, <<HintD(1), VarD(0, 1)>>)],
              [en |-> [AnV(3, <<HintD(2), VarD(1, 1)>>) EXCEPT !.x = 0], ex |-> AnV(4, <<DevNull, VarD(0, 4)>>)],
              [en |-> Null, ex |-> AnV(6, <<DevNull, VarD(2, 0)>>)]>>]
VarAnchor ==
  {T(<<"var-anchor-markbase", tv[1], m>>,
     ProgV(VarOf(tv, TRUE), "full", "mark", "latn", <<Lk(4, 0, -1, FALSE, <<VarMarkBaseSub>>)>>, <<0>>, m),
     Items({1, 2, 3, 4, 5}), 3) : tv \in {t \in Tuples : t[1] \in {"none", "default", "half", "full", "2d"}}, m \in {0, 1}}
  \cup
  {T(<<"var-anchor-curs", tv[1], fl>>,
     ProgV(VarOf(tv, TRUE), "full", "curs", "arab", <<Lk(3, fl, -1, FALSE, <<VarCursSub>>)>>, <<0>>, 0),
     Items({1, 2, 3}), 3) : tv \in {t \in Tuples : t[1] \in {"none", "half", "neg"}}, fl \in {8, 9}}
Var == VarSingle \cup VarSingleNoStore \cup VarPair \cup VarNested \cup VarAnchor

\* ---- lookup type 9 around the types and multi-subtable lookups rounds 1-3 left unwrapped ---------
ExtAll ==
  {T(<<"ext", "pair2", cf>>, Prog("kern", "latn", <<Lk(2, 8, -1, TRUE, <<Pair2Sub(cf, 5, 4)>>)>>, <<0>>, <<>>, TRUE, 1),
     Items({1, 2, 3, 4}), 3) : cf \in {1, 2}}
  \cup {T(<<"ext", "pair-multi">>, [PairMulti_P EXCEPT !.lookups[1].ext = TRUE], Items({1, 2, 3}), 3) :
          PairMulti_P \in {t.prog : t \in PairMulti}}
  \cup {T(<<"ext", "single-multi">>, [P EXCEPT !.lookups[1].ext = TRUE], Items({1, 2, 4}), 3) : P \in {t.prog : t \in SingleMulti}}
  \cup {T(<<"ext", "markbase-multi", m>>,
          [(CHOOSE t \in MarkBaseMulti : t.id[2] = m).prog EXCEPT !.lookups[1].ext = TRUE], Items({1, 2, 7, 4, 5}), 3) : m \in {0, 1}}
  \cup {T(<<"ext", "marklig", m>>,
          Prog("mark", "latn", <<Lk(5, 0, -1, TRUE, <<MarkLigSub(2, 3)>>)>>, <<0>>, <<>>, TRUE, m),
          {It(3), It(1), ItC(4, 0), ItC(4, 1), ItC(4, 2), ItC(5, 0), ItC(5, 1)}, 3) : m \in {0, 1}}
  \cup {T(<<"ext", "markmark", fl[1]>>,
          Prog("mkmk", "latn",
               <<Lk(6, fl[1], fl[2], TRUE,
                    <<IF fl[1] = 0 THEN MarkMarkSub(1, 3, <<4, 5>>, <<4, 5>>) ELSE MarkMarkSub(2, 2, <<4>>, <<4>>)>>)>>,
               <<0>>, <<>>, TRUE, 1),
          Items(IF fl[1] = 0 THEN {1, 4, 5, 6} ELSE {1, 4, 5}), 4) : fl \in {<<0, -1>>, <<256, -1>>, <<16, 0>>}}
  \cup {T(<<"ext", "curs-marks", shape, fl>>,
          Prog("curs", "arab", <<Lk(3, fl, -1, TRUE, <<CursSub(2, 3, shape, TRUE)>>)>>, <<0>>, <<>>, TRUE, 1),
          Items({1, 2, 3, 4}), 3) : shape \in {"x0", "fity"}, fl \in {8, 9}}
  \cup {T(<<"ext", "ctx-nested", ty, f>>,
          \* the nested lookups are extension lookups too
          LET P == Prog("kern", "latn", <<Lk(ty, 0, -1, TRUE, CtxSubs(ty, f))>> \o NestedLookups(0), <<0>>, <<>>, TRUE, 1) IN
          [P EXCEPT !.lookups = [k \in 1 .. Len(@) |-> [@[k] EXCEPT !.ext = TRUE]]],
          Items({1, 2, 4, 6}), 3) : ty \in {7, 8}, f \in {1, 2, 3}}
  \cup {TW(<<"ext", "comb", fl>>,
           LET P == CombProg(<<CombCurs("fity", fl, TRUE), CombMarkBase(TRUE), CombMkMk>>, <<>>, 0) IN
           [P EXCEPT !.lookups = [k \in 1 .. Len(@) |-> [@[k] EXCEPT !.ext = TRUE]]],
           DecoStrs({<<1, 2>>, <<1, 2, 1>>}, DecoQ)) : fl \in {8, 9}}

Templates ==
  SingleVf \cup SingleFlag \cup Single2 \cup SingleMulti \cup Pair1Vf \cup Pair1Long \cup Pair2 \cup PairMulti
  \cup Curs \cup MarkBase \cup MarkBaseMulti \cup MarkLig \cup MarkMark \cup Ctx \cup Multi
  \cup KernFallback \cup KernWithGpos \cup KernWithDist
  \cup SingleFlagG \cup Pair1LongG \cup MarkBaseG \cup MarkLigG \cup MarkMarkG \cup CtxG \cup MultiG \cup KernWithGposG
  \cup Comb \cup CtxMarkStack \cup Var \cup ExtAll

\* thorough: one more glyph per string
LenOf(t) == IF Quick THEN t.n ELSE t.n + 1

---------------------------------------------------------------------------
\* Init only picks the case; the single step marks it done, so that the invariants (where all the
\* work is) are evaluated by TLC's workers in parallel.
\* (the state keeps the template's id and program only)
Init == \E t \in Templates : \E s \in Strs(t.alpha, LenOf(t)) \cup t.ws :
          tpl = [id |-> t.id, prog |-> t.prog] /\ w = s /\ done = FALSE
Next == done = FALSE /\ done' = TRUE /\ UNCHANGED <<tpl, w>>
Spec == Init /\ [][Next]_vars

\* ---- well-formedness of the generated programs (the fragment the spec covers) --------------
\* MarkBase: base coverages list no GDEF marks (a GDEF mark is never found as a base).
\* Mark coverages may list any glyph: whether GDEF classes it as a mark is the font's business.
MarkCovOK(prog) ==
  \A k \in 1 .. Len(prog.lookups) :
    LET L == prog.lookups[k] IN
    L.ty = 4 => \A m \in 1 .. Len(L.subs) : \A g \in Range(L.subs[m].bcov.g) : ~IsMarkGlyph(prog.gdef, g)
\* MarkMark: every glyph that can count as a mark (GDEF class 3, or listed in a mark coverage)
\* and that the lookup's flag sees is listed in its Mark2Coverage ("the flag filters exactly the
\* base marks").  Outside this fragment allsorts attaches to the nearest preceding COVERED mark of
\* the mark run rather than to the preceding seen glyph (suspected deviation, notes/C05.md).
MayBeMark(prog) == {g \in Glyphs(prog.gdef) : IsMarkGlyph(prog.gdef, g)} \cup MarkCovGlyphs(prog, {4, 5, 6})
MkMkFragment(prog) ==
  \A k \in 1 .. Len(prog.lookups) :
    LET L == prog.lookups[k] IN
    L.ty = 6 => \A m \in 1 .. Len(L.subs) : \A g \in MayBeMark(prog) :
                   Sees(FlagOf(L), prog.gdef, g) => Covered(L.subs[m].bcov, g)
GdefWF(gdef) == /\ gdef.tab \in {"full", "noclassdef", "absent"}
                /\ Len(gdef.cls) = Len(gdef.att)
\* variation data: as many coordinates as every region has axes, regions ordered start <= peak <= end on
\* one side of 0, per-axis scalars of the instance are exact multiples of 1/4, rows match their columns
VarWF(prog) ==
  "var" \in DOMAIN prog =>
    LET var == prog.var  c == var.tuple.c IN
    /\ Len(c) \in 1 .. 2
    /\ \A r \in 1 .. Len(var.regions) :
         /\ Len(var.regions[r]) = Len(c)
         /\ \A a \in 1 .. Len(c) :
              LET x == var.regions[r][a] IN
              /\ x.s <= x.p /\ x.p <= x.e /\ (x.s >= 0 \/ x.e <= 0)
              /\ (x.p # 0 /\ x.s <= c[a] /\ c[a] < x.p) => ((c[a] - x.s) * 4) % (x.p - x.s) = 0
              /\ (x.p # 0 /\ x.p < c[a] /\ c[a] <= x.e) => ((x.e - c[a]) * 4) % (x.e - x.p) = 0
    /\ \A b \in 1 .. Len(var.data) :
         /\ var.data[b].wc \in 0 .. Len(var.data[b].regs)
         /\ \A k \in 1 .. Len(var.data[b].regs) : var.data[b].regs[k] + 1 \in 1 .. Len(var.regions)
         /\ \A q \in 1 .. Len(var.data[b].sets) :
              /\ Len(var.data[b].sets[q]) = Len(var.data[b].regs)
              /\ \A k \in 1 .. Len(var.data[b].regs) :
                   k > var.data[b].wc => var.data[b].sets[q][k] \in -128 .. 127
ProgWF(prog) == MarkCovOK(prog) /\ MkMkFragment(prog) /\ KernWF(prog.kern) /\ GdefWF(prog.gdef) /\ VarWF(prog)

ASSUME \A t \in Templates : ProgWF(t.prog)
ASSUME \A t \in Templates : PrintT(<<"TPL", ToJson([id |-> t.id, prog |-> t.prog])>>)

\* ---- invariants --------------------------------------------------------------------------
\* a covered mark right after a covered base that has an anchor for its class is attached to it
\* in every reading, whatever GDEF says about the mark (single-lookup MarkBase programs)
CoveredMarkAttached(o) ==
  (Len(tpl.prog.lookups) = 1 /\ tpl.prog.lookups[1].ty = 4 /\ Len(tpl.prog.lookups[1].subs) = 1) =>
    LET st == tpl.prog.lookups[1].subs[1] IN
    \A j \in 2 .. Len(w) :
      (/\ MarkBaseOk(st, w[j - 1].g, w[j].g)
       /\ ~IsMarkGlyph(tpl.prog.gdef, w[j - 1].g)
       /\ ~Covered(st.mcov, w[j - 1].g)) => (o[j].pl.t = "M" /\ o[j].pl.i = j - 2)

KernDesignOK ==
  UsesKernTable(tpl.prog) =>
    \A D \in DevsFor(tpl.prog) : KernStreamsSeparate(D, tpl.prog.kern, [j \in 1 .. Len(w) |-> w[j].g])

\* DefaultInstanceIsStatic: shaping the default instance of a variable font (all coordinates 0), or a font
\* whose GDEF has no ItemVariationStore, gives what shaping without a tuple gives
DefaultInstanceIsStatic(outs) ==
  ("var" \in DOMAIN tpl.prog /\ (~tpl.prog.var.store \/ \A a \in 1 .. Len(tpl.prog.var.tuple.c) : tpl.prog.var.tuple.c[a] = 0)) =>
    outs = Outcomes([tpl.prog EXCEPT !.var.tuple.has = FALSE], w)

DesignOKOn(outs) ==
  /\ DefaultInstanceIsStatic(outs)
  /\ \A o \in outs :
    /\ Modelled(o)
    /\ CoveredMarkAttached(o) /\ GlyphsKept(w, o) /\ AttachInRun(o) /\ PosWF(o)
    /\ MarkRelativeToBase(o, tpl.prog.adv)
    /\ JoinHolds(o, tpl.prog.adv)
    /\ AdvanceIsSum(o, tpl.prog.adv)
    /\ ChainAnchorStays(o)
    /\ MarksTransparent(o, tpl.prog.adv)

\* vacuity tags: which of the families of behaviour the case exercises (counted by the harness,
\* the driver refuses a run in which one of them is never exercised)
KernPairHit(sel(_)) ==
  /\ UsesKernTable(tpl.prog)
  /\ \E j \in 1 .. (Len(w) - 1) : \E k \in 1 .. Len(tpl.prog.kern) :
        LET x == KernValue(DevDefault, tpl.prog.kern[k], w[j].g, w[j + 1].g) IN
        sel(tpl.prog.kern[k]) /\ x.has /\ x.v # 0
IsVertical(st) == ~KernHorizontal(st)
\* ... of the combinations: which mechanisms meet in the (default) outcome o of the case
CombTags(o) ==
  LET P == tpl.prog  adv == P.adv  n == Len(o)
      tag(c, t) == IF c THEN {t} ELSE {}
      Root(j) == RootOf(o, j)
      Marks == {j \in 1 .. n : o[j].pl.t = "M"}
      OnChain == {j \in Marks : InChain(o, Root(j))}
      Inside(j) == \E p \in 1 .. n : CLink(o, p) /\ p < j /\ j < CNext(o, p)
      FlagSet(b) == IF CLink(o, b) THEN o[b].pl.r ELSE o[CPred(o, b)].pl.r
      IsLast(b) == CPreds(o, b) # {} /\ ~CLink(o, b) IN
  IF ~(P.gpos /\ HasTy(P, {3})) \/ \A j \in 1 .. n : ~CLink(o, j) THEN {}
  ELSE
  tag(\E j \in OnChain : MovedAcross(o, Root(j)) /\ FlagSet(Root(j)), "comb-mark-on-glyph-moved-across-rtl-flag")
  \cup tag(\E j \in OnChain : MovedAcross(o, Root(j)) /\ ~FlagSet(Root(j)), "comb-mark-on-glyph-moved-across-flag-clear")
  \cup tag(\E j \in OnChain : FittedLtr(o, adv, Root(j)), "comb-mark-on-glyph-advance-fitted-ltr")
  \cup tag(\E j \in OnChain : FittedRtl(o, adv, Root(j)), "comb-mark-on-glyph-advance-fitted-rtl")
  \cup tag(\E j \in OnChain : CPreds(o, Root(j)) = {}, "comb-mark-on-chain-first")
  \cup tag(\E j \in OnChain : CPreds(o, Root(j)) # {} /\ CLink(o, Root(j)), "comb-mark-on-chain-middle")
  \cup tag(\E j \in OnChain : IsLast(Root(j)), "comb-mark-on-chain-last")
  \cup tag(\E j \in OnChain : o[o[j].pl.i + 1].pl.t = "M", "comb-mark-on-mark-on-chain")
  \cup tag(\E j \in OnChain : Inside(j), "comb-attached-mark-skipped-by-join")
  \cup tag(\E j \in OnChain : \E b \in 1 .. n : CLink(o, b) /\ CLink(o, CNext(o, b))
                                   /\ Root(j) \in {b, CNext(o, b), CNext(o, CNext(o, b))}, "comb-mark-on-chain-of-3-or-more")
  \cup tag(\E j \in OnChain : GClass(P.gdef, o[Root(j)].g) = 2 /\ CLink(o, Root(j)) /\ w[j].lc > 0,
           "comb-ligature-component-mark-then-join")
  \cup tag(\E j \in 1 .. n : o[j].pl.t = "D" /\ Inside(j), "comb-displaced-glyph-inside-chain")
  \cup tag(\E j \in Marks : o[Root(j)].pl.t = "D", "comb-displaced-base-with-mark-beside-chain")
  \cup tag(\E b \in 1 .. n : IsLast(b) /\ o[b].k # 0 /\ \E j \in Marks : Root(j) > b /\ ~InChain(o, Root(j)),
           "comb-kerning-after-chain-before-marked-glyph")
  \cup tag(OnChain # {} /\ \E b \in 1 .. n : CLink(o, b) /\ o[b].k # 0, "comb-kerning-inside-chain-with-marks")
  \cup tag(OnChain # {} /\ UsesKernTable(P), "comb-kern-table-with-chain-and-marks")
  \cup tag(OnChain # {} /\ P.gdef.tab = "absent", "comb-without-gdef")

\* ... of the variation deltas
VarTags(dflt) ==
  LET P == tpl.prog
      tag(c, t) == IF c THEN {t} ELSE {} IN
  IF "var" \notin DOMAIN P THEN {}
  ELSE LET static == Proj(Shape(DevDefault, [P EXCEPT !.var.tuple.has = FALSE], w))
           up == Proj(Shape([DevDefault EXCEPT !.varTie = "up"], P, w))
           moved(f(_)) == \E j \in 1 .. Len(w) : f(dflt[j]) # f(static[j])
           Kof(x) == x.k
           Pof(x) == <<x.pl.ax, x.pl.ay, x.pl.bx, x.pl.by>> IN
       tag(~VarOn(P), "var-shaped-without-tuple")
       \cup tag(VarOn(P) /\ ~VarCtx(DevDefault, P).on, "var-tuple-without-store")
       \cup tag(moved(Kof), "var-advance-delta-applied")
       \cup tag(\E j \in 1 .. Len(w) : dflt[j].pl.t \in {"D", "N"} /\ static[j].pl.t \in {"D", "N"} /\ Pof(dflt[j]) # Pof(static[j]),
               "var-placement-delta-applied")
       \cup tag(\E j \in 1 .. Len(w) : dflt[j].pl.t = "N" /\ static[j].pl.t = "D", "var-delta-cancels-placement")
       \cup tag(\E j \in 1 .. Len(w) : dflt[j].pl.t = "D" /\ static[j].pl.t = "N", "var-placement-from-delta-alone")
       \cup tag(\E j \in 1 .. Len(w) : dflt[j].pl.t = "M" /\ Pof(dflt[j]) # Pof(static[j]), "var-mark-anchor-delta-applied")
       \cup tag(\E j \in 1 .. Len(w) : dflt[j].pl.t = "C" /\ Pof(dflt[j]) # Pof(static[j]), "var-cursive-anchor-delta-applied")
       \cup tag(up # dflt, "var-reading-round-tie-matters")
       \cup tag(VarOn(P) /\ dflt = static /\ \E j \in 1 .. Len(w) : dflt[j].k # 0 \/ dflt[j].pl.t # "N", "var-instance-where-no-delta-applies")

VacTags(outs) ==
  LET P == tpl.prog  g == P.gdef
      dflt == Proj(Shape(DevDefault, P, w))
      tag(c, t) == IF c THEN {t} ELSE {} IN
  CombTags(dflt) \cup VarTags(dflt) \cup
  tag(P.gpos /\ g.tab = "absent", "gdef-absent")
  \cup tag(P.gpos /\ g.tab = "noclassdef", "gdef-noclassdef")
  \cup tag(\E j \in 1 .. Len(w) : dflt[j].pl.t = "M" /\ ~IsMarkGlyph(g, w[j].g), "attached-mark-not-gdef-mark")
  \cup tag(\E j \in 1 .. Len(w) : dflt[j].pl.t = "M" /\ GClass(g, w[j].g) = 1, "attached-mark-gdef-base")
  \cup tag(\E D \in DevsFor(P) : D.mkDyn = FALSE /\ Proj(Shape(D, P, w)) # Proj(Shape([D EXCEPT !.mkDyn = TRUE], P, w)),
           "reading-attached-is-mark-matters")
  \cup tag(\E D \in DevsFor(P) : D.mkmkTest = "none" /\ Proj(Shape(D, P, w)) # Proj(Shape([D EXCEPT !.mkmkTest = "both"], P, w)),
           "reading-markmark-class-test-matters")
  \cup tag(KernPairHit(KernAcrossStream), "kern-cross-stream-pair-hit")
  \cup tag(KernPairHit(IsVertical), "kern-vertical-pair-hit")
  \cup tag(KernPairHit(KernAcrossStream) /\ KernPairHit(KernWithStream), "kern-cross-and-with-stream-hit")
  \cup tag(KernPairHit(KernAcrossStream) /\ \E o \in outs : \E j \in 1 .. Len(w) : o[j].pl # dflt[j].pl,
           "reading-kern-cross-shift-matters")

\* results that a known deviation of allsorts would give (naming of mismatches only)
AltsOf(outs) ==
  IF ~(tpl.prog.gpos /\ VarOn(tpl.prog)) THEN <<>>
  ELSE LET ks == {k \in 1 .. Len(KnownKinds) : KnownAlt(tpl.prog, w, k) # outs} IN
       [q \in 1 .. Cardinality(ks) |->
          LET k == CHOOSE k \in ks : Cardinality({j \in ks : j <= k}) = q IN
          [key |-> KnownKinds[k][1], infos |-> SetToSeq(KnownAlt(tpl.prog, w, k) \ outs)]]

EmitOn(outs) ==
  PrintT(<<"CASE", ToJson([id |-> tpl.id, in |-> w, vac |-> SetToSeq(VacTags(outs)), alt |-> AltsOf(outs),
                           exp |-> SetToSeq({[infos |-> o,
                                              ltr |-> Canon(o, tpl.prog.adv, "ltr"),
                                              rtl |-> Canon(o, tpl.prog.adv, "rtl")] : o \in outs})])>>)

\* the design properties hold for every outcome of every case, and the case is printed
CaseOK == done => LET outs == Outcomes(tpl.prog, w) IN DesignOKOn(outs) /\ KernDesignOK /\ EmitOn(outs)
=============================================================================
