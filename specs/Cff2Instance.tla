---------------------------- MODULE Cff2Instance ----------------------------
(***************************************************************************)
(* C12, CFF2 part: instancing a CFF2 variable font evaluates the variation *)
(* model on the glyph outlines.                                            *)
(*                                                                         *)
(* A CFF2 glyph is a charstring (bytes).  Its outline at a normalised      *)
(* tuple is what the Type 2 / CFF2 charstring machine of Type2.tla (C18's  *)
(* specification, instantiated here unchanged as T2) delivers when         *)
(*   - `blend` replaces n*(k+1) operands by n values                       *)
(*         default_i + SUM_j scalar_j * delta_(i,j),                       *)
(*     k = number of regions of the ItemVariationData in effect, scalar_j  *)
(*     the region scalar of its j-th region at the tuple,                  *)
(*   - the ItemVariationData in effect is the operand of the charstring's  *)
(*     own `vsindex` operator if it has one, otherwise the `vsindex` entry *)
(*     of the Private DICT of the glyph's Font DICT (default 0).           *)
(* SrcFC builds the machine's font context from what the harness' own CFF2 *)
(* reader found in the SOURCE font: region lists per ItemVariationData,    *)
(* the vsindex of every Private DICT (-1: no entry), the Font DICT the     *)
(* FDSelect gives the glyph, the subroutines the charstring reaches.       *)
(*                                                                         *)
(* The instance must be static: the written charstring is run by the same  *)
(* machine WITHOUT a variation store (a `blend` then halts the machine),   *)
(* and its commands must be the source's commands at the tuple:            *)
(*   same commands (M / L / C / Z), every coordinate within one font unit, *)
(*   equal at the default coordinates.                                     *)
(* MC_Cff2Instance binds the machine's blend to the variation model of     *)
(* Variation.tla: for every generated font, glyph and tuple the machine's  *)
(* coordinate is the point-wise  default + SUM scalar * delta  with the    *)
(* exact rational RegionScalar of Variation.tla.                           *)
(*                                                                         *)
(* Numbers are 16.16 integers (scaled by 65536) as in Type2.tla.  The      *)
(* machine floors every scalar * delta product to 2^-16 and says so        *)
(* (fuzzy); Dev_FloorSlack: one unit of 2^-16 per machine step is granted  *)
(* then (every product consumes an operand pushed by a step of its own).   *)
(* Dev_F32AtDefault: at the default coordinates a source operand that is   *)
(* not exact in single precision may come back rounded (1/16 unit, as C18).*)
(***************************************************************************)
EXTENDS Variation

T2 == INSTANCE Type2

CffONE == 65536
CffF32Tol == 4096

NoCharset == [fmt |-> "iso", ranges |-> <<>>]

\* vsindex of the Private DICT of Font DICT fd (0-based): the entry, or the default 0
PrivateVsindex(fdDvs, fd) ==
  IF fd + 1 > Len(fdDvs) THEN -1                       \* FDSelect names a Font DICT the font does not have
  ELSE IF fdDvs[fd + 1] < 0 THEN 0 ELSE fdDvs[fd + 1]

SrcFC(a) == [kind |-> "cff2", nG |-> a.nG, nL |-> a.nL, gsubrs |-> a.gsubrs, lsubrs |-> a.lsubrs,
             comps |-> <<>>, seacOk |-> FALSE, charset |-> NoCharset, nGlyphs |-> 0,
             regions |-> a.regions, tuple |-> a.coords, dvs |-> PrivateVsindex(a.fdDvs, a.fd)]
\* the instance: no variation store, no tuple
OutFC(o) == [kind |-> "cff2", nG |-> o.nG, nL |-> o.nL, gsubrs |-> o.gsubrs, lsubrs |-> o.lsubrs,
             comps |-> <<>>, seacOk |-> FALSE, charset |-> NoCharset, nGlyphs |-> 0,
             regions |-> <<>>, tuple |-> <<>>, dvs |-> 0]

\* the machine, counting its steps
RECURSIVE CffRunN(_, _, _)
CffRunN(fc, m, n) == IF m.halt # "" THEN [m |-> m, steps |-> n] ELSE CffRunN(fc, T2!Step(fc, m), n + 1)
CffRun(fc, code) == CffRunN(fc, T2!InitM(code), 0)

CffAbs(x) == IF x < 0 THEN 0 - x ELSE x
CffStill(coords) == \A k \in 1 .. Len(coords) : coords[k] = 0

Dev_FloorSlack(r, steps) == IF r.fuzzy THEN steps ELSE 0
Dev_F32AtDefault(r) == IF r.fuzzy THEN CffF32Tol ELSE 0
CffTol(r, steps, still) == IF still THEN Dev_F32AtDefault(r) ELSE CffONE + Dev_FloorSlack(r, steps)

CmdKinds(cmds) == [k \in 1 .. Len(cmds) |-> cmds[k].c]
CmdFar(g, w, tol) == Len(g.p) # Len(w.p) \/ \E j \in 1 .. Len(w.p) : CffAbs(g.p[j] - w.p[j]) > tol

\* Is the glyph inside the judged set: the machine accepts the source charstring (well formed, the
\* numbers inside the modelled domain, every region one the specification gives a meaning to)
CffJudged(r) == r.halt = "done"

\* bad: set of <<clause, index, got, want>>   (r, s: machine after the source / the written charstring)
CffBad(a, o, r, steps, s) ==
  LET still == CffStill(a.coords)
      tol == CffTol(r, steps, still)
      n == Len(r.cmds)
  IN IF s.halt # "done" THEN {<<"cff-static", 0, s.why, "">>}
     ELSE IF CmdKinds(s.cmds) # CmdKinds(r.cmds) THEN {<<"cff-shape", 0, CmdKinds(s.cmds), CmdKinds(r.cmds)>>}
     ELSE {<<IF still THEN "cff-default-point" ELSE "cff-point", k, s.cmds[k].p, r.cmds[k].p>> :
              k \in {k \in 1 .. n : CmdFar(s.cmds[k], r.cmds[k], tol)}}
          \cup (IF s.nStems # r.nStems THEN {<<"cff-hints", 0, <<s.nStems>>, <<r.nStems>>>>} ELSE {})

\* the judge's own classification of the event (vacuity counters of the driver)
CffStat(a, r, steps) ==
  LET vs == IF r.vsindex >= 0 THEN r.vsindex ELSE PrivateVsindex(a.fdDvs, a.fd) IN
  [blend |-> r.seenBlend, explicit |-> r.vsindex >= 0, ivd |-> vs,
   inherited |-> r.seenBlend /\ r.vsindex < 0,
   k |-> IF vs >= 0 /\ vs < Len(a.regions) THEN Len(a.regions[vs + 1]) ELSE -1,
   still |-> CffStill(a.coords), fuzzy |-> r.fuzzy, depth |-> r.maxDepth, stems |-> r.nStems,
   cmds |-> Len(r.cmds), steps |-> steps, fd |-> a.fd, nfd |-> Len(a.fdDvs)]
=============================================================================
