CONSTANTS
  Tier = "thorough"
SPECIFICATION Spec
INVARIANTS ScalarLemma IupLemma CodecLemma FontOK FontOK2 EmitCase EmitCase2 EmitLemma
CHECK_DEADLOCK FALSE
