CONSTANTS
  Tier = "thorough"
SPECIFICATION Spec
INVARIANTS ScalarLemma IupLemma CodecLemma FontOK EmitCase EmitLemma
CHECK_DEADLOCK FALSE
