CONSTANTS
  MaxBlocks = 3
  MaxBlocksAll = 2
  ExtraKinds <- LongKinds
  ExtraKindsAll <- LongKinds
  BigCounts <- BigThorough
SPECIFICATION Spec
INVARIANTS MachineOK FormOK EncodingsOK GenExact EmitCase
CHECK_DEADLOCK FALSE
