CONSTANTS
  MaxBlocks = 4
  MaxBlocksAll = 3
  BigCounts <- BigThorough
SPECIFICATION Spec
INVARIANTS MachineOK FormOK EncodingsOK GenExact EmitCase
CHECK_DEADLOCK FALSE
