CONSTANTS
  MaxBlocks = 3
  MaxBlocksAll = 2
  ExtraKinds <- LongKinds
  ExtraKindsAll <- LongKinds
  SeacFull = TRUE
  BigCounts <- BigThorough
SPECIFICATION Spec
INVARIANTS MachineOK FormOK CharsetOK EncodingsOK GenExact EmitCase
CHECK_DEADLOCK FALSE
