CONSTANTS
  Deep = TRUE
SPECIFICATION Spec
INVARIANTS DesignOK EmitCase
CHECK_DEADLOCK FALSE
