CONSTANTS
  LkMenuSize = 5
  LsMenuSize = 4
SPECIFICATION Spec
INVARIANTS StepSafe Agree Lemmas Emit
CHECK_DEADLOCK FALSE
