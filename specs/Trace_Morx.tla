---------------------------- MODULE Trace_Morx ----------------------------
(***************************************************************************)
(* Trace judge for AAT morx shaping (impl -> spec), X01.                    *)
(* A recorded trace is a sequence of                                        *)
(*   "Prog"  events: a.prog = an abstract morx program (random; the harness  *)
(*           encoded it into `morx` table bytes), o.err = what allsorts'      *)
(*           MorxTable reader said ("" = fine);                              *)
(*   "Apply" events: a.in = input glyph string, a.route = the entry point    *)
(*           driven (morx::apply / Font::shape on a font with morx and no     *)
(*           GSUB), o.run = the projected run allsorts returned (glyph,       *)
(*           characters carried, origin; glyphs 0xFFFF dropped), o.err =      *)
(*           error / panic text.                                            *)
(* An Apply event refers to the latest Prog event (same `case`).  The judge  *)
(* recomputes the denotation: the run must be Obs(Morx!MorxDenoteP) under    *)
(* one of the conformant readings (DevChoices).  A run that equals one of    *)
(* the known NON-conformant readings (Morx!BugReadings) is reported with     *)
(* that name, to give the finding a stable key.  Judging style: Next is      *)
(* always enabled, a non-conforming event prints a MISMATCH line, the rest   *)
(* of the trace is still examined.                                          *)
(***************************************************************************)
EXTENDS Morx, Json, IOUtils

Rec == ndJsonDeserialize(IOEnv.TRACE)

VARIABLES l,      \* next event
          pl,     \* index of the latest Prog event (0 = none yet)
          wf      \* is that program inside the modelled fragment (Morx!WFProgram) and loaded?

Report(e, stage, want, got, bug, bugtags) ==
  PrintT(<<"MISMATCH", ToJson([i |-> e.i, case |-> e.case, stage |-> stage, want |-> want, got |-> got,
                               bug |-> bug, bugtags |-> bugtags])>>)

Unmodelled(e, why) == PrintT(<<"UNMODELLED", ToJson([i |-> e.i, case |-> e.case, why |-> why])>>)

JudgeProg(e) ==
  IF ~WFProgram(e.a.prog) THEN Unmodelled(e, "program outside Morx!WFProgram")
  ELSE IF e.o.err # "" THEN Report(e, "load", "Ok", e.o.err, "", {})
  ELSE TRUE

JudgeApply(e) ==
  LET prog == Rec[pl].a.prog
      std  == ObsOf(MorxDenoteP(prog, DevStd, BugNone, e.a.in))
      outs == {ObsRec(MorxDenoteP(prog, dev, BugNone, e.a.in)) : dev \in DevChoices}
      got  == [err |-> e.o.err, run |-> e.o.run]
      gotJ == IF e.o.err # "" THEN e.o.err ELSE e.o.run
      ill  == UNION {MorxTags(prog, dev, BugNone, e.a.in) : dev \in DevChoices} \cap IllTags
      brs  == BugReadings(prog)
      hits == {q \in 1 .. Len(brs) : ObsRec(MorxDenoteP(prog, DevStd, brs[q].bug, e.a.in)) = got}
  IN IF ill # {} THEN Unmodelled(e, "the table's own ligature actions misbehave")
     ELSE IF \E o \in outs : \E q \in 1 .. Len(o.run) : o.run[q].g >= prog.n
     THEN Unmodelled(e, "a substitution yields a glyph id outside the font")
     ELSE IF got \in outs THEN TRUE
     ELSE IF hits = {} THEN Report(e, e.a.route, std, gotJ, "", {})
     ELSE LET b == brs[MinOfSet(hits)] IN
          Report(e, e.a.route, std, gotJ, b.name,
                 IF b.bug.ligCode THEN MorxTags(prog, DevStd, b.bug, e.a.in) \cap CodeTags ELSE {})

TInit == l = 1 /\ pl = 0 /\ wf = FALSE

TNext ==
  /\ l <= Len(Rec)
  /\ l' = l + 1
  /\ LET e == Rec[l] IN
     IF e.ev = "Prog"
     THEN /\ pl' = l
          /\ wf' = (WFProgram(e.a.prog) /\ e.o.err = "")
          /\ JudgeProg(e)
     ELSE /\ UNCHANGED <<pl, wf>>
          /\ IF e.ev = "Apply"
             THEN IF pl = 0 \/ Rec[pl].case # e.case THEN Unmodelled(e, "Apply without a program")
                  ELSE IF ~wf THEN TRUE       \* reported once, at the Prog event
                  ELSE JudgeApply(e)
             ELSE Unmodelled(e, e.ev)

TSpec == TInit /\ [][TNext]_<<l, pl, wf>>

AllConsumed == TLCGet("stats").diameter = Len(Rec) + 1
=============================================================================
