CONSTANTS
  MaxOps = 4
  MaxLen = 14
SPECIFICATION Spec
VIEW View
INVARIANTS DesignOK EmitCase
CHECK_DEADLOCK FALSE
