CONSTANTS
  MaxOps = 5
  MaxLen = 16
SPECIFICATION Spec
VIEW View
INVARIANTS DesignOK EmitCase
CHECK_DEADLOCK FALSE
