--------------------------- MODULE MC_ShaperCalls ---------------------------
(***************************************************************************)
(* C02, call sequences on ONE Font object.  The property quantifies over   *)
(* every text and configuration of  map_glyphs -> shape -> glyph_positions *)
(* ; a Font object is made to be used for many such calls, and it keeps    *)
(* state between them.  The state that the mapping of characters to glyphs *)
(* keeps is the one-entry GLYPH CACHE (src/font.rs GlyphCache): the result *)
(* of the plain lookup of U+25CC DOTTED CIRCLE, which Font::shape asks for *)
(* on every call (the shapers insert it) and Font::map_glyphs asks for     *)
(* when the text contains the character.                                   *)
(*                                                                         *)
(* This module enumerates every sequence of up to SeqLen STEPS             *)
(*    [pres  |-> "N" | "R"     MatchingPresentation::NotRequired/Required  *)
(*     txt   |-> "plain"       text without U+25CC                         *)
(*             | "dc"          text with one U+25CC                        *)
(*             | "dcvs"        U+25CC followed by a variation selector     *)
(*             | "dcdc"        text with two U+25CC                        *)
(*     shape |-> BOOLEAN]      map_glyphs only / map_glyphs, shape,        *)
(*                             glyph_positions                             *)
(* and runs a model of the cache discipline beside it:                     *)
(*   Lookup(ch, pres, vs):  a lookup that requires a matching presentation *)
(*   or names a variation selector depends on those arguments: it neither  *)
(*   reads nor fills the cache; the plain lookup of U+25CC answers from    *)
(*   the cache when it is filled and fills it (GlyphCache::put, which      *)
(*   demands an empty cache) otherwise.                                    *)
(* Invariants: PutOnlyWhenEmpty (put is never called on a filled cache =   *)
(* the "duplicate entry" panic is unreachable), CacheHoldsPlain (what is   *)
(* cached was computed by a plain lookup), Filled (after a shape step the  *)
(* cache is filled).  One CASE per sequence; c02_shape executes each on a  *)
(* fresh Font object of several fonts, one event per step, and Trace_Shaper*)
(* judges every step with Shaper!CallFailures (every call returns).  The   *)
(* predicted facts printed with the case (`req_on_filled`: a Required      *)
(* lookup of U+25CC met a filled cache, `hits`, `fill`) feed TLC-side      *)
(* vacuity counts only.                                                    *)
(***************************************************************************)
EXTENDS Integers, Sequences, FiniteSets, TLC, Json

CONSTANTS SeqLen

Pres      == {"N", "R"}
TextKinds == {"plain", "dc", "dcvs", "dcdc"}
Steps     == [pres : Pres, txt : TextKinds, shape : BOOLEAN]

\* the lookups a step makes, in order: <<character is U+25CC, presentation, a variation selector follows>>
LookupsOfText(st) ==
  CASE st.txt = "plain" -> << <<FALSE, st.pres, FALSE>> >>
    [] st.txt = "dc"    -> << <<TRUE, st.pres, FALSE>>, <<FALSE, st.pres, FALSE>> >>
    [] st.txt = "dcvs"  -> << <<TRUE, st.pres, TRUE>>, <<FALSE, st.pres, FALSE>> >>
    [] st.txt = "dcdc"  -> << <<TRUE, st.pres, FALSE>>, <<FALSE, st.pres, FALSE>>, <<TRUE, st.pres, FALSE>> >>
LookupsOf(st) == LookupsOfText(st) \o (IF st.shape THEN << <<TRUE, "N", FALSE>> >> ELSE <<>>)

\* cache state: filled, by what kind of lookup, and the books
EmptyCache == [filled |-> FALSE, by |-> "-", dupPut |-> FALSE, hits |-> 0, reqOnFilled |-> 0]

Lookup(c, l) ==
  LET dc == l[1]  pres == l[2]  vs == l[3] IN
  IF pres # "N" \/ vs
    THEN \* answered by the cmap directly: the cache is neither read nor written
         IF dc /\ ~vs /\ c.filled THEN [c EXCEPT !.reqOnFilled = @ + 1] ELSE c
  ELSE IF ~dc THEN c                                   \* the cache has one slot, for U+25CC
  ELSE IF c.filled THEN [c EXCEPT !.hits = @ + 1]      \* GlyphCache::get answers
  ELSE [c EXCEPT !.filled = TRUE, !.by = "plain",      \* miss: compute, then GlyphCache::put
                 !.dupPut = c.filled]

RECURSIVE Fold(_, _)
Fold(c, ls) == IF ls = <<>> THEN c ELSE Fold(Lookup(c, Head(ls)), Tail(ls))

VARIABLES seq, cache, fill
vars == <<seq, cache, fill>>

Init == seq = <<>> /\ cache = EmptyCache /\ fill = 0

Extend ==
  /\ Len(seq) < SeqLen
  /\ \E st \in Steps :
        /\ seq' = Append(seq, st)
        /\ cache' = Fold(cache, LookupsOf(st))
        /\ fill' = IF fill = 0 /\ cache'.filled THEN Len(seq) + 1 ELSE fill

Next == Extend
Spec == Init /\ [][Next]_vars

---------------------------------------------------------------------------
PutOnlyWhenEmpty == ~cache.dupPut
CacheHoldsPlain  == cache.filled => cache.by = "plain"
Filled           == (\E k \in DOMAIN seq : seq[k].shape) => cache.filled

\* the bound contains the sequences the cache discipline is about
Sanity ==
  /\ SeqLen >= 2
  /\ Fold(EmptyCache, LookupsOf([pres |-> "N", txt |-> "plain", shape |-> TRUE])
                      \o LookupsOf([pres |-> "R", txt |-> "dc", shape |-> FALSE])).reqOnFilled = 1
  /\ Fold(EmptyCache, LookupsOf([pres |-> "R", txt |-> "dc", shape |-> FALSE])
                      \o LookupsOf([pres |-> "R", txt |-> "dc", shape |-> FALSE])).filled = FALSE
  /\ Fold(EmptyCache, LookupsOf([pres |-> "N", txt |-> "dcdc", shape |-> FALSE])).hits = 1
ASSUME Sanity

Emit ==
  seq # <<>> =>
    PrintT(<<"CASE", ToJson([fam |-> "seq", steps |-> seq, fill |-> fill, hits |-> cache.hits,
                             req_on_filled |-> cache.reqOnFilled])>>)
=============================================================================
