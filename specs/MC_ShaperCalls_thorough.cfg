CONSTANTS
  SeqLen = 4
SPECIFICATION Spec
INVARIANTS PutOnlyWhenEmpty CacheHoldsPlain Filled Emit
CHECK_DEADLOCK FALSE
