CONSTANTS
  LenOf <- LenTiny
SPECIFICATION Spec
INVARIANTS Check
CHECK_DEADLOCK FALSE
