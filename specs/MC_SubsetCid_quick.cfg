CONSTANTS
  NGD = 4
  NFD = 2
  Pats = {1, 2, 3, 4, 5}
  NHMsD = {2}
  Fd0Free = FALSE
SPECIFICATION Spec
INVARIANTS DesignOK EmitCase
CHECK_DEADLOCK FALSE
