CONSTANTS
  MaxDepth = 6
  LongNs <- LongThorough
  L1 <- L1All
  L2 <- L2Thorough
  L3 <- L3Thorough
  Variants <- VariantsAll
  TK2 <- TK2Thorough
  TK3 <- TK3Thorough
  ZeroInstr <- ZeroInstrThorough
  L4 <- L4Thorough
SPECIFICATION Spec
INVARIANTS DesignOK EmitCase
CHECK_DEADLOCK FALSE
