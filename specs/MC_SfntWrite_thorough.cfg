CONSTANTS
  MaxAdds = 4
SPECIFICATION Spec
VIEW View
INVARIANTS WriterWellFormed WriterReadable EmitCase
CHECK_DEADLOCK FALSE
