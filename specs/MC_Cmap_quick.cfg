CONSTANTS
  MaxSegs = 2
  Deep = FALSE
SPECIFICATION Spec
INVARIANTS DesignOK TablesOK EmitCase
CHECK_DEADLOCK FALSE
