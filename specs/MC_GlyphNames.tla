---------------------------- MODULE MC_GlyphNames ----------------------------
(***************************************************************************)
(* Bounded exploration of GlyphNames and generator of replay cases (X03).  *)
(* A state is one case: a `post` table, the enumeration of a cmap          *)
(* sub-table, its encoding, the glyph count and several id lists.  One     *)
(* Next step marks it done; on done states DesignOK (every glyph gets      *)
(* exactly one name, names are pairwise distinct after disambiguation,     *)
(* index >= 258 refers to the (index - 258)-th string, an out-of-range     *)
(* index falls back) and EmitCase are evaluated.                           *)
(***************************************************************************)
EXTENDS GlyphNames, Json, SequencesExt

CONSTANTS Deep

VARIABLES c, done
vars == <<c, done>>

Post(ver, idx, strs, offs) == [ver |-> ver, idx |-> idx, strs |-> strs, offs |-> offs]
Case(fam, id, ng, post, cm, enc, lists) ==
  [fam |-> fam, id |-> id, ng |-> ng, post |-> post, cm |-> cm, enc |-> enc, lists |-> lists]

Upto(n) == [q \in 1 .. n |-> q - 1]
Rev(s) == [q \in 1 .. Len(s) |-> s[Len(s) - q + 1]]
StdLists(ng) == <<Upto(ng), Rev(Upto(ng))>>

---------------------------------------------------------------------------
\* format 1: glyph order = standard order; a cmap name may repeat a standard name
F1Cases ==
  {Case("f1", ToString(ng), ng, Post(1, <<>>, <<>>, <<>>),
        <<<<65, 258>>, <<66, 37>>, <<97, 259>>, <<8364, 259>>>>, "Unicode",
        StdLists(ng) \o <<<<258, 36>>, <<36, 258, 259, 68>>, <<0, 257, 258>>>>) : ng \in {3, 258, 260}}

---------------------------------------------------------------------------
\* format 2, duplicates in every position: glyphs 1 .. 4 each named by string 258 ("x"),
\* 259 ("y") or 260 ("x" again, another string with the same text)
DupN == IF Deep THEN 5 ELSE 4
DupCases ==
  {Case("f2dup", ToString(a), DupN + 1, Post(2, <<0>> \o a, <<"x", "y", "x">>, <<>>), <<>>, "Unicode",
        StdLists(DupN + 1) \o <<<<4, 2, 4, 1>>>>) : a \in [1 .. DupN -> {258, 259, 260}]}

\* format 2, index boundaries.  K strings; the probe index sits on glyph 2.
F2Strs == <<"alpha", "beta", "gamma">>
BoundaryIdx == {0, 1, 2, 36, 257, 258, 259, 260, 261, 262, 32767, 65535}
F2BoundaryCases ==
  {Case("f2idx", ToString(i), 6, Post(2, <<0, 3, i, 260, 36, 258>>, F2Strs, <<>>),
        <<<<65, 2>>, <<66, 1>>, <<67, 2>>>>, "Unicode", StdLists(6) \o <<<<2>>, <<2, 5, 4>>>>) : i \in BoundaryIdx}

\* format 2, the index array shorter / longer than the glyph count; unused strings
F2LenCases ==
  {Case("f2len", ToString(<<n, ng>>), ng, Post(2, [q \in 1 .. n |-> IF q = 1 THEN 0 ELSE 258 + 2 * (q - 2)],
                                              [q \in 1 .. 8 |-> IF q % 2 = 1 THEN "gid" \o ToString((q + 1) \div 2) ELSE "unused" \o ToString(q \div 2)], <<>>),
        <<<<48, 3>>, <<49, 4>>, <<8704, 5>>>>, "Unicode", StdLists(ng) \o <<<<ng, ng + 1, 65535>>>>) : n \in {0, 1, 3, 5}, ng \in {4, 6}}

\* names that collide with generated names or fall-back names
CollisionTables ==
  <<<<"A", "A", "A.alt01">>, <<"A.alt01", "A", "A">>, <<"A", "A.alt01", "A">>, <<"A", "A", "A", "A.alt02">>,
    <<"A", "A", "A.alt01", "A.alt01">>, <<"g3", "q", "r">>, <<"q", "g1", "g1">>, <<"uni2192", "q", "q2", "r">>,
    <<".notdef", ".notdef", "z">>, <<"a.alt01.alt01", "a.alt01", "a.alt01", "a">>,
    <<"b", "b", "b", "b", "b", "b", "b", "b", "b", "b", "b", "b">>>>
CollisionCases ==
  {Case("f2coll", ToString(n), Len(CollisionTables[n]) + 1,
        Post(2, <<0>> \o [q \in 1 .. Len(CollisionTables[n]) |-> IF CollisionTables[n][q] = "r" THEN 0 ELSE 257 + q],
             CollisionTables[n], <<>>),
        <<<<66, 2>>, <<8594, 4>>>>, "Unicode", StdLists(Len(CollisionTables[n]) + 1)) : n \in 1 .. Len(CollisionTables)}

\* a Pascal string of length zero (glyphs 2 and 4; glyph 4 has a code, glyph 2 has none)
EmptyCases ==
  {Case("f2empty", ToString(n), 6, Post(2, <<0, 258, 259, 36, 259, 260>>, IF n = 1 THEN <<"p", "", "q">> ELSE <<"", "", "">>, <<>>),
        <<<<66, 4>>, <<67, 5>>>>, "Unicode", StdLists(6) \o <<<<2, 4>>>>) : n \in 1 .. 2}

---------------------------------------------------------------------------
\* format 3 (and 2.5, 4): names from the cmap
CmapTables ==
  <<\* several codes per glyph, the first listed names it
    <<<<65, 1>>, <<97, 1>>, <<66, 2>>, <<945, 2>>, <<120, 3>>>>,
    <<<<32, 2>>, <<65, 1>>, <<97, 1>>, <<160, 3>>, <<161, 2>>>>,
    \* AGLFN, uniXXXX, uXXXXX, u10FFFF; not scalar values
    <<<<8364, 1>>, <<8594, 2>>, <<8595, 3>>, <<65535, 4>>, <<65536, 5>>, <<128564, 6>>, <<1114111, 7>>>>,
    <<<<0, 5>>, <<1, 6>>, <<55296, 1>>, <<57343, 2>>, <<57344, 3>>, <<1114112, 4>>>>,
    \* two glyphs with the same code-derived name cannot happen in one sub-table; two glyphs named
    \* alike through post + cmap can (see f1).  Codes of the Mac OS Roman upper half:
    <<<<65, 1>>, <<127, 6>>, <<128, 2>>, <<202, 3>>, <<240, 4>>, <<255, 5>>, <<321, 7>>>>,
    <<>>>>
EncFor(n) == IF n = 5 THEN {"Unicode", "AppleRoman", "Symbol", "Big5"} ELSE IF n = 1 THEN {"Unicode", "AppleRoman"} ELSE {"Unicode"}
F3Cases ==
  {Case("f3", ToString(<<n, enc, ver>>), 9, Post(ver, <<>>, <<>>, [q \in 1 .. 9 |-> 36]), CmapTables[n], enc,
        StdLists(9) \o <<<<1, 1, 2, 1>>, <<9, 300>>>>) :
   n \in 1 .. Len(CmapTables), enc \in {"Unicode", "AppleRoman", "Symbol", "Big5"}, ver \in {3, 25, 4}}

Cases(fam) ==
  CASE fam = "f1" -> F1Cases [] fam = "f2dup" -> DupCases [] fam = "f2idx" -> F2BoundaryCases
    [] fam = "f2len" -> F2LenCases [] fam = "f2coll" -> CollisionCases [] fam = "f2empty" -> EmptyCases
    [] fam = "f3" -> {x \in F3Cases : x.enc \in EncFor(CHOOSE n \in 1 .. Len(CmapTables) : CmapTables[n] = x.cm) /\ (x.post.ver = 3 \/ x.enc = "Unicode")}
Families == {"f1", "f2dup", "f2idx", "f2len", "f2coll", "f2empty", "f3"}

Init == done = FALSE /\ \E fam \in Families : \E x \in Cases(fam) : c = x
Next == ~done /\ done' = TRUE /\ c' = c
Spec == Init /\ [][Next]_vars

---------------------------------------------------------------------------
Expect(ids) ==
  LET want == NamesWant(c.post, c.cm, c.enc, ids)
      code == NamesCode(c.post, c.cm, c.enc, ids)
      nat  == Naturals(c.post, c.cm, c.enc, ids, CodeDev) IN
  [ids |-> ids, nat |-> nat, want |-> SetToSeq(want),
   bug |-> IF code \in want THEN <<>> ELSE <<[name |-> NamesBugName(c.post, c.cm, c.enc, ids), res |-> code]>>]

\* vacuity counters of the spec branches a case exercises
Tags ==
  LET P == {<<g, PostName(c.post, g, CodeDev)>> : g \in 1 .. (c.ng - 1)} IN
  {"post:v" \o ToString(c.post.ver)}
  \cup (IF c.post.ver = 2 /\ \E q \in 1 .. Len(c.post.idx) : c.post.idx[q] = 257 THEN {"idx:257"} ELSE {})
  \cup (IF c.post.ver = 2 /\ \E q \in 1 .. Len(c.post.idx) : c.post.idx[q] = 258 THEN {"idx:258"} ELSE {})
  \cup (IF c.post.ver = 2 /\ \E q \in 1 .. Len(c.post.idx) : c.post.idx[q] = 257 + Len(c.post.strs) THEN {"idx:last"} ELSE {})
  \cup (IF c.post.ver = 2 /\ ~V2Readable(c.post) THEN {"idx:out-of-range"} ELSE {})
  \cup (IF c.post.ver = 2 /\ Len(c.post.idx) < c.ng THEN {"idx:short"} ELSE {})
  \cup (IF \E p \in P : p[2] = "" /\ CmapName(c.cm, c.enc, p[1], CodeDev) # "" THEN {"fallback:cmap"} ELSE {})
  \cup (IF \E p \in P : p[2] = "" /\ CmapName(c.cm, c.enc, p[1], CodeDev) = "" THEN {"fallback:gN"} ELSE {})
  \cup (IF \E p \in P : p[2] = ".notdef" THEN {"post:.notdef-renamed"} ELSE {})
  \cup (IF \E q \in 1 .. Len(c.lists) : AltCollision(Naturals(c.post, c.cm, c.enc, c.lists[q], CodeDev)) THEN {"unique:alt-collision"} ELSE {})
  \cup (IF \E q \in 1 .. Len(c.lists) : LET nn == Naturals(c.post, c.cm, c.enc, c.lists[q], CodeDev) IN
              \E a \in 1 .. Len(nn), b \in 1 .. Len(nn) : a # b /\ nn[a] = nn[b] THEN {"unique:duplicate"} ELSE {})
  \cup (IF \E g \in 1 .. (c.ng - 1) : Cardinality({q \in 1 .. Len(c.cm) : c.cm[q][2] = g}) > 1 THEN {"cmap:several-codes"} ELSE {})
  \cup (IF \E g \in 1 .. (c.ng - 1) : EmptyCustom(c.post, V2Readable(c.post), g) THEN {"post:empty-string"} ELSE {})
  \cup {"enc:" \o c.enc}

DesignOK ==
  done =>
    /\ \A q \in 1 .. Len(c.lists) : \A dev \in Devs :
         LET nn == Naturals(c.post, c.cm, c.enc, c.lists[q], dev)  out == Unique(nn) IN
         /\ UniqueOK(nn, out)                                       \* one name each, pairwise distinct
         /\ \A j \in 1 .. Len(nn) : nn[j] # ""
         /\ (~AltCollision(nn) => CodeUnique(nn) = out)             \* the repair changes nothing else
    /\ c.post.ver = 2 =>
         \A g \in 1 .. (Len(c.post.idx) - 1) :
           LET i == c.post.idx[g + 1]  p == PostName(c.post, g, [poison |-> FALSE, v25 |-> FALSE, macpdf |-> TRUE]) IN
           /\ (i >= 258 /\ i - 258 < Len(c.post.strs) => p = c.post.strs[i - 258 + 1])
           /\ (i < 258 => p = StdNames[i + 1])
           /\ (i - 258 >= Len(c.post.strs) => p = "")               \* out of range: falls back
    /\ Len(StdNames) = 258 /\ StdNames[1] = ".notdef" /\ StdNames[258] = "dcroat" /\ StdNames[37] = "A"
    /\ Cardinality({StdNames[i] : i \in 1 .. 258}) = 258

EmitCase ==
  done => PrintT(<<"CASE", ToJson([fam |-> c.fam, id |-> c.id, ng |-> c.ng, post |-> c.post, cm |-> c.cm, enc |-> c.enc,
                                   lists |-> [q \in 1 .. Len(c.lists) |-> Expect(c.lists[q])],
                                   tags |-> SetToSeq(Tags)])>>)
=============================================================================
