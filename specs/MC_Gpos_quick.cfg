CONSTANTS
  Tier = "quick"
SPECIFICATION Spec
INVARIANTS CaseOK
CHECK_DEADLOCK FALSE
