---------------------------- MODULE CmapSubset ----------------------------
(***************************************************************************)
(* Specification of the cmap path of the allsorts subsetter (property     *)
(* C08): which characters of the source font's selected cmap subtable are *)
(* kept, how glyph ids are renumbered, which encoding record and subtable *)
(* format is written and how (format 0 / 4 / 12), composed with the cmap   *)
(* readers of module Cmap.  The grain follows src/tables/cmap/subset.rs    *)
(* and src/subset.rs: one operator per function / per loop step.           *)
(*                                                                         *)
(*   Keep            MappingsToKeep::new          (collection, plane)      *)
(*   NewId, Renumber SubsetGlyphs::new_id, update_to_new_ids               *)
(*   SegNew, SegAdd  CmapSubtableFormat4Segment::{new, add}                *)
(*   AddSegment      owned::CmapSubtableFormat4::add_segment               *)
(*   Format4From     owned::CmapSubtableFormat4::from_mappings (+ fix-up)  *)
(*   Format12From    owned::CmapSubtableFormat12::from_mappings            *)
(*   Format0From     Mac Roman arm of owned::EncodingRecord::from_mappings *)
(*   Write           owned::EncodingRecord::from_mappings (plane -> format)*)
(*   OutMap          the reader of module Cmap applied to the result       *)
(*                                                                         *)
(* The property is SubsetCmapOK: for every character x,                    *)
(*    OutMap(x) = NewId(SrcGlyph(x))  if SrcGlyph(x) is a retained         *)
(*                                    non-zero glyph (and x is a Mac Roman *)
(*                                    character when that target is asked),*)
(*    OutMap(x) = 0                   otherwise.                           *)
(* Which record / format is written is NOT part of the property.           *)
(*                                                                         *)
(* Characters are integers: a Unicode scalar value c is c, the symbol code *)
(* c (Windows Symbol encoding, no Unicode meaning) is SYM + c.  This is    *)
(* also the order of the BTreeMap<Character, u16> of the code              *)
(* (Character::Unicode(_) < Character::Symbol(_)).                         *)
(*                                                                         *)
(* A case c is a record                                                    *)
(*   enc    "Unicode" | "Symbol" | "AppleRoman" | "Big5"  encoding of the  *)
(*          selected source subtable                                       *)
(*   first  OS/2.usFirstCharIndex of the source (32 when there is none)    *)
(*   sm     the source subtable as the sequence of <<code, glyph>> pairs   *)
(*          in the order mappings_fn enumerates them (ascending code);     *)
(*          for a source given as a TABLE t of module Cmap (any format:    *)
(*          0, 2, 4, 6, 10, 12) it is EnumSeq(t) - every code the table     *)
(*          lists with the glyph the table's LOOKUP gives it (a hole, i.e.  *)
(*          a glyphIndexArray / glyphIdArray entry 0, is glyph 0 whatever   *)
(*          idDelta says), Cmap!EnumerateEqualsLookups                      *)
(*   ids    the glyph id list handed to subset (starts with 0, no dups)    *)
(*   target "Unrestricted" | "MacRoman"                                    *)
(***************************************************************************)
EXTENDS Cmap, SequencesExt

CONSTANTS
  FixFmt0,            \* FALSE: the writer as implemented (format 0 stores `gid as u8`);
                      \* TRUE : the proposed repair (notes/C08-fix-1.diff): a Mac Roman character
                      \*        set whose new glyph ids exceed 255 is written as format 4
  FixSymInv           \* FALSE: legacy_symbol_char_code_to_unicode as implemented;
                      \* TRUE : the proposed repair (notes/C08-fix-2.diff): the exact inverse of
                      \*        Font::legacy_symbol_char_code

SYM == 16777216
IsSym(x) == x >= SYM
Val(x)   == IF x >= SYM THEN x - SYM ELSE x
NoChar   == -1
LimitExceeded == [fmt |-> -1]            \* from_mappings returned Err(ParseError::LimitExceeded)

IsScalar(c) == (c >= 0 /\ c <= 55295) \/ (c >= 57344 /\ c <= 1114111)      \* char::from_u32

\* Mac Roman characters.  Definite: every implementation of Mac OS Roman has them; optional:
\* Dev_MacCurrency / Dev_MacRomanPdfSubset of module Cmap (an implementation may not know them).
MacDefinite == MacRomanChars \ MacOptionalChars
U2M == [ch \in MacRomanChars |-> UniToMac(ch)]          \* char_to_macroman (constant, evaluated once)
IsMac(x)    == ~IsSym(x) /\ x \in MacDefinite

---------------------------------------------------------------------------
\* MappingsToKeep::new

\* Big5: the <<code, character>> pairs this specification knows - Cmap!Big5Sample, the first six hanzi of the
\* level 1 block (0xA440 .. 0xA445: U+4E00 U+4E59 U+4E01 U+4E03 U+4E43 U+4E5D) and the single bytes 0x00 .. 0x7F.  Sources and probes of
\* the Big5 families stay inside them.
\* Round 4: 0xA446 .. 0xA453 and 0xA45D (U+4E5F), and the characters Big5 holds TWICE: U+5341 (0xA2CC among the
\* Hangzhou numerals, 0xA451 among the hanzi), U+5345 (0xA2CE, 0xA4CA), U+2550 (0xA2A4, 0xF9F9 in the ETEN box
\* drawing extension).  The ENCODER of such a character (Font's side: how a character reaches the sub-table) yields
\* its LAST code (WHATWG "index Big5 pointer": the last pointer for U+2550, U+255E, U+2561, U+256A, U+5341, U+5345);
\* no other character of this table has two codes.  A code that is not a Big5 code at all (Cmap!ValidBig5Code: a
\* single byte >= 0x80, a lead byte outside 0x81..0xFE, a trail byte outside 0x40..0x7E / 0xA1..0xFE) denotes no
\* character, whatever a sub-table lists under it.
Big5Known == Big5Sample \cup {<<42049, 20057>>, <<42050, 19969>>, <<42051, 19971>>, <<42052, 20035>>, <<42053, 20061>>}
                        \cup {<<42054, 20102>>, <<42055, 20108>>, <<42056, 20154>>, <<42057, 20799>>, <<42058, 20837>>,
                              <<42059, 20843>>, <<42060, 20960>>, <<42061, 20992>>, <<42062, 20993>>, <<42063, 21147>>,
                              <<42064, 21269>>, <<42065, 21313>>, <<42066, 21340>>, <<42067, 21448>>, <<42077, 20063>>,
                              <<41676, 21313>>, <<41678, 21317>>, <<42186, 21317>>, <<63993, 9552>>, <<41636, 9552>>}
                        \cup {<<b, b>> : b \in 0 .. 127}
Big5KnownChars == {p[2] : p \in Big5Known}
Big5KnownCodes == {p[1] : p \in Big5Known}
Big5CodesOf(ch) == {p[1] : p \in {q \in Big5Known : q[2] = ch}}
Big5Twice == {ch \in Big5KnownChars : Cardinality(Big5CodesOf(ch)) > 1}
Big5ToUni(code) == IF ValidBig5Code(code) /\ code \in Big5KnownCodes THEN (CHOOSE p \in Big5Known : p[1] = code)[2] ELSE NoChar
\* unicode_to_big5 (Font's side): the last code of a character that has two
UniToBig5Known(ch) == IF ch \in Big5KnownChars THEN Max(Big5CodesOf(ch)) ELSE NoCode

\* Character::new(ch, encoding)
CharNew(code, enc) ==
  CASE enc = "Unicode"    -> IF IsScalar(code) THEN code ELSE NoChar
    [] enc = "Symbol"     -> SYM + code
    [] enc = "AppleRoman" -> MacToUni(code % 256)
    [] enc = "Big5"       -> Big5ToUni(code)

---------------------------------------------------------------------------
\* CmapSubtable::mappings_fn: the codes a table lists, in the order of the callbacks, each with the glyph the
\* table's lookup gives it.  Formats 0 / 4 / 6 / 10 / 12: ascending codes (sorted segments / groups).  Format 2:
\* high byte by high byte; a byte whose subHeaderKey is 0 is a single-byte code (listed when sub-header 0 covers
\* it), any other byte leads the entryCount two-byte codes of its sub-header.
\* the codes one high byte contributes
Enum2Byte(t, hb) ==
  LET k == SubIdx(t, hb) IN
  IF k >= Len(t.subs) THEN <<>>
  ELSE LET sh == t.subs[k + 1] IN
       IF k = 0 THEN (IF hb >= sh.first /\ hb < sh.first + sh.count THEN <<hb>> ELSE <<>>)
       ELSE [q \in 1 .. sh.count |-> hb * 256 + sh.first + q - 1]
\* bytes lo .. hi in ascending order (halving keeps the recursion shallow)
RECURSIVE Enum2Range(_, _, _)
Enum2Range(t, lo, hi) ==
  IF lo = hi THEN Enum2Byte(t, lo)
  ELSE LET mid == (lo + hi) \div 2 IN Enum2Range(t, lo, mid) \o Enum2Range(t, mid + 1, hi)
EnumCodes(t) == IF t.fmt = 2 THEN Enum2Range(t, 0, 255) ELSE SetToSortSeq(Covered(t), LAMBDA a, b : a < b)
EnumSeq(t) == LET cs == TLCEval(EnumCodes(t)) IN TLCEval([n \in 1 .. Len(cs) |-> <<cs[n], Map(t, cs[n])>>])
\* a source table this module generates is structurally sound: no listed code is BAD, every format 2 window stays
\* inside a byte, and what is enumerated is what the lookups say
SoundSource(t) ==
  /\ \A i \in 1 .. Len(EnumSeq(t)) : EnumSeq(t)[i][2] \in 0 .. 65535
  /\ t.fmt = 2 => /\ Len(t.keys) = 256
                  /\ \A b \in 0 .. 255 : SubIdx(t, b) < Len(t.subs) /\ t.keys[b + 1] % 8 = 0
                  /\ \A k \in 1 .. Len(t.subs) : t.subs[k].first + t.subs[k].count <= 256
  /\ ToSet(EnumCodes(t)) = Covered(t)

\* legacy_symbol_char_code_to_unicode(ch, first)
SymToUni(code, first) ==
  LET c0 == IF FixSymInv \/ (code >= 61440 /\ code <= 61695) THEN code ELSE code + 61440
      v  == (c0 + 32) - first
  IN IF IsScalar(v) THEN v ELSE NoChar

\* ---- the inverse law -----------------------------------------------------------------------
\* Font (module Cmap, SymbolCode) reaches a Symbol sub-table from a Unicode character x through
\*      code = Canon(x) + first - 32,
\* Canon(x) = x - 0xF000 for the PUA image U+F000..U+F0FF of a byte, else x; first is
\* OS/2.usFirstCharIndex (32 when there is no OS/2 table).  A Mac Roman sub-table written for such a
\* font must be keyed by the characters that REACH the retained codes, so the conversion Conv used by
\* MappingsToKeep::new has to be the inverse of Font's rule, for EVERY usFirstCharIndex (the usual
\* values 0x20 and 0xF020 are two points of the parameter space, values below 0x20 and above the
\* codes are others):
\*   (L1) a code that converts to a character outside the PUA image is reached by that character:
\*           Conv(code, f) = u, u # NoChar, u \notin PuaImage  =>  SymbolCode(u, f) = code
\*   (L2) a character that reaches a code converts back to it (up to the PUA image):
\*           SymbolCode(x, f) = k, k # NoCode                  =>  Conv(k, f) = Canon(x)
\* MC_CmapSubset checks the law for SymToUni (under FixSymInv, the code as it is now) over all 16-bit
\* codes and a set of usFirstCharIndex values, and that the named wrong readings below break it.
PuaImage == 61440 .. 61695
Canon(x) == IF x \in PuaImage THEN x - 61440 ELSE x
SymInverseLaw(Conv(_, _), F, Codes, X) ==
  \A f \in F :
    /\ \A code \in Codes : LET u == Conv(code, f) IN (u # NoChar /\ u \notin PuaImage) => SymbolCode(u, f) = code
    /\ \A x \in X : LET k == SymbolCode(x, f) IN k # NoCode => Conv(k, f) = Canon(x)

\* Named wrong readings (each was, or was seeded as, the implementation at some time):
\*  - the offset usFirstCharIndex - 0x20 clamped at 0 and subtracted in one step (seeded change C08-r2m3):
\*    the same function for usFirstCharIndex >= 0x20, the identity below it
SymToUni_SaturatingOffset(code, first) ==
  LET off == IF first >= 32 THEN first - 32 ELSE 0
      v   == code - off
  IN IF v >= 0 /\ IsScalar(v) THEN v ELSE NoChar
\*  - codes outside F000..F0FF first moved into the PUA (the finding repaired by notes/C08-fix-2.diff)
SymToUni_PuaFirst(code, first) ==
  LET c0 == IF code >= 61440 /\ code <= 61695 THEN code ELSE code + 61440
      v  == (c0 + 32) - first
  IN IF IsScalar(v) THEN v ELSE NoChar

\* the character under which the code is kept
OutputChar(code, enc, target, first) ==
  IF enc = "Symbol" /\ target = "MacRoman" /\ SymToUni(code, first) # NoChar
  THEN SymToUni(code, first)
  ELSE CharNew(code, enc)

\* CharExistence: 1 MacRoman, 2 BMP, 3 astral, 4 "divine" (symbol)
Existence(x) == IF IsSym(x) THEN 4 ELSE IF IsMac(x) THEN 1 ELSE IF x <= 65535 THEN 2 ELSE 3

Put(m, k, v) == [x \in (DOMAIN m) \cup {k} |-> IF x = k THEN v ELSE m[x]]
EmptyMap == [x \in {} |-> 0]

\* one callback of mappings_fn; st = [m |-> kept map character -> old glyph id, plane |-> 1..4]
KeepStep(st, code, gid, idset, enc, target, first) ==
  IF gid = 0 \/ gid \notin idset THEN st
  ELSE LET ch == OutputChar(code, enc, target, first) IN
       IF ch = NoChar THEN st
       ELSE IF target = "MacRoman"
            THEN (IF Existence(ch) <= 1 THEN [st EXCEPT !.m = Put(st.m, ch, gid)] ELSE st)
            ELSE [m |-> Put(st.m, ch, gid),
                  plane |-> IF Existence(ch) > st.plane THEN Existence(ch) ELSE st.plane]

Keep(c) ==
  LET idset == ToSet(c.ids) IN
  FoldLeft(LAMBDA st, p : KeepStep(st, p[1], p[2], idset, c.enc, c.target, c.first),
           [m |-> EmptyMap, plane |-> 1], c.sm)

\* BTreeMap iteration: ascending characters
KeptSeq(m) ==
  LET ks == SetToSortSeq(DOMAIN m, LAMBDA a, b : a < b) IN [i \in 1 .. Len(ks) |-> <<ks[i], m[ks[i]]>>]

---------------------------------------------------------------------------
\* SubsetGlyphs::new_id (position in the glyph id list, unwrap_or(0)) and update_to_new_ids
NewId(ids, g) == IF g \in ToSet(ids) THEN (CHOOSE i \in 1 .. Len(ids) : ids[i] = g) - 1 ELSE 0
Renumber(kept, ids) == [i \in 1 .. Len(kept) |-> <<kept[i][1], NewId(ids, kept[i][2])>>]

---------------------------------------------------------------------------
\* Format 4 writer.  kept: non-empty sequence of <<character, new glyph id>>, ascending.
GapLimit   == 4        \* a gap of fewer unmapped codes is filled with glyph 0 entries
CompactLen == 4        \* a run of this many consecutive glyph ids is closed rather than filled

SegNew(c, g) == [s |-> c, e |-> c, gids |-> <<g>>, consec |-> TRUE]

SegAdd(sg, c, g) ==
  LET d0  == (c - sg.e) - 1
      gap == IF d0 < 0 THEN 0 ELSE d0                     \* saturating_sub
      compact == sg.consec /\ Len(sg.gids) >= CompactLen
  IN IF gap > 0 /\ compact THEN [ok |-> FALSE, seg |-> sg]
     ELSE IF gap < GapLimit
          THEN [ok |-> TRUE,
                seg |-> [s |-> sg.s, e |-> c,
                         gids |-> sg.gids \o [k \in 1 .. gap |-> 0] \o <<g>>,
                         consec |-> IF gap = 0 THEN sg.consec /\ (Last(sg.gids) + 1 = g) ELSE FALSE]]
          ELSE [ok |-> FALSE, seg |-> sg]

ToI16(x) == LET m == x % 65536 IN IF m >= 32768 THEN m - 65536 ELSE m

\* t = [segs, gia, fix]: fix holds the (1-based) numbers of the segments whose idRangeOffset
\* still is an index into gia
AddSegment(t, sg) ==
  IF sg.consec
  THEN [t EXCEPT !.segs = Append(@, [s |-> sg.s % 65536, e |-> sg.e % 65536,
                                      delta |-> ToI16(sg.gids[1] - (sg.s % 65536)), ro |-> 0])]
  ELSE [segs |-> Append(t.segs, [s |-> sg.s % 65536, e |-> sg.e % 65536, delta |-> 0, ro |-> Len(t.gia) % 65536]),
        gia  |-> t.gia \o sg.gids,
        fix  |-> Append(t.fix, Len(t.segs) + 1)]

F4Step(st, p) ==
  LET r == SegAdd(st.sg, Val(p[1]), p[2]) IN
  IF r.ok THEN [st EXCEPT !.sg = r.seg]
  ELSE [t |-> AddSegment(st.t, st.sg), sg |-> SegNew(Val(p[1]), p[2])]

Format4From(kept) ==
  LET st0 == [t |-> [segs |-> <<>>, gia |-> <<>>, fix |-> <<>>], sg |-> SegNew(Val(kept[1][1]), kept[1][2])]
      st1 == FoldLeft(F4Step, st0, Tail(kept))
      t2  == AddSegment(AddSegment(st1.t, st1.sg), SegNew(65535, 0))     \* last range, final 0xFFFF segment
      n   == Len(t2.segs)
      fx  == ToSet(t2.fix)
      \* idRangeOffset fix-up: bytes from the idRangeOffset word of segment i to its slice of gia
      ro(i) == IF i \in fx THEN 2 * ((n + t2.segs[i].ro) - (i - 1)) ELSE t2.segs[i].ro
  IN IF \E i \in 1 .. n : ro(i) > 65535 THEN LimitExceeded
     ELSE [fmt |-> 4, segs |-> [i \in 1 .. n |-> [t2.segs[i] EXCEPT !.ro = ro(i)]], gia |-> t2.gia]

---------------------------------------------------------------------------
\* Format 12 writer
F12Step(st, p) ==
  LET c == Val(p[1])  g == p[2] IN
  IF c = st.cur.e + 1 /\ g = st.prev + 1
  THEN [st EXCEPT !.cur.e = c, !.prev = g]
  ELSE [groups |-> Append(st.groups, st.cur), cur |-> [s |-> c, e |-> c, g |-> g], prev |-> g]

Format12From(kept) ==
  LET c1  == Val(kept[1][1])
      st0 == [groups |-> <<>>, cur |-> [s |-> c1, e |-> c1, g |-> kept[1][2]], prev |-> kept[1][2]]
      st1 == FoldLeft(F12Step, st0, Tail(kept))
  IN [fmt |-> 12, groups |-> Append(st1.groups, st1.cur)]

---------------------------------------------------------------------------
\* Format 0 writer (Mac Roman arm): glyph_id_array[char_to_macroman(ch)] = gid as u8
Format0From(kept) ==
  [fmt |-> 0,
   gia |-> [b \in 1 .. 256 |->
              LET S == {i \in 1 .. Len(kept) : U2M[kept[i][1]] = b - 1} IN
              IF S = {} THEN 0 ELSE kept[Max(S)][2] % 256]]

\* owned::EncodingRecord::from_mappings: plane -> record; create_cmap_table wraps it
Write(kept, plane) ==
  LET big == \E i \in 1 .. Len(kept) : kept[i][2] > 255
      pl  == IF FixFmt0 /\ plane = 1 /\ big THEN 2 ELSE plane
  IN CASE pl = 1 -> [p |-> 1, e |-> 0, tab |-> Format0From(kept)]
       [] pl = 2 -> [p |-> 0, e |-> 3, tab |-> Format4From(kept)]
       [] pl = 3 -> [p |-> 0, e |-> 4, tab |-> Format12From(kept)]
       [] pl = 4 -> [p |-> 3, e |-> 0, tab |-> Format4From(kept)]

\* the whole cmap path of subset / prince::subset for case c
Subset(c) ==
  LET k == Keep(c) IN Write(Renumber(KeptSeq(k.m), c.ids), k.plane)
Failed(rec) == rec.tab.fmt = -1

---------------------------------------------------------------------------
\* Reading the result: what the written record maps character x to (readers of module Cmap).
\* Dev_MacCurrency (module Cmap): Mac Roman code 0xDB is the currency sign U+00A4 or the euro
\* sign U+20AC; an implementation knows it as ONE of them.  A Mac Roman record (read or written)
\* is therefore interpreted under a reading v \in MacCurrencyReadings, the same for the source
\* and the result; the property must hold under one of them.
MacCurrencyReadings == {164, 8364}
MacCode(x, v) ==
  IF IsSym(x) \/ x \notin MacRomanChars THEN NoCode
  ELSE IF x \in MacCurrencyReadings /\ x # v THEN NoCode ELSE U2M[x]
OutCodeV(rec, x, v) ==
  LET enc == EncodingOf(rec) IN
  CASE enc = "Unicode"    -> IF IsSym(x) THEN NoCode ELSE x
    [] enc = "Symbol"     -> IF IsSym(x) THEN Val(x) ELSE NoCode
    [] enc = "AppleRoman" -> MacCode(x, v)
    [] OTHER -> NoCode
OutMapV(rec, x, v) == LET code == OutCodeV(rec, x, v) IN IF code = NoCode THEN 0 ELSE Map(rec.tab, code)
OutMap(rec, x) == OutMapV(rec, x, 164)

\* Font::lookup_glyph_index on the subset font sees the written record through Font's encoding
\* dispatch (property C06).  That second view is judged where the dispatch is the plain one:
\* Unicode records for every Unicode character, Mac Roman records for the definite Mac Roman
\* characters (for other characters Font falls back to the legacy symbol rule: C06's matter);
\* not for Symbol records (the dispatch needs OS/2.usFirstCharIndex, and OS/2 is not carried into
\* a TrueType subset).
FontViewApplies(outEnc, x) ==
  CASE outEnc = "Unicode"    -> ~IsSym(x) /\ IsScalar(x)
    [] outEnc = "AppleRoman" -> ~IsSym(x) /\ x \in MacDefinite
    [] OTHER -> FALSE

---------------------------------------------------------------------------
\* The source's side: the code of character x in the source encoding and its glyph.
\* For a Symbol source with a Mac Roman target the characters are Unicode characters and reach the
\* subtable by the legacy symbol rule of Font (module Cmap, SymbolCode); otherwise the characters
\* of a Symbol source are its codes.
SrcCodeV(c, x, v) ==
  CASE c.enc = "Unicode"    -> IF IsSym(x) THEN NoCode ELSE x
    [] c.enc = "Symbol"     -> IF c.target = "MacRoman"
                               THEN (IF IsSym(x) THEN NoCode ELSE SymbolCode(x, c.first))
                               ELSE (IF IsSym(x) THEN Val(x) ELSE NoCode)
    [] c.enc = "AppleRoman" -> MacCode(x, v)
    [] c.enc = "Big5"       -> IF IsSym(x) THEN NoCode ELSE UniToBig5Known(x)
SrcGlyphOfCode(sm, code) ==
  LET S == {i \in 1 .. Len(sm) : sm[i][1] = code} IN IF S = {} THEN 0 ELSE sm[Max(S)][2]
SrcGlyphV(c, x, v) == LET code == SrcCodeV(c, x, v) IN IF code = NoCode THEN 0 ELSE SrcGlyphOfCode(c.sm, code)
SrcGlyph(c, x) == SrcGlyphV(c, x, 164)

\* The glyph ids the property allows for character x in the subset font.
Retained(ids, g) == g # 0 /\ g \in ToSet(ids)
\* ... given whether the source glyph of x is retained and, if so, its new id
ExpectNew(target, x, retained, nid) ==
  IF ~retained THEN {0}
  ELSE IF target = "MacRoman"
       THEN (IF IsSym(x) \/ x \notin MacRomanChars THEN {0}
             ELSE IF x \in MacOptionalChars THEN {0, nid}
             ELSE {nid})
       ELSE {nid}
Expect(target, ids, x, g) == ExpectNew(target, x, Retained(ids, g), NewId(ids, g))
ExpectedV(c, x, v) == Expect(c.target, c.ids, x, SrcGlyphV(c, x, v))
Expected(c, x) == ExpectedV(c, x, 164)

\* THE PROPERTY, over a set X of characters
SubsetCmapOK(c, X) ==
  LET rec == Subset(c) IN
  Failed(rec) \/ \E v \in MacCurrencyReadings : \A x \in X : OutMapV(rec, x, v) \in ExpectedV(c, x, v)

\* Where the writer as implemented is known to break it (finding fmt0|gid-mod-256):
\* a Mac Roman plane with a new glyph id above 255.
Fmt0Overflow(c) ==
  LET k == Keep(c)  kept == Renumber(KeptSeq(k.m), c.ids) IN
  k.plane = 1 /\ \E i \in 1 .. Len(kept) : kept[i][2] > 255

\* ... and (findings Symbol:first=..|MacRoman|1/0:f0|lost, ..|spurious): a Symbol source with a Mac Roman target
\* where the conversion of a retained code is not the inverse of the legacy symbol rule.
SymInvDiverges(c) ==
  /\ c.enc = "Symbol" /\ c.target = "MacRoman"
  /\ \E i \in 1 .. Len(c.sm) :
        /\ Retained(c.ids, c.sm[i][2])
        /\ LET code == c.sm[i][1]
               c0 == IF code >= 61440 /\ code <= 61695 THEN code ELSE code + 61440
           IN (c0 + 32) - c.first # (code + 32) - c.first

\* Structural facts of what is written (cross-checked against Cmap's preconditions)
WrittenWellFormed(rec) ==
  CASE rec.tab.fmt = 4  -> /\ \A i \in 1 .. (Len(rec.tab.segs) - 1) : rec.tab.segs[i].e <= rec.tab.segs[i + 1].e
                           /\ rec.tab.segs[Len(rec.tab.segs)].e = 65535
                           /\ \A i \in 1 .. Len(rec.tab.segs) : rec.tab.segs[i].s <= rec.tab.segs[i].e
    [] rec.tab.fmt = 12 -> Sorted12(rec.tab.groups)
    [] OTHER -> TRUE

\* vacuity / coverage classification of a case
Shape(c) ==
  LET rec == Subset(c) IN
  IF Failed(rec) THEN "failed"
  ELSE CASE rec.tab.fmt = 0  -> "f0"
         [] rec.tab.fmt = 12 -> "f12"
         [] rec.tab.fmt = 4  -> (IF rec.p = 3 THEN "f4sym" ELSE "f4") \o
                                (IF rec.tab.gia # <<>> THEN ":gia" ELSE ":delta") \o
                                (IF Len(rec.tab.segs) >= 2 /\ rec.tab.segs[Len(rec.tab.segs) - 1].e = 65535 THEN ":ffff" ELSE "")
=============================================================================
