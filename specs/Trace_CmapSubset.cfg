CONSTANTS
  FixFmt0 = FALSE
  FixSymInv = FALSE
SPECIFICATION TSpec
POSTCONDITION AllConsumed
CHECK_DEADLOCK FALSE
