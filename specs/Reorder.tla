------------------------------ MODULE Reorder ------------------------------
(***************************************************************************)
(* X10 - cluster reordering and feature tagging of the Khmer and Myanmar   *)
(* shapers (allsorts src/scripts/khmer.rs reorder_and_mask_syllable,       *)
(* myanmar.rs tag_syllable / initial_reorder_consonant_syllable, and the   *)
(* feature stages around them), i.e. what happens to ONE cluster after     *)
(* segmentation (X07) and before / while GSUB runs.                        *)
(*                                                                         *)
(* A cluster is a sequence of items [id, c, m, p]:                         *)
(*    id  identity: index of the character in the text (1..n); -i = the    *)
(*        U+17C1 inserted in front of the split vowel at text index i;     *)
(*        0 = the inserted dotted circle                                   *)
(*    c   class (Khmer: C Ra V GB DC H RS N VPre M SM ZWJ ZWNJ O; Myanmar: *)
(*        C Ra IV GB VS H As MY MR MW MH ML VPre VAbv VBlw A DB VPst PT SM *)
(*        ZWJ ZWNJ O).  Classes of real code points: KClassCp / MClassCp,  *)
(*        written from the Unicode charts and the script documents.        *)
(*    m   Khmer: set of features the glyph is tagged with                  *)
(*    p   Myanmar: position (PreM PreC Base AfterMain BeforeSub Below      *)
(*        AfterSub)                                                        *)
(*                                                                         *)
(* KHMER (Microsoft "Developing OpenType fonts for Khmer script", shaping  *)
(* engine steps; the n8willis opentype-shaping-documents text allsorts     *)
(* cites).  Small-step machine, one action per rule, in document order:    *)
(*   KDecompose  a split vowel (U+17BE 17BF 17C0 17C4 17C5) is preceded    *)
(*               by its left part U+17C1                                   *)
(*   KCircle     a cluster that does not start with a base gets a dotted   *)
(*               circle as its base                                        *)
(*   KTagPost    everything after the base is tagged blwf abvf pstf        *)
(*   KMove(cr)   the first COENG + RO after the base is tagged pref, moved *)
(*               to before the base, everything after it is tagged cfar    *)
(*   KMove(v)    the pre-base vowel is moved to the start of the cluster   *)
(*   KFinish     global features (ccmp ... pres) reach every glyph         *)
(* Closed form KClosed: out = front units ++ everything else in text       *)
(* order; masks by position.  MC_Reorder checks machine = closed form for  *)
(* every reading, that the result is a permutation of the cluster (plus    *)
(* the inserted glyphs) and that everything not explicitly moved keeps its *)
(* relative order.                                                         *)
(*                                                                         *)
(* Named nondeterminism, Khmer (every reading conforms, one per cluster):  *)
(*   Dev_MatraVsRo    "matraFirst": the pre-base vowel always ends up in   *)
(*        front of COENG RO (Uniscribe; what allsorts documents);          *)
(*        "textOrder": units are moved to the start in text order, so the  *)
(*        one that comes LATER in the text ends up in front (HarfBuzz).    *)
(*   Dev_MoreLeftMatras  only the first pre-base vowel of a cluster moves  *)
(*        ("first") or every one ("all", HarfBuzz).  Clusters with two     *)
(*        pre-base vowels are not well-formed Khmer.                       *)
(*   Dev_PrefKeepsPostBase  COENG RO carries pref only (masks assigned     *)
(*        after the move) or pref + blwf abvf pstf (assigned before).      *)
(*   Dev_PstfScope    pstf reaches post-base glyphs only (documents,       *)
(*        HarfBuzz) or every glyph of the cluster (allsorts treats pstf as *)
(*        a global feature).                                               *)
(*                                                                         *)
(* MYANMAR (Microsoft "Developing OpenType fonts for Myanmar script":      *)
(* kinzi after the base, medial RA and pre-base vowel E in front, anusvara *)
(* before below-base vowels; the position tags are those of the shaping    *)
(* documents allsorts cites).  Small-step machine: MCircle, MKinziBase,    *)
(* one MTag step per glyph after the base (state = current zone), MSort    *)
(* (stable sort by position).  Closed form MClosed: zones computed         *)
(* declaratively, output = concatenation of the zones.                     *)
(* All Myanmar basic features are global; what is observable is the ORDER  *)
(* of the stages: ccmp < rphf < pref < blwf < pstf < presentation forms.   *)
(*                                                                         *)
(* The specification's fonts (KFont, MFont) make this observable: glyph =  *)
(* (character, state); Khmer state = set of features that fired (a bit     *)
(* each; `pres` fires only on a glyph on which `ccmp` fired before although*)
(* its lookup comes first in the lookup list), Myanmar state = number of   *)
(* stages that fired in order (lookup list in reverse stage order).        *)
(***************************************************************************)
EXTENDS Integers, Sequences, SequencesExt, FiniteSets, FiniteSetsExt, TLC, Json, IOUtils

Item(id, c) == [id |-> id, c |-> c, m |-> {}, p |-> "none"]
IdsOf(s)    == [i \in DOMAIN s |-> s[i].id]
IdSet(s)    == {s[i].id : i \in DOMAIN s}
Pick(s, I)  == SelectSeq(s, LAMBDA x : x.id \in I)
Drop(s, I)  == SelectSeq(s, LAMBDA x : x.id \notin I)
PosOfId(s, id) == CHOOSE i \in DOMAIN s : s[i].id = id
RevSeq(s)   == [i \in DOMAIN s |-> s[Len(s) + 1 - i]]
RECURSIVE Flat(_)
Flat(ss) == IF ss = <<>> THEN <<>> ELSE Head(ss) \o Flat(Tail(ss))
MoveToStart(s, I) == Pick(s, I) \o Drop(s, I)
MoveBefore(s, I, anchor) ==
  LET rest == Drop(s, I)
      k    == PosOfId(rest, anchor)
  IN SubSeq(rest, 1, k - 1) \o Pick(s, I) \o SubSeq(rest, k, Len(rest))

(***************************************************************************)
(* KHMER                                                                   *)
(***************************************************************************)
KBit == [ccmp |-> 1, pref |-> 2, blwf |-> 4, abvf |-> 8, pstf |-> 16, cfar |-> 32, pres |-> 64]
KFeatureNames == <<"ccmp", "pref", "blwf", "abvf", "pstf", "cfar", "pres">>
RECURSIVE KBits(_)
KBits(S) == IF S = {} THEN 0 ELSE LET x == CHOOSE x \in S : TRUE IN KBit[x] + KBits(S \ {x})
KPostBase == {"blwf", "abvf", "pstf"}
KGlobal   == {"ccmp", "pres"}

KReadings == [order : {"matraFirst", "textOrder"}, more : {"first", "all"},
              prefKeeps : BOOLEAN, pstfAll : BOOLEAN]
KPrimary  == [order |-> "matraFirst", more |-> "first", prefKeeps |-> FALSE, pstfAll |-> FALSE]

KIsBase(c) == c \in {"C", "Ra", "V", "GB", "DC"}

\* text classes -> run (what text preprocessing hands to the shaper)
RECURSIVE KDecomposeFrom(_, _)
KDecomposeFrom(r, i) ==
  IF i > Len(r) THEN <<>>
  ELSE (IF r[i] = "Split" THEN <<Item(0 - i, "VPre"), Item(i, "M")>> ELSE <<Item(i, r[i])>>)
       \o KDecomposeFrom(r, i + 1)
KDecompose(r) == KDecomposeFrom(r, 1)

KCircle(s) == IF s # <<>> /\ ~KIsBase(s[1].c) THEN <<Item(0, "DC")>> \o s ELSE s
\* position of the base of a cluster that went through KCircle (0: no base, nothing is reordered)
KBase(s) == IF s # <<>> /\ KIsBase(s[1].c) THEN 1 ELSE 0

KTagPost(s, b) == [i \in DOMAIN s |-> IF b > 0 /\ i > b THEN [s[i] EXCEPT !.m = @ \cup KPostBase] ELSE s[i]]

\* position of the RO of the first COENG + RO after the base (0 if none)
KRo(s, b) == LET k == {i \in DOMAIN s : b > 0 /\ i > b + 1 /\ s[i].c = "Ra" /\ s[i - 1].c = "H"}
             IN IF k = {} THEN 0 ELSE Min(k)
KVPres(s, b) == SelectSeq([i \in DOMAIN s |-> i], LAMBDA i : b > 0 /\ i > b /\ s[i].c = "VPre")
KMovedVPres(s, b, d) == LET v == KVPres(s, b) IN IF d.more = "first" /\ v # <<>> THEN <<v[1]>> ELSE v

\* the moves, in the order they are performed: [kind, ids (a set), at (position of the unit's first glyph)]
KOps(s, b, d) ==
  LET ro  == KRo(s, b)
      cr  == IF ro = 0 THEN <<>> ELSE << [kind |-> "cr", ids |-> {s[ro - 1].id, s[ro].id}, at |-> ro - 1] >>
      vp  == KMovedVPres(s, b, d)
      vs  == [k \in DOMAIN vp |-> [kind |-> "v", ids |-> {s[vp[k]].id}, at |-> vp[k]]]
  IN IF d.order = "matraFirst" THEN cr \o vs
     ELSE SortSeq(cr \o vs, LAMBDA x, y : x.at < y.at)

KApply(s, baseId, op, d) ==
  IF op.kind = "v" THEN MoveToStart(s, op.ids)
  ELSE LET ro  == Max({i \in DOMAIN s : s[i].id \in op.ids})
           tag == [i \in DOMAIN s |->
                     IF s[i].id \in op.ids
                     THEN [s[i] EXCEPT !.m = (IF d.prefKeeps THEN @ ELSE {}) \cup {"pref"}]
                     ELSE IF i > ro THEN [s[i] EXCEPT !.m = @ \cup {"cfar"}] ELSE s[i]]
       IN IF d.order = "matraFirst" THEN MoveBefore(tag, op.ids, baseId) ELSE MoveToStart(tag, op.ids)

KFinish(s, b, d) ==
  [i \in DOMAIN s |-> [s[i] EXCEPT !.m = @ \cup KGlobal \cup (IF d.pstfAll /\ b > 0 THEN {"pstf"} ELSE {})]]

RECURSIVE KApplyAll(_, _, _, _)
KApplyAll(s, baseId, ops, d) ==
  IF ops = <<>> THEN s ELSE KApplyAll(KApply(s, baseId, Head(ops), d), baseId, Tail(ops), d)

\* the machine run as one operator (cluster as handed over by segmentation, without dotted circle)
KRun(s0, d) ==
  LET s1 == KCircle(s0)
      b  == KBase(s1)
      s2 == KTagPost(s1, b)
  IN IF b = 0 THEN KFinish(s2, b, d)
     ELSE KFinish(KApplyAll(s2, s2[b].id, KOps(s2, b, d), d), b, d)

\* closed form
KClosed(s0, d) ==
  LET s  == KCircle(s0)
      b  == KBase(s)
      ro == KRo(s, b)
      vp == KMovedVPres(s, b, d)
      crI == IF ro = 0 THEN {} ELSE {s[ro - 1].id, s[ro].id}
      vI  == {s[vp[k]].id : k \in DOMAIN vp}
      mask(i) == (IF b > 0 /\ i > b /\ (s[i].id \notin crI \/ d.prefKeeps) THEN KPostBase ELSE {})
                 \cup (IF s[i].id \in crI THEN {"pref"} ELSE {})
                 \cup (IF ro > 0 /\ i > ro THEN {"cfar"} ELSE {})
                 \cup KGlobal \cup (IF d.pstfAll /\ b > 0 THEN {"pstf"} ELSE {})
      t  == [i \in DOMAIN s |-> [s[i] EXCEPT !.m = mask(i)]]
      vUnits == [k \in DOMAIN vp |-> <<t[vp[k]]>>]
      crUnit == IF ro = 0 THEN <<>> ELSE << <<t[ro - 1], t[ro]>> >>
      front  == IF d.order = "matraFirst" THEN Flat(RevSeq(vUnits)) \o Flat(crUnit)
                ELSE Flat(RevSeq(SortSeq(vUnits \o crUnit, LAMBDA x, y : PosOfId(s, x[1].id) < PosOfId(s, y[1].id))))
  IN IF b = 0 THEN t ELSE front \o Drop(t, crI \cup vI)

\* what is observable after shaping: ZWJ / ZWNJ are removed at the end (gsub strip_joiners, as for every script)
Visible(s) == SelectSeq(s, LAMBDA x : x.c \notin {"ZWJ", "ZWNJ"})
KOut(s) == LET v == Visible(s) IN [i \in DOMAIN v |-> <<v[i].id, KBits(v[i].m)>>]
KAccept(s0) == {KOut(KClosed(s0, d)) : d \in KReadings}
\* ids the rules move explicitly (everything else must keep its relative order)
KMovedIds(s0, d) ==
  LET s == KCircle(s0) b == KBase(s) ro == KRo(s, b) vp == KMovedVPres(s, b, d)
  IN (IF ro = 0 THEN {} ELSE {s[ro - 1].id, s[ro].id}) \cup {s[vp[k]].id : k \in DOMAIN vp}

\* classes of real code points (Unicode chart of the Khmer block; Khmer script document's character table)
KClassCp(cp) ==
  IF cp = 6042 THEN "Ra"                                   \* U+179A RO
  ELSE IF cp >= 6016 /\ cp <= 6050 THEN "C"                \* U+1780..17A2
  ELSE IF cp >= 6051 /\ cp <= 6067 THEN "V"                \* U+17A3..17B3 independent vowels
  ELSE IF cp \in {6081, 6082, 6083} THEN "VPre"            \* U+17C1..17C3
  ELSE IF cp \in {6078, 6079, 6080, 6084, 6085} THEN "Split"   \* U+17BE 17BF 17C0 17C4 17C5
  ELSE IF (cp >= 6070 /\ cp <= 6077) \/ cp \in {6088, 6093, 6097} THEN "M"   \* U+17B6..17BD, 17C8, 17CD, 17D1
  ELSE IF cp \in {6086, 6092} THEN "N"                     \* U+17C6 nikahit, U+17CC robat
  ELSE IF cp \in {6089, 6090} THEN "RS"                    \* U+17C9, 17CA
  ELSE IF cp \in {6087, 6091, 6094, 6095, 6096, 6099, 6109} THEN "SM"  \* 17C7 17CB 17CE 17CF 17D0 17D3 17DD
  ELSE IF cp = 6098 THEN "H"                               \* U+17D2 COENG
  ELSE IF cp \in {160, 8208, 8209, 8210, 8211, 8212} THEN "GB"
  ELSE IF cp = 9676 THEN "DC"
  ELSE IF cp = 8205 THEN "ZWJ" ELSE IF cp = 8204 THEN "ZWNJ" ELSE "O"

(***************************************************************************)
(* MYANMAR                                                                 *)
(***************************************************************************)
MRank == [PreM |-> 1, PreC |-> 2, Base |-> 3, AfterMain |-> 4, BeforeSub |-> 5, Below |-> 6, AfterSub |-> 7, none |-> 8]
MIsBase(c) == c \in {"C", "Ra", "IV", "GB", "DC"}
MStages == <<"ccmp", "rphf", "pref", "blwf", "pstf", "pres">>     \* stage k fires on a glyph in state k-1
MDone   == Len(MStages)

MCircle(s) == IF s # <<>> /\ ~MIsBase(s[1].c) THEN <<Item(0, "DC")>> \o s ELSE s
\* number of glyphs of a leading kinzi (NGA / RA / MON NGA + ASAT + VIRAMA followed by the base)
MKinzi(s) == IF Len(s) >= 4 /\ s[1].c = "Ra" /\ s[2].c = "As" /\ s[3].c = "H" /\ MIsBase(s[4].c) THEN 3 ELSE 0
MBaseIdx(s) == LET k == {i \in DOMAIN s : i > MKinzi(s) /\ MIsBase(s[i].c)} IN IF k = {} THEN 0 ELSE Min(k)

\* one step of the tagging loop: zone `z` before the glyph, class c, position of the previous glyph
MTagStep(z, c, prevP) ==
  IF c = "MR" THEN [p |-> "PreC", z |-> z]
  ELSE IF c = "VPre" THEN [p |-> "PreM", z |-> z]
  ELSE IF c = "VS" THEN [p |-> prevP, z |-> z]
  ELSE IF z = "AfterMain" /\ c = "VBlw" THEN [p |-> "Below", z |-> "Below"]
  ELSE IF z = "Below" /\ c = "A" THEN [p |-> "BeforeSub", z |-> "Below"]
  ELSE IF z = "Below" /\ c = "VBlw" THEN [p |-> "Below", z |-> "Below"]
  ELSE IF z = "Below" THEN [p |-> "AfterSub", z |-> "AfterSub"]
  ELSE [p |-> z, z |-> z]

MKinziBase(s) ==
  LET k == MKinzi(s) b == MBaseIdx(s)
  IN [i \in DOMAIN s |-> IF i <= k THEN [s[i] EXCEPT !.p = "AfterMain"]
                         ELSE IF i < b THEN [s[i] EXCEPT !.p = "PreC"]
                         ELSE IF i = b THEN [s[i] EXCEPT !.p = "Base"] ELSE s[i]]
MTagOne(s, i, z) == LET r == MTagStep(z, s[i].c, s[i - 1].p) IN [s |-> [s EXCEPT ![i].p = r.p], z |-> r.z]
RECURSIVE MTagFrom(_, _, _)
MTagFrom(s, i, z) == IF i > Len(s) THEN s ELSE LET r == MTagOne(s, i, z) IN MTagFrom(r.s, i + 1, r.z)
MSort(s) == Flat([k \in 1..8 |-> SelectSeq(s, LAMBDA x : MRank[x.p] = k)])

MRun(s0) ==
  LET s1 == MCircle(s0) b == MBaseIdx(s1)
  IN IF b = 0 THEN s1 ELSE MSort(MTagFrom(MKinziBase(s1), b + 1, "AfterMain"))

\* closed form: zones
MClosed(s0) ==
  LET s  == MCircle(s0)
      b  == MBaseIdx(s)
      k  == MKinzi(s)
      n  == Len(s)
      fixedC(i) == s[i].c \in {"MR", "VPre", "VS"}
      blw == {i \in b + 1 .. n : s[i].c = "VBlw"}
      f   == IF blw = {} THEN n + 1 ELSE Min(blw)                 \* first below-base vowel
      brk == {i \in f .. n : s[i].c \notin {"VBlw", "A", "MR", "VPre", "VS"}}
      e   == IF brk = {} THEN n + 1 ELSE Min(brk)                 \* first glyph after the below-base zone
      \* the glyph a variation selector belongs to
      owner[i \in 1..n] == IF s[i].c = "VS" /\ i > b + 1 THEN owner[i - 1] ELSE IF s[i].c = "VS" /\ i = b + 1 THEN b ELSE i
      pos(j) == LET i == owner[j] IN
                IF i <= k THEN "AfterMain" ELSE IF i < b THEN "PreC" ELSE IF i = b THEN "Base"
                ELSE IF s[i].c = "MR" THEN "PreC" ELSE IF s[i].c = "VPre" THEN "PreM"
                ELSE IF i < f THEN "AfterMain"
                ELSE IF i < e THEN (IF s[i].c = "A" THEN "BeforeSub" ELSE "Below")
                ELSE "AfterSub"
      t  == [i \in 1..n |-> [s[i] EXCEPT !.p = pos(i)]]
      zone(z) == SelectSeq(t, LAMBDA x : x.p = z)
  IN IF b = 0 THEN s
     ELSE zone("PreM") \o zone("PreC") \o zone("Base") \o zone("AfterMain") \o zone("BeforeSub") \o zone("Below") \o zone("AfterSub")

MOut(s) == LET v == Visible(s) IN [i \in DOMAIN v |-> <<v[i].id, MDone>>]
\* ids the rules move explicitly: kinzi, medial RA, pre-base vowels, anusvara in the below-base zone (and
\* the variation selectors that follow them)
MMovedIds(s0) ==
  LET s == MClosed(s0)
  IN {s[i].id : i \in {j \in DOMAIN s : s[j].p \in {"PreM", "PreC", "BeforeSub"}}} \cup
     (LET c == MCircle(s0) IN {c[i].id : i \in 1..MKinzi(c)})

\* classes of real code points (Unicode charts of Myanmar, Myanmar Extended-A / -B; Myanmar script document)
MClassCp(cp) ==
  IF cp \in {4100, 4123, 4186} THEN "Ra"                    \* U+1004 NGA, U+101B RA, U+105A MON NGA
  ELSE IF (cp >= 4096 /\ cp <= 4128) \/ cp \in {4159, 4176, 4177, 4187, 4188, 4189, 4193, 4197, 4198}
          \/ (cp >= 4206 /\ cp <= 4208) \/ (cp >= 4213 /\ cp <= 4225) \/ cp = 4238
          \/ (cp >= 43488 /\ cp <= 43492) \/ (cp >= 43495 /\ cp <= 43503) \/ (cp >= 43514 /\ cp <= 43518)   \* Extended-B letters
          \/ (cp >= 43616 /\ cp <= 43631) \/ (cp >= 43633 /\ cp <= 43638) \/ cp \in {43642, 43646, 43647}    \* Extended-A letters
       THEN "C"
  ELSE IF (cp >= 4129 /\ cp <= 4138) \/ (cp >= 4178 /\ cp <= 4181) THEN "IV"   \* U+1021..102A, 1052..1055
  ELSE IF cp \in {4145, 4228} THEN "VPre"                   \* U+1031, U+1084 SHAN E
  ELSE IF cp \in {4143, 4144, 4184, 4185} THEN "VBlw"       \* U+102F 1030 1058 1059
  ELSE IF cp \in {4146, 4150} THEN "A"                      \* U+1032 AI, U+1036 ANUSVARA
  ELSE IF cp = 4151 THEN "DB"
  ELSE IF cp = 4153 THEN "H"
  ELSE IF cp = 4154 THEN "As"
  ELSE IF cp \in {4155, 4190, 4191} THEN "MY"
  ELSE IF cp = 4156 THEN "MR"
  ELSE IF cp \in {4157, 4226} THEN "MW"
  ELSE IF cp = 4158 THEN "MH"
  ELSE IF cp = 4192 THEN "ML"
  ELSE IF cp = 65024 THEN "VS"
  ELSE IF cp \in {45, 160, 215, 8210, 8211, 8212, 8213, 8226, 9676, 9723, 9724, 9725, 9726}
          \/ (cp >= 4160 /\ cp <= 4169) \/ (cp >= 4240 /\ cp <= 4249) \/ (cp >= 43504 /\ cp <= 43513) \/ (cp >= 4170 /\ cp <= 4175) THEN "GB"
  ELSE IF cp = 8205 THEN "ZWJ" ELSE IF cp = 8204 THEN "ZWNJ"
  ELSE "O"     \* every other sign (VAbv VPst PT SM ...) and everything outside the grammar: no rule names it

(***************************************************************************)
(* The specification's fonts                                               *)
(***************************************************************************)
\* Khmer: state = KBits of the features that fired.  pres needs ccmp to have fired before.
KStates == 0..127
KHas(st, f) == (st \div KBit[f]) % 2 = 1
KFontTrans ==
  UNION {{<<k, st, st + KBit[KFeatureNames[k]]>> :
            st \in {x \in KStates : /\ ~KHas(x, KFeatureNames[k])
                                    /\ (KFeatureNames[k] = "pres" => KHas(x, "ccmp"))}} :
         k \in DOMAIN KFeatureNames}
\* lookup order: pres first (so that one merged pass in lookup order would not fire it), then the rest reversed
KFontDesc ==
  [fam |-> "khmer", script |-> "khmr",
   feats  |-> [k \in DOMAIN KFeatureNames |->
                 [tag |-> KFeatureNames[k], lookup |-> IF KFeatureNames[k] = "pres" THEN 0 ELSE Len(KFeatureNames) - k]],
   states |-> SetToSeq(KStates),
   trans  |-> SetToSeq(KFontTrans)]
\* Myanmar: state k = stages 1..k fired in order.  Lookup list in reverse stage order.
MFontDesc ==
  [fam |-> "myanmar", script |-> "mym2",
   feats  |-> [k \in DOMAIN MStages |-> [tag |-> MStages[k], lookup |-> Len(MStages) - k]],
   states |-> SetToSeq(0..MDone),
   trans  |-> SetToSeq({<<k, k - 1, k>> : k \in DOMAIN MStages})]
=============================================================================
