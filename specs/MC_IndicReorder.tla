---------------------------- MODULE MC_IndicReorder ----------------------------
(***************************************************************************)
(* Bounded exhaustive exploration of IndicReorder and generator of replay  *)
(* cases (spec -> impl) for X11.                                           *)
(*                                                                         *)
(* Init picks a case: script, shaping model (new-spec / old-spec script    *)
(* tag in the font), a font (what `would substitute` answers for rphf /    *)
(* blwf / pstf / pref), a cluster kind and a cluster built from the        *)
(* cluster grammar (head: reph, conjunct units with halant / nukta / ZWJ / *)
(* ZWNJ decorations, base; tail: medial, halant or matras, modifiers).     *)
(* Next performs ONE iteration of the backwards base search per step, so a *)
(* behaviour is one run of the small-step machine.  Invariants:            *)
(*   SearchInv   on every state: bounds of the machine, tags only right of *)
(*               the cursor, below-base flag = a below-base tag exists     *)
(*   AtEnd       at the end of a run (one evaluation of tags and result):  *)
(*               base of the machine = BaseClosed, machine = RunSearch,    *)
(*               mark tags = MarkTagClosed, Order is the stable sort, all  *)
(*               glyphs tagged; DesignOK of the result; one CASE line      *)
(***************************************************************************)
EXTENDS IndicReorder, Json

CONSTANTS Tier        \* "quick" | "thorough" | "tiny"

VARIABLES c,     \* the case [sc, model, fn, kind, syms]
          st     \* state of the search machine
vars == <<c, st>>

\* one real character per symbol and script (Unicode: Indic_Syllabic_Category / Indic_Positional_Category)
Common == [ZWJ |-> 8205, ZWNJ |-> 8204, GB |-> 160, DC |-> 9676]
Alpha ==
  [ deva |-> Common @@ [K |-> 2325, B |-> 2348, P |-> 2351, Ra |-> 2352, H |-> 2381, N |-> 2364,
                        Mpre |-> 2367, Mabv |-> 2375, Mblw |-> 2369, Mpst |-> 2366, SM |-> 2306,
                        A |-> 2385, V |-> 2309],
    beng |-> Common @@ [K |-> 2453, B |-> 2476, P |-> 2479, Ra |-> 2480, H |-> 2509, N |-> 2492,
                        Mpre |-> 2495, Mblw |-> 2497, Mpst |-> 2494, SM |-> 2434, V |-> 2437],
    guru |-> Common @@ [K |-> 2581, B |-> 2604, P |-> 2607, Ra |-> 2608, H |-> 2637, N |-> 2620,
                        Mpre |-> 2623, Mabv |-> 2631, Mblw |-> 2625, Mpst |-> 2622, SM |-> 2562,
                        V |-> 2565, CM |-> 2677],
    gujr |-> Common @@ [K |-> 2709, B |-> 2732, P |-> 2735, Ra |-> 2736, H |-> 2765, N |-> 2748,
                        Mpre |-> 2751, Mabv |-> 2759, Mblw |-> 2753, Mpst |-> 2750, SM |-> 2690,
                        V |-> 2693],
    orya |-> Common @@ [K |-> 2837, B |-> 2860, P |-> 2863, Ra |-> 2864, H |-> 2893, N |-> 2876,
                        Mpre |-> 2887, Mabv |-> 2879, Mblw |-> 2881, Mpst |-> 2878, SM |-> 2818,
                        SMc |-> 2817, V |-> 2821],
    taml |-> Common @@ [K |-> 2965, B |-> 2986, P |-> 2991, Ra |-> 2992, H |-> 3021,
                        Mpre |-> 3014, Mabv |-> 3008, Mpst |-> 3006, SM |-> 2946, V |-> 2949],
    telu |-> Common @@ [K |-> 3093, B |-> 3116, P |-> 3119, Ra |-> 3120, H |-> 3149,
                        Mabv |-> 3134, Mblw |-> 3158, Mpst |-> 3137, Mpst2 |-> 3139, SM |-> 3074,
                        V |-> 3077],
    knda |-> Common @@ [K |-> 3221, B |-> 3244, P |-> 3247, Ra |-> 3248, H |-> 3277, N |-> 3260,
                        Mabv |-> 3263, Mblw |-> 3298, Mpst |-> 3262, Mpst2 |-> 3267, SM |-> 3202,
                        V |-> 3205],
    mlym |-> Common @@ [K |-> 3349, B |-> 3372, P |-> 3375, Ra |-> 3376, H |-> 3405, Repha |-> 3406,
                        Mpre |-> 3398, Mblw |-> 3395, Mpst |-> 3390, SM |-> 3330, V |-> 3333] ]

Has(a, x) == x \in DOMAIN Alpha[a]
\* a matra symbol of a script has a position in its configuration
ASSUME \A a \in Scripts : \A x \in {"Mabv", "Mblw", "Mpst", "Mpst2"} : Has(a, x) => Conf[a][x] # ""

\* the fonts: what `would substitute` answers
FontTab ==
  [ none   |-> [rphf |-> FALSE, blwf |-> {},          pstf |-> {},              pref |-> {}],
    std    |-> [rphf |-> TRUE,  blwf |-> {"B", "Ra"}, pstf |-> {"P"},           pref |-> {}],
    prefra |-> [rphf |-> TRUE,  blwf |-> {"B"},       pstf |-> {"P"},           pref |-> {"Ra"}],
    both   |-> [rphf |-> FALSE, blwf |-> {"P"},       pstf |-> {"P", "B"},      pref |-> {}],
    reph   |-> [rphf |-> TRUE,  blwf |-> {},          pstf |-> {},              pref |-> {}],
    post   |-> [rphf |-> TRUE,  blwf |-> {},          pstf |-> {"B", "P", "Ra"}, pref |-> {"Ra"}] ]
ASSUME \A f \in DOMAIN FontTab : FontTab[f] \in Fonts

---------------------------------------------------------------------------
(* cluster grammar (generative form of the documents' expressions)          *)
Opt(a, x) == IF Has(a, x) THEN {<<>>, <<x>>} ELSE {<<>>}
Decos(a) == {<<"H", "ZWJ">>, <<"ZWJ", "H">>, <<"ZWNJ", "H">>}
              \cup (IF Has(a, "N") THEN {<<"N", "H">>} ELSE {})

\* conjunct units C [N] Halant-group, at most U of them, at most D decorated
RECURSIVE UnitSeqs(_, _, _)
UnitSeqs(a, U, D) ==
  IF U = 0 THEN {<<>>}
  ELSE {<<>>} \cup { <<x>> \o <<"H">> \o r : x \in ConsSyms, r \in UnitSeqs(a, U - 1, D) }
              \cup (IF D = 0 THEN {}
                    ELSE { <<x>> \o d \o r : x \in ConsSyms, d \in Decos(a), r \in UnitSeqs(a, U - 1, D - 1) })
\* post-base units Halant-group C (after a vowel, placeholder, dotted circle or nothing)
RECURSIVE PostSeqs(_, _)
PostSeqs(U, D) ==
  IF U = 0 THEN {<<>>}
  ELSE {<<>>} \cup { <<"H", x>> \o r : x \in ConsSyms, r \in PostSeqs(U - 1, D) }
              \cup (IF D = 0 THEN {}
                    ELSE { d \o <<x>> \o r : x \in ConsSyms, d \in {<<"H", "ZWJ">>, <<"ZWJ", "H">>},
                                             r \in PostSeqs(U - 1, D - 1) })

Matras(a) == {x \in {"Mpre", "Mabv", "Mblw", "Mpst", "Mpst2"} : Has(a, x)}
TailsPoor(a) == {<<>>, <<"H">>, <<"H", "ZWJ">>} \cup {<<x>> : x \in Matras(a) \cap {"Mpre", "Mabv"}}
HalantOrMatras(a, rich) ==
  {<<>>, <<"H">>, <<"H", "ZWNJ">>, <<"H", "ZWJ">>, <<"ZWJ", "H">>}
    \cup {<<x>> : x \in Matras(a)}
    \cup {<<x, "H">> : x \in Matras(a) \cap {"Mpre", "Mpst", "Mabv"}}
    \cup (IF Has(a, "N") THEN {<<x, "N">> : x \in Matras(a) \cap {"Mpre", "Mblw"}} ELSE {})
    \cup {<<"ZWJ", x>> : x \in Matras(a) \cap {"Mpre", "Mpst"}}
    \cup (IF rich THEN {<<x, y>> : x \in Matras(a), y \in Matras(a)} ELSE
            {<<x, y>> : x \in Matras(a) \cap {"Mpre"}, y \in Matras(a) \ {"Mpre"}})
Mods(a) == {<<>>, <<"SM">>} \cup (IF Has(a, "A") THEN {<<"A">>, <<"SM", "A">>} ELSE {})
                            \cup (IF Has(a, "SMc") THEN {<<"SMc">>} ELSE {})
TailsRich(a, rich) ==
  { m \o h \o t : m \in Opt(a, "CM"), h \in HalantOrMatras(a, rich), t \in Mods(a) }

Nk(a) == Opt(a, "N")
Kinds == {"consonant", "vowel", "standalone", "broken"}

\* bounds per tier: group A = long heads, poor tails, many fonts; group B = short heads, rich tails
Bounds ==
  [ tiny     |-> [scA |-> {"deva"}, uA |-> 1, dA |-> 1, fA |-> {"std"}, mA |-> {"indic2"},
                  scB |-> {"beng"}, uB |-> 1, dB |-> 0, fB |-> {"std"}, rich |-> FALSE],
    quick    |-> [scA |-> {"deva", "telu", "mlym"}, uA |-> 2, dA |-> 1,
                  fA |-> {"std", "prefra", "both"}, mA |-> Models,
                  scB |-> Scripts, uB |-> 1, dB |-> 0, fB |-> {"none", "post"}, rich |-> FALSE],
    thorough |-> [scA |-> {"deva", "beng", "taml", "telu", "knda", "mlym"}, uA |-> 2, dA |-> 1,
                  fA |-> {"none", "std", "prefra", "both", "post"}, mA |-> Models,
                  scB |-> Scripts, uB |-> 1, dB |-> 0, fB |-> {"none", "std", "post"}, rich |-> TRUE] ]
Bd == Bounds[Tier]

Mk(a, m, f, k, s) == [sc |-> a, model |-> m, fn |-> f, kind |-> k, syms |-> s]
IsCase(x) ==
  \/ \E a \in Bd.scA : \E m \in Bd.mA : \E f \in Bd.fA :
       \E k \in {"consonant"} : \E t \in TailsPoor(a) :
         \E pre \in Opt(a, "Repha") : \E u \in UnitSeqs(a, Bd.uA, Bd.dA) : \E y \in ConsSyms : \E nk \in Nk(a) :
            x = Mk(a, m, f, k, pre \o u \o <<y>> \o nk \o t)
  \/ \E a \in Bd.scB : \E m \in Models : \E f \in Bd.fB : \E k \in Kinds :
       \E t \in TailsRich(a, Bd.rich) :
         \/ /\ k = "consonant"
            /\ \E pre \in Opt(a, "Repha") : \E u \in UnitSeqs(a, Bd.uB, Bd.dB) : \E y \in ConsSyms : \E nk \in Nk(a) :
                  x = Mk(a, m, f, k, pre \o u \o <<y>> \o nk \o t)
         \/ /\ k = "vowel"
            /\ \E pre \in {<<>>, <<"Ra", "H">>} : \E nk \in Nk(a) : \E p \in PostSeqs(Bd.uB, Bd.dB) :
                  x = Mk(a, m, f, k, pre \o <<"V">> \o nk \o p \o t)
         \/ /\ k = "standalone"
            /\ \E pre \in {<<"GB">>, <<"DC">>, <<"Ra", "H", "DC">>}
                            \cup (IF Has(a, "Repha") THEN {<<"Repha", "GB">>} ELSE {}) :
                 \E nk \in Nk(a) : \E p \in PostSeqs(Bd.uB, Bd.dB) : x = Mk(a, m, f, k, pre \o nk \o p \o t)
         \/ /\ k = "broken"
            /\ \E pre \in Opt(a, "Repha") : \E nk \in Nk(a) : \E p \in PostSeqs(Bd.uB, Bd.dB) :
                  /\ nk \o p \o t # <<>>
                  /\ x = Mk(a, m, f, k, pre \o nk \o p \o t)

F   == FontTab[c.fn]
Tok == Tokens(c.sc, c.kind, c.syms)
G   == Syms(Tok)

Init == /\ IsCase(c)
        /\ st = Search0(c.sc, FontTab[c.fn], Syms(Tokens(c.sc, c.kind, c.syms)))

\* one iteration of the base search; the cursor strictly decreases (termination measure)
Step == /\ ~st.done
        /\ st' = SearchStep(c.sc, F, G, st)
        /\ (st'.done \/ st'.i < st.i)
        /\ UNCHANGED c
Next == Step
Spec == Init /\ [][Next]_vars

---------------------------------------------------------------------------
SearchInv ==
  LET st0 == Start(c.sc, HasReph(c.sc, F, G))
  IN /\ st.base \in 0..Len(G)
     /\ (~st.done) => st.i \in st0..Len(G)
     /\ \A k \in DOMAIN G : st.tag[k] # "none" =>
           /\ k > st.i /\ IsC(G[k]) /\ G[k - 1] = "H" /\ st.tag[k] \in {"belowc", "postc"}
     /\ st.seen <=> \E k \in DOMAIN G : st.tag[k] = "belowc"
     \* "post-base forms have to follow below-base forms"
     /\ \A j, k \in DOMAIN G : (j < k /\ st.tag[j] = "postc") => st.tag[k] # "belowc"

FontJson(f) == [rphf |-> f.rphf, blwf |-> SetToSeq(f.blwf), pstf |-> SetToSeq(f.pstf), pref |-> SetToSeq(f.pref)]
Cps == [i \in DOMAIN c.syms |-> Alpha[c.sc][c.syms[i]]]
\* everything checked at the end of a run shares one evaluation of the tags and of the result
AtEnd ==
  st.done =>
    LET g   == TLCEval(G)
        tok == TLCEval(Tok)
        f   == F
        tag == IF st.base = 0 THEN <<>> ELSE TLCEval(AllTags(c.sc, f, g, st))
        res == TLCEval(ResultFromTags(c.sc, c.model, f, tok, st, tag))
    IN \* Agree: small-step = closed forms
       /\ st.base = BaseClosed(c.sc, f, g)
       /\ st = RunSearch(c.sc, f, g, Search0(c.sc, f, g))
       /\ st.base # 0 =>
            /\ \A k \in DOMAIN g : IsRem(g[k]) => tag[k] = MarkTagClosed(g, tag, st.base, k)
            /\ IsStableSort(tag, Order(tag))
            /\ \A k \in DOMAIN g : tag[k] # "none"
       /\ res = Expected(c.sc, c.model, f, c.kind, c.syms) \/ Tier # "tiny"
       \* Design
       /\ DesignOK(c.sc, c.model, tok, res)
       \* Emit
       /\ PrintT(<<"CASE", ToJson([sc |-> c.sc, m |-> c.model, fn |-> c.fn, f |-> FontJson(f), k |-> c.kind,
                                   r |-> c.syms, c |-> Cps, e |-> res])>>)

=============================================================================
