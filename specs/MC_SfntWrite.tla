---------------------------- MODULE MC_SfntWrite ----------------------------
(***************************************************************************)
(* The FontBuilder model as a state machine: tables are added in any order *)
(* (a later add of a tag replaces the earlier one), then the font is       *)
(* produced.  TLC checks that whatever the order, the produced bytes are a *)
(* well-formed sfnt (WellFormedSfnt of their projection, incl. the         *)
(* checksum-adjustment identity in limb arithmetic), and prints one CASE   *)
(* per distinct table set with an insertion sequence that reaches it; the  *)
(* harness drives the real FontBuilder with the same sequence.             *)
(***************************************************************************)
EXTENDS SfntWrite, Json

CONSTANT MaxAdds

VARIABLES tbls, hist, phase
vars == <<tbls, hist, phase>>

TagPool == {<<24929, 24929>>, <<25186, 25186>>, <<26725, 24933>>, <<31354, 31354>>, <<57344, 1>>, <<20307, 12082>>}
                \* 'aaaa' 'bbbb' 'heae'(just after 'head') 'zzzz' 0xE0000001 'OS/2'
BodyPool == {<<>>, <<1>>, <<1, 2>>, <<1, 2, 3>>, <<255, 255, 255, 255>>, <<255, 255, 255, 255, 255>>,
             <<128, 0, 0, 1, 127, 255, 255>>}
HeadBody == [k \in 1 .. 54 |-> IF k \in 9 .. 12 THEN 0 ELSE (k * 37) % 256]

Init == tbls = <<>> /\ hist = <<>> /\ phase = "adding"

\* tbls is a function tag -> body kept as a set of pairs to let a later add replace an earlier one
Put(f, tag, body) == [t \in (DOMAIN f) \cup {tag} |-> IF t = tag THEN body ELSE f[t]]

Add(tag, body) ==
  /\ phase = "adding" /\ Len(hist) < MaxAdds
  /\ tbls' = Put(tbls, tag, body)
  /\ hist' = Append(hist, [tag |-> tag, body |-> body])
  /\ UNCHANGED phase

Finish == /\ phase = "adding" /\ phase' = "done" /\ UNCHANGED <<tbls, hist>>

Next == (\E tag \in TagPool, body \in BodyPool : Add(tag, body)) \/ Finish
Spec == Init /\ [][Next]_vars

View == <<tbls, phase, Len(hist)>>

\* sorted table list incl. head
SortedTags(S) == SetToSortSeq(S, LAMBDA a, b : Less32(a, b))
MaxpTag  == <<28001, 30832>>              \* 'maxp'
MaxpBody == <<0, 0, 80, 0, 0, 1>>
\* whole_font always adds maxp and head
Tbl == LET all == Put(Put(tbls, HeadTag, HeadBody), MaxpTag, MaxpBody)
           ts  == SortedTags(DOMAIN all)
       IN [k \in 1 .. Len(ts) |-> [tag |-> ts[k], body |-> all[ts[k]]]]

FontBytes == BuilderData(MagicTTF, Tbl)

WriterWellFormed == phase = "done" => WellFormedSfnt(Project(FontBytes))
\* and the reader of Sfnt.tla gets every table back
WriterReadable ==
  phase = "done" =>
     LET bs == FontBytes  ld == Load(bs) IN
     /\ ld.ok
     /\ \A k \in 1 .. Len(Tbl) :
          TableData(bs, "sfnt", ld.v.font, TagBytes(Tbl[k].tag)).ok

EmitCase ==
  phase = "done" => PrintT(<<"CASE", ToJson([adds |-> hist, ntables |-> Len(Tbl)])>>)
=============================================================================
