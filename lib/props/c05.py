"""C05 - glyph positioning follows OpenType GPOS semantics (incl. legacy kern and final pen positions).

spec -> impl : TLC explores MC_Gpos (program templates x glyph strings), checks the design invariants of
               Gpos/Kern/Position on every outcome and prints the templates (TPL) and one CASE per string
               with the set of conformant outcomes (one per reading of the named Dev_ choices) and, for
               each, the glyph origins and total advance in both directions.  The harness encodes every
               template into real GDEF/GPOS/kern/hmtx bytes and replays every case on
               gpos::apply / apply_fallback (tables read separately) and on Font::shape + GlyphLayout.
impl -> spec : random programs on random strings are recorded (abstract program + input + what allsorts
               returned) and judged by Trace_Gpos, which recomputes the semantics.
"""
import json

import vlib
from vlib import Violation

LEVEL = "model_checking"

ASSUMPTIONS = [
    "the harness' own encoder (enc.rs) writes the tables the abstract program describes; allsorts reads them "
    "with its production readers (LayoutTable::<GPOS>::read, GDEFTable, KernTable, Font::new)",
    "GlyphPosition is read as: line laid out in visual order (reverse logical order for right-to-left), pen "
    "moving right by hori_advance, glyph drawn at pen + offset; compared are glyph origins and total advance",
    "one feature per program (GPOS applies features in a fixed script-specific order the property does not fix); "
    "yAdvance = 0 (and no varying yAdvance), no placement adjustment of cursively attached glyphs "
    "(documented as unsupported in gpos.rs), MarkMark lookups filter exactly their Mark2Coverage, cursive lookups "
    "ignore marks, no context lookup nested in a context lookup; GDEF may be absent, lack a GlyphClassDef or leave "
    "mark-coverage glyphs unclassified / classed as bases (what then counts as a mark when the preceding base is "
    "searched is a named choice, Dev_MarkAttachedIsMark / Dev_MarkMarkClassTest)",
    "kern coverage bits are modelled completely; a cross-stream or vertical subtable never changes the horizontal "
    "advance; whether cross-stream values shift the right glyph across the line or are ignored is a named choice "
    "(Dev_KernCrossStream)",
    "Distance(0,0) and None are one abstract placement",
    "variation deltas: the instance is given as normalised coordinates (Tuple); regions are well formed and chosen so "
    "that per-axis scalars are multiples of 1/4 (exact in f32 and in TLC's integers); a delta exactly halfway between "
    "two integers may be rounded away from zero or up (Dev_DeltaRoundTie); hinting Device tables (delta formats 1-3) "
    "say nothing about design-unit positions",
]

MARK = 3

# families of behaviour every run must exercise (tags computed by MC_Gpos!VacTags, counted by the replay)
VAC_TAGS = tuple("vac:" + t for t in (
    "gdef-absent", "gdef-noclassdef", "attached-mark-not-gdef-mark", "attached-mark-gdef-base",
    "reading-attached-is-mark-matters", "reading-markmark-class-test-matters",
    "kern-cross-stream-pair-hit", "kern-vertical-pair-hit", "kern-cross-and-with-stream-hit",
    "reading-kern-cross-shift-matters",
    # combinations of the mechanisms in one run (MC_Gpos!CombTags)
    "comb-mark-on-glyph-moved-across-rtl-flag", "comb-mark-on-glyph-moved-across-flag-clear",
    "comb-mark-on-glyph-advance-fitted-ltr", "comb-mark-on-glyph-advance-fitted-rtl",
    "comb-mark-on-chain-first", "comb-mark-on-chain-middle", "comb-mark-on-chain-last",
    "comb-mark-on-mark-on-chain", "comb-attached-mark-skipped-by-join", "comb-mark-on-chain-of-3-or-more",
    "comb-ligature-component-mark-then-join", "comb-displaced-glyph-inside-chain",
    "comb-displaced-base-with-mark-beside-chain", "comb-kerning-after-chain-before-marked-glyph",
    "comb-kerning-inside-chain-with-marks", "comb-kern-table-with-chain-and-marks", "comb-without-gdef",
    # variation deltas behind value records and anchors (MC_Gpos!VarTags)
    "var-shaped-without-tuple", "var-tuple-without-store", "var-advance-delta-applied", "var-placement-delta-applied",
    "var-placement-from-delta-alone", "var-mark-anchor-delta-applied", "var-cursive-anchor-delta-applied",
    "var-reading-round-tie-matters", "var-instance-where-no-delta-applies"))
# ... and families the random programs of record mode must reach (counted by the harness)
REC_FAMILIES = ("programs_gpos_without_gdef", "programs_gdef_without_glyphclassdef",
                "programs_mark_coverage_not_gdef_mark", "events_attached_mark_not_gdef_mark",
                "programs_kern_cross_stream", "programs_kern_vertical",
                "programs_comb", "programs_comb_rtl_flag", "programs_comb_flag_clear", "programs_comb_with_kerning",
                "programs_comb_with_displacement", "programs_comb_with_markmark",
                "events_input_mark_inside_cursive_pair", "events_input_two_marks_after_cursive_glyph",
                "events_input_chain_of_3_with_mark",
                "programs_var_with_tuple", "programs_var_without_tuple", "programs_var_tuple_without_store",
                "programs_var_two_axes", "programs_var_value_record_with_variation_index",
                "programs_var_value_record_with_hinting_device")


# ------------------------------------------------------------------------------------------------
# keys: which known approximation of allsorts (if any) is exercised by a mismatching case

def _adv(prog, info):
    return prog["adv"][info["g"]] + info["k"]


def _pos_causes(prog, infos, rtl):
    """known approximations of allsorts that these infos exercise, per axis: (cx, cy) those of the cursive pass,
    which displace the FLOW (unattached glyphs, total advance; marks follow their bases rigidly), and (mx, my)
    those of the mark pass, which displace a mark RELATIVE TO ITS BASE (both repaired in /repo: `fixed:` lines)"""
    cx, cy, mx, my = set(), set(), set(), set()
    n = len(infos)
    for j, inf in enumerate(infos):
        pl = inf["pl"]
        if pl["t"] == "M":
            b = pl["i"]
            # base (or a base further down the chain) displaced by a Distance placement
            k = b
            while 0 <= k < n:
                t = infos[k]["pl"]["t"]
                if t == "D":
                    mx.add("mark-on-displaced-base")
                    my.add("mark-on-displaced-base")
                    break
                if t != "M":
                    break
                k = infos[k]["pl"]["i"]
            if rtl and sum(_adv(prog, infos[q]) for q in range(b + 1, j + 1)) != 0:
                mx.add("rtl-mark-advance-between")
        elif pl["t"] == "C":
            nx = pl["i"]
            between = sum(_adv(prog, infos[q]) for q in range(j + 1, nx))
            if not pl["r"] and pl["ay"] != pl["by"]:
                cy.add("cursive-cross-stream-flag-clear")
            if not rtl:
                if pl["ax"] != 0 or between != 0:
                    cx.add("cursive-line-ltr-entry-x")
            else:
                nxt = infos[nx]
                native = _adv(prog, nxt) + (nxt["pl"]["bx"] if nxt["pl"]["t"] == "C" else 0)
                if pl["ax"] - pl["bx"] - between != native:
                    cx.add("cursive-line-rtl-not-fitted")
                is_target = any(o["pl"]["t"] == "C" and o["pl"]["i"] == j for o in infos)
                if not is_target and pl["bx"] != 0:
                    cx.add("cursive-line-rtl-not-fitted")
    return cx, cy, mx, my


def _root(infos, j):
    """the glyph a mark finally rests on"""
    seen = 0
    while infos[j]["pl"]["t"] == "M" and 0 <= infos[j]["pl"]["i"] < len(infos) and seen <= len(infos):
        j = infos[j]["pl"]["i"]
        seen += 1
    return j


def _split_diff(infos, want, got):
    """which part of the observable differs, per axis: the flow (origins of the glyphs that are not attached marks,
    total advance) and / or the offset of an attached mark from its base.  Used for naming the mismatch only; that
    there IS a mismatch was decided by TLC (Canon equality)."""
    flow, rel = [want["t"] != got["t"], want["v"] != got["v"]], [False, False]
    n = len(infos)
    wo, go = want["o"], got["o"]
    if len(wo) != n or len(go) != n:
        return [True, True], [False, False]
    for j in range(n):
        pl = infos[j]["pl"]
        for ax in (0, 1):
            if pl["t"] == "M" and 0 <= pl["i"] < n:
                b = pl["i"]
                if wo[j][ax] - wo[b][ax] != go[j][ax] - go[b][ax]:
                    rel[ax] = True
            elif wo[j][ax] != go[j][ax]:
                flow[ax] = True
    return flow, rel


def _family(ident):
    return str(ident[0]) if isinstance(ident, list) else str(ident)


def _pos_keys(prog, ident, stage, infos, want, got):
    rtl = stage.endswith("rtl")
    if not isinstance(got, dict):
        return ["%s|error|%s|%s" % (stage, _family(ident), str(got)[:60])]
    dx = want["t"] != got["t"] or any(a[0] != b[0] for a, b in zip(want["o"], got["o"]))
    dy = want["v"] != got["v"] or any(a[1] != b[1] for a, b in zip(want["o"], got["o"]))
    cx, cy, mx, my = _pos_causes(prog, infos, rtl)
    flow, rel = _split_diff(infos, want, got)
    keys = []
    for ax, axis, differs, ccauses, mcauses in ((0, "x", dx, cx, mx), (1, "y", dy, cy, my)):
        if not differs:
            continue
        # A difference of the flow is attributed to the known approximation(s) of the cursive pass the case
        # exercises, a difference of a mark's offset from its base to those of the mark pass (direction and axis
        # are part of a cause's name where they matter).  What no cause covers is `unexplained`: a combination of
        # a known cause with an unexplained part has its own key (e.g. a cursive join that is known to be off
        # along the line AND a mark that is not at base anchor - mark anchor from its base).
        parts = set()
        if flow[ax]:
            parts |= ccauses or {"unexplained-flow"}
        if rel[ax]:
            parts |= mcauses or {"unexplained-mark-offset-from-base"}
        if not parts or all(p.startswith("unexplained-") for p in parts):
            keys.append("%s|%s|unexplained:%s" % (stage, axis, _family(ident)))
        else:
            keys.append("pos|" + "+".join(sorted(parts)))
    return sorted(set(keys))


# ---- combinations: cases that stay sensitive although allsorts' cursive pass is approximate -------------------
def _comb_counters(prog, case, counters):
    """computed from TLC's expectation only: in how many generated combination cases does a mark rest on a glyph
    that the cursive join really moves, on an axis / in a direction where none of the known approximations of the
    cursive pass applies (so that the case is green on a faithful tree and red as soon as the mark is not
    repositioned with its base)"""
    counters["cases"] = counters.get("cases", 0) + 1
    hit = set()
    for e in case["exp"]:
        infos = e["infos"]
        n = len(infos)
        marks = [j for j in range(n) if infos[j]["pl"]["t"] == "M"]
        targets = {inf["pl"]["i"] for inf in infos if inf["pl"]["t"] == "C"}
        for dirn in ("ltr", "rtl"):
            cx, cy, _, _ = _pos_causes(prog, infos, dirn == "rtl")
            want = e[dirn]
            for j in marks:
                b = _root(infos, j)
                pl = infos[b]["pl"]
                in_chain = pl["t"] == "C" or b in targets
                if not in_chain:
                    continue
                where = "first" if b not in targets else ("middle" if pl["t"] == "C" else "last")
                if want["o"][b][1] != 0 and not cy:
                    hit.update(("clean_%s_moved_across" % dirn, "clean_mark_on_chain_%s" % where))
                    if infos[j]["pl"]["i"] != b:
                        hit.add("clean_mark_on_mark")
                    if prog["gdef"]["cls"][infos[b]["g"]] == 2:
                        hit.add("clean_ligature_base")
                if dirn == "ltr" and pl["t"] == "C" and not cx:
                    between = sum(_adv(prog, infos[q]) for q in range(b + 1, pl["i"]))
                    if pl["bx"] - pl["ax"] - between != _adv(prog, infos[b]):
                        hit.update(("clean_ltr_advance_fitted", "clean_mark_on_chain_%s" % where))
                        if infos[j]["pl"]["i"] != b:
                            hit.add("clean_mark_on_mark")
                        if prog["gdef"]["cls"][infos[b]["g"]] == 2:
                            hit.add("clean_ligature_base")
    for h in hit:
        counters[h] = counters.get(h, 0) + 1
    if hit:
        counters["clean_sensitive_cases"] = counters.get("clean_sensitive_cases", 0) + 1


# (a mark on the LAST glyph of a chain is moved by the join only when the RIGHT_TO_LEFT flag is clear, where the
# cursive pass is known to be off: there is no clean case for it)
COMB_REQUIRED = ("clean_sensitive_cases", "clean_ltr_moved_across", "clean_rtl_moved_across", "clean_ltr_advance_fitted",
                 "clean_mark_on_chain_first", "clean_mark_on_chain_middle",
                 "clean_mark_on_mark", "clean_ligature_base")


def _all_lookups(prog):
    return prog.get("lookups", [])


def _info_causes(prog, inp):
    causes = set()
    # effective GDEF classes: none without a GlyphClassDef
    cls = prog["gdef"]["cls"] if prog["gdef"].get("tab", "full") == "full" else [0] * len(prog["gdef"]["cls"])
    if prog.get("gpos"):
        if any(l["flag"] & 0x10 for l in _all_lookups(prog)) and any(cls[x["g"]] != MARK for x in inp):
            causes.add("lookupflag-UseMarkFilteringSet-skips-non-marks")
        if prog["tag"] != "kern" and prog["kern"] and any(l["ty"] in (1, 2, 7, 8) for l in _all_lookups(prog)):
            causes.add("kern-table-overwrites-gpos-advance")
    kern = prog.get("kern", [])
    for k, st in enumerate(kern):
        if st["f"] == 2:
            if k + 1 < len(kern):
                causes.add("kern-format2-not-last-subtable")
            if st["rw"] * len(st["rt"]["vals"]) != 2 * len(st["arr"]):
                causes.add("kern-format2-array-length")
    return causes


def _got_class(got):
    if isinstance(got, str):
        return got[:60].replace(" ", "_")
    return "infos"


def _info_key(prog, ident, inp, got, known=None):
    # a known deviation named by the SPECIFICATION: TLC computed what that deviation gives for this very case and
    # allsorts returned exactly that (MC_Gpos!AltsOf / Trace_Gpos!ReportInfos)
    if known:
        return "infos|" + known
    causes = _info_causes(prog, inp)
    if causes:
        return "infos|" + "+".join(sorted(causes))
    return "infos|unexplained:%s|%s" % (_family(ident), _got_class(got))


def _violations_of(prog, ident, inp, stage, want, got, infos, source, extra, known=None):
    if stage.startswith("pos"):
        keys = _pos_keys(prog, ident, stage, infos, want, got)
    else:
        keys = [_info_key(prog, ident, inp, got, known)]
    out = []
    for key in keys:
        what = "%s %s on %s: in=%s want %s got %s" % (source, stage, vlib.short(ident, 80), [x["g"] for x in inp],
                                                      vlib.short(want, 200), vlib.short(got, 200))
        out.append(Violation(key, what, dict(extra, source=source, stage=stage, id=ident, prog=prog, **{"in": inp},
                                             want=want, got=got, infos=infos)))
    return out


# ------------------------------------------------------------------------------------------------

def run(ctx):
    binp = vlib.build_harness("c05_gpos")
    cfg = "MC_Gpos_quick.cfg" if ctx.quick else "MC_Gpos_thorough.cfg"
    tpl_path, cases_path = ctx.path("templates.ndjson"), ctx.path("cases.ndjson")
    n_cases, n_tpl = [0], [0]
    samples = []
    planted = []
    comb_cases = []
    with open(tpl_path, "w") as ft, open(cases_path, "w") as fc:
        def sink(tag, payload):
            if tag == "TPL":
                ft.write(payload + "\n")
                n_tpl[0] += 1
            elif tag == "CASE":
                fc.write(payload + "\n")
                n_cases[0] += 1
                if len(samples) < 2 and '"M"' in payload and len(payload) < 3000:
                    samples.append(payload)
                if not planted and '"t":"M"' in payload:
                    planted.append(payload)
                if '["comb-' in payload:
                    comb_cases.append(payload)
        mc = vlib.run_tlc(ctx, "MC_Gpos", cfg, "mc", workers=4, timeout=600 if ctx.quick else 3000, sink=sink)
    ctx.note("MC_Gpos: %d states generated, %d distinct, %d templates, %d cases (%.1fs)" %
             (mc.generated, mc.distinct, n_tpl[0], n_cases[0], mc.wall))
    if n_cases[0] == 0 or n_tpl[0] == 0:
        raise vlib.ToolError("no CASE/TPL lines generated")
    if not planted:
        raise vlib.ToolError("no case with a mark attachment generated: generator is vacuous")

    # binding self-check (spec -> impl): a case whose expectation was corrupted (mark anchor moved by one
    # unit, kerning changed) must be reported by the replay
    bad = json.loads(planted[0])
    bad["selftest"] = True
    for e in bad["exp"]:
        for inf in e["infos"]:
            if inf["pl"]["t"] == "M":
                inf["pl"]["ax"] += 1
    with open(cases_path, "a") as fc:
        fc.write(json.dumps(bad) + "\n")

    programs = {}
    for t in vlib.read_ndjson(tpl_path):
        programs[json.dumps(t["id"])] = t["prog"]

    # vacuity of the combination families, from TLC's data alone
    comb = {}
    for payload in comb_cases:
        c = json.loads(payload)
        _comb_counters(programs[json.dumps(c["id"])], c, comb)
    ctx.note("combinations: %s" % json.dumps(comb, sort_keys=True))

    # spec -> impl
    mism_path = ctx.path("mismatches.ndjson")
    rep = vlib.run_harness(binp, ["replay", tpl_path, cases_path, mism_path], hang_path=mism_path + ".hang")
    ctx.note("replay: %s" % json.dumps(rep))
    violations = []
    planted_seen = False
    by_case = {}
    for m in vlib.read_ndjson(mism_path):
        by_case.setdefault(json.dumps([m["id"], m["in"], m.get("selftest")]), []).append(m)
    n_mism_cases = 0
    for ms in by_case.values():
        n_mism_cases += 0 if ms[0].get("selftest") else 1
        stages = {m["stage"]: m for m in ms}
        # the two routes (apply on separate tables, Font::shape) normally fail alike: report once
        if "apply" in stages and "shape" in stages and stages["apply"]["got"] == stages["shape"]["got"]:
            ms = [m for m in ms if m["stage"] != "shape"]
        for m in ms:
            prog = programs[json.dumps(m["id"])]
            if m.get("selftest"):
                planted_seen = planted_seen or m["stage"] in ("apply", "shape")
                continue
            known = None
            for a in m.get("alt") or []:
                if m["got"] in a["infos"]:
                    known = a["key"]
                    break
            violations.extend(_violations_of(prog, m["id"], m["in"], m["stage"], m["want"], m["got"],
                                             m.get("infos", []), "generated", {"raw": m.get("raw")}, known))
    if not planted_seen:
        raise vlib.ToolError("binding self-check failed: a corrupted expectation was accepted by the replay")

    # impl -> spec
    n_prog, n_str = (270, 12) if ctx.quick else (4500, 16)
    trace = ctx.path("trace.ndjson")
    rec = vlib.run_harness(binp, ["record", ctx.seed, n_prog, n_str, trace])
    ctx.note("record: %s" % json.dumps(rec))
    events = vlib.read_ndjson(trace)
    # binding self-check (impl -> spec): corrupted copies of recorded events must be rejected by the judge
    plant = []
    for e in events:
        if not e["o"]["err"] and any(i["k"] != 0 for i in e["o"]["infos"]) and len(plant) == 0:
            b = json.loads(json.dumps(e))
            b["case"], b["i"] = "selftest-infos", 10 ** 8 + 1
            for i in b["o"]["infos"]:
                if i["k"] != 0:
                    i["k"] += 1
                    break
            plant.append(b)
    for e in events:
        if not e["o"]["err"] and any(i["pl"]["t"] == "M" for i in e["o"]["infos"]):
            b = json.loads(json.dumps(e))
            b["case"], b["i"] = "selftest-pos", 10 ** 8 + 2
            for dirn in ("ltr", "rtl"):
                b["o"][dirn][-1]["y"] += 1
            plant.append(b)
            break
    if len(plant) < 2:
        raise vlib.ToolError("recorded trace is vacuous: no kerning / no mark attachment recorded")
    with open(trace, "a") as f:
        for b in plant:
            f.write(json.dumps(b) + "\n")
    by_i = {e["i"]: e for e in events + plant}
    total, mism = vlib.judge_trace_parallel(ctx, "Trace_Gpos", "Trace_Gpos.cfg", trace, "judge",
                                            parts=4 if ctx.quick else 8)
    ctx.note("judge: %d events, %d mismatch lines" % (total, len(mism)))
    seen_self = set()
    for m in sorted(mism, key=lambda m: m["i"]):
        if m["case"].startswith("selftest-"):
            seen_self.add(m["case"])
            continue
        e = by_i[m["i"]]
        violations.extend(_violations_of(e["a"]["prog"], e["case"].split("-", 1)[1], e["a"]["in"], m["stage"], m["want"], m["got"],
                                         e["o"]["infos"], "recorded",
                                         {"raw": {"ltr": e["o"]["ltr"], "rtl": e["o"]["rtl"]}, "seed": ctx.seed},
                                         m.get("known") or None))
    if seen_self != {"selftest-infos", "selftest-pos"}:
        raise vlib.ToolError("binding self-check failed: Trace_Gpos accepted a corrupted event (%s rejected)" % sorted(seen_self))

    stats = rep.get("stats", {})
    coverage = {
        "states": mc.distinct,
        "transitions": mc.generated,
        "evaluations": n_cases[0] + total,
        "distinct_nontrivial": stats.get("cases_with_some_adjustment_expected", 0),
        "rule": "one case per (program template, glyph string) of the bounded model, all distinct; non-trivial = the "
                "specification expects at least one advance adjustment or placement (recorded random events are "
                "counted in evaluations only)",
        "impl_executions": rep.get("cases", 0) * 2 + total,
        "traces_validated_against_impl": n_cases[0] + total,
        "samples": [json.loads(s) for s in samples[:1]] + [{k: events[0][k] for k in ("i", "case", "ev", "o")}],
        "generated_templates": n_tpl[0],
        "generated_cases": n_cases[0],
        "generated_cases_with_mismatch": n_mism_cases,
        "table_bytes_encoded": rep.get("table_bytes_encoded", 0),
        "recorded_events_judged": total,
        "recorded_program_kinds": rec.get("kinds", {}),
        "recorded_families": rec.get("families", {}),
        "vacuity": stats,
        "combination_cases": comb,
        "tlc_states_generated": mc.generated,
        "binding_selfcheck": "corrupted generated expectation reported by replay; corrupted infos and positions events rejected by Trace_Gpos",
        "exhaustive": True,
        "explanation": "exhaustive over the bounded model (config %s: every template x every string up to the "
                       "template's length); recorded traces are random samples" % cfg,
    }
    for k in ("exp_placement_mark", "exp_placement_cursive", "exp_placement_distance", "exp_kerning_nonzero",
              "cases_with_several_conformant_outcomes", "templates_gpos_without_gdef_table") + VAC_TAGS:
        if stats.get(k, 0) == 0:
            raise vlib.ToolError("vacuity: no generated case exercised %s" % k)
    for k in COMB_REQUIRED:
        if comb.get(k, 0) == 0:
            raise vlib.ToolError("vacuity: no generated combination case is %s" % k)
    for k in REC_FAMILIES:
        if rec.get("families", {}).get(k, 0) == 0:
            raise vlib.ToolError("vacuity: no recorded random program/event in family %s" % k)
    vlib.finish(ctx, LEVEL, coverage, violations, ASSUMPTIONS)


def replay(ctx, path):
    d = json.load(open(path))["detail"]
    binp = vlib.build_harness("c05_gpos")
    tp, cp, mp = ctx.path("t.ndjson"), ctx.path("c.ndjson"), ctx.path("m.ndjson")
    ident = d["id"] if isinstance(d["id"], list) else [d["id"]]
    vlib.write_ndjson(tp, [{"id": ident, "prog": d["prog"]}])
    if d["stage"].startswith("pos"):
        exp = [{"infos": d["infos"], d["stage"][4:]: d["want"], ("rtl" if d["stage"].endswith("ltr") else "ltr"): None}]
    else:
        exp = [{"infos": w, "ltr": None, "rtl": None} for w in d["want"]] if isinstance(d["want"], list) else []
    vlib.write_ndjson(cp, [{"id": ident, "in": d["in"], "exp": exp}])
    rep = vlib.run_harness(binp, ["replay", tp, cp, mp])
    hit = 0
    for m in vlib.read_ndjson(mp):
        if m["stage"] == d["stage"] or (d["stage"] in ("infos", "error") and m["stage"] in ("apply", "shape")):
            hit += 1
            print("REPRODUCED %s want=%s got=%s" % (m["stage"], vlib.short(m["want"], 300), vlib.short(m["got"], 300)))
    print(json.dumps(rep))
    return 1 if hit else 0
