"""C18 - CFF and CFF2 outlines follow Type 2 charstring semantics.

spec -> impl : TLC explores MC_Type2: for every abstract path (block sequences over 16 segment shapes) every
               operator form that can encode it, wrapped with width prefixes, stem hints and masks, subroutine
               factorings (local / global, nested to the limit, bias thresholds), seac composition and CFF2
               blend / vsindex at variation tuples.  It runs the Type 2 machine of Type2.tla on the bytes, checks
               the design invariants (stack and nesting bounds, contour bracketing, small step = big step,
               Interp(form) = PathDenote(path), number encodings round-trip) and prints one CASE per program with
               the commands the specification prescribes.  The harness encodes the tokens in every number
               encoding, writes real CFF / CID-keyed CFF / CFF2 tables and compares what OutlineBuilder::visit
               delivers with the expectation by JSON equality.
impl -> spec : glyphs of the repository's CFF / CFF2 fonts: an independent reader slices the charstring and the
               subroutines it reaches; Trace_Type2 interprets the bytes with the same machine and judges the
               commands allsorts delivered.
"""
import json

import vlib
from vlib import Violation

LEVEL = "model_checking"

ASSUMPTIONS = [
    "coordinates are compared as 16.16 integers; allsorts computes in f32: generated cases stay where f32 is exact "
    "(invariant GenExact) and must match exactly, recorded glyphs whose operands or blended values are not exact in "
    "f32 must match within 1/16 unit (Dev_F32Tolerance)",
    "the modelled number domain is |coordinate| <= 16384, |delta| <= 4096, blend deltas <= 1024 units (TLC integers are "
    "32 bit); a glyph outside it, or one the machine rejects as not well formed, is reported as NOTWF and not judged",
    "arithmetic, storage, conditional and random operators (12 x other than the four flex operators) are not modelled: "
    "allsorts does not implement them either (UnsupportedOperator); no repository font uses them",
    "seac components are complete charstrings of their own (own width prefix, own stem count), as TN5177 appendix C, "
    "FreeType and HarfBuzz read them; the accent's origin is (adx, ady)",
    "seac codes are resolved StandardEncoding code -> SID -> glyph id through the font's charset (formats 0, 1, 2 and the "
    "predefined ISOAdobe / Expert / ExpertSubset charsets, a predefined charset reaching as far as the font has glyphs); "
    "a code whose glyph the font does not have makes the program not well formed: the glyph must be rejected (any error; "
    "FreeType and HarfBuzz reject too), delivering an outline for it is reported; codes without a StandardEncoding entry "
    "(.notdef: FreeType composes, HarfBuzz rejects) are neither generated nor judged",
    "a subroutine count decides the bias exactly as TN5176 section 16 (107 / 1131 / 32768 at 1240 and 33900)",
    "region scalars follow the OpenType variations overview for well-formed regions; regions with start > peak or "
    "straddling zero are not modelled",
    "the independent CFF reader / writer of the harness (c18_type2/cffr.rs, cffw.rs) is trusted to slice and lay out "
    "tables; every written table is re-read by the independent reader as a self-check",
]

PATH_OPS = ["rlineto", "hlineto", "vlineto", "rrcurveto", "rcurveline", "rlinecurve", "vvcurveto", "hhcurveto",
            "vhcurveto", "hvcurveto", "hflex", "flex", "hflex1", "flex1"]
NEEDED_OPS = PATH_OPS + ["rmoveto", "hmoveto", "vmoveto", "hstem", "vstem", "hstemhm", "vstemhm", "hintmask",
                         "cntrmask", "callsubr", "callgsubr", "return", "endchar", "blend", "vsindex"]
NEEDED_VAC = ["width_present", "width_absent", "mask_bytes_0", "mask_bytes_1", "mask_bytes_2", "mask_bytes_3",
              "depth_0", "depth_1", "depth_2", "depth_3", "depth_10", "biasL_107", "biasL_1131", "biasL_32768",
              "biasG_107", "biasG_1131", "biasG_32768", "cff_operand_stack_48", "cff2_operand_stack_513",
              "cff2_blend_above_255_operands"]
# seac: per charset format, where the SID of a component sits (classes computed by TLC, counted by the harness from the
# cases it was given - nothing here depends on what allsorts answered)
_RANGE_POS = ["%s-range|%s" % (r, p) for r in ("first", "later") for p in ("first", "inner", "last", "only")]
NEEDED_SEAC = (["seac|%s|%s" % (f, k) for f in ("f1", "f2") for k in _RANGE_POS + ["missing-adjacent", "missing-far"]] +
               ["seac|f0|%s" % k for k in ("first-entry", "later-entry", "missing-adjacent", "missing-far")] +
               ["seac|%s|%s" % (f, k) for f in ("iso", "expert", "expsub")
                for k in ("predefined|inner", "predefined|last-glyph", "missing-adjacent", "missing-far")] +
               ["seac_wf_true", "seac_wf_false", "seac_range_nleft_255", "seac_range_nleft_above_255",
                # computed by the machine in TLC: a subroutine called inside a seac component returns to code that goes on
                "seac_subr_returns_inside_base", "seac_subr_returns_inside_accent", "seac_subr_returns_inside_both",
                "depth_9"])
NEEDED_FAM = ["forms/cff", "forms/cff2", "wrap/cff", "wrap/cid", "wrap/cff2", "wrap/cff2fd", "bias/cff", "bias/cid",
              "bias/cff2", "seac/cff", "blend/cff2", "misc/cff", "misc/cff2"]
STAT_KEYS = ["judged", "exact", "fuzzy", "notwf", "cmds", "withsubrs", "withmask", "withwidth", "deep", "blends", "empty",
             "seac", "seacsubr"]


def _cmd_class(want, got):
    """How the delivered commands differ from the prescribed ones (part of the violation key)."""
    if not got.get("ok"):
        return "err:" + str(got.get("why"))
    if not want.get("ok"):
        return "accepted-but-spec-rejects:" + str(want.get("why"))
    w, g = want["cmds"], got["cmds"]
    if not w and g == [{"c": "Z", "p": []}]:
        return "close-without-move"
    if len(w) != len(g):
        return "command-count"
    if any(a["c"] != b["c"] for a, b in zip(w, g)):
        return "command-kind"
    return "coordinates"


def _selftest_cases(sample):
    """A generated case whose expectation is corrupted: the replay must report it."""
    out = []
    c = json.loads(json.dumps(sample))
    c["fam"], c["tag"], c["feat"] = "selftest", "coordinate-off-by-one-unit", "selftest"
    k = next(i for i, x in enumerate(c["exp"]["cmds"]) if x["p"])
    c["exp"]["cmds"][k]["p"][0] += 65536
    out.append(c)
    c = json.loads(json.dumps(sample))
    c["fam"], c["tag"], c["feat"] = "selftest", "last-segment-dropped", "selftest"
    k = max(i for i, x in enumerate(c["exp"]["cmds"]) if x["c"] in ("L", "C"))
    del c["exp"]["cmds"][k]
    out.append(c)
    return out


def _recorded_stage(ctx, binp, violations, per_key):
    """impl -> spec: record the repository glyphs, judge them; appends to violations / per_key."""
    rec_trace = ctx.path("rec_trace.ndjson")
    budget = 3500 if ctx.quick else 0          # 0: every glyph of every font
    rec = vlib.run_harness(binp, ["record", ctx.seed, budget, rec_trace])
    ctx.note("record: %s" % json.dumps(rec))
    if rec.get("events", 0) == 0:
        raise vlib.ToolError("no glyph recorded from the repository fonts")
    if rec["independent_reader_failed"]:
        raise vlib.ToolError("independent CFF reader failed on %s" % rec["independent_reader_failed"])
    for font in ("Klei.otf", "SourceCodePro-Regular.otf", "NotoSansJP-Regular.otf", "SourceSansVariable-Roman.abc.otf",
                 "SourceSans3-Instance.256.otf", "synthetic-seac.cff"):
        if rec["per_font"].get(font, 0) == 0:
            raise vlib.ToolError("no glyph of %s recorded" % font)

    # binding self-check: corrupted copies of conforming events must be rejected
    src_ev = blend_ev = None
    default_cmds = {}
    with open(rec_trace) as f:
        for ln in f:
            e = json.loads(ln)
            if not e["o"]["ok"] or e["o"]["rounded"] or len(e["o"]["cmds"]) < 6:
                continue
            if src_ev is None and e["a"]["kind"] == "cff" and e["a"]["lsubrs"]:
                src_ev = e
            if blend_ev is None and e["a"]["tuple"]:
                base = e["case"].split("@")[0]
                if all(v == 0 for v in e["a"]["tuple"]):
                    default_cmds[base] = e["o"]["cmds"]
                elif base in default_cmds and default_cmds[base] != e["o"]["cmds"]:
                    blend_ev = e          # the variation moves this glyph: its commands are not those of the default instance
            if src_ev is not None and blend_ev is not None:
                break
    if src_ev is None or blend_ev is None:
        raise vlib.ToolError("self-check: no suitable recorded event (cff=%s blend=%s)" % (src_ev is not None, blend_ev is not None))

    def corrupt(e, tag, i, fn):
        x = json.loads(json.dumps(e))
        x["case"], x["i"] = tag, i
        fn(x)
        return x

    def shift(delta):
        def fn(x):
            k = next(j for j, c in enumerate(x["o"]["cmds"]) if c["c"] in ("L", "C"))
            x["o"]["cmds"][k]["p"][-1] += delta
        return fn

    def drop(x):
        k = next(j for j, c in enumerate(x["o"]["cmds"]) if c["c"] in ("L", "C"))
        del x["o"]["cmds"][k]

    def unclosed(x):
        k = next(j for j, c in enumerate(x["o"]["cmds"]) if c["c"] == "Z")
        del x["o"]["cmds"][k]

    def wrong_tuple(x):          # the commands of this tuple presented as those of the default instance
        x["a"]["tuple"] = [0 for _ in x["a"]["tuple"]]
    planted = [corrupt(src_ev, "selftest-coordinate-one-unit", 10 ** 8 + 1, shift(65536)),
               corrupt(src_ev, "selftest-coordinate-quarter-unit", 10 ** 8 + 2, shift(16384)),
               corrupt(src_ev, "selftest-command-dropped", 10 ** 8 + 3, drop),
               corrupt(src_ev, "selftest-contour-not-closed", 10 ** 8 + 4, unclosed),
               corrupt(blend_ev, "selftest-blend-at-other-tuple", 10 ** 8 + 5, wrong_tuple)]
    with open(rec_trace, "a") as out:
        for x in planted:
            out.write(json.dumps(x, separators=(",", ":")) + "\n")

    other = {"NOTWF": [], "STATS": []}
    total, mism = vlib.judge_trace_parallel(ctx, "Trace_Type2", "Trace_Type2.cfg", rec_trace, "judge",
                                            parts=4 if ctx.quick else 6, timeout=1500, other_tags=other)
    stats = {k: 0 for k in STAT_KEYS}
    for s in other["STATS"]:
        for k, v in s.items():
            stats[k] = stats.get(k, 0) + v
    ctx.note("judge: %d events, %d mismatches, %d not judged, stats %s" % (total, len(mism), len(other["NOTWF"]), json.dumps(stats)))
    if total != rec["events"] + len(planted):
        raise vlib.ToolError("judge consumed %d events, expected %d" % (total, rec["events"] + len(planted)))
    seen_self = {m["case"] for m in mism if m["case"].startswith("selftest-")}
    want_self = {x["case"] for x in planted}
    if seen_self != want_self:
        raise vlib.ToolError("binding self-check (judge) failed: rejected %s, expected exactly %s" % (sorted(seen_self), sorted(want_self)))
    for k in ("judged", "exact", "withsubrs", "withmask", "withwidth", "deep", "blends", "seac", "seacsubr"):
        if stats.get(k, 0) == 0:
            raise vlib.ToolError("judge statistics are vacuous for %s" % k)

    bad = {m["i"]: m for m in mism if not m["case"].startswith("selftest-")}
    events = {}
    if bad:
        with open(rec_trace) as f:
            for ln in f:
                e = json.loads(ln)
                if e["i"] in bad:
                    events[e["i"]] = e
    for i, m in sorted(bad.items()):
        e = events.get(i, {})
        kind = e.get("a", {}).get("kind", "?")
        key = "rec|%s|%s" % (kind, m["class"])
        per_key[key] = per_key.get(key, 0) + 1
        if per_key[key] > 1:
            continue
        what = "recorded %s: %s; want %s got %s" % (m["case"], m["class"], vlib.short(m["want"]["cmds"][:3], 160),
                                                    vlib.short(m["got"]["cmds"][:3] if m["got"]["ok"] else m["got"]["why"], 160))
        violations.append(Violation(key, what, {"source": "recorded", "class": m["class"], "mismatch": m, "event": e}))
    for k, n in sorted(per_key.items()):
        ctx.note("mismatch class %s: %d" % (k, n))

    return rec, stats, other, planted, src_ev


def run(ctx):
    binp = vlib.build_harness("c18_type2")
    cfg = "MC_Type2_quick.cfg" if ctx.quick else "MC_Type2_thorough.cfg"

    # ---- spec -> impl ------------------------------------------------------------------------
    cases_path = ctx.path("cases.ndjson")
    n_cases = [0]
    samples = {}
    with open(cases_path, "w") as fc:
        def sink(tag, payload):
            if tag != "CASE":
                return
            fc.write(payload + "\n")
            n_cases[0] += 1
            # samples (and the source of the self-test cases): per family the smallest line, so that the choice does
            # not depend on the order in which TLC's workers print
            if len(payload) < 3000:
                for fam in ("forms", "wrap", "blend", "seac"):
                    if ('"fam":"%s"' % fam) in payload and (fam not in samples or (len(payload), payload) < samples[fam]):
                        samples[fam] = (len(payload), payload)
        mc = vlib.run_tlc(ctx, "MC_Type2", cfg, "mc", workers=4, timeout=600 if ctx.quick else 1500, sink=sink)
        if n_cases[0] == 0:
            raise vlib.ToolError("no CASE lines generated")
        samples = {k: json.loads(v[1]) for k, v in samples.items()}
        src = samples.get("forms") or samples.get("wrap")
        if src is None or not any(x["c"] in ("L", "C") for x in src["exp"]["cmds"]):
            raise vlib.ToolError("self-check: no forms/wrap case to corrupt")
        planted_cases = _selftest_cases(src)
        for c in planted_cases:
            fc.write(json.dumps(c, separators=(",", ":")) + "\n")
    ctx.note("MC_Type2 (%s): %d states generated, %d distinct, depth %d, %d cases; design invariants MachineOK FormOK "
             "EncodingsOK GenExact hold (%.1fs)" % (cfg, mc.generated, mc.distinct, mc.depth, n_cases[0], mc.wall))

    mism_path = ctx.path("mismatches.ndjson")
    rep = vlib.run_harness(binp, ["replay", cases_path, mism_path, ctx.seed], timeout=1500, hang_path=mism_path + ".hang")
    ctx.note("replay: %d cases, %d runs, %d mismatching runs, number forms %s" %
             (rep["cases"], rep["runs"], rep["mismatches"], json.dumps(rep["number_forms_used"])))
    if rep["cases"] != n_cases[0] + len(planted_cases):
        raise vlib.ToolError("replay consumed %d cases, expected %d" % (rep["cases"], n_cases[0] + len(planted_cases)))
    if rep["writer_selfcheck_ok"] != rep["runs"]:
        raise vlib.ToolError("the independent reader could not re-read %d of the %d written tables" %
                             (rep["runs"] - rep["writer_selfcheck_ok"], rep["runs"]))
    # vacuity of the generator
    missing = [o for o in NEEDED_OPS if rep["operators_used"].get(o, 0) == 0]
    missing += [k for k in NEEDED_VAC + NEEDED_SEAC if rep["vacuity"].get(k, 0) == 0]
    missing += [k for k in NEEDED_FAM if rep["cases_per_family"].get(k, 0) == 0]
    missing += ["number_form_" + k for k, v in rep["number_forms_used"].items() if v == 0]
    if missing:
        raise vlib.ToolError("generator is vacuous for: %s" % missing)

    violations = []
    per_key = {}
    selftest_seen = set()
    selftest_runs = 0
    for m in vlib.read_ndjson(mism_path):
        if m["fam"] == "selftest":
            selftest_seen.add(m["tag"])
            selftest_runs += 1
            continue
        cls = _cmd_class(m["want"], m["got"])
        key = "gen|%s|%s|%s|%s" % (m["fam"], m["kind"], m["feat"], cls)
        per_key[key] = per_key.get(key, 0) + 1
        if per_key[key] > 1:
            continue
        what = "generated %s/%s %s (numbers %s, FDSelect format %s): %s; want %s got %s" % (
            m["fam"], m["kind"], m["tag"], m["mode"], m["fdselect_format"], cls,
            vlib.short(m["want"]["cmds"][:3], 160), vlib.short(m["got"]["cmds"][:3] if m["got"]["ok"] else m["got"]["why"], 160))
        violations.append(Violation(key, what, {"source": "generated", "class": cls, "mismatch": m}))
    want_self = {c["tag"] for c in planted_cases}
    if selftest_seen != want_self:
        raise vlib.ToolError("binding self-check (replay) failed: rejected %s, expected %s" % (sorted(selftest_seen), sorted(want_self)))

    # ---- impl -> spec ------------------------------------------------------------------------
    # Everything in this stage that can fail as a tool error (no suitable recorded event to corrupt, judge
    # statistics, a judge that dies) may do so BECAUSE the tree is broken: violations found so far are reported
    # first (exit 1), the tool error only when there is none.
    try:
        rec, stats, other, planted, src_ev = _recorded_stage(ctx, binp, violations, per_key)
    except vlib.ToolError as e:
        known = vlib.load_known(ctx.prop)
        if not [v for v in violations if v.key not in known]:
            raise
        ctx.note("recorded stage failed as a tool error AFTER violations were found in the generated stage; "
                 "reporting the violations: %s" % str(e)[:500])
        for k, n in sorted(per_key.items()):
            ctx.note("mismatch class %s: %d" % (k, n))
        vlib.finish(ctx, LEVEL, {
            "states": mc.distinct, "transitions": mc.generated,
            "traces_validated_against_impl": rep["runs"] - selftest_runs,
            "samples": [samples[k] for k in sorted(samples)],
            "generated_cases": n_cases[0], "generated_cases_per_family": rep["cases_per_family"],
            "replay_runs": rep["runs"] - selftest_runs, "replay_mismatching_runs": rep["mismatches"] - selftest_runs,
            "generated_case_features": rep["vacuity"], "mismatch_classes": per_key,
            "recorded_stage_tool_error": str(e)[:2000], "tlc_depth": mc.depth, "exhaustive": True,
            "explanation": "generated stage complete (config %s); the recorded stage did not complete" % cfg,
        }, violations, ASSUMPTIONS)

    budget = 3500 if ctx.quick else 0
    notwf = {}
    notwf_accepted = 0
    for s in other["NOTWF"]:
        notwf[s["why"]] = notwf.get(s["why"], 0) + 1
        notwf_accepted += 1 if s["gotok"] else 0
    coverage = {
        "states": mc.distinct,
        "transitions": mc.generated,
        "traces_validated_against_impl": rep["runs"] - selftest_runs + rec["events"],
        "samples": [samples[k] for k in sorted(samples)] +
                   [{"case": src_ev["case"], "code": src_ev["a"]["code"], "nL": src_ev["a"]["nL"], "nG": src_ev["a"]["nG"],
                     "lsubrs_reached": [s["i"] for s in src_ev["a"]["lsubrs"]], "cmds_first": src_ev["o"]["cmds"][:4]}],
        "generated_cases": n_cases[0],
        "generated_cases_per_family": rep["cases_per_family"],
        "replay_runs": rep["runs"] - selftest_runs,
        "replay_mismatching_runs": rep["mismatches"] - selftest_runs,
        "number_forms_used": rep["number_forms_used"],
        "operators_used": rep["operators_used"],
        "generated_case_features": rep["vacuity"],
        "recorded_fonts": rec["fonts"],
        "recorded_events": rec["events"],
        "recorded_events_per_font": rec["per_font"],
        "recorded_visits_not_ok": rec["visits_not_ok"],
        "events_judged": stats["judged"] - len(planted),
        "events_not_judged": notwf,
        "events_not_judged_but_accepted_by_allsorts": notwf_accepted,
        "judge_statistics": stats,
        "mismatch_classes": per_key,
        "binding_selfcheck": "%d corrupted generated cases reported by the replay, %d corrupted recorded events rejected by the judge"
                             % (len(planted_cases), len(planted)),
        "tlc_depth": mc.depth,
        "exhaustive": True,
        "explanation": "exhaustive over the bounded model (config %s); repository glyphs: %s" %
                       (cfg, "seeded sample (budget %d events)" % budget if budget else "every glyph of every CFF / CFF2 font, "
                        "the variable font at 17 tuples"),
    }
    vlib.finish(ctx, LEVEL, coverage, violations, ASSUMPTIONS)


def replay(ctx, path):
    d = json.load(open(path))["detail"]
    binp = vlib.build_harness("c18_type2")
    if d["source"] == "generated":
        cp, mp = ctx.path("case.ndjson"), ctx.path("mismatches.ndjson")
        vlib.write_ndjson(cp, [d["mismatch"]["case"]])
        vlib.run_harness(binp, ["replay", cp, mp, ctx.seed])
        mm = vlib.read_ndjson(mp)
        for m in mm[:1]:
            print("REPRODUCED class=%s want=%s got=%s" % (_cmd_class(m["want"], m["got"]), vlib.short(m["want"], 300), vlib.short(m["got"], 300)))
        if not mm:
            print("not reproduced: allsorts now delivers the prescribed commands for %s/%s %s" %
                  (d["mismatch"]["fam"], d["mismatch"]["kind"], d["mismatch"]["tag"]))
        return 1 if mm else 0
    # recorded: record the fonts again, judge the event of the same glyph
    tp, one = ctx.path("rec_trace.ndjson"), ctx.path("one.ndjson")
    vlib.run_harness(binp, ["record", ctx.seed, 0, tp])
    want_case = d["mismatch"]["case"]
    ev = [e for e in vlib.read_ndjson(tp) if e["case"] == want_case]
    if not ev:
        print("not reproduced: glyph %s is no longer recorded" % want_case)
        return 0
    vlib.write_ndjson(one, ev)
    res, mm = vlib.judge_trace(ctx, "Trace_Type2", "Trace_Type2.cfg", one, "replay")
    for m in mm:
        print("REPRODUCED %s class=%s want=%s got=%s" % (m["case"], m["class"], vlib.short(m["want"], 300), vlib.short(m["got"], 300)))
    if not mm:
        print("not reproduced: the visit of %s now conforms" % want_case)
    return 1 if mm else 0
