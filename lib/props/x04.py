"""X04 (extra) - unbounded proofs of the arithmetic lemmas that the TLC runs check on bounded universes.

Not one of the listed properties and never a deciding check (DESIGN.md section 6): /repo is not looked at.
specs/proofs/ holds small self-contained, type-annotated TLA+ modules.  Each restates ONE arithmetic core of a
library specification module (same operator names, the library text quoted in comments) and states its lemmas
  * as invariants of a one-state system whose initial state is ANY tuple of integers of the stated range
    (Apalache: `Init => Inv` is one SMT query over unbounded integers, --length=0), or of a small transition
    system whose invariant is shown inductive (--init=IndInit --inv=IndInv --length=1), and
  * as closed TLAPS theorems (`\\A x \\in Nat : ...`) proved by tlapm's SMT back end.
Three kinds of runs:
  obligation   a lemma set expected to be proved (Apalache NoError / tlapm "All n obligations proved")
  planted      a deliberately FALSE variant of a lemma that the same tool, on the same module, must refute
               (guards against an unsatisfiable Init or a prover that accepts everything)
  mirror       TLC evaluates the proof module's operators next to the library module's operators on arguments
               sampled from the seed (plus boundary values) and requires equality, so the proof is about the
               function the property checks use; one planted record per mirror must be reported.
Exit 0: every obligation run was discharged, every planted statement refuted, every mirror equal.
Exit 2: anything else (a refuted lemma is an error of the SPECIFICATION, not a verdict about allsorts).
"""
import concurrent.futures
import json
import os
import random
import re
import subprocess
import threading
import time

import vlib

LEVEL = "proof"
PROOFS = os.path.join(vlib.SPECS, "proofs")

ASSUMPTIONS = [
    "the proofs are about the operators of specs/proofs/P*.tla; they are tied to the library modules (BinaryReader, "
    "Woff2, SfntWrite, Cmap, Type2, CffCodec, Fix, Normalize) by quotation and by the sampled TLC mirror check, not by "
    "a proof: an operator that agrees with its library twin on every sampled argument and differs elsewhere would not "
    "be noticed",
    "Apalache obligations: soundness of Apalache 0.58.0's translation to SMT and of Z3; the initial predicate ranges "
    "over Int / Nat (unbounded SMT integers), so `Init => Inv` (--length=0) and `IndInv /\\ Next => IndInv'` "
    "(--length=1 from --init=IndInv) are proved for all integers of the stated ranges, not for a sample",
    "TLAPS obligations: soundness of tlapm's SMT encoding and of Z3 (proofs are not re-checked by Isabelle, -C is "
    "not used); fingerprints are erased (--cleanfp, fresh cache directory) so every obligation is re-proved on every "
    "run",
    "recursive library operators (B128Step, Sum32, MulAt ...) are restated unrolled to the fixed depth the data "
    "format allows (5 bytes of a UIntBase128, 3 columns of a 2 x 2 limb product); the unrolling itself is covered by "
    "the mirror check only",
    "nothing here looks at /repo: X04 adds confidence in the SPECIFICATION's arithmetic beyond the TLC bounds, it is "
    "never the deciding check of a property",
]

TRUSTED = ["Apalache 0.58.0 (TLA+ -> SMT translation)", "Z3 (SMT solver used by Apalache and by tlapm)",
           "tlapm (TLAPS proof manager, SMT back end; Isabelle re-checking not used)", "SANY parser",
           "TLC 1.8.0 (mirror check only)", "the quotation + sampled mirror check binding specs/proofs/P*.tla to the "
           "library modules"]

_apalache_slots = threading.Semaphore(2)      # the machine is shared: at most two Apalache runs at a time


# ------------------------------------------------------------------------------------------------------------
# obligations

def A(oid, group, module, inv, what, length=0, init=None, nxt=None, cinit=None, exp=10, tier="quick", expect="proved"):
    return dict(id=oid, group=group, tool="apalache", module=module, inv=inv, what=what, length=length, init=init,
                next=nxt, cinit=cinit, exp=exp, tier=tier, expect=expect)


def T(oid, group, module, what, exp=10, tier="quick", expect="proved", planted_n=0):
    return dict(id=oid, group=group, tool="tlaps", module=module, what=what, exp=exp, tier=tier, expect=expect,
                planted_n=planted_n)


OBLIGATIONS = [
    # ---- 1. BinaryReader window arithmetic
    A("BR.lemmas.apalache", "BinaryReader", "PBinaryReader_apa",
      "OffLenOkInside,HugeSound,OffsetInside,ArrayNeeds,UptoFits,ItemInside",
      "for ALL naturals root, lo, len, off, cnt, k, n, every stride 1..32 and every HUGE >= 1: a successful "
      "offset_length/read_scope window lies inside its parent and has exactly n bytes; the HUGE rule equals the exact "
      "rule and depends on its arguments only through Cap; offset is infallible and inside; an array of n elements of "
      "stride s is granted iff n*s bytes are left and Mul(n, s) = Cap(n*s); read_array_upto_hack's count fits and is "
      "maximal; element i < cnt lies inside the array window and before element i+1",
      init="LemmaInit", nxt="Stutter", cinit="CInit", exp=15),
    A("BR.inductive.init", "BinaryReader", "PBinaryReader_apa", "IndInv",
      "the root scope of a buffer of ANY length < HUGE satisfies IndInv (WindowInRoot, CursorInWindow, ArrayExact)",
      init="Init", cinit="CInit", exp=6),
    A("BR.inductive.step", "BinaryReader", "PBinaryReader_apa", "IndInv,FailNoEffect,DerivedInside",
      "IndInv is inductive under every reader operation with arbitrary natural arguments (offset, offset_length, "
      "ctxt, read, read_scope/read_slice, read_array with stride 1..32, ctxt.scope), a failing operation changes "
      "nothing, and whatever a step produces lies inside the old window from the cursor on",
      length=1, init="IndInit", cinit="CInit", exp=8),
    A("BR.planted.lemma", "BinaryReader", "PBinaryReader_apa", "PlantedFalse",
      "FALSE: OffLenOkInside without the n = 0 escape", init="LemmaInit", nxt="Stutter", cinit="CInit", exp=15,
      expect="refuted"),
    A("BR.planted.step", "BinaryReader", "PBinaryReader_apa", "PlantedFalseStep",
      "FALSE: no step moves the cursor", length=1, init="IndInit", cinit="CInit", exp=8, expect="refuted",
      tier="thorough"),
    T("BR.lemmas.tlaps", "BinaryReader", "PBinaryReader_tlaps",
      "the same lemmas as closed theorems over Nat (ItemInside for ANY natural stride)", exp=5),
    T("BR.inductive.tlaps", "BinaryReader", "PBinaryReader_ind_tlaps",
      "Init => IndInv, IndInv /\\ Next => IndInv', IndInv /\\ Next => FailNoEffect", exp=5),
    T("BR.planted.tlaps", "BinaryReader", "PBinaryReader_planted", "FALSE: OffLenOkInside without the n = 0 escape",
      exp=8, expect="refuted", planted_n=1),

    # ---- 2. WOFF2 UIntBase128
    A("B128.lemmas.apalache", "Woff2.UIntBase128", "PWoff2B128_apa", "PushExact,SeptetsExact,DecodeExact,Injective",
      "for ALL limb pairs acc (acc[1] < 512) and septets: B128Push is acc*128+septet on limbs, and acc[1] >= 512 is "
      "exactly 32-bit overflow; for ALL v < 2^32 the five septets are its base-128 digits (4+7+7+7+7 bits); for ALL "
      "strings of bytes b1..b5 of which n exist: the decoder accepts iff b1 # 0x80, a terminator occurs within "
      "min(n,5) bytes and the base-128 number is < 2^32, and then returns that number and the bytes used, else "
      "B128Fail; two accepted strings of equal value are the same string", exp=25),
    A("B128.roundtrip.septets", "Woff2.UIntBase128", "PWoff2B128_apa", "RT1,RT2,RT3,RT4,RT5",
      "for ANY five septets q (4+7+7+7+7 bits) writing the limbs hi, lo: the string of the septets after the leading "
      "zero septets, continuation bit on all but the last, decodes to <<hi, lo>> using exactly its length, whatever "
      "bytes follow (one invariant per length 1..5)", init="InitQ", exp=40, tier="thorough"),
    A("B128.roundtrip.encoder", "Woff2.UIntBase128", "PWoff2B128_apa", "RTCLen,RTC1,RTC2,RTC3,RTC4,RTC5",
      "Decode(Encode(v)) = v for ALL v in 0 .. 2^32-1 with the library's septets B128Septets(v) and EncB128's rule "
      "(EncCases): 1..5 bytes, no leading 0x80, all consumed, refused when truncated, minimal length (one invariant "
      "per length; InitEnc = Init + the septets + SeptetsExact as a redundant hint)", init="InitEnc", exp=120),
    A("B128.planted", "Woff2.UIntBase128", "PWoff2B128_apa", "PlantedFalse",
      "FALSE: an accepted string has at most 4 bytes", exp=10, expect="refuted"),

    # ---- 3. WOFF2 255UInt16
    A("U255.lemmas.apalache", "Woff2.255UInt16", "PWoff2U255_apa", "RoundTrip,DecodeExact,FormCount",
      "for ALL v in 0..65535 every allowed form decodes to v and is consumed entirely whatever follows, is refused "
      "when truncated; for ALL strings a success is a value 0..65535 whose bytes are one of its allowed forms; the "
      "exact set of forms per value range", exp=12),
    A("U255.planted", "Woff2.255UInt16", "PWoff2U255_apa", "PlantedFalse", "FALSE: the decoder never returns 65535",
      exp=8, expect="refuted"),
    T("U255.roundtrip.tlaps", "Woff2.255UInt16", "PWoff2U255_tlaps", "RoundTrip as a closed theorem", exp=5),

    # ---- 4. Sfnt checksum limbs
    A("Sfnt.lemmas.apalache", "SfntWrite.checksum", "PSfntSum_apa", "AddSubExact,AdjustIff,WordExact",
      "for ALL limb pairs: Add32/Sub32 are +/- modulo 2^32 and return limb pairs, Less32 is < on values, the value "
      "determines the pair; adj = Sub32(Magic, s) is the ONE u32 with Add32(s, adj) = Magic = 0xB1B0AFBA and its "
      "value is (0xB1B0AFBA - Val(s)) mod 2^32; Sub32/Add32 are mutually inverse; the big-endian word of 4 bytes",
      nxt="Stutter", exp=10),
    A("Sfnt.sum32.init", "SfntWrite.checksum", "PSfntSum_apa", "SumInv", "Sum32(<<>>) = <<0,0>> satisfies SumInv",
      nxt="Stutter", exp=6),
    A("Sfnt.sum32.step", "SfntWrite.checksum", "PSfntSum_apa", "SumInv",
      "Val(Sum32(s)) = (sum of Val(s[k])) mod 2^32 for sequences of ANY length: the invariant is inductive under "
      "adding any limb pair in front (ghost variable: the unbounded mathematical sum)", length=1, init="SumInit",
      nxt="SumNext", exp=8),
    A("Sfnt.planted", "SfntWrite.checksum", "PSfntSum_apa", "PlantedFalse", "FALSE: Add32 never wraps",
      nxt="Stutter", exp=8, expect="refuted"),
    A("Sfnt.planted.step", "SfntWrite.checksum", "PSfntSum_apa", "PlantedFalseStep",
      "FALSE: the running sum never decreases", length=1, init="SumInit", nxt="SumNext", exp=8, expect="refuted",
      tier="thorough"),
    T("Sfnt.less.adjust.tlaps", "SfntWrite.checksum", "PSfntSum_tlaps",
      "Less32 is < on values; Add32(s, Sub32(Magic, s)) = Magic (Add32/Sub32 exactness: not discharged by tlapm)",
      exp=5),

    # ---- 5. cmap idDelta
    A("Cmap.lemmas.apalache", "Cmap.idDelta", "PCmapDelta_apa", "DeltaForms,DeltaInverse,DeltaConsecutive,ToI16Any",
      "for ALL c in 0..65535 and ALL d in -32768..32767: (c + d) mod 65536 is a u16 and equals the masked i32 sum of "
      "the code, the u16 wrapping add of the stored field and the case formula; ToI16(g - c) is the ONLY signed delta "
      "mapping c to g; consecutive codes get consecutive glyphs mod 65536; ToI16 on ANY integer", exp=8),
    A("Cmap.planted", "Cmap.idDelta", "PCmapDelta_apa", "PlantedFalse", "FALSE: no wrap is ever needed", exp=8,
      expect="refuted"),
    T("Cmap.lemmas.tlaps", "Cmap.idDelta", "PCmapDelta_tlaps", "the same as closed theorems", exp=5),

    # ---- 6. CFF operands, Type 2 bias
    A("Cff.roundtrip.apalache", "CffCodec.operands", "PCffInt_apa",
      "IntSizeRange,RoundTrip1,RoundTrip2,RoundTrip3,Form3,DecodeSizes,Decode1,Decode2,Decode3,Decode5",
      "for ALL v in the 1-, 2- and 3-byte ranges Tok(EncIntOp(v)) = v with the size of the range, whatever follows, "
      "refused when truncated; the 28 form for every v in -32768..32767; for ALL byte strings an integer token has a "
      "32-bit value, fits the bytes present, and re-encodes byte for byte (1/2-byte tokens are the shortest form)",
      exp=25),
    A("Cff.digits", "CffCodec.operands", "PCffInt_apa", "DigitsTie",
      "every 32-bit v has signed base-256 digits (repeated division of the remainder) - justifies InitD", init="InitD0",
      exp=8),
    A("Cff.roundtrip5.apalache", "CffCodec.operands", "PCffInt_apa", "BE4sDigits,RoundTrip5,Form5",
      "for ALL 32-bit v: BE4s(v) writes the digits; the 29 form decodes to v (RI32(I32(v)) = v), also as a chosen "
      "form for small v", init="InitD", exp=90, tier="thorough"),
    A("Cff.planted", "CffCodec.operands", "PCffInt_apa", "PlantedFalse", "FALSE: the 2-byte forms reach 1132", exp=8,
      expect="refuted"),
    A("Bias.lemmas.apalache", "Type2.bias", "PType2Bias_apa", "Reach,IndexRange,BiasShape,Tight",
      "for ALL counts <= 65536 every subroutine is called by exactly one 16-bit operand, below 1240 by a 1-/2-byte "
      "operand, below 33900 by an operand >= -1131; for ALL counts and 16-bit operands the index lies in "
      "-32661..65535 and is accepted iff it names a subroutine; the thresholds are tight", exp=6),
    A("Bias.planted", "Type2.bias", "PType2Bias_apa", "PlantedFalse",
      "FALSE: 16-bit operands reach every subroutine of a 65537-entry INDEX", exp=6, expect="refuted"),
    T("Bias.lemmas.tlaps", "Type2.bias", "PType2Bias_tlaps", "Reach, IndexRange, BiasShape as closed theorems", exp=5),

    # ---- 7. Fix limbs
    A("Fix.steps.apalache", "Fix.limbs", "PFixLimb_apa", "AddSubStep,MulStepBound,AddSub3,Mul3ColsExact",
      "for ALL limbs (base 2^14): one position of AddAt/SubAt is exact with carry/borrow in {0,1}; one column of MulAt "
      "with <= 7 products and carry <= 7B stays < 2^31, is exact, carry out <= 7B again; 3-limb sum/difference exact; "
      "the 2x2 product on GIVEN partial products equals p11 + B(p12+p21) + B^2 p22", exp=10),
    A("Fix.product.apalache", "Fix.limbs", "PFixLimb_apa", "ProductPolynomial,Mul2x2Exact",
      "NONLINEAR: limb products are <= (B-1)^2 and MulAt on two 2-limb magnitudes is the product of their values", exp=10),
    A("Fix.planted", "Fix.limbs", "PFixLimb_apa", "PlantedFalse", "FALSE: nine products per column fit 2^31", exp=6,
      expect="refuted"),
    T("Fix.product.tlaps", "Fix.limbs", "PFixLimb_tlaps", "ProductPolynomial, CarryBound as closed theorems", exp=5),

    # ---- 8. Normalize
    A("Norm.range.endpoints", "Normalize.default", "PNormalize_apa", "Range,Endpoints",
      "NONLINEAR (division by a variable): for ALL 32-bit axes min <= def <= max and ALL 32-bit values at FB = 16 the "
      "result is in [-1, 1] already before the clamp; def -> 0, <= min -> -1, >= max -> +1, sign follows the side, "
      "strictly inside stays strictly inside", exp=12),
    A("Norm.monotone", "Normalize.default", "PNormalize_apa", "Monotone",
      "NONLINEAR: v <= w => RefDefault(v) <= RefDefault(w) for ALL 32-bit axes and values", exp=30),
    A("Norm.planted", "Normalize.default", "PNormalize_apa", "PlantedFalse", "FALSE: strictly monotone", exp=10,
      expect="refuted"),

    T("planted.tlaps", "all", "PPlanted_tlaps", "FIVE false theorems (255UInt16, idDelta, Less32, bias, limb bound)",
      exp=10, expect="refuted", planted_n=5),
]

DROPPED = [
    dict(what="UIntBase128 round trip as ONE invariant (PWoff2B128_apa!RoundTrip, RoundTripQ, RoundTripL, RoundTripC)",
         why="Apalache/Z3 did not answer within 300 s (RoundTrip: 900 s) - nested \\div/% on if-then-else byte "
             "expressions; replaced by one invariant per encoding length (RT1..RT5, RTC1..RTC5 + RTCLen), each 1-15 s; "
             "their conjunction is the round-trip statement"),
    dict(what="CFF operands RoundTrip / RoundTripForms / DecodeExact as single invariants",
         why="time-outs of 200-250 s; replaced by one invariant per encoding size; the 5-byte form needed the signed "
             "base-256 digits of v as auxiliary variables (InitD, justified by obligation Cff.digits)"),
    dict(what="TLAPS versions of the UIntBase128 and CFF-operand lemmas, of Add32/Sub32 exactness and of the "
              "Normalize lemmas",
         why="tlapm's untyped SMT encoding (Z3 4.8.9, 5 s per obligation) fails on lemmas that combine several \\div/% "
             "terms ('(al + bl) \\div 65536 \\in {0, 1}' already fails); after ~30 min only the linear lemmas were kept in "
             "TLAPS (BinaryReader incl. the inductive step, 255UInt16, idDelta, Less32/adjustment, bias, the limb "
             "product polynomial); everything else is discharged by Apalache alone"),
    dict(what="Fix.tla beyond the limb steps: MagMul for more than 2 x 2 limbs, Trim, MagCmp, sign handling of ZAdd/ZMul, "
              "ZFloorShr14, the rationals Q*", why="not attempted (recursive over sequences of unbounded length; the "
              "step lemmas + carry bounds are the inductive core)"),
    dict(what="Normalize.tla beyond default normalisation at FB = 16: the avar step (RefAvar, FixMulFB), ToOut, other FB, "
              "and Part 1 (accuracy of the procedure against the exact rational)", why="not attempted"),
    dict(what="Type2!Op_call executed in the mirror check", why="needs a whole interpreter state; the index expression "
         "is quoted in PType2Bias and only Bias / IntSize are mirrored"),
    dict(what="re-checking of TLAPS proofs by Isabelle (tlapm -C)", why="not used: SMT results are trusted"),
]


def _cmd(ctx, ob):
    mod = os.path.join(PROOFS, ob["module"] + ".tla")
    if ob["tool"] == "apalache":
        cmd = ["apalache-mc", "check", "--out-dir=" + ctx.path("apalache"), "--length=%d" % ob["length"],
               "--inv=" + ob["inv"]]
        for flag in ("init", "next", "cinit"):
            if ob.get(flag):
                cmd.append("--%s=%s" % (flag, ob[flag]))
        return cmd + [mod]
    return ["tlapm", "--cleanfp", "--cache-dir", ctx.path("tlacache." + ob["id"]), "-I", PROOFS, mod]


def _show(ctx, cmd):
    return " ".join(c.replace(vlib.VERIF + "/", "") for c in cmd)


def _run_ob(ctx, ob):
    cmd = _cmd(ctx, ob)
    tmo = max(30, int(3 * ob["exp"]))
    out = ctx.path(ob["id"] + ".out")
    env = dict(os.environ)
    env["JVM_ARGS"] = "-Xmx3g"
    sem = _apalache_slots if ob["tool"] == "apalache" else None
    if sem:
        sem.acquire()
    t0 = time.time()
    try:
        p = subprocess.run(["timeout", str(tmo)] + cmd, cwd=ctx.work, env=env, stdout=subprocess.PIPE,
                           stderr=subprocess.STDOUT, text=True)
    finally:
        if sem:
            sem.release()
    wall = time.time() - t0
    with open(out, "w") as f:
        f.write(p.stdout)
    text = p.stdout
    res = dict(id=ob["id"], group=ob["group"], tool=ob["tool"], module=ob["module"], lemma=ob["what"],
               cmd=_show(ctx, cmd), wall_s=round(wall, 1), expected_s=ob["exp"], timeout_s=tmo, expect=ob["expect"])
    if ob["tool"] == "apalache":
        res["invariants"] = ob["inv"]
        res["length"] = ob["length"]
        if p.returncode == 124:
            res["result"] = "timeout"
        elif p.returncode == 0 and "The outcome is: NoError" in text:
            res["result"] = "proved"
            m = re.search(r"Step %d: picking a transition out of (\d+) transition" % ob["length"], text)
            res["transitions_symbolic"] = int(m.group(1)) if m else 0
        elif p.returncode == 12 and "The outcome is: Error" in text and "violated" in text:
            res["result"] = "refuted"
        else:
            res["result"] = "error"
            res["tail"] = "\n".join(l for l in text.splitlines() if not l.lstrip().startswith(">"))[-1500:]
    else:
        m = re.search(r"All (\d+) obligations? proved", text)
        f = re.search(r"(\d+)/(\d+) obligations? failed", text)
        if p.returncode == 124:
            res["result"] = "timeout"
        elif p.returncode == 0 and m:
            res["result"] = "proved"
            res["tlapm_obligations"] = int(m.group(1))
        elif f:
            # for tlapm "refuted" means "not proved" - only ever expected of planted statements, ALL of which must fail
            res["tlapm_failed"] = "%s/%s" % (f.group(1), f.group(2))
            res["result"] = "refuted" if int(f.group(1)) == ob.get("planted_n", 0) else "partly-proved"
        else:
            res["result"] = "error"
            res["tail"] = text[-1500:]
    return res


# ------------------------------------------------------------------------------------------------------------
# mirror checks: sampled arguments

BR_HUGE = 1000000
BR_TYPES = {"u8": 1, "i8": 1, "u16": 2, "i16": 2, "u24": 3, "u32": 4, "i32": 4, "u64": 8, "i64": 8, "u8u16": 3,
            "u16x3": 6, "u8x4": 4, "nt16": 2, "nt32p": 4, "p24": 6, "p48": 12, "p81": 9, "t124": 7, "t248": 14,
            "t481": 13, "t812": 11, "q1248": 15, "q2481": 15, "q4812": 15, "q8124": 15, "ts132": 6, "n21x84": 15,
            "ntq4182": 15, "ntt412": 7}


def _br_arg(rnd, rel):
    c = rnd.random()
    if c < 0.55:
        return max(0, rel + rnd.choice([-3, -2, -1, 0, 0, 1, 2, 3]))
    if c < 0.75:
        return rnd.randint(0, max(rel, 1) + 5)
    if c < 0.85:
        return rnd.choice([0, 1, 2])
    return rnd.choice([BR_HUGE - 1, BR_HUGE, BR_HUGE + 1, 2 * BR_HUGE, 2 ** 30])


def sample_binaryreader(rnd, count):
    out = []
    for _ in range(count):
        root = rnd.choice([0, 1, 2, 3, 7, 16, 100, rnd.randint(0, 3000)])
        ln = rnd.choice([0, root, rnd.randint(0, root)])
        lo = 0 if ln == 0 else rnd.randint(0, root - ln)
        kind = rnd.choice(["scope", "ctxt", "ctxt", "array"])
        off = cnt = stride = size = 0
        if kind == "ctxt":
            off = rnd.choice([0, ln, rnd.randint(0, ln)])
        if kind == "array":
            stride = rnd.randint(1, 32)
            cnt = ln // stride
            ln = cnt * stride
            size = rnd.randint(1, stride)
            if ln == 0:
                lo = 0
        ty = rnd.choice(sorted(BR_TYPES))
        if kind == "scope":
            op = rnd.choice(["Offset", "OffsetLength", "OffsetLength", "Ctxt"])
        elif kind == "ctxt":
            op = rnd.choice(["ReadT", "ReadScope", "ReadSlice", "ReadArray", "ReadArrayDep", "CtxtScope"])
        else:
            op = "Len"
        rest = ln - off
        a = _br_arg(rnd, rest)
        b = _br_arg(rnd, rest - min(a, rest))
        if op == "ReadArray":
            a = _br_arg(rnd, rest // BR_TYPES[ty])
        if op == "ReadArrayDep":
            b = rnd.randint(1, 32)
            a = _br_arg(rnd, rest // b)
        s_ = rnd.randint(1, 32)
        m1 = _br_arg(rnd, rest // s_)
        if m1 < BR_HUGE:
            m1 = min(m1, 60000)              # m1 * 32 stays a TLC integer
        m2 = rnd.randint(0, cnt + 2)
        out.append(dict(plant=0, root=root, kind=kind, lo=lo, len=ln, off=off, cnt=cnt, stride=stride, size=size,
                        op=op, ty=ty, a=a, b=b, s=s_, m1=m1, m2=m2))
    # planted: compared against OffLenResult(len, a, b + 1); 4 + 6 = 10 is Ok, 4 + 7 is Eof
    out.append(dict(plant=1, root=10, kind="scope", lo=0, len=10, off=0, cnt=0, stride=0, size=0, op="Offset",
                    ty="u8", a=4, b=6, s=1, m1=1, m2=0))
    return out


def _pick(rnd, boundaries, lo, hi, p=0.6):
    if rnd.random() < p:
        return min(hi, max(lo, rnd.choice(boundaries) + rnd.choice([-1, 0, 0, 1])))
    return rnd.randint(lo, hi)


def _pad(rnd):
    return [rnd.randint(0, 255) for _ in range(rnd.choice([0, 0, 1, 3]))]


def sample_woff2b128(rnd, count):
    out = []
    vb = [0, 127, 128, 16383, 16384, 2097151, 2097152, 268435455, 268435456, 2 ** 31, 2 ** 32 - 1, 65535, 65536,
          2 ** 25 - 1, 2 ** 25]
    for _ in range(count):
        v = _pick(rnd, vb, 0, 2 ** 32 - 1)
        b = []
        for k in range(7):
            c = rnd.random()
            if c < 0.5:
                b.append(128 + rnd.choice([0, 0, 1, 15, 16, 127, rnd.randint(0, 127)]))
            elif c < 0.8:
                b.append(rnd.choice([0, 1, 127, rnd.randint(0, 127)]))
            else:
                b.append(rnd.randint(0, 255))
        out.append(dict(plant=0, hi=v >> 16, lo=v & 0xFFFF, s=rnd.choice([0, 1, 127, rnd.randint(0, 127)]),
                        x=_pick(rnd, vb, 0, 2 ** 31 - 1), n=rnd.choice([0, 1, 2, 3, 4, 5, 5, 6, 7]), b=b, pad=_pad(rnd)))
    out.append(dict(plant=1, hi=0, lo=128, s=0, x=0, n=2, b=[0x81, 0x00, 0, 0, 0, 0, 0], pad=[]))
    return out


def sample_woff2u255(rnd, count):
    out = []
    vb = [0, 252, 253, 254, 255, 505, 506, 508, 509, 761, 762, 65535, 256]
    for _ in range(count):
        out.append(dict(plant=0, v=_pick(rnd, vb, 0, 65535), n=rnd.choice([0, 1, 2, 3, 3, 4, 5]),
                        c=rnd.choice([252, 253, 254, 255, 0, rnd.randint(0, 255)]), x=rnd.randint(0, 255),
                        y=rnd.randint(0, 255), pad=_pad(rnd)))
    out.append(dict(plant=1, v=300, n=2, c=255, x=47, y=0, pad=[]))
    return out


def _u32pair(rnd):
    lb = [0, 1, 65535, 32768, 45488, 44986]
    return [_pick(rnd, lb, 0, 65535), _pick(rnd, lb, 0, 65535)]


def sample_sfntsum(rnd, count):
    out = []
    for _ in range(count):
        out.append(dict(plant=0, a=_u32pair(rnd), b=_u32pair(rnd), c=_u32pair(rnd),
                        w=[rnd.choice([0, 255, rnd.randint(0, 255)]) for _ in range(4)]))
    out.append(dict(plant=1, a=[1, 2], b=[3, 4], c=[5, 6], w=[1, 2, 3, 4]))
    return out


def sample_cmapdelta(rnd, count):
    out = []
    for _ in range(count):
        out.append(dict(plant=0, c=_pick(rnd, [0, 32767, 32768, 65535], 0, 65535),
                        d=_pick(rnd, [-32768, -1, 0, 1, 32767], -32768, 32767),
                        g=_pick(rnd, [0, 32767, 32768, 65535], 0, 65535),
                        x=_pick(rnd, [-65536, -32769, -32768, -1, 0, 32767, 32768, 65535, 65536, 2 ** 30, -2 ** 30],
                                -2 ** 30, 2 ** 30)))
    out.append(dict(plant=1, c=10, d=5, g=0, x=0))
    return out


def sample_cffint(rnd, count):
    out = []
    vb = [0, 107, 108, -107, -108, 1131, 1132, -1131, -1132, 32767, 32768, -32768, -32769, 2 ** 31 - 1, -2 ** 31,
          65535, 65536, 16777215, 16777216, -16777216, -16777217]
    for _ in range(count):
        b0 = rnd.choice([28, 29, 30, 31, 32, 139, 246, 247, 250, 251, 254, 255, 12, 0, 24, 25, rnd.randint(0, 255),
                         rnd.randint(0, 255)])
        b = [b0] + [rnd.choice([0, 127, 128, 255, rnd.randint(0, 255)]) for _ in range(5)]
        out.append(dict(plant=0, v=_pick(rnd, vb, -2 ** 31, 2 ** 31 - 1), u=_pick(rnd, [0, 255, 256, 65535], 0, 65535),
                        h=_pick(rnd, [-32768, -1, 0, 32767], -32768, 32767), left=rnd.choice([0, 1, 2, 3, 4, 5, 6, 6]),
                        b=b, pad=_pad(rnd)))
    out.append(dict(plant=1, v=0, u=0, h=0, left=3, b=[28, 1, 2, 3, 4, 5], pad=[]))
    return out


def sample_type2bias(rnd, count):
    out = []
    for _ in range(count):
        out.append(dict(plant=0, cnt=_pick(rnd, [0, 1, 1239, 1240, 33899, 33900, 65535, 65536], 0, 70000),
                        n=_pick(rnd, [-32768, -1131, -107, 0, 107, 1131, 1132, 32767], -40000, 40000)))
    out.append(dict(plant=1, cnt=1239, n=0))
    return out


def sample_fixlimb(rnd, count):
    out = []
    lb = [0, 1, 16383, 8192]

    def limbs():
        return [_pick(rnd, lb, 0, 16383) for _ in range(3)]
    for _ in range(count):
        out.append(dict(plant=0, a=limbs(), b=limbs(), c=rnd.choice([0, 1]),
                        col=_pick(rnd, [0, 268402689, 7 * 268402689], 0, 7 * 268402689),
                        cm=_pick(rnd, [0, 16383, 16384, 114688], 0, 114688),
                        ma=_pick(rnd, lb, 0, 16383), mb=_pick(rnd, lb, 0, 16383)))
    out.append(dict(plant=1, a=[5, 7, 0], b=[3, 2, 0], c=0, col=0, cm=0, ma=0, mb=0))
    return out


def sample_normalize(rnd, count):
    out = []
    for _ in range(count):
        fb = rnd.choice([0, 1, 2, 3, 4, 5, 6, 7, 8, 10, 12, 14, 16, 16, 16])
        m = ((2 ** 31 - 1) >> fb) // 2 - 1
        h = m // 2
        ax = sorted(_pick(rnd, [-h, -1, 0, 1, h], -h, h) for _ in range(3))
        if rnd.random() < 0.15:
            ax[1] = ax[rnd.choice([0, 2])]                   # default at an end of the range
        if rnd.random() < 0.05:
            rnd.shuffle(ax)                                  # an invalid axis: the operators are still total
        out.append(dict(plant=0, fb=fb, mn=ax[0], df=ax[1], mx=ax[2], v=_pick(rnd, ax + [-h, h], -h, h),
                        a=_pick(rnd, [-2 ** 30, -1, 0, 1, 2 ** 30], -2 ** 30, 2 ** 30),
                        b=rnd.choice([1, -1, 2, -3, 65536, rnd.randint(1, 2 ** 30), -rnd.randint(1, 2 ** 30)]),
                        sa=_pick(rnd, [-m, -1, 0, 1, m], -m, m),
                        sb=rnd.choice([0, 1, -1, rnd.randint(-2 ** 20, 2 ** 20)])))
    out.append(dict(plant=1, fb=8, mn=0, df=0, mx=100, v=50, a=1, b=1, sa=1, sb=1))
    return out


MIRRORS = [
    dict(id="mirror.BinaryReader", group="BinaryReader", module="Mirror_BinaryReader", sampler=sample_binaryreader,
         quick=3000, thorough=20000, library="BinaryReader.tla",
         operators="IsHuge Mul Add Min2 OffLenResult SubScope DoOffset DoOffsetLength DoCtxtScope DoReadScope "
                   "DoReadArrayGen DoReadArrayUpto ItemPos Obj/Array + Apply as a step of PBinaryReader_apa!Next"),
    dict(id="mirror.Woff2B128", group="Woff2.UIntBase128", module="Mirror_Woff2B128", sampler=sample_woff2b128,
         quick=3000, thorough=20000, library="Woff2.tla",
         operators="U32Of NatOf B128Push B128Fail B128Septets DecB128At StripZeros EncB128 B128RoundTrip"),
    dict(id="mirror.Woff2U255", group="Woff2.255UInt16", module="Mirror_Woff2U255", sampler=sample_woff2u255,
         quick=3000, thorough=20000, library="Woff2.tla",
         operators="U16B U16At U255Fail Dec255At Forms255 Enc255Form U255RoundTrip"),
    dict(id="mirror.SfntSum", group="SfntWrite.checksum", module="Mirror_SfntSum", sampler=sample_sfntsum,
         quick=3000, thorough=20000, library="SfntWrite.tla",
         operators="L32 Add32 Sub32 Less32 Magic Sum32 WordSum AdjustmentOK"),
    dict(id="mirror.CmapDelta", group="Cmap.idDelta", module="Mirror_CmapDelta", sampler=sample_cmapdelta,
         quick=3000, thorough=20000, library="Cmap.tla, CmapSubset.tla",
         operators="Cmap!Mod16 Cmap!Seg4Glyph Cmap!Map4 CmapSubset!ToI16"),
    dict(id="mirror.CffInt", group="CffCodec.operands", module="Mirror_CffInt", sampler=sample_cffint,
         quick=3000, thorough=20000, library="CffCodec.tla (TableCodec.tla, BinaryWriter.tla)",
         operators="BE2 BE4s I16 I32 RI16 RI32 IntSize EncIntOp EncIntForm Dev_IntEncoding Tok"),
    dict(id="mirror.Type2Bias", group="Type2.bias", module="Mirror_Type2Bias", sampler=sample_type2bias,
         quick=3000, thorough=20000, library="Type2.tla, CffCodec.tla", operators="Type2!Bias CffCodec!IntSize"),
    dict(id="mirror.FixLimb", group="Fix.limbs", module="Mirror_FixLimb", sampler=sample_fixlimb,
         quick=3000, thorough=20000, library="Fix.tla",
         operators="B AddAt SubAt MulAt MagOfNat MagAdd MagSub MagMul Trim MagCmp"),
    dict(id="mirror.Normalize", group="Normalize.default", module="Mirror_Normalize", sampler=sample_normalize,
         quick=3000, thorough=20000, library="Normalize.tla, Fix.tla",
         operators="TruncDiv Pow2 Clamp FixOne FixDivFB ValidAxis RefDefault"),
]


def _run_mirror(ctx, mi):
    rnd = random.Random("%s/%s" % (ctx.seed, mi["id"]))
    recs = mi["sampler"](rnd, mi["quick"] if ctx.quick else mi["thorough"])
    for k, r in enumerate(recs):
        r["i"] = k + 1
    path = ctx.path(mi["id"] + ".args.ndjson")
    vlib.write_ndjson(path, recs)
    planted = [r["i"] for r in recs if r.get("plant")]
    t0 = time.time()
    res = vlib.run_tlc(ctx, "proofs/" + mi["module"], "proofs/" + mi["module"] + ".cfg", mi["id"], workers=1,
                       timeout=600, env_extra={"ARGS": path,
                                               "JAVA_TOOL_OPTIONS": "-Xss1g -Xmx3g -DTLA-Library=" + vlib.SPECS})
    mism = {}
    for x in res.printed.get("MISMATCH", []):
        d = json.loads(x) if isinstance(x, str) else x
        mism.setdefault((d["i"], d["what"]), d)
    real = [d for d in mism.values() if not d.get("plant")]
    hit = sorted({d["i"] for d in mism.values() if d.get("plant")})
    return dict(id=mi["id"], group=mi["group"], module=mi["module"], library=mi["library"], operators=mi["operators"],
                samples=len(recs) - len(planted), planted=len(planted), planted_reported=len(hit),
                mismatches=len(real), first_mismatches=real[:5], states=res.distinct, wall_s=round(time.time() - t0, 1),
                sample=recs[0])


# ------------------------------------------------------------------------------------------------------------

def run(ctx):
    obs = [o for o in OBLIGATIONS if ctx.tier == "thorough" or o["tier"] == "quick"]
    skipped = [o["id"] for o in OBLIGATIONS if o not in obs]
    ctx.note("%d tool runs (%d lemma sets, %d planted), %d mirror checks" % (
        len(obs), sum(1 for o in obs if o["expect"] == "proved"), sum(1 for o in obs if o["expect"] == "refuted"),
        len(MIRRORS)))
    results, mirrors, errors = [], [], []
    with concurrent.futures.ThreadPoolExecutor(max_workers=4) as ex:
        futs = {ex.submit(_run_ob, ctx, o): o for o in sorted(obs, key=lambda o: -o["exp"])}
        mfuts = {ex.submit(_run_mirror, ctx, m): m for m in MIRRORS}
        for f in concurrent.futures.as_completed(list(futs) + list(mfuts)):
            if f in futs:
                r = f.result()
                results.append(r)
                ctx.note("%-9s %-28s %-8s (expected %s) %.1fs" % (r["tool"], r["id"], r["result"], r["expect"],
                                                                  r["wall_s"]))
            else:
                try:
                    m = f.result()
                    mirrors.append(m)
                    ctx.note("mirror    %-28s %d samples, %d mismatches, planted %d/%d, %.1fs" % (
                        m["id"], m["samples"], m["mismatches"], m["planted_reported"], m["planted"], m["wall_s"]))
                except vlib.ToolError as e:
                    errors.append("mirror %s: %s" % (mfuts[f]["id"], str(e)[:1500]))
    results.sort(key=lambda r: [o["id"] for o in OBLIGATIONS].index(r["id"]))
    mirrors.sort(key=lambda m: m["id"])
    lemma = [r for r in results if r["expect"] == "proved"]
    planted = [r for r in results if r["expect"] == "refuted"]
    for r in results:
        if r["result"] != r["expect"]:
            errors.append("%s %s: expected %s, got %s after %.1fs (limit %ss): %s\n%s" % (
                r["tool"], r["id"], r["expect"], r["result"], r["wall_s"], r["timeout_s"], r["cmd"], r.get("tail", "")))
    for m in mirrors:
        if m["mismatches"]:
            errors.append("mirror %s: proof module and %s differ: %s" % (m["id"], m["library"],
                                                                         vlib.short(m["first_mismatches"], 800)))
        if m["planted_reported"] != m["planted"] or m["planted"] == 0:
            errors.append("mirror %s: planted record not reported (%d of %d)" % (m["id"], m["planted_reported"],
                                                                              m["planted"]))
        if m["samples"] < 1000:
            errors.append("mirror %s: only %d samples" % (m["id"], m["samples"]))
    groups = sorted({o["group"] for o in OBLIGATIONS})
    coverage = {
        "obligations": len(lemma),
        "discharged": sum(1 for r in lemma if r["result"] == "proved"),
        "checker_cmd": "apalache-mc check --length=0|1 [--cinit=CInit] --init=<Init|IndInit> --inv=<lemmas> "
                       "specs/proofs/P<Module>_apa.tla ; tlapm --cleanfp -I specs/proofs specs/proofs/P<Module>_tlaps.tla ; "
                       "tlc -config specs/proofs/Mirror_<Module>.cfg specs/proofs/Mirror_<Module>.tla (ARGS=<samples>)",
        "trusted_base": TRUSTED,
        "samples": lemma,
        "planted_false_statements": len(planted),
        "planted_refuted": sum(1 for r in planted if r["result"] == "refuted"),
        "planted": planted,
        "tlapm_obligations_proved": sum(r.get("tlapm_obligations", 0) for r in lemma),
        "apalache_invariants_proved": sum(len(r["invariants"].split(",")) for r in lemma
                                          if r["tool"] == "apalache" and r["result"] == "proved"),
        "mirror_checks": mirrors,
        "mirror_samples": sum(m["samples"] for m in mirrors),
        "mirror_mismatches": sum(m["mismatches"] for m in mirrors),
        "per_group": {g: {"run": sum(1 for r in lemma if r["group"] == g),
                          "discharged": sum(1 for r in lemma if r["group"] == g and r["result"] == "proved")}
                      for g in groups},
        "not_run_in_this_tier": skipped,
        "not_attempted_or_dropped": DROPPED,
        "exhaustive": False,
    }
    vlib.finish(ctx, LEVEL, coverage, [], ASSUMPTIONS, tool_error="\n".join(errors) if errors else None)


def replay(ctx, path):
    print("X04 has no replay files: it never reports a violation of /repo")
    return 2
