"""X04 (extra) - unbounded proofs of the arithmetic lemmas that the TLC runs check on bounded universes.

Not one of the listed properties and never a deciding check (DESIGN.md section 6): /repo is not looked at.
specs/proofs/ holds small self-contained, type-annotated TLA+ modules.  Each restates ONE arithmetic core of a
library specification module (same operator names, the library text quoted in comments) and states its lemmas
  * as invariants of a one-state system whose initial state is ANY tuple of integers of the stated range
    (Apalache: `Init => Inv` is one SMT query over unbounded integers, --length=0), or of a small transition
    system whose invariant is shown inductive (--init=IndInit --inv=IndInv --length=1), and
  * as closed TLAPS theorems (`\\A x \\in Nat : ...`) proved by tlapm's SMT back end.
Three kinds of runs:
  obligation   a lemma set expected to be proved (Apalache NoError / tlapm "All n obligations proved")
  planted      a deliberately FALSE variant of a lemma that the same tool, on the same module, must refute
               (guards against an unsatisfiable Init or a prover that accepts everything)
  mirror       TLC evaluates the proof module's operators next to the library module's operators on arguments
               sampled from the seed (plus boundary values) and requires equality, so the proof is about the
               function the property checks use; one planted record per mirror must be reported.
Exit 0: every obligation run was discharged, every planted statement refuted, every mirror equal.
Exit 2: anything else (a refuted lemma is an error of the SPECIFICATION, not a verdict about allsorts).
"""
import concurrent.futures
import json
import os
import random
import re
import subprocess
import threading
import time

import vlib

LEVEL = "proof"
PROOFS = os.path.join(vlib.SPECS, "proofs")

ASSUMPTIONS = [
    "the proofs are about the operators of specs/proofs/P*.tla; they are tied to the library modules (BinaryReader, "
    "Woff2, SfntWrite, Cmap, Type2, CffCodec, Fix, Normalize) by quotation and by the sampled TLC mirror check, not by "
    "a proof: an operator that agrees with its library twin on every sampled argument and differs elsewhere would not "
    "be noticed",
    "Apalache obligations: soundness of Apalache 0.58.0's translation to SMT and of Z3; the initial predicate ranges "
    "over Int / Nat (unbounded SMT integers), so `Init => Inv` (--length=0) and `IndInv /\\ Next => IndInv'` "
    "(--length=1 from --init=IndInv) are proved for all integers of the stated ranges, not for a sample",
    "TLAPS obligations: soundness of tlapm's SMT encoding and of Z3 (proofs are not re-checked by Isabelle, -C is "
    "not used); fingerprints are erased (--cleanfp, fresh cache directory) so every obligation is re-proved on every "
    "run",
    "recursive library operators (B128Step, Sum32, MulAt ...) are restated unrolled to the fixed depth the data "
    "format allows (5 bytes of a UIntBase128, 3 columns of a 2 x 2 limb product); the unrolling itself is covered by "
    "the mirror check only",
    "nothing here looks at /repo: X04 adds confidence in the SPECIFICATION's arithmetic beyond the TLC bounds, it is "
    "never the deciding check of a property",
]

TRUSTED = ["Apalache 0.58.0 (TLA+ -> SMT translation)", "Z3 (SMT solver used by Apalache and by tlapm)",
           "tlapm (TLAPS proof manager, SMT back end; Isabelle re-checking not used)", "SANY parser",
           "TLC 1.8.0 (mirror check only)", "the quotation + sampled mirror check binding specs/proofs/P*.tla to the "
           "library modules"]

_apalache_slots = threading.Semaphore(2)      # the machine is shared: at most two Apalache runs at a time


# ------------------------------------------------------------------------------------------------------------
# obligations

def A(oid, group, module, inv, what, length=0, init=None, nxt=None, cinit=None, exp=10, tier="quick", expect="proved"):
    return dict(id=oid, group=group, tool="apalache", module=module, inv=inv, what=what, length=length, init=init,
                next=nxt, cinit=cinit, exp=exp, tier=tier, expect=expect)


def T(oid, group, module, what, exp=10, tier="quick", expect="proved"):
    return dict(id=oid, group=group, tool="tlaps", module=module, what=what, exp=exp, tier=tier, expect=expect)


OBLIGATIONS = [
    # ---- 1. BinaryReader window arithmetic
    A("BR.lemmas.apalache", "BinaryReader", "PBinaryReader_apa",
      "OffLenOkInside,HugeSound,OffsetInside,ArrayNeeds,UptoFits,ItemInside",
      "for ALL naturals root, lo, len, off, cnt, k, n, every stride 1..32 and every HUGE >= 1: a successful "
      "offset_length/read_scope window lies inside its parent and has exactly n bytes; the HUGE rule equals the exact "
      "rule and depends on its arguments only through Cap; offset is infallible and inside; an array of n elements of "
      "stride s is granted iff n*s bytes are left and Mul(n, s) = Cap(n*s); read_array_upto_hack's count fits and is "
      "maximal; element i < cnt lies inside the array window and before element i+1",
      init="LemmaInit", nxt="Stutter", cinit="CInit", exp=15),
    A("BR.inductive.init", "BinaryReader", "PBinaryReader_apa", "IndInv",
      "the root scope of a buffer of ANY length < HUGE satisfies IndInv (WindowInRoot, CursorInWindow, ArrayExact)",
      init="Init", cinit="CInit", exp=6),
    A("BR.inductive.step", "BinaryReader", "PBinaryReader_apa", "IndInv,FailNoEffect,DerivedInside",
      "IndInv is inductive under every reader operation with arbitrary natural arguments (offset, offset_length, "
      "ctxt, read, read_scope/read_slice, read_array with stride 1..32, ctxt.scope), a failing operation changes "
      "nothing, and whatever a step produces lies inside the old window from the cursor on",
      length=1, init="IndInit", cinit="CInit", exp=8),
    A("BR.planted.lemma", "BinaryReader", "PBinaryReader_apa", "PlantedFalse",
      "FALSE: OffLenOkInside without the n = 0 escape", init="LemmaInit", nxt="Stutter", cinit="CInit", exp=15,
      expect="refuted"),
    A("BR.planted.step", "BinaryReader", "PBinaryReader_apa", "PlantedFalseStep",
      "FALSE: no step moves the cursor", length=1, init="IndInit", cinit="CInit", exp=8, expect="refuted"),
    T("BR.lemmas.tlaps", "BinaryReader", "PBinaryReader_tlaps",
      "the same lemmas as closed theorems over Nat (ItemInside for ANY natural stride)", exp=5),
    T("BR.inductive.tlaps", "BinaryReader", "PBinaryReader_ind_tlaps",
      "Init => IndInv, IndInv /\\ Next => IndInv', IndInv /\\ Next => FailNoEffect", exp=5),
    T("BR.planted.tlaps", "BinaryReader", "PBinaryReader_planted", "FALSE: OffLenOkInside without the n = 0 escape",
      exp=8, expect="refuted"),
]

DROPPED = []


def _cmd(ctx, ob):
    mod = os.path.join(PROOFS, ob["module"] + ".tla")
    if ob["tool"] == "apalache":
        cmd = ["apalache-mc", "check", "--out-dir=" + ctx.path("apalache"), "--length=%d" % ob["length"],
               "--inv=" + ob["inv"]]
        for flag in ("init", "next", "cinit"):
            if ob.get(flag):
                cmd.append("--%s=%s" % (flag, ob[flag]))
        return cmd + [mod]
    return ["tlapm", "--cleanfp", "--cache-dir", ctx.path("tlacache." + ob["id"]), "-I", PROOFS, mod]


def _show(ctx, cmd):
    return " ".join(c.replace(vlib.VERIF + "/", "") for c in cmd)


def _run_ob(ctx, ob):
    cmd = _cmd(ctx, ob)
    tmo = max(30, int(3 * ob["exp"]))
    out = ctx.path(ob["id"] + ".out")
    env = dict(os.environ)
    env["JVM_ARGS"] = "-Xmx3g"
    sem = _apalache_slots if ob["tool"] == "apalache" else None
    if sem:
        sem.acquire()
    t0 = time.time()
    try:
        p = subprocess.run(["timeout", str(tmo)] + cmd, cwd=ctx.work, env=env, stdout=subprocess.PIPE,
                           stderr=subprocess.STDOUT, text=True)
    finally:
        if sem:
            sem.release()
    wall = time.time() - t0
    with open(out, "w") as f:
        f.write(p.stdout)
    text = p.stdout
    res = dict(id=ob["id"], group=ob["group"], tool=ob["tool"], module=ob["module"], lemma=ob["what"],
               cmd=_show(ctx, cmd), wall_s=round(wall, 1), expected_s=ob["exp"], timeout_s=tmo, expect=ob["expect"])
    if ob["tool"] == "apalache":
        res["invariants"] = ob["inv"]
        res["length"] = ob["length"]
        if p.returncode == 124:
            res["result"] = "timeout"
        elif p.returncode == 0 and "The outcome is: NoError" in text:
            res["result"] = "proved"
            m = re.search(r"Step %d: picking a transition out of (\d+) transition" % ob["length"], text)
            res["transitions_symbolic"] = int(m.group(1)) if m else 0
        elif p.returncode == 12 and "The outcome is: Error" in text and "violated" in text:
            res["result"] = "refuted"
        else:
            res["result"] = "error"
            res["tail"] = "\n".join(l for l in text.splitlines() if not l.lstrip().startswith(">"))[-1500:]
    else:
        m = re.search(r"All (\d+) obligations? proved", text)
        f = re.search(r"(\d+)/(\d+) obligations? failed", text)
        if p.returncode == 124:
            res["result"] = "timeout"
        elif p.returncode == 0 and m:
            res["result"] = "proved"
            res["tlapm_obligations"] = int(m.group(1))
        elif f:
            res["result"] = "refuted"        # for tlapm: "not proved" - only ever expected of a planted statement
            res["tlapm_failed"] = "%s/%s" % (f.group(1), f.group(2))
        else:
            res["result"] = "error"
            res["tail"] = text[-1500:]
    return res


# ------------------------------------------------------------------------------------------------------------
# mirror checks: sampled arguments

BR_HUGE = 1000000
BR_TYPES = {"u8": 1, "i8": 1, "u16": 2, "i16": 2, "u24": 3, "u32": 4, "i32": 4, "u64": 8, "i64": 8, "u8u16": 3,
            "u16x3": 6, "u8x4": 4, "nt16": 2, "nt32p": 4, "p24": 6, "p48": 12, "p81": 9, "t124": 7, "t248": 14,
            "t481": 13, "t812": 11, "q1248": 15, "q2481": 15, "q4812": 15, "q8124": 15, "ts132": 6, "n21x84": 15,
            "ntq4182": 15, "ntt412": 7}


def _br_arg(rnd, rel):
    c = rnd.random()
    if c < 0.55:
        return max(0, rel + rnd.choice([-3, -2, -1, 0, 0, 1, 2, 3]))
    if c < 0.75:
        return rnd.randint(0, max(rel, 1) + 5)
    if c < 0.85:
        return rnd.choice([0, 1, 2])
    return rnd.choice([BR_HUGE - 1, BR_HUGE, BR_HUGE + 1, 2 * BR_HUGE, 2 ** 30])


def sample_binaryreader(rnd, count):
    out = []
    for _ in range(count):
        root = rnd.choice([0, 1, 2, 3, 7, 16, 100, rnd.randint(0, 3000)])
        ln = rnd.choice([0, root, rnd.randint(0, root)])
        lo = 0 if ln == 0 else rnd.randint(0, root - ln)
        kind = rnd.choice(["scope", "ctxt", "ctxt", "array"])
        off = cnt = stride = size = 0
        if kind == "ctxt":
            off = rnd.choice([0, ln, rnd.randint(0, ln)])
        if kind == "array":
            stride = rnd.randint(1, 32)
            cnt = ln // stride
            ln = cnt * stride
            size = rnd.randint(1, stride)
            if ln == 0:
                lo = 0
        ty = rnd.choice(sorted(BR_TYPES))
        if kind == "scope":
            op = rnd.choice(["Offset", "OffsetLength", "OffsetLength", "Ctxt"])
        elif kind == "ctxt":
            op = rnd.choice(["ReadT", "ReadScope", "ReadSlice", "ReadArray", "ReadArrayDep", "CtxtScope"])
        else:
            op = "Len"
        rest = ln - off
        a = _br_arg(rnd, rest)
        b = _br_arg(rnd, rest - min(a, rest))
        if op == "ReadArray":
            a = _br_arg(rnd, rest // BR_TYPES[ty])
        if op == "ReadArrayDep":
            b = rnd.randint(1, 32)
            a = _br_arg(rnd, rest // b)
        s_ = rnd.randint(1, 32)
        m1 = _br_arg(rnd, rest // s_)
        if m1 < BR_HUGE:
            m1 = min(m1, 60000)              # m1 * 32 stays a TLC integer
        m2 = rnd.randint(0, cnt + 2)
        out.append(dict(plant=0, root=root, kind=kind, lo=lo, len=ln, off=off, cnt=cnt, stride=stride, size=size,
                        op=op, ty=ty, a=a, b=b, s=s_, m1=m1, m2=m2))
    # planted: compared against OffLenResult(len, a, b + 1); 4 + 6 = 10 is Ok, 4 + 7 is Eof
    out.append(dict(plant=1, root=10, kind="scope", lo=0, len=10, off=0, cnt=0, stride=0, size=0, op="Offset",
                    ty="u8", a=4, b=6, s=1, m1=1, m2=0))
    return out


MIRRORS = [
    dict(id="mirror.BinaryReader", group="BinaryReader", module="Mirror_BinaryReader", sampler=sample_binaryreader,
         quick=3000, thorough=20000, library="BinaryReader.tla",
         operators="IsHuge Mul Add Min2 OffLenResult SubScope DoOffset DoOffsetLength DoCtxtScope DoReadScope "
                   "DoReadArrayGen DoReadArrayUpto ItemPos Obj/Array + Apply as a step of PBinaryReader_apa!Next"),
]


def _run_mirror(ctx, mi):
    rnd = random.Random("%s/%s" % (ctx.seed, mi["id"]))
    recs = mi["sampler"](rnd, mi["quick"] if ctx.quick else mi["thorough"])
    for k, r in enumerate(recs):
        r["i"] = k + 1
    path = ctx.path(mi["id"] + ".args.ndjson")
    vlib.write_ndjson(path, recs)
    planted = [r["i"] for r in recs if r.get("plant")]
    t0 = time.time()
    res = vlib.run_tlc(ctx, "proofs/" + mi["module"], "proofs/" + mi["module"] + ".cfg", mi["id"], workers=1,
                       timeout=600, env_extra={"ARGS": path,
                                               "JAVA_TOOL_OPTIONS": "-Xss1g -Xmx3g -DTLA-Library=" + vlib.SPECS})
    mism = {}
    for x in res.printed.get("MISMATCH", []):
        d = json.loads(x) if isinstance(x, str) else x
        mism.setdefault((d["i"], d["what"]), d)
    real = [d for d in mism.values() if not d.get("plant")]
    hit = sorted({d["i"] for d in mism.values() if d.get("plant")})
    return dict(id=mi["id"], group=mi["group"], module=mi["module"], library=mi["library"], operators=mi["operators"],
                samples=len(recs) - len(planted), planted=len(planted), planted_reported=len(hit),
                mismatches=len(real), first_mismatches=real[:5], states=res.distinct, wall_s=round(time.time() - t0, 1),
                sample=recs[0])


# ------------------------------------------------------------------------------------------------------------

def run(ctx):
    obs = [o for o in OBLIGATIONS if ctx.tier == "thorough" or o["tier"] == "quick"]
    skipped = [o["id"] for o in OBLIGATIONS if o not in obs]
    ctx.note("%d tool runs (%d lemma sets, %d planted), %d mirror checks" % (
        len(obs), sum(1 for o in obs if o["expect"] == "proved"), sum(1 for o in obs if o["expect"] == "refuted"),
        len(MIRRORS)))
    results, mirrors, errors = [], [], []
    with concurrent.futures.ThreadPoolExecutor(max_workers=4) as ex:
        futs = {ex.submit(_run_ob, ctx, o): o for o in sorted(obs, key=lambda o: -o["exp"])}
        mfuts = {ex.submit(_run_mirror, ctx, m): m for m in MIRRORS}
        for f in concurrent.futures.as_completed(list(futs) + list(mfuts)):
            if f in futs:
                r = f.result()
                results.append(r)
                ctx.note("%-9s %-28s %-8s (expected %s) %.1fs" % (r["tool"], r["id"], r["result"], r["expect"],
                                                                  r["wall_s"]))
            else:
                try:
                    m = f.result()
                    mirrors.append(m)
                    ctx.note("mirror    %-28s %d samples, %d mismatches, planted %d/%d, %.1fs" % (
                        m["id"], m["samples"], m["mismatches"], m["planted_reported"], m["planted"], m["wall_s"]))
                except vlib.ToolError as e:
                    errors.append("mirror %s: %s" % (mfuts[f]["id"], str(e)[:1500]))
    results.sort(key=lambda r: [o["id"] for o in OBLIGATIONS].index(r["id"]))
    mirrors.sort(key=lambda m: m["id"])
    lemma = [r for r in results if r["expect"] == "proved"]
    planted = [r for r in results if r["expect"] == "refuted"]
    for r in results:
        if r["result"] != r["expect"]:
            errors.append("%s %s: expected %s, got %s after %.1fs (limit %ss): %s\n%s" % (
                r["tool"], r["id"], r["expect"], r["result"], r["wall_s"], r["timeout_s"], r["cmd"], r.get("tail", "")))
    for m in mirrors:
        if m["mismatches"]:
            errors.append("mirror %s: proof module and %s differ: %s" % (m["id"], m["library"],
                                                                         vlib.short(m["first_mismatches"], 800)))
        if m["planted_reported"] != m["planted"] or m["planted"] == 0:
            errors.append("mirror %s: planted record not reported (%d of %d)" % (m["id"], m["planted_reported"],
                                                                              m["planted"]))
        if m["samples"] < 1000:
            errors.append("mirror %s: only %d samples" % (m["id"], m["samples"]))
    groups = sorted({o["group"] for o in OBLIGATIONS})
    coverage = {
        "obligations": len(lemma),
        "discharged": sum(1 for r in lemma if r["result"] == "proved"),
        "checker_cmd": "apalache-mc check --length=0|1 [--cinit=CInit] --init=<Init|IndInit> --inv=<lemmas> "
                       "specs/proofs/P<Module>_apa.tla ; tlapm --cleanfp -I specs/proofs specs/proofs/P<Module>_tlaps.tla ; "
                       "tlc -config specs/proofs/Mirror_<Module>.cfg specs/proofs/Mirror_<Module>.tla (ARGS=<samples>)",
        "trusted_base": TRUSTED,
        "samples": lemma,
        "planted_false_statements": len(planted),
        "planted_refuted": sum(1 for r in planted if r["result"] == "refuted"),
        "planted": planted,
        "tlapm_obligations_proved": sum(r.get("tlapm_obligations", 0) for r in lemma),
        "apalache_invariants_proved": sum(len(r["invariants"].split(",")) for r in lemma
                                          if r["tool"] == "apalache" and r["result"] == "proved"),
        "mirror_checks": mirrors,
        "mirror_samples": sum(m["samples"] for m in mirrors),
        "mirror_mismatches": sum(m["mismatches"] for m in mirrors),
        "per_group": {g: {"run": sum(1 for r in lemma if r["group"] == g),
                          "discharged": sum(1 for r in lemma if r["group"] == g and r["result"] == "proved")}
                      for g in groups},
        "not_run_in_this_tier": skipped,
        "not_attempted_or_dropped": DROPPED,
        "exhaustive": False,
    }
    vlib.finish(ctx, LEVEL, coverage, [], ASSUMPTIONS, tool_error="\n".join(errors) if errors else None)


def replay(ctx, path):
    print("X04 has no replay files: it never reports a violation of /repo")
    return 2
