"""X10 (extra) - cluster reordering and feature tagging of the Khmer and Myanmar shapers.

What happens to ONE cluster after segmentation (X07) and before / while GSUB runs: Khmer split-vowel
decomposition, dotted circle, COENG RO and pre-base vowel reordering, pref / blwf / abvf / pstf / cfar masks;
Myanmar base, kinzi, medial RA, pre-base vowel, anusvara / below-base vowel positions, stage order.

spec -> impl : TLC explores MC_Reorder: every cluster of the bounded cluster structure, one rule of the
               small-step machine per step; in the final state machine = closed form (every Dev_ reading), the
               result is a permutation that keeps the order of everything not moved, design lemmas.  It prints the
               FONTs (features, lookup order, glyph states), the ALPHAbets and one CASE per cluster.  The harness
               encodes the fonts into real GSUB tables, shapes every case through Font::map_glyphs + Font::shape
               and compares (character, state) per glyph with the expectation by equality.
impl -> spec : seeded random texts (cluster-shaped and arbitrary, several clusters) on the specification's fonts
               and on the repository's Khmer / Myanmar fonts are recorded and judged by Trace_Reorder; cluster
               boundaries come from the cfg(allsorts_verif) segmentation hooks and are an input.
"""
import json

import vlib
from vlib import Violation

LEVEL = "model_checking"

ASSUMPTIONS = [
    "cluster boundaries are an input (X07's subject): generated cases the real segmentation does not treat as one "
    "cluster are counted, not compared; the judge takes the clusters from the verif_syllables hooks",
    "the shapers are observed through the specification's fonts (Reorder!KFontDesc / MFontDesc, single substitutions "
    "that record on every glyph which features fired / how many stages fired in order)",
    "Dev_MatraVsRo, Dev_MoreLeftMatras, Dev_PrefKeepsPostBase, Dev_PstfScope (Khmer): every reading accepted, one per cluster",
    "Dev_SimpleClusterCircle (Myanmar): a 'broken' cluster without any sign with or without dotted circle (X07's finding, "
    "not judged again); Dev_OrphanOrder: a gathered run of several glyphs outside the grammar in any order",
    "repository fonts: their GSUB merges, repeats and reorders glyphs; only the set of characters is judged there",
    "variation selectors are absorbed by Font::map_glyphs and never reach the shaper through the public path: the "
    "variation-selector rule of the Myanmar position machine is specified and model-checked but not bound",
]


def _hex(cps):
    return " ".join("%04X" % c for c in cps)


def _panic_class(msg):
    import re
    m = msg.rsplit(" @ ", 1)
    loc = m[1] if len(m) > 1 else ""
    f = loc.rsplit(":", 1)[0].rsplit("/src/", 1)[-1]
    return re.sub(r"\d+", "N", m[0])[:50].replace(" ", "_") + "@" + f


def _key(m):
    k = "|".join(m["key"])
    if len(m["key"]) >= 2 and m["key"][1] == "panic":
        k += "|" + _panic_class(m.get("panic", ""))
    return k


def _what(m, key, src):
    return ("%s (%s): %s font %s run [%s] clusters %s: shaped [%s]%s%s" %
            (key, src, m["f"], m["font"], _hex(m["run"]), json.dumps(m["seg"], separators=(",", ":")),
             " ".join("%04X:%d" % (c, s) for c, s in m["out"]),
             (" ERR " + m["err"]) if m.get("err") else "", (" PANIC " + m["panic"]) if m.get("panic") else ""))


def _gen_spec(ctx, cfg, want_cases, timeout):
    """Run MC_Reorder; returns (TlcResult, n_cases, samples). Writes spec.ndjson (+ cases.ndjson)."""
    spec_path, cases_path = ctx.path("spec.ndjson"), ctx.path("cases.ndjson")
    n = [0]
    samples = {"khmer": [], "myanmar": []}
    seen_spec = set()
    with open(spec_path, "w") as fs, open(cases_path, "w") as fc:
        def sink(tag, payload):
            if tag in ("FONT", "ALPHA"):
                if payload not in seen_spec:
                    seen_spec.add(payload)
                    fs.write(payload + "\n")
            elif tag == "CASE" and want_cases:
                fc.write(payload + "\n")
                n[0] += 1
                if n[0] % 211 == 0:
                    c = json.loads(payload)
                    ids = [p[0] for p in c["e"]]
                    plantable = ("Split" not in c["r"] and all(i > 0 for i in ids) and "ZWJ" not in c["r"]
                                 and "ZWNJ" not in c["r"])
                    if len(ids) >= 4 and ids != sorted(ids) and \
                            (len(samples[c["f"]]) < 2 or (plantable and not any(x.get("_p") for x in samples[c["f"]]))):
                        c["_p"] = plantable
                        samples[c["f"]].append(c)
        mc = vlib.run_tlc(ctx, "MC_Reorder", cfg, "mc", workers=6, timeout=timeout, sink=sink)
    if len(seen_spec) != 3:
        raise vlib.ToolError("MC_Reorder printed %d FONT / ALPHA lines, expected 3" % len(seen_spec))
    return mc, n[0], samples


def _ev(i, case, c, text, out):
    """A planted event on the specification's font: text of one cluster, given output."""
    return {"i": i, "case": case, "ev": "Shape",
            "a": {"f": c["f"], "font": "spec", "text": text, "run": text, "seg": [[list(range(1, len(text) + 1)), "valid"]]},
            "o": {"out": out, "err": "", "panic": ""}}


def run(ctx):
    binp = vlib.build_harness("x10_reorder")
    # ---- spec -> impl -------------------------------------------------------------------------
    cfg = "MC_Reorder_quick.cfg" if ctx.quick else "MC_Reorder_thorough.cfg"
    mc, n_cases, samples = _gen_spec(ctx, cfg, True, 400 if ctx.quick else 1500)
    if n_cases == 0 or not samples["khmer"] or not samples["myanmar"]:
        raise vlib.ToolError("no CASE lines (or no reordering sample) generated")
    ctx.note("MC_Reorder: %d states generated, %d distinct, depth %d, %d cases (%.1fs)" %
             (mc.generated, mc.distinct, mc.depth, n_cases, mc.wall))
    cases_path = ctx.path("cases.ndjson")
    # binding self-check (spec -> impl): a case whose expectation has two glyphs swapped must be reported
    pk = samples["khmer"][0]
    bad = {"f": pk["f"], "r": pk["r"], "e": [pk["e"][1], pk["e"][0]] + pk["e"][2:], "x": [], "id": "selftest-corrupt"}
    with open(cases_path, "a") as fc:
        fc.write(json.dumps(bad) + "\n")
    variants = 2 if ctx.quick else 3
    mm_path = ctx.path("replay_mismatches.ndjson")
    rep = vlib.run_harness(binp, ["replay", ctx.path("spec.ndjson"), cases_path, mm_path, variants], timeout=1500)
    ctx.note("replay: %s" % json.dumps({k: rep[k] for k in ("cases", "runs", "ok_primary", "ok_dev_reading", "mismatches",
                                                            "not_one_cluster", "panics", "glyphs")}))
    gen_mism, planted_seen = [], False
    for m in vlib.read_ndjson(mm_path):
        if m.get("id") == "selftest-corrupt":
            planted_seen = True
        else:
            gen_mism.append(m)
    if not planted_seen:
        raise vlib.ToolError("binding self-check failed: the harness accepted a corrupted generated case")

    # ---- impl -> spec -------------------------------------------------------------------------
    per_fam = 3000 if ctx.quick else 20000
    trace = ctx.path("trace.ndjson")
    rec = vlib.run_harness(binp, ["record", ctx.path("spec.ndjson"), ctx.seed, per_fam, trace], timeout=1500)
    ctx.note("record: %s" % json.dumps(rec))
    # binding self-check (impl -> spec), independent of what allsorts did: the expectation TLC printed for a generated
    # case must be accepted by the judge; corruptions of it must be rejected
    alpha = None
    for ln in open(ctx.path("spec.ndjson")):
        v = json.loads(ln)
        if "fam" not in v:
            alpha = v
    planted = []
    for fam in ("khmer", "myanmar"):
        c = next((s for s in samples[fam] if s.get("_p")), None)
        if c is None:
            raise vlib.ToolError("no plantable %s sample among the generated cases" % fam)
        text = [alpha[fam][cl][0] for cl in c["r"]]
        good = [[text[p[0] - 1], p[1]] for p in c["e"]]
        k = next(i for i in range(len(good) - 1) if good[i] != good[i + 1])
        sw = list(good)
        sw[k], sw[k + 1] = sw[k + 1], sw[k]
        st = [list(x) for x in good]
        st[0][1] = 3 if fam == "myanmar" else (st[0][1] ^ 2)
        base = 10 ** 8 + (0 if fam == "khmer" else 10)
        planted += [_ev(base, "selftest-good-" + fam, c, text, good), _ev(base + 1, "selftest-swapped-" + fam, c, text, sw),
                    _ev(base + 2, "selftest-state-" + fam, c, text, st), _ev(base + 3, "selftest-dropped-" + fam, c, text, good[1:])]
    extra = []
    for k, m in enumerate(gen_mism):
        e = {kk: m[kk] for kk in ("ev", "a", "o")}
        e["i"] = 2 * 10 ** 8 + k
        e["case"] = "generated-%d" % k
        extra.append(e)
    with open(trace, "a") as f:
        for x in planted + extra:
            f.write(json.dumps(x, separators=(",", ":")) + "\n")
    total, mism = vlib.judge_trace_parallel(ctx, "Trace_Reorder", "Trace_Reorder.cfg", trace, "judge", parts=4, timeout=1500)
    ctx.note("judge: %d events, %d not conformant" % (total, len(mism)))
    if total != rec["events"] + len(planted) + len(extra):
        raise vlib.ToolError("judge consumed %d events, trace has %d" % (total, rec["events"] + len(planted) + len(extra)))

    by_key, rejected, judged_extra, n_rec_mism = {}, set(), set(), 0
    for m in mism:
        case = m["case"]
        if case.startswith("selftest-"):
            rejected.add(case)
            continue
        if case.startswith("generated-"):
            judged_extra.add(case)
            src = "generated"
        else:
            n_rec_mism += 1
            src = "recorded"
        key = _key(m)
        old = by_key.get(key)
        if old is None or len(m["run"]) < len(old[1]["run"]):
            by_key[key] = (src, m)
    need = {"selftest-%s-%s" % (k, f) for k in ("swapped", "state", "dropped") for f in ("khmer", "myanmar")}
    if rejected != need:
        raise vlib.ToolError("binding self-check failed: Trace_Reorder must accept the generated expectations and reject "
                             "their corruptions; rejected: %s" % sorted(rejected))
    violations = []
    for k, m in enumerate(gen_mism):
        if "generated-%d" % k not in judged_extra:
            # MC_Reorder and Trace_Reorder disagree, or the generated text was changed by preprocessing
            violations.append(Violation("%s|generated|exact-order" % m["a"]["f"],
                                        "generated cluster %s text [%s]: shaped [%s] differs from the exact expectation [%s] (the judge "
                                        "accepts it only under Dev_OrphanOrder, which is not meant for clusters of the documented structure)"
                                        % (json.dumps(m["r"]), _hex(m["a"]["text"]),
                                           " ".join("%04X:%d" % (c, s) for c, s in m["o"]["out"]),
                                           " ".join("%04X:%d" % (c, s) for c, s in m["want"])),
                                        {"f": m["a"]["f"], "text": m["a"]["text"]}))
    for key, (src, m) in sorted(by_key.items()):
        violations.append(Violation(key, _what(m, key, src), {"source": src, "f": m["f"], "text": m["text"], "key": key}))

    # ---- vacuity (from generated data only) ------------------------------------------------------
    cnt = rep.get("counters") or {}
    if not violations:
        for k in ("khmer|circle", "khmer|split", "khmer|reordered", "khmer|dev_readings_differ", "khmer|has|VPre", "khmer|has|Ra",
                  "myanmar|circle", "myanmar|kinzi", "myanmar|reordered", "myanmar|has|MR", "myanmar|has|VPre", "myanmar|has|A",
                  "myanmar|has|VBlw"):
            if cnt.get(k, 0) < 50:
                raise vlib.ToolError("vacuous exploration: counter %s = %s" % (k, cnt.get(k, 0)))
        if rep["not_one_cluster"] * 20 > rep["runs"]:
            raise vlib.ToolError("more than 5%% of the generated clusters are segmented differently by allsorts (%d of %d)"
                                 % (rep["not_one_cluster"], rep["runs"]))

    coverage = {
        "states": mc.distinct,
        "transitions": mc.generated,
        "traces_validated_against_impl": rep["runs"] + rec["events"],
        "samples": [{k: v for k, v in c.items() if k != "_p"} for c in samples["khmer"][:1] + samples["myanmar"][:1]],
        "generated_cases": n_cases,
        "generated_cases_per_family": rep.get("per_family"),
        "replayed_runs": rep["runs"],
        "replay_variants": variants,
        "generated_ok_primary_reading": rep["ok_primary"],
        "generated_ok_dev_reading": rep["ok_dev_reading"],
        "generated_mismatches": len(gen_mism),
        "generated_not_one_cluster": rep["not_one_cluster"],
        "generated_counters": cnt,
        "recorded_events_judged": rec["events"],
        "recorded_repository_font_events": rec.get("repo_font_events"),
        "recorded_clusters": rec.get("clusters"),
        "recorded_not_conformant": n_rec_mism,
        "recorded_panics": rec.get("panics"),
        "recorded_shape_errors": rec.get("shape_errors"),
        "font_glyphs": rep.get("glyphs"),
        "tlc_depth": mc.depth,
        "binding_selfcheck": "a generated case with two glyphs swapped is reported by the harness; the judge accepts a generated "
                             "expectation per family and rejects three corruptions of each (glyphs swapped, state changed, glyph dropped)",
        "exhaustive": True,
        "explanation": "exhaustive over the bounded cluster structure (config %s); recorded traces are random samples" % cfg,
    }
    vlib.finish(ctx, LEVEL, coverage, violations, ASSUMPTIONS)


def replay(ctx, path):
    d = json.load(open(path))["detail"]
    binp = vlib.build_harness("x10_reorder")
    _gen_spec(ctx, "MC_Reorder_font.cfg", False, 300)
    trace = ctx.path("one_trace.ndjson")
    vlib.run_harness(binp, ["one", ctx.path("spec.ndjson"), d["f"], trace] + ["%X" % c for c in d["text"]])
    _, mism = vlib.judge_trace(ctx, "Trace_Reorder", "Trace_Reorder.cfg", trace, "replayjudge")
    for m in mism:
        print("REPRODUCED " + _what(m, _key(m), "replay"))
    if not mism:
        print("not reproduced: %s text [%s] conforms" % (d["f"], _hex(d["text"])))
    return 1 if mism else 0
