"""C04 - glyph substitution follows OpenType GSUB lookup semantics.

spec -> impl : TLC explores MC_Gsub (program templates x glyph strings) as a small-step machine (one run
               position per step = one iteration of the loop in gsub_apply_lookup), checks the design invariants
               (cursor in run, characters conserved, flags sane, programs well formed, termination measure,
               small-step = denotation) and prints the programs (PROG) and one CASE per (program, string) with
               the run after every lookup under each conformant reading of the named Dev_ choices, plus the runs
               of the known NON-conformant reading (mark filtering set hides non-marks) used only to give that
               finding a stable key.  The harness encodes every program into real GDEF + GSUB bytes and replays
               every case on gsub_apply_lookup (lookup by lookup), gsub::apply with Features::Custom and
               Features::Mask, and Font::shape on a whole synthesized font.
impl -> spec : random programs on random strings, and programs extracted from repository fonts (tests/fonts and
               tests/aots) by an independent GSUB/GDEF reader on strings that make their rules fire, are recorded
               (abstract program, input, projected run allsorts returned) and judged by Trace_Gsub, which
               recomputes the denotation.
"""
import json

import vlib
from vlib import Violation

LEVEL = "model_checking"

ASSUMPTIONS = [
    "the harness' own encoder (c04_gsub/enc.rs) writes the tables the abstract program describes and its own "
    "reader (c04_gsub/extract.rs) reads repository fonts into the same abstract form; allsorts reads the bytes "
    "with its production readers (LayoutTable::<GSUB>::read, GDEFTable, Font::new)",
    "script latn / DFLT with the default language system listing every feature (complex-script shapers reorder "
    "and mask features before calling the same lookup engine: engine covered here, script logic by C02/C17); no "
    "required feature; requested tags exclude rvrn, fina, vert, vrt2 (special-cased by gsub::apply)",
    "context nesting depth <= 3 (allsorts' SUBST_RECURSION_LIMIT; OpenType sets no limit), no reverse-chaining "
    "lookup nested in a context, lookup flags without reserved bits, substitutions stay inside the font's glyph range",
    "a lookup flag with markAttachmentType AND useMarkFilteringSet (OpenType states the filters separately and is "
    "silent on the combination) is accepted under three readings, Dev_MarkFilterPrecedence: both filters, the set "
    "alone (HarfBuzz), the attachment type alone (allsorts); ignoreMarks supersedes both",
    "where OpenType is silent one reading is fixed and documented in Gsub.tla (sequence index counted on the "
    "current run with the parent lookup's flag; cursor resumes after the matched input as changed by nested "
    "lookups; nested alternate lookup takes alternate 0); Dev_NestedSeqIdxFlag is accepted either way",
    "liga_component_pos is compared on glyphs GDEF classifies as marks only",
]

REQUIRED_TAGS = [
    "single-fmt1", "single-fmt2", "single-later-subtable", "multi-many", "multi-empty", "alt", "alt-out-of-range",
    "lig", "lig-skipping", "lig-one-component", "context-fmt1", "context-fmt2", "context-fmt3", "context-backtrack",
    "context-lookahead", "context-skipping", "context-length-change", "context-many-records", "nested-lig",
    "nested-multi-many", "nested-multi-empty", "nested-context", "nested-index-beyond-run", "nested-index-past-run-end",
    "context-shrunk-to-nothing", "context-shrunk-below-zero", "rev",
    "cursor-glyph-skipped", "context-ignore-rule", "context-later-subtable", "rev-later-subtable",
]
# program families the generator must produce (counted on TLC's PROG / CASE lines)
REQUIRED_FAMILIES = [
    "single", "multi", "alternate", "ligature", "context", "chain", "reverse", "ordering",
    "combo-single", "combo-ligature", "combo-chain", "combo-reverse", "reverse-two-subtables", "context-subtables",
    "chain-subtables", "ligature-successive", "pipeline-multi-chain-ligature", "pipeline-multi-reverse-ligature",
    "alternate-shared-lookups", "ordering-variations",
]
REQUIRED_STATS = [
    "cases_changing_the_run", "cases_with_several_conformant_outcomes", "cases_where_a_known_wrong_reading_differs",
    "cases_with_several_lookups", "cases_with_variation_tuple", "route_lookup", "route_custom", "route_mask",
    "route_shape",
]


def _got_class(got):
    """class of an observation: a run, an error or a panic"""
    if isinstance(got, list) and got and isinstance(got[-1], str):
        got = got[-1]
    if isinstance(got, str):
        return got[:80].replace(" ", "_")
    return "run-differs"


# a panic is keyed by its message class alone when the specification took the branch that names the situation
# in which allsorts is known to panic; any other panic of the same class carries the family it occurred in
PANIC_CAUSE = {
    "apply_subst_context:_len_<_N": "context-shrunk-below-zero",
    "index_out_of_bounds": "nested-index-past-run-end",
}


def _key(family, bug, got, causes=(), bugcauses=()):
    cls = _got_class(got)
    if bug:
        return "gsub|" + bug
    if cls.startswith("Panic:"):
        for needle, tag in PANIC_CAUSE.items():
            if needle in cls and tag in causes:
                return "gsub|panic|" + cls[6:]
        for needle, tag in PANIC_CAUSE.items():
            if needle in cls and tag in bugcauses:
                # the run reaches the known panic site only along the known wrong reading of the filtering set
                return "gsub|mfs-hides-non-marks+panic|" + cls[6:]
        return "gsub|panic|%s|unexplained:%s" % (cls[6:], family)
    if cls != "run-differs":
        return "gsub|error|%s|%s" % (family, cls)
    return "gsub|unexplained:%s" % family


def _glyphs(run):
    if isinstance(run, list):
        return [x["g"] if isinstance(x, dict) else x for x in run]
    return run


def run(ctx):
    binp = vlib.build_harness("c04_gsub")
    cfg = "MC_Gsub_quick.cfg" if ctx.quick else "MC_Gsub_thorough.cfg"
    prog_path, cases_path = ctx.path("progs.ndjson"), ctx.path("cases.ndjson")
    n_cases, n_prog = [0], [0]
    gen_stats = {"cases_with_three_or_more_conformant_outcomes": 0}
    samples, planted = [], []
    with open(prog_path, "w") as fp, open(cases_path, "w") as fc:
        def sink(tag, payload):
            if tag == "PROG":
                fp.write(payload + "\n")
                n_prog[0] += 1
            elif tag == "CASE":
                fc.write(payload + "\n")
                n_cases[0] += 1
                if '"alts":[]' not in payload and len(json.loads(payload)["alts"]) >= 2:
                    gen_stats["cases_with_three_or_more_conformant_outcomes"] += 1
                if len(samples) < 1 and '"lig-skipping"' in payload and len(payload) < 2500:
                    samples.append(payload)
                if not planted and '"lig"' in payload and '"alts":[]' in payload and '"bugs":[]' in payload:
                    planted.append(payload)
        mc = vlib.run_tlc(ctx, "MC_Gsub", cfg, "mc", workers=4, timeout=1800 if ctx.quick else 4500, sink=sink,
                          xmx="6g" if ctx.quick else "8g")
    ctx.note("MC_Gsub: %d states generated, %d distinct, depth %d, %d programs, %d cases (%.1fs)" %
             (mc.generated, mc.distinct, mc.depth, n_prog[0], n_cases[0], mc.wall))
    if n_cases[0] == 0 or n_prog[0] == 0:
        raise vlib.ToolError("no CASE/PROG lines generated")
    if not planted:
        raise vlib.ToolError("no ligature case generated: generator is vacuous")

    # binding self-check (spec -> impl): a case whose expectation was corrupted (ligature glyph changed by one,
    # LIGATURE flag dropped) must be reported by every route of the replay
    bad = json.loads(planted[0])
    bad["selftest"] = True
    hit = False
    for g in bad["steps"][-1]:
        if g["l"] == 1 and not hit:
            g["g"] += 1
            g["l"] = 0
            hit = True
    if not hit:
        raise vlib.ToolError("planted case has no ligature glyph")
    with open(cases_path, "a") as fc:
        fc.write(json.dumps(bad) + "\n")

    programs = {}
    for t in vlib.read_ndjson(prog_path):
        programs[t["p"]] = t
    families = {}
    for t in programs.values():
        families[t["name"]] = families.get(t["name"], 0) + 1
    missing = [f for f in REQUIRED_FAMILIES if f not in families]
    if missing:
        raise vlib.ToolError("vacuity: the generator produced no program of the families %s" % missing)
    if gen_stats["cases_with_three_or_more_conformant_outcomes"] == 0:
        raise vlib.ToolError("vacuity: no generated case tells the three readings of Dev_MarkFilterPrecedence apart")

    # spec -> impl
    mism_path = ctx.path("mismatches.ndjson")
    try:
        rep = vlib.run_harness(binp, ["replay", prog_path, cases_path, mism_path], timeout=1800, hang_path=mism_path + ".hang")
    except vlib.Hang as h:
        # Gsub.tla: every lookup application terminates (decreasing measure asserted in Next). A generated case allsorts
        # does not return from is a violation by itself; nothing after it can be run, so it is reported at once.
        c = json.loads(str(h))
        t = programs.get(c["p"], {})
        v = Violation("gsub|no-termination|%s" % t.get("name", "?"),
                      "generated %s: in=%s lookups %s: allsorts did not return within 120 s (the specification's run ends after "
                      "finitely many steps)" % (t.get("name", "?"), c["in"], c["order"]),
                      {"source": "generated", "stage": "hang", "p": c["p"], "name": t.get("name"), "n": t.get("n"),
                       "prog": t.get("prog"), "in": c["in"], "order": c["order"]})
        vlib.finish(ctx, LEVEL, {"states": mc.distinct, "transitions": mc.generated, "traces_validated_against_impl": 0,
                                 "samples": [json.loads(samples[0])] if samples else [c],
                                 "explanation": "replay stopped by the watchdog at a non-terminating case"}, [v], ASSUMPTIONS)
    ctx.note("replay: %s" % json.dumps({k: v for k, v in rep.items() if k != "tags"}))
    violations = []
    planted_stages = set()
    by_case = {}
    for m in vlib.read_ndjson(mism_path):
        by_case.setdefault(json.dumps([m["p"], m["in"], m.get("selftest")]), []).append(m)
    n_mism_cases = 0
    for ms in by_case.values():
        if ms[0].get("selftest"):
            planted_stages |= {m["stage"] for m in ms}
            continue
        n_mism_cases += 1
        # the routes normally fail alike: one violation per (case, key)
        seen = set()
        for m in ms:
            key = _key(m["name"], m.get("bug"), m["got"], m.get("tags") or [])
            if key in seen:
                continue
            seen.add(key)
            t = programs[m["p"]]
            what = "generated %s (route %s, all routes failing: %s): in=%s want %s got %s" % (
                m["name"], m["stage"], sorted({x["stage"] for x in ms}), m["in"],
                vlib.short(_glyphs(m["want"][-1] if m["stage"] == "lookup" and m["want"] else m["want"]), 160),
                vlib.short(_glyphs(m["got"][-1] if m["stage"] == "lookup" and m["got"] else m["got"]), 160))
            violations.append(Violation(key, what, {"source": "generated", "stage": m["stage"], "p": m["p"], "name": m["name"],
                                                    "n": t["n"], "prog": t["prog"], "in": m["in"], "order": m["order"],
                                                    "want": m["want"], "got": m["got"], "bug": m.get("bug")}))
    if planted_stages != {"lookup", "custom", "mask", "shape"}:
        raise vlib.ToolError("binding self-check failed: the corrupted expectation was reported by routes %s only" %
                             sorted(planted_stages))

    # impl -> spec
    n_rnd, n_str, n_fonts, n_words = (300, 10, 400, 6) if ctx.quick else (4000, 16, 400, 40)
    trace = ctx.path("trace.ndjson")
    rec = vlib.run_harness(binp, ["record", ctx.seed, n_rnd, n_str, trace, "--fonts", n_fonts, n_words], timeout=1800)
    ctx.note("record: %s" % json.dumps({k: v for k, v in rec.items() if k != "fonts_extracted"}))
    events = vlib.read_ndjson(trace)
    # binding self-check (impl -> spec): corrupted copies of recorded events, placed right behind the original
    # (an Apply event refers to the latest Prog event), must be rejected by the judge
    uses_mfs, cur = {}, None
    rec_stats = {"apply_events": 0, "changing_the_run": 0, "with_ligature": 0, "with_multi_subst_dup": 0,
                 "errors": 0, "real_font_apply_events": 0, "real_font_changing_the_run": 0}
    plant_after = {}
    for e in events:
        if e["ev"] == "Prog":
            cur = e
            uses_mfs[e["case"]] = any(l["flag"] & 0x10 for l in e["a"]["prog"]["lookups"])
            continue
        run_ = e["o"]["run"]
        real = e["case"].startswith("f")
        rec_stats["apply_events"] += 1
        rec_stats["real_font_apply_events"] += 1 if real else 0
        changed = [x["g"] for x in run_] != e["a"]["in"]
        rec_stats["changing_the_run"] += 1 if changed else 0
        rec_stats["real_font_changing_the_run"] += 1 if changed and real else 0
        rec_stats["with_ligature"] += 1 if any(x["l"] for x in run_) else 0
        rec_stats["with_multi_subst_dup"] += 1 if any(x["d"] for x in run_) else 0
        rec_stats["errors"] += 1 if e["o"]["err"] else 0
        if e["o"]["err"] or uses_mfs.get(e["case"]) or not changed:
            continue
        if "glyph" not in plant_after:
            b = json.loads(json.dumps(e))
            b["i"] = 10 ** 8 + 1
            b["o"]["run"][0]["g"] = (b["o"]["run"][0]["g"] + 1) % cur["a"]["n"]
            plant_after["glyph"] = (e["i"], b)
        if "chars" not in plant_after and any(x["l"] for x in run_):
            b = json.loads(json.dumps(e))
            b["i"] = 10 ** 8 + 2
            for x in b["o"]["run"]:
                if x["l"]:
                    x["c"] = x["c"][:-1]
                    break
            plant_after["chars"] = (e["i"], b)
    planted_ids = {b["i"] - 10 ** 8 for _, (_, b) in plant_after.items()}
    after = {}
    for _, (i, b) in plant_after.items():
        after.setdefault(i, []).append(b)
    with open(trace, "w") as f:
        for e in events:
            f.write(json.dumps(e, separators=(",", ":")) + "\n")
            for b in after.get(e["i"], []):
                f.write(json.dumps(b, separators=(",", ":")) + "\n")
    by_i = {e["i"]: e for e in events}
    prog_of, cur = {}, None
    for e in events:
        if e["ev"] == "Prog":
            cur = e
        else:
            prog_of[e["i"]] = cur
    other = {"UNMODELLED": []}
    total, mism = vlib.judge_trace_parallel(ctx, "Trace_Gsub", "Trace_Gsub.cfg", trace, "judge",
                                            parts=4 if ctx.quick else 6, other_tags=other)
    ctx.note("judge: %d events, %d mismatch lines, %d unmodelled" % (total, len(mism), len(other["UNMODELLED"])))
    seen_self = set()
    rec_seen = set()
    for m in sorted(mism, key=lambda m: m["i"]):
        if m["i"] > 10 ** 8:
            seen_self.add(m["i"] - 10 ** 8)
            continue
        e = by_i[m["i"]]
        pe = e if e["ev"] == "Prog" else prog_of[m["i"]]
        kind = pe["a"]["kind"]
        family = "recorded-" + (e["case"].split("-", 1)[1] if kind == "extracted" else kind)
        key = _key(family, m.get("bug"), m["got"], m.get("causes") or [], m.get("bugcauses") or [])
        if (e["case"], key) in rec_seen:
            continue
        rec_seen.add((e["case"], key))
        what = "recorded %s %s (route %s): in=%s want %s got %s" % (kind, e["case"], m["stage"], e["a"].get("in"),
                                                                   vlib.short(_glyphs(m["want"]), 160), vlib.short(_glyphs(m["got"]), 160))
        violations.append(Violation(key, what, {"source": "recorded", "stage": m["stage"], "case": e["case"], "seed": ctx.seed,
                                                "n": pe["a"]["n"], "prog": pe["a"]["prog"], "in": e["a"].get("in"),
                                                "want": m["want"], "got": m["got"], "bug": m.get("bug")}))
    if seen_self != planted_ids:
        raise vlib.ToolError("binding self-check failed: Trace_Gsub accepted a corrupted event (planted %s, rejected %s)" %
                             (sorted(planted_ids), sorted(seen_self)))
    unmodelled = {}
    for u in other["UNMODELLED"]:
        unmodelled[u["why"]] = unmodelled.get(u["why"], 0) + 1
    random_unmodelled = [u for u in other["UNMODELLED"] if u["case"].startswith("r") and "outside Gsub!WFProgram" in u["why"]]
    if random_unmodelled:
        raise vlib.ToolError("random generator produced programs outside Gsub!WFProgram: %s" % random_unmodelled[:3])

    stats, tags = rep.get("stats", {}), rep.get("tags", {})
    # vacuity guards protect the verdict "held": they are moot (and, being partly measured on what allsorts
    # returned, could mask the verdict) when a new violation is being reported anyway
    known = vlib.load_known(ctx.prop)
    if all(v.key in known for v in violations):
        for k in REQUIRED_STATS:
            if stats.get(k, 0) == 0:
                raise vlib.ToolError("vacuity: no generated case exercised %s" % k)
        for k in REQUIRED_TAGS:
            if tags.get(k, 0) == 0:
                raise vlib.ToolError("vacuity: no generated case took the branch %s of the specification" % k)
        if planted_ids != {1, 2}:
            raise vlib.ToolError("recorded trace is vacuous: no substitution / no ligature recorded to plant a corrupted copy of")
        if rec_stats["real_font_changing_the_run"] == 0 or rec_stats["with_multi_subst_dup"] == 0 or rec_stats["with_ligature"] == 0:
            raise vlib.ToolError("vacuity: recorded trace never changed a real font's run / never multiplied a glyph / "
                                 "never formed a ligature")

    routes = sum(stats.get(k, 0) for k in ("route_lookup", "route_custom", "route_mask", "route_shape"))
    coverage = {
        "states": mc.distinct,
        "transitions": mc.generated,
        "evaluations": n_cases[0] + rec_stats["apply_events"],
        "distinct_nontrivial": stats.get("cases_changing_the_run", 0),
        "rule": "one case per (program template, glyph string) of the bounded model, all distinct; non-trivial = the "
                "specification expects the run to change (recorded events are counted in evaluations only)",
        "impl_executions": routes + rec_stats["apply_events"],
        "traces_validated_against_impl": n_cases[0] + rec_stats["apply_events"],
        "samples": [json.loads(s) for s in samples[:1]] +
                   [{k: e[k] for k in ("i", "case", "ev", "a", "o")} for e in events if e["ev"] == "Apply" and len(e["a"]["in"]) > 2][:1],
        "generated_programs": n_prog[0],
        "generated_program_families": families,
        "generated_reading_stats": gen_stats,
        "generated_cases": n_cases[0],
        "generated_cases_with_mismatch": n_mism_cases,
        "table_bytes_encoded": rep.get("table_bytes_encoded", 0),
        "recorded_events_judged": total,
        "recorded": rec_stats,
        "recorded_program_kinds": rec.get("kinds", {}),
        "recorded_fonts_extracted": len(rec.get("fonts_extracted", [])),
        "recorded_fonts_skipped": rec.get("fonts_skipped", {}),
        "recorded_unmodelled": unmodelled,
        "vacuity": stats,
        "spec_branches_taken": tags,
        "tlc_states_generated": mc.generated,
        "binding_selfcheck": "corrupted generated expectation reported by all four routes of the replay; corrupted glyph "
                             "and corrupted ligature characters events rejected by Trace_Gsub",
        "exhaustive": True,
        "explanation": "exhaustive over the bounded model (config %s: every template x every string over the template's "
                       "alphabet up to its length bound); recorded traces are random / real-font samples" % cfg,
    }
    vlib.finish(ctx, LEVEL, coverage, violations, ASSUMPTIONS)


def replay(ctx, path):
    d = json.load(open(path))["detail"]
    binp = vlib.build_harness("c04_gsub")
    if d["source"] == "generated":
        pp, cp, mp = ctx.path("p.ndjson"), ctx.path("c.ndjson"), ctx.path("m.ndjson")
        vlib.write_ndjson(pp, [{"p": d["p"], "name": d["name"], "n": d["n"], "prog": d["prog"]}])
        if d["stage"] == "hang":
            steps = []
        elif d["stage"] == "lookup":
            steps = d["want"]
        else:
            # expectation of a whole-run route: the final run (the replay compares the last step only)
            steps = [d["want"]] if d["order"] else []
        vlib.write_ndjson(cp, [{"p": d["p"], "in": d["in"], "order": d["order"] if d["stage"] in ("lookup", "hang") else d["order"][:1],
                                "steps": steps, "alts": [], "bugs": [], "tags": []}])
        try:
            rep = vlib.run_harness(binp, ["replay", pp, cp, mp], hang_path=mp + ".hang")
        except vlib.Hang as h:
            print("REPRODUCED hang: allsorts did not return within 120 s on %s" % str(h)[:300])
            return 1
        if d["stage"] == "hang":
            print("not reproduced: the case now terminates")
            return 0
        hit = 0
        for m in vlib.read_ndjson(mp):
            if m["stage"] == d["stage"]:
                hit += 1
                print("REPRODUCED %s want=%s got=%s" % (m["stage"], vlib.short(_glyphs(m["want"]), 300), vlib.short(_glyphs(m["got"]), 300)))
        print(json.dumps({k: v for k, v in rep.items() if k != "tags"}))
        return 1 if hit else 0
    # recorded: run the program once more (tables re-encoded by the harness) and show what allsorts returns
    pj = ctx.path("prog.json")
    with open(pj, "w") as f:
        json.dump({"prog": d["prog"], "n": d["n"], "p": 0}, f)
    import subprocess
    out = subprocess.run([binp, "one", pj, ",".join(str(g) for g in d["in"])], stdout=subprocess.PIPE, text=True).stdout
    print(out)
    want = json.dumps(d["want"], sort_keys=True)
    hit = 0
    for ln in out.splitlines():
        route, _, val = ln.partition(" ")
        try:
            got = json.loads(val.strip())
        except Exception:
            got = val.strip()
        if json.dumps(got, sort_keys=True) != want:
            hit += 1
            print("REPRODUCED %s want=%s got=%s" % (route, vlib.short(_glyphs(d["want"]), 300), vlib.short(_glyphs(got), 300)))
    return 1 if hit else 0
