"""C10 - OpenType, collection and WOFF containers yield exactly the stored tables.

spec -> impl : MC_Sfnt: the TLA+ writer lays out every small container (sfnt / TTC with shared
               tables / WOFF with stored-block zlib streams), the TLA+ reader prescribes what each
               query returns, TLC checks RoundTrip (reader o writer = identity) and prints the file
               bytes + expectations; the harness feeds the bytes to allsorts.
impl -> spec : repository fonts re-wrapped by the harness (random directory orders, gaps, sharing,
               real zlib at random levels) and the WOFF fixtures; every answer of allsorts is
               recorded as a digest and judged by Trace_Sfnt.
Both flate2 back ends of allsorts are exercised (two harness builds).
"""
import json

import vlib
from vlib import Violation

LEVEL = "model_checking"

ASSUMPTIONS = [
    "generated containers are small (<= 3 tables of <= 5 bytes, <= 3 members); zlib streams in generated WOFF files "
    "are single stored blocks (what TLA+ can express exactly); real deflate streams come from the recorded direction",
    "recorded answers are compared through a 64-bit FNV digest + length of the returned bytes",
    "an error is an error: the kind of error allsorts reports is not constrained by the property",
    "a bare sfnt / WOFF answers any member index with its single font (property speaks of collections only)",
]


def _key_gen(m):
    # first differing place between want and got; the route (which API of allsorts was asked) is part of the key
    # except for the FontData route, whose keys are those of the earlier rounds
    w, g = m["want"], m["got"]
    pre = "gen" if m.get("route", "fontdata") == "fontdata" else "gen-" + m["route"]
    if "panic" in g:
        return "%s|%s|%s|panic" % (pre, m["kind"], m["damage"])
    if w.get("load") != g.get("load") or w.get("kind") != g.get("kind"):
        return "%s|%s|%s|load" % (pre, m["kind"], m["damage"])
    for a, b in zip(w["members"], g["members"]):
        for f in ("ok", "flavor", "tags", "has", "data"):
            if a.get(f) != b.get(f):
                return "%s|%s|%s|member.%s" % (pre, m["kind"], m["damage"], f)
    if w.get("far") != g.get("far"):
        # a member index far beyond the collection (MC_Sfnt!FarIdx) was answered differently
        return "%s|%s|%s|far-member-index" % (pre, m["kind"], m["damage"])
    return "%s|%s|%s|members" % (pre, m["kind"], m["damage"])


# Families of layout / form that MC_Sfnt must have generated (MC_Sfnt!Variant, counted by the replay over the CASE lines
# it was given - TLC's output, not allsorts' answers).
REQUIRED_VARIANTS = (
    ["ttc:%s" % l for l in ("after", "before", "split", "tail", "revdirs", "inter")]
    + ["ttc:%s" % h for h in ("v1", "v2null", "v2dsig")] + ["ttc:shared", "ttc:real", "sfnt:real", "sfnt:plain"]
    + ["woff:%s" % v for v in ("z0", "zhdr", "zsplit", "none", "meta", "metapriv", "priv", "real")]
)


# Size classes the synthesized WOFF containers of the record mode must contain.  They are counted by the
# harness over its own inputs (sizes of the tables it built and of the streams it stored), never over what
# allsorts returned.
REQUIRED_CLASSES = (
    ["woff:comp=%d" % n for n in (32767, 32768, 32769, 65535, 65536, 65537, 131072, 131073, 262144)]
    + ["woff:comp>=262146", "woff:comp=2..32766"]
    + ["woff:orig=%d" % n for n in (0, 1, 32767, 32768, 32769, 65535, 65536, 65537, 131072, 262144, 262145)]
    + ["woff:orig>=262146"]
    + ["woff:how:zlib-%d:comp%s32768" % (l, side) for l in range(10) for side in ("<=", ">")]
    + ["woff:how:zlib-%d:comp>65536" % l for l in (1, 5, 9)]
    + ["woff:how:raw", "woff:how:blocks-65535", "woff:how:blocks-1", "woff:how:blocks-32768"]
    + ["woff:comp<orig:comp>32768", "woff:comp<orig:comp>65536", "woff:comp<orig:comp<=32768", "woff:comp>orig"]
    + ["woff:data:%s:comp>32768" % d for d in ("rand", "rand+zeros", "text", "period32768", "period32769")]
    + ["woff:data:%s:comp<=32768" % d for d in ("zeros", "period7", "period258", "text", "rand", "empty")]
    + ["woff:data:zlib-stream", "sfnt:orig>=262146", "ttc:orig>=262146"]
    # physical layouts of recorded collections (header / data / offset tables and the other orders), header forms,
    # shared offset tables, mixed flavours; optional WOFF blocks
    + ["ttc:lay:%s:hdr:%s" % (l, h) for l in ("after", "before", "split", "tail", "revdirs", "inter", "random")
       for h in ("v1", "v2null", "v2dsig")]
    + ["ttc:fields:real", "ttc:fields:zero", "ttc:shared-offset-table", "ttc:mixed-flavours"]
    + ["ttc:members:%d" % n for n in (1, 2, 3, 4)] + ["woff:ext:0", "woff:ext:1", "woff:ext:2", "woff:ext:3"]
)

SELF_REJECT = {("selftest-digest", "Query"), ("selftest-length", "Query"), ("selftest-beyond", "Provider"),
               ("selftest-beyond", "Query"), ("selftest-absent", "Query")}


def _plant(trace):
    """Binding self-check events, derived from Container events only (what the harness wrapped - its input),
    never from an answer of allsorts: the answer Trace_Sfnt prescribes with one digest limb / the length
    changed, a font handed out for a member index beyond the end of a collection (and a query on it), an
    absent tag answered with data; and the prescribed answers themselves, which must be accepted."""
    woff = ttc = None
    with open(trace) as f:
        for ln in f:
            if '"ev":"Container"' not in ln:
                continue
            e = json.loads(ln)
            ms = e["a"]["members"]
            if woff is None and e["a"]["kind"] == "woff" and ms and ms[0]["dir"]:
                woff = e
            if ttc is None and e["a"]["kind"] == "ttc" and ms and ms[0]["dir"]:
                ttc = e
            if woff is not None and ttc is not None:
                break
    if woff is None or ttc is None:
        raise vlib.ToolError("the harness recorded no WOFF / no collection container to plant the self-check on")
    out = []

    def group(case, cont, evs):
        c = json.loads(json.dumps(cont))
        c["case"] = case
        c["a"]["extra"] = {}
        out.append(c)
        for ev, a, o in evs:
            out.append({"case": case, "ev": ev, "a": a, "o": o})

    def answer(cont, member):
        d = cont["a"]["members"][member]["dir"][0]
        dg = list(cont["a"]["digests"][d["tid"] - 1])
        return d["tag"], {"ok": True, "some": True, "digest": dg, "has": True}
    tag, good = answer(woff, 0)
    bad_digest = json.loads(json.dumps(good))
    bad_digest["digest"][2] = (bad_digest["digest"][2] + 1) % 65536
    bad_len = json.loads(json.dumps(good))
    bad_len["digest"][0] = (bad_len["digest"][0] + 65535) % 65536          # one byte short
    group("selftest-digest", woff, [("Query", {"member": 0, "tag": tag}, bad_digest)])
    group("selftest-length", woff, [("Query", {"member": 0, "tag": tag}, bad_len)])
    group("selftest-absent", woff, [("Query", {"member": 0, "tag": [122, 122, 90, 90]}, good)])
    n = len(ttc["a"]["members"])
    m0 = ttc["a"]["members"][0]
    ttag, tgood = answer(ttc, 0)
    prov0 = {"ok": True, "flavor": m0["flavor"], "tags": [d["tag"] for d in m0["dir"]]}
    group("selftest-beyond", ttc, [("Provider", {"member": n}, prov0), ("Query", {"member": n, "tag": ttag}, tgood)])
    group("selftest-accept", woff, [("Load", {}, {"ok": True, "kind": "woff"}),
                                    ("Query", {"member": 0, "tag": tag}, good),
                                    ("Query", {"member": 0, "tag": [122, 122, 90, 90]},
                                     {"ok": True, "some": False, "digest": [], "has": False})])
    group("selftest-accept", ttc, [("Load", {}, {"ok": True, "kind": "ttc"}), ("Provider", {"member": 0}, prov0),
                                   ("Query", {"member": 0, "tag": ttag}, tgood),
                                   ("Provider", {"member": n}, {"ok": False, "flavor": [], "tags": []})])
    for k, x in enumerate(out):
        x["i"] = 10 ** 8 + k
    return out


def _key_rec(m, backend, wrap):
    got, want = m["got"], m["want"]
    if "panic" in got:
        cls = "panic"
    elif not got.get("ok"):
        cls = "err"
    elif m["ev"] == "Query":
        if not want.get("ok"):
            cls = "answered-for-absent-member"
        elif got.get("some") != want.get("some"):
            cls = "data-for-absent-tag" if got.get("some") else "stored-table-absent"
        elif got.get("digest", [])[:2] != want.get("digest", [])[:2]:
            cls = "length"
        elif got.get("digest") != want.get("digest"):
            cls = "bytes"
        else:
            cls = "has_table"
    elif m["ev"] == "Provider":
        cls = "ok-for-absent-member" if not want.get("ok") else ("flavor" if got.get("flavor") != want.get("flavor") else "tags")
    else:
        cls = "kind"
    return "rec|%s|%s|%s|%s" % (wrap, m["ev"], cls, backend)


def run(ctx):
    """Violations take precedence over tool problems: whatever was found before a later stage failed is
    reported (exit 1); a tool error (exit 2) is raised only when there is nothing to report."""
    violations, cov = [], {}
    try:
        _run(ctx, violations, cov)
    except Exception as e:        # ToolError, or a driver exception on output it did not expect
        known = vlib.load_known(ctx.prop)
        if not any(v.key not in known for v in violations):
            raise
        ctx.note("a later stage failed after violations had been found; reporting the violations. Tool problem: %s" % str(e)[:1500])
        cov.setdefault("states", 0)
        cov.setdefault("transitions", 0)
        cov.setdefault("traces_validated_against_impl", 0)
        cov.setdefault("samples", [])
        cov["incomplete_run"] = str(e)[:500]
    vlib.finish(ctx, LEVEL, cov, violations, ASSUMPTIONS)


def _run(ctx, violations, cov):
    backends = [("zlib", None, "")]
    backends.append(("rust", "rust", "-rust"))
    cfg = "MC_Sfnt_quick.cfg" if ctx.quick else "MC_Sfnt_thorough.cfg"
    cases_path = ctx.path("cases.ndjson")
    n_cases = [0]
    samples = []
    with open(cases_path, "w") as fc:
        def sink(tag, payload):
            if tag == "CASE":
                fc.write(payload + "\n")
                n_cases[0] += 1
                if len(samples) < 2 and n_cases[0] % 997 == 5:
                    samples.append(json.loads(payload))
        mc = vlib.run_tlc(ctx, "MC_Sfnt", cfg, "mc", workers=4, timeout=1500, sink=sink)
    ctx.note("MC_Sfnt: %d states, %d cases (%.1fs); RoundTripOK and NoOtherData hold" % (mc.distinct, n_cases[0], mc.wall))
    if n_cases[0] == 0:
        raise vlib.ToolError("no CASE lines generated")
    cov.update({"states": mc.distinct, "generated_cases": n_cases[0], "samples": samples[:1]})

    totals = {"queries": 0, "events": 0}
    kinds = {}
    size_classes = {}
    trace = ctx.path("trace.ndjson")
    open(trace, "w").close()
    n_fonts = 14 if ctx.quick else 400
    n_containers = n_queries_rec = 0
    sample_events = []
    for name, feat, suffix in backends:
        binp = vlib.build_harness("c10_containers", features=feat, target_suffix=suffix)
        mism_path = ctx.path("mismatches-%s.ndjson" % name)
        rep = vlib.run_harness(binp, ["replay", cases_path, mism_path])
        ctx.note("replay[%s]: %s" % (name, json.dumps(rep)))
        totals["queries"] += rep["queries"]
        kinds = rep["kinds"]
        missing = [v for v in REQUIRED_VARIANTS if rep.get("variants", {}).get(v, 0) == 0]
        if missing:
            raise vlib.ToolError("layout / form families not generated by MC_Sfnt: %s" % missing)
        cov["generated_case_variants"] = rep["variants"]
        gen_per_key = {}
        for m in vlib.read_ndjson(mism_path):
            gk = _key_gen(m)
            gen_per_key[gk] = gen_per_key.get(gk, 0) + 1
            if gen_per_key[gk] > 5:          # the first five cases of a key are kept in full, the rest are counted
                continue
            violations.append(Violation(_key_gen(m) + "|" + name, "generated %s/%s container (%s) asked through route '%s': want %s got %s" %
                                        (m["kind"], m["damage"], m.get("variant", ""), m.get("route", "fontdata"),
                                         vlib.short(m["want"], 200), vlib.short(m["got"], 200)),
                                        {"source": "generated", "backend": name, **m}))
        for gk, n in sorted(gen_per_key.items()):
            ctx.note("generated mismatch class %s|%s: %d cases" % (gk, name, n))
        cov.update({"transitions": totals["queries"], "generated_case_kinds": kinds,
                    "queries_on_generated_cases": totals["queries"],
                    "traces_validated_against_impl": n_cases[0] * (1 + backends.index((name, feat, suffix)))})
        part = ctx.path("trace-%s.ndjson" % name)
        rec = vlib.run_harness(binp, ["record", ctx.seed, n_fonts, part])
        size_classes[name] = rec.pop("size_classes", {})
        ctx.note("record[%s]: %s, %d size classes" % (name, json.dumps(rec), len(size_classes[name])))
        # vacuity guard on the harness' own inputs: the synthesized WOFF tables straddle every boundary
        missing = [c for c in REQUIRED_CLASSES if size_classes[name].get(c, 0) == 0]
        if missing:
            raise vlib.ToolError("size classes not produced by the harness [%s]: %s" % (name, missing))
        with open(trace, "a") as f:
            for ln in open(part):
                e = json.loads(ln)
                e["case"] = name + ":" + e["case"]
                if e["ev"] == "Container":
                    n_containers += 1
                elif e["ev"] == "Query":
                    n_queries_rec += 1
                    if len(sample_events) < 2:
                        sample_events.append(e)
                f.write(json.dumps(e, separators=(",", ":")) + "\n")
    planted = _plant(trace)
    with open(trace, "a") as f:
        for x in planted:
            f.write(json.dumps(x, separators=(",", ":")) + "\n")
    other = {"UNMODELLED": []}
    total, mism = vlib.judge_trace_parallel(ctx, "Trace_Sfnt", "Trace_Sfnt.cfg", trace, "judge", parts=4 if ctx.quick else 8,
                                            other_tags=other)
    ctx.note("judge: %d events, %d mismatches" % (total, len(mism)))
    rejected = set()
    per_key = {}
    for m in mism:
        if m["case"].startswith("selftest-"):
            rejected.add((m["case"], m["ev"]))
            continue
        backend, rest = m["case"].split(":", 1)
        wrap = rest.rsplit("/", 1)[-1]
        key = _key_rec(m, backend, wrap)
        per_key[key] = per_key.get(key, 0) + 1
        if per_key[key] > 3:
            continue
        violations.append(Violation(key, "recorded %s %s %s: want %s got %s" % (m["case"], m["ev"], vlib.short(m["a"], 80),
                                                                            vlib.short(m["want"], 160), vlib.short(m["got"], 160)),
                                    {"source": "recorded", **m}))
    for k, n in sorted(per_key.items()):
        ctx.note("mismatch class %s: %d events" % (k, n))
    cov.update({
        "traces_validated_against_impl": n_cases[0] * len(backends) + n_containers,
        "samples": samples[:1] + sample_events,
        "recorded_containers": n_containers,
        "recorded_queries": n_queries_rec,
        "recorded_events_judged": total,
        "synthesized_size_classes": size_classes,
        "flate2_backends": [b[0] for b in backends],
        "exhaustive": True,
        "explanation": "exhaustive over the bounded container model (config %s); recorded direction: synthesized size-class "
                       "containers (all) and sampled repository fonts" % cfg,
    })
    # these two depend on the specification, the harness' inputs and the driver only
    if other["UNMODELLED"]:
        raise vlib.ToolError("Trace_Sfnt met events it does not model: %s" % other["UNMODELLED"][:3])
    if rejected != SELF_REJECT:
        raise vlib.ToolError("binding self-check failed: Trace_Sfnt rejected %s, expected exactly %s" %
                             (sorted(rejected), sorted(SELF_REJECT)))
    cov["binding_selfcheck"] = ("%d planted non-conforming answers rejected (digest, length, data for an absent tag, member beyond "
                                "the end + query on it), 7 planted conforming answers accepted" % len(SELF_REJECT))


def replay(ctx, path):
    d = json.load(open(path))["detail"]
    if d["source"] != "generated":
        print("recorded-trace violation; re-run ./check C10 with VERIF_SEED=%d: %s" % (ctx.seed, vlib.short(d, 1500)))
        return 1
    feat, suffix = (None, "") if d["backend"] == "zlib" else ("rust", "-rust")
    binp = vlib.build_harness("c10_containers", features=feat, target_suffix=suffix)
    case = {"kind": d["kind"], "damage": d["damage"], "variant": d.get("variant", ""), "bytes": d["bytes"], "qtags": d["qtags"], "exp": d["want"]}
    vlib.write_ndjson(ctx.path("case.ndjson"), [case])
    rep = vlib.run_harness(binp, ["replay", ctx.path("case.ndjson"), ctx.path("mm.ndjson")])
    mm = vlib.read_ndjson(ctx.path("mm.ndjson"))
    mm = [m for m in mm if m.get("route", "fontdata") == d.get("route", "fontdata")]
    for m in mm:
        print("REPRODUCED route=%s want=%s got=%s" % (m.get("route"), vlib.short(m["want"]), vlib.short(m["got"])))
    print(json.dumps(rep))
    return 1 if mm else 0
