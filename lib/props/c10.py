"""C10 - OpenType, collection and WOFF containers yield exactly the stored tables.

spec -> impl : MC_Sfnt: the TLA+ writer lays out every small container (sfnt / TTC with shared
               tables / WOFF with stored-block zlib streams), the TLA+ reader prescribes what each
               query returns, TLC checks RoundTrip (reader o writer = identity) and prints the file
               bytes + expectations; the harness feeds the bytes to allsorts.
impl -> spec : repository fonts re-wrapped by the harness (random directory orders, gaps, sharing,
               real zlib at random levels) and the WOFF fixtures; every answer of allsorts is
               recorded as a digest and judged by Trace_Sfnt.
Both flate2 back ends of allsorts are exercised (two harness builds).
"""
import json

import vlib
from vlib import Violation

LEVEL = "model_checking"

ASSUMPTIONS = [
    "generated containers are small (<= 3 tables of <= 5 bytes, <= 3 members); zlib streams in generated WOFF files "
    "are single stored blocks (what TLA+ can express exactly); real deflate streams come from the recorded direction",
    "recorded answers are compared through a 64-bit FNV digest + length of the returned bytes",
    "an error is an error: the kind of error allsorts reports is not constrained by the property",
    "a bare sfnt / WOFF answers any member index with its single font (property speaks of collections only)",
]


def _key_gen(m):
    # first differing place between want and got
    w, g = m["want"], m["got"]
    if "panic" in g:
        return "gen|%s|%s|panic" % (m["kind"], m["damage"])
    if w.get("load") != g.get("load") or w.get("kind") != g.get("kind"):
        return "gen|%s|%s|load" % (m["kind"], m["damage"])
    for a, b in zip(w["members"], g["members"]):
        for f in ("ok", "flavor", "tags", "has", "data"):
            if a.get(f) != b.get(f):
                return "gen|%s|%s|member.%s" % (m["kind"], m["damage"], f)
    return "gen|%s|%s|members" % (m["kind"], m["damage"])


def run(ctx):
    backends = [("zlib", None, "")]
    backends.append(("rust", "rust", "-rust"))
    cfg = "MC_Sfnt_quick.cfg" if ctx.quick else "MC_Sfnt_thorough.cfg"
    cases_path = ctx.path("cases.ndjson")
    n_cases = [0]
    samples = []
    with open(cases_path, "w") as fc:
        def sink(tag, payload):
            if tag == "CASE":
                fc.write(payload + "\n")
                n_cases[0] += 1
                if len(samples) < 2 and n_cases[0] % 997 == 5:
                    samples.append(json.loads(payload))
        mc = vlib.run_tlc(ctx, "MC_Sfnt", cfg, "mc", workers=8, timeout=1500, sink=sink)
    ctx.note("MC_Sfnt: %d states, %d cases (%.1fs); RoundTripOK and NoOtherData hold" % (mc.distinct, n_cases[0], mc.wall))
    if n_cases[0] == 0:
        raise vlib.ToolError("no CASE lines generated")

    violations = []
    totals = {"queries": 0, "events": 0}
    kinds = {}
    trace = ctx.path("trace.ndjson")
    open(trace, "w").close()
    n_fonts = 14 if ctx.quick else 400
    for name, feat, suffix in backends:
        binp = vlib.build_harness("c10_containers", features=feat, target_suffix=suffix)
        mism_path = ctx.path("mismatches-%s.ndjson" % name)
        rep = vlib.run_harness(binp, ["replay", cases_path, mism_path])
        ctx.note("replay[%s]: %s" % (name, json.dumps(rep)))
        totals["queries"] += rep["queries"]
        kinds = rep["kinds"]
        for m in vlib.read_ndjson(mism_path):
            violations.append(Violation(_key_gen(m) + "|" + name, "generated %s/%s container: want %s got %s" %
                                        (m["kind"], m["damage"], vlib.short(m["want"], 200), vlib.short(m["got"], 200)),
                                        {"source": "generated", "backend": name, **m}))
        part = ctx.path("trace-%s.ndjson" % name)
        rec = vlib.run_harness(binp, ["record", ctx.seed, n_fonts, part])
        ctx.note("record[%s]: %s" % (name, json.dumps(rec)))
        with open(trace, "a") as f:
            for ln in open(part):
                e = json.loads(ln)
                e["case"] = name + ":" + e["case"]
                f.write(json.dumps(e, separators=(",", ":")) + "\n")
    events = vlib.read_ndjson(trace)
    # binding self-check: a Query answer with one digest limb changed must be rejected
    planted = None
    last_container = None
    for e in events:
        if e["ev"] == "Container":
            last_container = e
        if e["ev"] == "Query" and e["o"]["some"] and last_container is not None:
            bad = json.loads(json.dumps(e))
            bad["o"]["digest"][2] = (bad["o"]["digest"][2] + 1) % 65536
            bad["case"] = "selftest-corrupt"
            c2 = dict(last_container, case="selftest-corrupt")
            planted = [c2, bad]
            break
    if planted is None:
        raise vlib.ToolError("no successful table query recorded: trace is vacuous")
    with open(trace, "a") as f:
        for k, x in enumerate(planted):
            x["i"] = 10 ** 8 + k
            f.write(json.dumps(x, separators=(",", ":")) + "\n")
    total, mism = vlib.judge_trace_parallel(ctx, "Trace_Sfnt", "Trace_Sfnt.cfg", trace, "judge", parts=4 if ctx.quick else 8)
    ctx.note("judge: %d events, %d mismatches" % (total, len(mism)))
    planted_seen = False
    for m in mism:
        if m["case"] == "selftest-corrupt":
            planted_seen = True
            continue
        backend, rest = m["case"].split(":", 1)
        wrap = rest.rsplit("/", 1)[-1]
        key = "rec|%s|%s|%s|%s" % (wrap, m["ev"], "ok" if m["got"].get("ok") else "err", backend)
        violations.append(Violation(key, "recorded %s %s %s: want %s got %s" % (m["case"], m["ev"], vlib.short(m["a"], 80),
                                                                            vlib.short(m["want"], 160), vlib.short(m["got"], 160)),
                                    {"source": "recorded", **m}))
    if not planted_seen:
        raise vlib.ToolError("binding self-check failed: corrupted digest accepted by Trace_Sfnt")
    n_containers = sum(1 for e in events if e["ev"] == "Container")
    coverage = {
        "states": mc.distinct,
        "transitions": totals["queries"],
        "traces_validated_against_impl": n_cases[0] * len(backends) + n_containers,
        "samples": samples[:1] + [e for e in events if e["ev"] == "Query"][:2],
        "generated_cases": n_cases[0],
        "generated_case_kinds": kinds,
        "queries_on_generated_cases": totals["queries"],
        "recorded_containers": n_containers,
        "recorded_events_judged": total,
        "flate2_backends": [b[0] for b in backends],
        "binding_selfcheck": "corrupted digest rejected",
        "exhaustive": True,
        "explanation": "exhaustive over the bounded container model (config %s), sampled repository fonts for recorded traces" % cfg,
    }
    vlib.finish(ctx, LEVEL, coverage, violations, ASSUMPTIONS)


def replay(ctx, path):
    d = json.load(open(path))["detail"]
    if d["source"] != "generated":
        print("recorded-trace violation; re-run ./check C10 with VERIF_SEED=%d: %s" % (ctx.seed, vlib.short(d, 1500)))
        return 1
    feat, suffix = (None, "") if d["backend"] == "zlib" else ("rust", "-rust")
    binp = vlib.build_harness("c10_containers", features=feat, target_suffix=suffix)
    case = {"kind": d["kind"], "damage": d["damage"], "bytes": d["bytes"], "qtags": d["qtags"], "exp": d["want"]}
    vlib.write_ndjson(ctx.path("case.ndjson"), [case])
    rep = vlib.run_harness(binp, ["replay", ctx.path("case.ndjson"), ctx.path("mm.ndjson")])
    mm = vlib.read_ndjson(ctx.path("mm.ndjson"))
    for m in mm:
        print("REPRODUCED want=%s got=%s" % (vlib.short(m["want"]), vlib.short(m["got"])))
    print(json.dumps(rep))
    return 1 if mm else 0
