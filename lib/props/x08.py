"""X08 (extra) - name selection, STAT axis value names and the naming / style attributes of an instanced font.

fontcode_get_name and NameTable::string_for_id (which record of a name id wins, UTF-16BE / Mac Roman decoding),
StatTable::name_for_axis_value (axis value table formats 1-4, flags, ElidableName policy), variations::axis_names and
what variations::instance writes into name / OS/2 / head / post of the instanced font.

spec -> impl : TLC explores MC_Naming - every small name table over a palette of (platform, encoding, language) x
               byte strings, every UTF-16 unit string up to the bound, every Mac Roman byte, every short list of axis
               value tables x (axis, value, policy), variable-font descriptions (fvar axes x STAT variants x name
               tables x source styles x named instances) x tuples at and between the named values; one machine step
               per record / table / axis; on every state small-step = closed form, lemmas, "the primary expectation
               is a conformant reading". One CASE per case; the harness builds real table bytes / a real variable
               TrueType font, calls allsorts and compares the projected observation with the expectation by equality.
               An observation that differs is handed to Trace_Naming, which decides whether it is another conformant
               reading (Dev_ names) or names the violated clauses.
impl -> spec : every repository font (name ids, STAT tables at named / seeded values, variable fonts at named instances
               and seeded tuples; the input is read by the harness' own table readers), seeded random name and STAT
               tables, macroman_to_char for the 256 codes: recorded and judged by Trace_Naming.
"""
import json
import re

import vlib
from vlib import Violation

LEVEL = "model_checking"
BIN = "x08_naming"

ASSUMPTIONS = [
    "Mac OS Roman is the published table with the euro sign at 0xDB (ROMAN.TXT / WHATWG index macintosh), held as data "
    "in Naming!MacHigh; macroman_to_char may follow Dev_MacCurrency / Dev_MacRomanPdfSubset of C06",
    "UTF-16BE decoding follows the WHATWG decoder: strict (any error makes the record unusable) for fontcode_get_name, "
    "with U+FFFD for NameTable::string_for_id; Dev_Utf16Bom: a leading U+FEFF may be dropped",
    "the preference lists are the documented ones: the comments of get_name.rs, the doc comment of string_for_id",
    "name_for_axis_value: a table that DESCRIBES the value (exact value, containing range) must win over one that does "
    "not; without one, no name (OpenType) or the nearest value (the crate's 'best describes') are both accepted; "
    "Dev_Format4PerAxis, Dev_OlderSibling: multi-axis format 4 / older-sibling tables may be used or ignored",
    "instance: Dev_WeightClass (rounded wght value in 1..1000, or nearest of 100..900), Dev_BoldThreshold (600 or 700), "
    "Dev_MacStyleWidth (semi-condensed / semi-expanded), Dev_ItalicAngle (kept or the slnt value), Dev_NamedInstance "
    "(fvar named instance names, TN 5902 rules 1-2), platform of the rewritten records free; exact decimal ties either way",
    "table bytes of repository fonts are fetched through allsorts' table provider (containers are C10 / C11's subject); "
    "all parsing of inputs and of the instanced font is the harness' own",
    "a fully matching multi-axis format 4 table in an instanced font is not modelled (Dev_Format4Full: subfamily name "
    "accepted as it is)",
]

RW = [1, 2, 3, 4, 6, 16, 17]
_KIND = re.compile(r'"k":"(gn|nav|inst)"')


def _s(x):
    if isinstance(x, list) and all(isinstance(v, int) for v in x):
        return "".join(chr(v) if 0 < v < 0x110000 and not 0xD800 <= v < 0xE000 else "<%d>" % v for v in x)
    return x


def _utf16(cps):
    out = []
    for c in cps:
        if c >= 0x10000:
            c -= 0x10000
            units = [0xD800 + (c >> 10), 0xDC00 + (c & 0x3FF)]
        else:
            units = [c]
        for u in units:
            out += [u >> 8, u & 255]
    return out


def _obs_of(e):
    """The observation the primary expectation of an inst case describes (MC_Naming!ObsOf)."""
    return {"err": [], "names": [[0, 4, 0, i, _utf16(e["n%d" % i])] for i in RW], "ord": e["ord"], "kept": e["kept"],
            "wc": e["wc"], "wdc": e["wdc"], "fs": e["fs"], "mac": e["mac"], "ia": e["ia"], "an": e["an"]}


def _describe(ev):
    a, o = ev["a"], ev["o"]
    if ev["ev"] == "GetName":
        recs = ["(%d,%d,%d,id %d,%s)" % (r[0], r[1], r[2], r[3], bytes(r[4]).hex()) for r in a["recs"][:8]]
        return "name id %d records [%s]: fontcode_get_name %r, string_for_id %r" % (a["id"], " ".join(recs), _s(o["g"]), _s(o["s"]))
    if ev["ev"] == "Nav":
        return "axis value tables %s query (axis %d, value %s/65536, %s): name id %s" % (
            vlib.short(a["tabs"], 500), a["q"][0], a["q"][1], "Exclude" if a["q"][2] else "Include", o["n"])
    if ev["ev"] == "Inst":
        names = {r[3]: _s([r[4][k] * 256 + r[4][k + 1] for k in range(0, len(r[4]) - 1, 2)]) for r in o.get("names", [])}
        return "axes %s tuple %s: %s" % ([_s(x[0]) for x in a["axes"]], [t / 65536 for t in a["tuple"]],
                                        ("error " + _s(o["err"])) if o.get("err") else
                                        "names %s usWeightClass %s usWidthClass %s fsSelection %s macStyle %s italicAngle %s; record order %s" %
                                        (names, o["wc"], o["wdc"], o["fs"], o["mac"], o["ia"], vlib.short(o["ord"], 200)))
    return vlib.short(o, 300)


def _explore(ctx, cases_path, tier):
    n_cases = {"gn": 0, "nav": 0, "inst": 0}
    plant = {}
    samples = {}
    with open(cases_path, "w") as fc:
        def sink(tag, payload):
            if tag != "CASE":
                return
            fc.write(payload + "\n")
            m = _KIND.search(payload)
            k = m.group(1) if m else json.loads(payload)["k"]
            n_cases[k] += 1
            if k not in plant or (k not in samples and n_cases[k] % 977 == 0):
                c = json.loads(payload)
                good = (k == "gn" and c["e"]["g"] != [-1] and len(c["recs"]) == 2) or \
                       (k == "nav" and c["e"]["n"] != -1 and len(c["tabs"]) == 2) or \
                       (k == "inst" and c["e"]["err"] == 0 and len(c["a"]["axes"]) == 2 and c["a"]["stat"]["has"] == 1)
                if good:
                    if k not in plant:
                        plant[k] = c
                    else:
                        samples[k] = c
        # measured: 20-45 s quick, 5 min thorough under load
        mc = vlib.run_tlc(ctx, "MC_Naming", "MC_Naming_%s.cfg" % tier, "mc", workers=5,
                          timeout=600 if ctx.quick else 3000, sink=sink)
        if min(n_cases.values()) == 0 or len(plant) != 3:
            raise vlib.ToolError("MC_Naming printed %s cases" % n_cases)
        # binding self-check (spec -> impl): an expectation that cannot be met must be handed on by the harness
        bad = {
            "gn": dict(plant["gn"], e=dict(plant["gn"]["e"], g=plant["gn"]["e"]["g"] + [88]), cid="selftest-corrupt-gn"),
            "nav": dict(plant["nav"], e={"n": 9999}, cid="selftest-corrupt-nav"),
            "inst": dict(plant["inst"], e=dict(plant["inst"]["e"], wc=plant["inst"]["e"]["wc"] + 1), cid="selftest-corrupt-inst"),
        }
        for k in ("gn", "nav", "inst"):
            fc.write(json.dumps(bad[k], separators=(",", ":")) + "\n")
    return mc, n_cases, plant, samples


def run(ctx):
    binp = vlib.build_harness(BIN)
    tier = "quick" if ctx.quick else "thorough"

    # ---- spec -> impl -------------------------------------------------------------------------------
    cases_path = ctx.path("cases.ndjson")
    # TLC start-up: the ASSUME on Naming!Crc32 is evaluated by TLC's main thread, whose stack is the small default one
    # (JAVA_TOOL_OPTIONS -Xss reaches the workers only). With chains of lazy values in Crc32 that start-up overflowed
    # its stack - reported as StackOverflowError or, re-wrapped at every level, never ending (two starts out of three
    # under load). Crc32 now forces every step (8 of 8 and every later start fine); a start that still overflows is
    # simply repeated.
    for attempt in (1, 2, 3):
        try:
            mc, n_cases, plant, samples = _explore(ctx, cases_path, tier)
            break
        except vlib.ToolError as e:
            if "StackOverflowError" not in str(e) or attempt == 3:
                raise
            ctx.note("TLC start-up stack overflow, attempt %d repeated" % attempt)
    total_cases = sum(n_cases.values())
    ctx.note("MC_Naming: %d states generated, %d distinct, depth %d, cases %s (%.1fs)" %
             (mc.generated, mc.distinct, mc.depth, json.dumps(n_cases), mc.wall))

    pending_path, stats_path = ctx.path("pending.ndjson"), ctx.path("replay_stats.json")
    rep = vlib.run_harness(binp, ["replay", cases_path, pending_path, stats_path], timeout=3000)
    ctx.note("replay: %s" % json.dumps({k: v for k, v in rep.items() if k.startswith(("cases", "ok_primary", "pending"))}))

    # ---- impl -> spec -------------------------------------------------------------------------------
    rec_path = ctx.path("recorded.ndjson")
    rec = vlib.run_harness(binp, ["record", ctx.seed, 3000 if ctx.quick else 30000, 8 if ctx.quick else 40, rec_path], timeout=3000)
    ctx.note("record: %s" % json.dumps(rec))

    # binding self-check (impl -> spec), from TLC-generated data only: the judge must accept the primary expectation
    # of a generated case and reject corruptions of it
    pg, pn, pi = plant["gn"], plant["nav"], plant["inst"]
    good_inst = _obs_of(pi["e"])
    planted = [
        ("selftest-good-gn", "GetName", {"recs": pg["recs"], "id": pg["id"]}, pg["e"]),
        ("selftest-bad-gn", "GetName", {"recs": pg["recs"], "id": pg["id"]}, dict(pg["e"], g=pg["e"]["g"] + [88])),
        ("selftest-bad-sfi", "GetName", {"recs": pg["recs"], "id": pg["id"]}, dict(pg["e"], s=[88] + pg["e"]["s"])),
        ("selftest-good-nav", "Nav", {"tabs": pn["tabs"], "q": pn["q"]}, pn["e"]),
        ("selftest-bad-nav", "Nav", {"tabs": pn["tabs"], "q": pn["q"]}, {"n": 9999}),
        ("selftest-good-inst", "Inst", pi["a"], good_inst),
        ("selftest-bad-inst-wc", "Inst", pi["a"], dict(good_inst, wc=good_inst["wc"] + 1)),
        ("selftest-bad-inst-name", "Inst", pi["a"], dict(good_inst, names=[r if r[3] != 4 else r[:4] + [r[4] + [0, 33]] for r in good_inst["names"]])),
        ("selftest-bad-inst-order", "Inst", pi["a"], dict(good_inst, ord=list(reversed(good_inst["ord"])))),
        ("selftest-bad-mac", "MacTable", {}, {"m": [(b if b < 128 else 63) for b in range(256)]}),
    ]
    want_bad = {"selftest-bad-gn": "getname|unexplained", "selftest-bad-sfi": "sfi|unexplained", "selftest-bad-nav": "nav|unexplained",
                "selftest-bad-inst-wc": "inst|usWeightClass", "selftest-bad-inst-name": "inst|name4",
                "selftest-bad-inst-order": "inst|nameRecordsUnsorted", "selftest-bad-mac": "macroman|table"}

    # The events are streamed (thorough: 80 000 observations, 330 MB - held in memory the driver grew to 3 GB and was
    # killed by the kernel on the loaded machine): each is written to one of PARTS trace files as it is read, only
    # (source, case, file, offset, length) is kept, and the few events that end up in a violation are read back.
    PARTS = 5 if ctx.quick else 20
    n_expected = sum(v for k, v in rep.items() if k.startswith("pending|")) + rec["events"] + len(planted)
    chunk = n_expected // PARTS + 1
    part_paths, index, planted_seen = [], {}, set()
    counts = {"generated": 0, "recorded": 0, "planted": 0}
    state = {"n": 0, "f": None, "off": 0, "in_part": 0}

    def put(src, case, ev, a, o):
        if state["f"] is None or state["in_part"] >= chunk:
            if state["f"] is not None:
                state["f"].close()
            part_paths.append(ctx.path("trace.ndjson.part%d" % len(part_paths)))
            state["f"], state["off"], state["in_part"] = open(part_paths[-1], "wb"), 0, 0
        state["n"] += 1
        state["in_part"] += 1
        line = (json.dumps({"i": state["n"], "case": case, "ev": ev, "a": a, "o": o}, separators=(",", ":")) + "\n").encode()
        state["f"].write(line)
        index[state["n"]] = (src, case, len(part_paths) - 1, state["off"], len(line))
        state["off"] += len(line)
        counts[src] += 1

    def stream(path):
        with open(path) as f:
            for ln in f:
                if ln.strip():
                    yield json.loads(ln)

    def fetch(i):
        _, _, part, off, length = index[i]
        with open(part_paths[part], "rb") as f:
            f.seek(off)
            return json.loads(f.read(length))

    for e in stream(pending_path):
        if str(e["case"]).startswith("selftest-corrupt-"):
            planted_seen.add(e["case"])
        else:
            put("generated", e["case"], e["ev"], e["a"], e["o"])
    if planted_seen != {"selftest-corrupt-gn", "selftest-corrupt-nav", "selftest-corrupt-inst"}:
        raise vlib.ToolError("binding self-check failed: the harness accepted a corrupted generated case (reported: %s)" % sorted(planted_seen))
    for e in stream(rec_path):
        put("recorded", e["case"], e["ev"], e["a"], e["o"])
    for case, ev, a, o in planted:
        put("planted", case, ev, a, o)
    state["f"].close()
    n_events = state["n"]

    import concurrent.futures

    def judge_part(k):
        return vlib.judge_trace(ctx, "Trace_Naming", "Trace_Naming.cfg", part_paths[k], "judge.%d" % k, timeout=3000, xmx="2g")
    total, mism, n_dev = 0, [], 0
    with concurrent.futures.ThreadPoolExecutor(max_workers=5) as ex:
        for res, mm in ex.map(judge_part, range(len(part_paths))):
            total += res.distinct - 1
            mism.extend(mm)
            n_dev += len(res.decoded.get("DEV", []))
    ctx.note("judge: %d events in %d parts (%d generated observations that differ from the primary expectation, %d recorded), "
             "%d not conformant, %d conformant under a Dev_ reading" %
             (total, len(part_paths), counts["generated"], counts["recorded"], len(mism), n_dev))
    if total != n_events:
        raise vlib.ToolError("judge consumed %d events, trace has %d" % (total, n_events))

    by_key, count_by_key = {}, {}
    rejected = {}
    for m in mism:
        src, case, _, _, size = index[m["i"]]
        if src == "planted":
            rejected[case] = set(m["keys"])
            continue
        for key in m["keys"]:
            count_by_key[src + ":" + key] = count_by_key.get(src + ":" + key, 0) + 1
            old = by_key.get(key)
            if old is None or (old[0] == "recorded" and src == "generated") or (old[0] == src and size < old[3]):
                by_key[key] = (src, m["i"], m, size)
    for case, key in want_bad.items():
        if key not in rejected.get(case, set()):
            raise vlib.ToolError("binding self-check failed: Trace_Naming did not reject %s with %s (keys: %s)" %
                                 (case, key, sorted(rejected.get(case, set()))))
    for case in ("selftest-good-gn", "selftest-good-nav", "selftest-good-inst"):
        if case in rejected:
            raise vlib.ToolError("binding self-check failed: Trace_Naming rejects the primary expectation of a generated case "
                                 "(%s: %s)" % (case, sorted(rejected[case])))

    violations = []
    for key, (src, i_ev, m, _) in sorted(by_key.items()):
        ev = fetch(i_ev)
        detail = {"source": src, "key": key, "ev": ev["ev"], "a": ev["a"], "o": ev["o"], "want": m["want"], "keys": m["keys"]}
        if src == "recorded" and not str(ev["case"]).startswith("syn-") and ev["ev"] == "Inst":
            detail["font"] = ev["case"]
        violations.append(Violation(key, "%s [%s %s] %s; primary expectation %s" %
                                    (key, src, ev["case"], _describe(ev), vlib.short({k: _s(v) for k, v in m["want"].items()}, 400)),
                                    detail))

    # ---- vacuity (from generated data and harness inputs only; moot when a new violation is reported) -------
    known = vlib.load_known(ctx.prop)
    if all(v.key in known for v in violations):
        need = ["gn|expect-name", "gn|expect-none", "sfi|expect-name", "sfi|expect-none", "sfi|expect-replacement-char",
                "nav|expect-name", "nav|expect-none", "inst|expect-error", "inst|expect-font", "inst|expect-last-resort-name",
                "inst|expect-unknown-axis-name"]
        miss = [k for k in need if not rep.get(k)]
        if miss:
            raise vlib.ToolError("vacuous exploration: never expected by a generated case: %s" % miss)
        for k in ("events|GetName", "events|Nav", "events|Inst", "events|MacTable", "fonts|variable"):
            if not rec.get(k):
                raise vlib.ToolError("vacuous trace: no %s" % k)

    coverage = {
        "states": mc.distinct,
        "transitions": mc.generated,
        "traces_validated_against_impl": total_cases + counts["recorded"],
        "samples": [samples.get("gn", plant["gn"]), samples.get("nav", plant["nav"]),
                    {"k": "inst", "a": {k: v for k, v in plant["inst"]["a"].items() if k not in ("names", "kept")},
                     "e": {k: (_s(v) if k.startswith("n") else v) for k, v in plant["inst"]["e"].items() if k not in ("kept", "ord")}}],
        "generated_cases": n_cases,
        "generated_equal_to_primary_expectation": {k[11:]: v for k, v in rep.items() if k.startswith("ok_primary|")},
        "generated_judged": {k[8:]: v for k, v in rep.items() if k.startswith("pending|")},
        "vacuity_generated": {k: v for k, v in rep.items() if "|expect-" in k},
        "recorded": rec,
        "events_judged": total,
        "not_conformant_by_key": count_by_key,
        "conformant_under_dev_reading": n_dev,
        "tlc_depth": mc.depth,
        "binding_selfcheck": "three corrupted generated expectations handed on by the harness; Trace_Naming accepts the primary "
                             "expectation of a generated gn / nav / inst case and rejects seven corruptions (get_name text, "
                             "string_for_id text, axis value name, usWeightClass, name 4, record order, Mac Roman table) with "
                             "the expected key",
        "exhaustive": True,
        "explanation": "exhaustive over the bounded model (config MC_Naming_%s.cfg); recorded traces are the repository fonts "
                       "and seeded random tables" % tier,
    }
    vlib.finish(ctx, LEVEL, coverage, violations, ASSUMPTIONS)


def replay(ctx, path):
    d = json.load(open(path))["detail"]
    binp = vlib.build_harness(BIN)
    evp, trace = ctx.path("event.json"), ctx.path("one_trace.ndjson")
    ev = {"ev": d["ev"], "a": d["a"]}
    if d.get("font"):
        ev["font"] = d["font"]
    json.dump(ev, open(evp, "w"))
    vlib.run_harness(binp, ["one", evp, trace])
    _, mism = vlib.judge_trace(ctx, "Trace_Naming", "Trace_Naming.cfg", trace, "replayjudge")
    e = vlib.read_ndjson(trace)[0]
    for m in mism:
        for key in m["keys"]:
            print("REPRODUCED %s %s; primary expectation %s" % (key, _describe(e), vlib.short({k: _s(v) for k, v in m["want"].items()}, 400)))
    if not mism:
        print("not reproduced: %s conforms" % _describe(e))
    return 1 if mism else 0
