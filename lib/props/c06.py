"""C06 - character-to-glyph mapping conforms to the cmap encodings.

spec -> impl : TLC explores MC_Cmap (boundary-heavy subtables of formats 0/2/4/6/10/12, every set of
               encoding records over ten platform/encoding pairs, encoding-dispatch fonts), checks the
               design invariants and prints one CASE per table / font with the set of conformant
               answers for every probe; the harness encodes each case to real cmap bytes with its
               own encoder and replays it on CmapSubtable::map_glyph, the owned variant,
               Font::lookup_glyph_index and Font::map_glyphs.  Enumerations (mappings_fn, mappings)
               of the generated tables are judged by Trace_Cmap.
impl -> spec : every repository font: selected record (Select), its subtable decoded by the
               harness' independent reader (Load), allsorts' answers for the listed codes and
               for unmapped probes (MapBatch, CharBatch), its enumeration, and the Mac Roman / Big5
               conversion tables in both directions (ConvTable) - judged by Trace_Cmap.
"""
import json
import os
import re

import vlib
from vlib import Violation

LEVEL = "model_checking"
BIN = "c06_cmap"

ASSUMPTIONS = [
    "generated subtables of the families f0/f2/f2x/f4/f6/f10/f12 are well formed (sorted, non-overlapping "
    "segments/groups, offsets inside the glyph array, glyph ids <= 65535); the hand-laid families f4x / f12x also hold "
    "idRangeOffsets that are odd or leave the glyph array and glyph ids above 65535 (no requirement on those codes, "
    "the other codes of the same table are still decided) and unsorted / overlapping segment and group lists "
    "(Dev_UnsortedAny: the glyph of any holder of the code, or what binary search yields; Dev_EnumOverlapDup: the "
    "enumeration may list such a code once per holder); anything else about malformed cmap data is property C01's",
    "named nondeterminism of the specification: Dev_Fmt2Incomplete (16-bit codes that are not complete format-2 "
    "characters), Dev_Fmt4WideCodeErr (subtable-level Err for codes > 0xFFFF in format 4), Dev_FontographerRO "
    "(idRangeOffset 0xFFFF read as 0), Dev_MacCurrency, Dev_MacRomanPdfSubset, Dev_MacSymbolPUA, "
    "Dev_Big5DecodeSuperset, Dev_EnumZeros, Dev_UnsortedAny, Dev_EnumOverlapDup",
    "Big5 lookups are specified for a sample of fourteen characters from the Big5 standard; the full table is only "
    "checked for the inverse law",
    "repository fonts: raw cmap / OS/2 bytes are fetched through allsorts' container layer (sfnt/TTC/WOFF/WOFF2), "
    "the subtable itself is decoded by the harness' own reader",
    "variation sequences (format 14), formats 8 and 13 are outside the property",
]


def _cls(v):
    return "0" if v == 0 else "nz" if v > 0 else {-1: "any", -2: "err", -9: "panic"}.get(v, "other")


def _want_cls(acc):
    s = sorted(set(_cls(v) for v in acc))
    return "/".join(s)


def _branch_key(branch, code):
    if branch.startswith("AppleRoman:mac"):
        return "AppleRoman:mac|U+%04X" % code
    return branch


def _key(api, branch, code, wantclass, gotclass):
    return "%s|%s|want=%s|got=%s" % (api, _branch_key(branch, code), wantclass, gotclass)


def _gen_violation(m):
    key = _key(m["api"], m["branch"], m["code"], m["wantclass"], m["gotclass"])
    what = "generated %s case: %s code %s (rule %s): conformant %s, allsorts gave %s (%s)" % (
        m["fam"], m["api"], hex(m["code"]) if m["code"] >= 0 else "-", m["branch"], m["want"], m["got"], m["gotclass"])
    return Violation(key, what, dict(m, source="generated"))


def _collect_cases(ctx, cfg, cases_path, workers, timeout):
    n = [0]
    uvs = [0]
    samples = {}
    with open(cases_path, "w") as fc:
        def sink(tag, payload):
            if tag == "CASE":
                fc.write(payload + "\n")
                n[0] += 1
                if '"fmt":14' in payload:
                    uvs[0] += 1
                if len(payload) < 1500:
                    samples.setdefault(json.loads(payload).get("fam"), payload)
        mc = vlib.run_tlc(ctx, "MC_Cmap", cfg, "mc", workers=workers, timeout=timeout, sink=sink)
    return mc, n[0], samples, uvs[0]


def _plant_generated(cases_path):
    """Binding self-check for replay: a copy of one case whose expectation is falsified."""
    with open(cases_path) as f:
        for ln in f:
            c = json.loads(ln)
            if c["kind"] == "sub" and c["fam"] in ("f6", "f12"):
                for p in c["probes"]:
                    if p[1] and all(v > 0 for v in p[1]):
                        bad = json.loads(ln)
                        bad["fam"] = "selftest"
                        bad["enum"] = False
                        bad["probes"] = [[p[0], [p[1][0] + 1], "selftest"]]
                        return bad
    return None


def _line(e):
    return json.dumps({"case": e["case"], "i": e["i"], "ev": e["ev"], "a": e["a"], "o": e["o"]}, separators=(",", ":")) + "\n"


def _judge_balanced(ctx, trace, parts):
    """Split the trace at case boundaries into parts of similar byte weight (events differ in size
    by four orders of magnitude) and judge the parts with parallel JVMs."""
    import concurrent.futures
    groups, cur, last = [], [], None
    with open(trace) as f:
        for ln in f:
            case = re.match(r'\{"case":"((?:[^"\\]|\\.)*)"', ln).group(1)     # the driver writes "case" first
            if case != last and cur:
                groups.append(cur)
                cur = []
            cur.append(ln)
            last = case
    if cur:
        groups.append(cur)
    bins = [[0, []] for _ in range(parts)]
    for g in sorted(groups, key=lambda g: -sum(len(x) for x in g)):
        b = min(bins, key=lambda b: b[0])
        b[0] += sum(len(x) for x in g) + 2000 * len(g)
        b[1].append(g)
    files = []
    for k, (_, gs) in enumerate(bins):
        if not gs:
            continue
        fn = "%s.part%d" % (trace, k)
        with open(fn, "w") as fo:
            for g in gs:
                fo.writelines(g)
        files.append(fn)
    total, mism = 0, []

    def one(kf):
        return vlib.judge_trace(ctx, "Trace_Cmap", "Trace_Cmap.cfg", kf[1], "judge.%d" % kf[0], timeout=1500, xmx="3g")
    with concurrent.futures.ThreadPoolExecutor(max_workers=len(files)) as ex:
        for res, mm in ex.map(one, list(enumerate(files))):
            total += res.distinct - 1
            mism.extend(mm)
    return total, mism


def run(ctx):
    binp = vlib.build_harness(BIN)
    cfg = "MC_Cmap_quick.cfg" if ctx.quick else "MC_Cmap_thorough.cfg"
    cases_path = ctx.path("cases.ndjson")
    mc, n_cases, samples, n_uvs = _collect_cases(ctx, cfg, cases_path, 6, 1500 if ctx.quick else 3000)
    ctx.note("MC_Cmap: %d states generated, %d distinct, %d cases (%.1fs)" % (mc.generated, mc.distinct, n_cases, mc.wall))
    if n_cases == 0:
        raise vlib.ToolError("no CASE lines generated")
    planted_case = _plant_generated(cases_path)
    if planted_case is None:
        raise vlib.ToolError("no case suitable for the replay self-check")
    with open(cases_path, "a") as f:
        f.write(json.dumps(planted_case) + "\n")

    # spec -> impl
    mism_path, enum_trace = ctx.path("mismatches.ndjson"), ctx.path("enum_trace.ndjson")
    rep = vlib.run_harness(binp, ["replay", cases_path, mism_path, enum_trace])
    branches = rep.pop("branches", {})
    ctx.note("replay: %s" % json.dumps(rep))
    violations = []
    planted_gen_seen = False
    for m in vlib.read_ndjson(mism_path):
        if m["fam"] == "selftest":
            planted_gen_seen = True
            continue
        violations.append(_gen_violation(m))
    if not planted_gen_seen:
        raise vlib.ToolError("binding self-check failed: the falsified generated case was not reported by replay")

    # impl -> spec
    rec_trace = ctx.path("rec_trace.ndjson")
    rec = vlib.run_harness(binp, ["record", ctx.seed, ctx.tier, rec_trace], timeout=1500)
    skipped = rec.pop("skipped", [])
    ctx.note("record: %s; skipped %s" % (json.dumps(rec), skipped))

    # one trace, renumbered; plus a corrupted copy of one recorded batch (binding self-check)
    trace = ctx.path("trace.ndjson")
    events = {}
    n_ev = 0
    planted = None
    with open(trace, "w") as out:
        last_load = None
        for src in (enum_trace, rec_trace):
            with open(src) as f:
                for ln in f:
                    e = json.loads(ln)
                    e["i"] = n_ev
                    if e["ev"] == "Load":
                        last_load = e
                    if planted is None and e["ev"] == "MapBatch" and last_load is not None and \
                            any(v > 0 for v in e["o"]["sub"]) and len(e["a"]["codes"]) < 4000:
                        k = next(j for j, v in enumerate(e["o"]["sub"]) if v > 0)
                        bad = json.loads(json.dumps(e))
                        bad["o"]["sub"][k] += 1
                        planted = [dict(last_load, case="selftest-corrupt"), dict(bad, case="selftest-corrupt")]
                    # keep what keys and replay files need, not the bulk
                    if e["ev"] in ("MapBatch", "CharBatch"):
                        events[n_ev] = {"case": e["case"], "ev": e["ev"], "notes": e["o"].get("notes", [])}
                    elif e["ev"] == "Select":
                        events[n_ev] = e
                    else:
                        events[n_ev] = {"case": e["case"], "ev": e["ev"]}
                    out.write(_line(e))
                    n_ev += 1
        if planted is None:
            raise vlib.ToolError("no recorded batch with a mapped code: trace is vacuous")
        for x in planted:
            x["i"] = n_ev
            out.write(_line(x))
            n_ev += 1
    total, mism = _judge_balanced(ctx, trace, 6 if ctx.quick else 10)
    ctx.note("judge: %d events, %d mismatch lines" % (total, len(mism)))
    if total != n_ev:
        raise vlib.ToolError("judge consumed %d of %d events" % (total, n_ev))

    planted_seen = False
    big5 = {"encOnly": 0, "decOnly": 0, "leads": set(), "missing": [], "example": None}
    for m in sorted(mism, key=lambda m: m["i"]):
        if m["case"] == "selftest-corrupt":
            planted_seen = True
            continue
        ev = m["ev"]
        if ev == "ConvTable":
            if m["name"] == "Big5":
                big5["encOnly"] += m["nEncOnly"]
                big5["decOnly"] += m["nDecOnly"]
                big5["leads"].add(m["part"])
                big5["missing"] += m["missing"]
                big5["example"] = big5["example"] or m
            else:
                f = lambda ps: ",".join("%d:%d" % (p[0], p[1]) for p in sorted(ps))
                key = "conv|%s|encOnly=%s|decOnly=%s|wrong=%s|missing=%s" % (
                    m["name"], f(m["encOnly"]), f(m["decOnly"]), f(m["wrong"]), f(m["missing"]))
                violations.append(Violation(key, "%s conversions: pairs <<code, char>> only the encoder has %s, only the "
                                            "decoder has %s; against Mac OS Roman: wrong %s, missing %s" %
                                            (m["name"], m["encOnly"], m["decOnly"], m["wrong"], m["missing"]),
                                            dict(m, source="recorded")))
            continue
        if ev == "Select":
            b = m["bad"][0]
            e = events[m["i"]]
            recs = e["a"]["recs"]
            pe = lambda k: "none" if k <= 0 else "%d/%d" % (recs[k - 1]["p"], recs[k - 1]["e"])
            key = "select|want=%s:%s|got=%s:%s" % (pe(b[0]), b[1], pe(b[2]), b[3])
            violations.append(Violation(key, "%s: preferred record %s, allsorts selected %s" % (m["case"], pe(b[0]), pe(b[2])),
                                        dict(m, source="recorded", recs=recs)))
            continue
        if ev == "ReadFailed":
            violations.append(Violation("read_failed|selected-subtable", "%s: allsorts cannot read the selected subtable" % m["case"],
                                        dict(m, source="recorded")))
            continue
        notes = {(n[0], n[1]): n[2] for n in events.get(m["i"], {}).get("notes", [])}
        for b in m["bad"]:
            code, acc, got, branch, api = b
            gotclass = notes.get((code, api), _cls(got)) if isinstance(got, int) else str(got)
            key = _key(api, branch, code, _want_cls(acc), gotclass)
            violations.append(Violation(key, "%s %s: %s code %s (rule %s): conformant %s, allsorts gave %s" %
                                        (m["case"], ev, api, hex(code) if code >= 0 else "-", branch, acc, got),
                                        dict(m, source="recorded")))
    if big5["example"] is not None:
        leads = sorted(big5["leads"])
        key = "conv|Big5|encOnly=%d|decOnly-not-a-big5-code=%d|leads=%d..%d|missing=%d" % (
            big5["encOnly"], big5["decOnly"], leads[0], leads[-1], len(big5["missing"]))
        violations.append(Violation(key, "Big5 conversions: %d pairs only the encoder has, %d codes that are not Big5 codes are "
                                    "decoded (lead bytes %s..%s, e.g. %s), %d sample characters missing" %
                                    (big5["encOnly"], big5["decOnly"], hex(leads[0]), hex(leads[-1]),
                                     big5["example"]["decOnly"][:2], len(big5["missing"])),
                                    dict(big5["example"], source="recorded")))
    if not planted_seen:
        raise vlib.ToolError("binding self-check failed: the corrupted batch was accepted by Trace_Cmap")

    sample_cases = [json.loads(s) for s in list(samples.values())[:3]]
    coverage = {
        "states": mc.distinct,
        "transitions": rep.get("probes_executed", 0),
        "traces_validated_against_impl": n_cases + rec.get("fonts", 0),
        "samples": sample_cases,
        "generated_cases": n_cases,
        "generated_font_cases": rep.get("font_cases", 0),
        "generated_font_cases_with_uvs_record": n_uvs,
        "generated_probes_executed_on_impl": rep.get("probes_executed", 0),
        "generated_enumerations_judged": rep.get("enumerations", 0),
        "spec_rule_hits": branches,
        "spec_rules_exercised": len(branches),
        "recorded_fonts": rec.get("fonts", 0),
        "recorded_selected_subtables": rec.get("selected", {}),
        "recorded_lookups": rec.get("lookups", 0),
        "recorded_events_judged": total,
        "fonts_skipped": skipped,
        "tlc_states_generated": mc.generated,
        "binding_selfcheck": "falsified generated case reported by replay; corrupted recorded batch rejected by Trace_Cmap",
        "exhaustive": True,
        "explanation": "exhaustive over the bounded generator (config %s); recorded fonts: %s" %
                       (cfg, "listed codes strided to 3000 per font" if ctx.quick else "all listed codes"),
    }
    need = ["f0:in", "f2:single", "f2:double", "f4:delta", "f4:gia", "f4:gia0", "f4:fontographer", "f4:none", "f4:wide",
            "f6:in", "f12:in", "f12:none", "Symbol:nocode", "AppleRoman:notmac", "Big5:f2:double",
            "f4:bad", "f4:unsorted:multi", "f4:unsorted:one", "f12:unsorted:multi", "f12:unsorted:one", "f12:bad",
            "f2:double:zero", "f2:single:zero", "Symbol:pua:f12:in", "Symbol:f0:in", "AppleRoman:mac:f12:in",
            "AppleRoman:mac:f4:delta", "Big5:f4:delta", "Unicode:f12:in"]
    missing = [b for b in need if not branches.get(b)]
    if missing:
        raise vlib.ToolError("vacuity guard: rules never exercised by the generated cases: %s" % missing)
    if n_uvs == 0:
        raise vlib.ToolError("vacuity guard: no generated font carries a (0, 5) variation-sequences record")
    vlib.finish(ctx, LEVEL, coverage, violations, ASSUMPTIONS)


def replay(ctx, path):
    d = json.load(open(path))["detail"]
    binp = vlib.build_harness(BIN)
    if d.get("source") == "generated":
        if "t" in d:
            case = {"kind": "sub", "fam": d["fam"], "t": d["t"], "enum": False,
                    "probes": [[d["code"], d["want"], d["branch"]]]}
        else:
            case = {"kind": "font", "fam": d["fam"], "recs": d["recs"], "os2": d["os2"],
                    "sel": d["want"][0] if d["api"] in ("select", "font_new") else 1,
                    "enc": d["wantclass"].split(":")[-1] if d["api"] in ("select", "font_new") else "",
                    "probes": [] if d["code"] < 0 else [[d["code"], d["want"], d["branch"]]]}
            if d["api"] not in ("select", "font_new"):
                print("note: the font case is replayed for the probe only (selection expectation not restated)")
        cp = ctx.path("case.ndjson")
        vlib.write_ndjson(cp, [case])
        rep = vlib.run_harness(binp, ["replay", cp, ctx.path("mm.ndjson"), ctx.path("et.ndjson")])
        mm = [m for m in vlib.read_ndjson(ctx.path("mm.ndjson")) if m["api"] == d["api"] or d["api"] in ("select", "font_new")]
        for m in mm:
            print("REPRODUCED %s code=%s want=%s got=%s (%s)" % (m["api"], m["code"], m["want"], m["got"], m["gotclass"]))
        print(json.dumps({k: v for k, v in rep.items() if k != "branches"}))
        return 1 if mm else 0
    print("recorded-trace violation: re-run the check with VERIF_SEED=%d; event: %s" % (ctx.seed, vlib.short(d, 2000)))
    return 1
