"""X03 (extra) - embedded glyph images (Font::lookup_glyph_image) and glyph names (Font::glyph_names).

Not one of the listed properties: an extension of the specification library into src/bitmap.rs,
src/bitmap/cbdt.rs, src/bitmap/sbix.rs, src/tables/svg.rs, the image part of src/font.rs,
src/glyph_info.rs and src/post.rs.

spec -> impl : TLC explores MC_BitmapLookup (one Font value living through set_embedded_image_filter /
               lookup_glyph_image operations; families: strike choice, ties, every index sub-table format x
               image format x bit depth, multi sub-table strikes, sbix strike choice, 'dupe' indirection, SVG,
               table preference x filter sequences) and MC_GlyphNames (post formats 1/2/2.5/3/4, index
               boundaries, duplicates in every position, colliding names, cmap fall-back names), checks the
               design invariants and prints one CASE per font with the conformant answers of every operation
               and table-level probe.  The harness encodes each case to real table bytes with its own encoders
               and replays it on Font::lookup_glyph_image, CBLCTable::find_strike + MatchingStrike::bitmap,
               Sbix::find_strike + SbixStrike::read_glyph, GlyphNames::unique_glyph_names, Font::glyph_names.
impl -> spec : the repository fonts that carry image tables (decoded by independent readers) and every
               repository font's post table (independent reader) with allsorts' answers, judged by
               Trace_BitmapLookup / Trace_GlyphNames.
"""
import json
import os
import re

import vlib
from vlib import Violation

LEVEL = "model_checking"
BIN = "x03_images"

ASSUMPTIONS = [
    "generated tables are well formed (ascending offsets, sorted glyph id arrays, disjoint sub-table ranges, strike "
    "range = hull of its sub-tables, sbix glyph records of at least 8 bytes); malformed image tables are C01's",
    "the strike order is stated from allsorts' own documentation of lookup_glyph_image / find_strike (exact size, else "
    "the smallest strike above the target, else the largest below; at equal size the higher bit depth within the "
    "caller's maximum) - OpenType leaves the sbix choice to the application",
    "named readings accepted either way: Dev_ContainsByRange (a strike is a candidate by its sub-table ranges vs by "
    "actual presence of the glyph's data), dupe depth (one level vs chains), dupe target looked up in the same strike "
    "vs in the strike chosen afresh, ties between strikes of equal size and depth, Dev_ShortStringsPoisonTable, "
    "Dev_Format25AsNone, Dev_MacRomanPdfSubset",
    "followed as the code does it: Dev_NoFallThrough (only the selected image table is consulted), Dev_PpemXOnly, "
    "Dev_SbixPpiIgnored, Dev_ComponentsNotImplemented (formats 8 / 9 are an error), Dev_Glyph0AlwaysNotdef, "
    "Dev_CmapFirstCode (the lowest code of a glyph names it)",
    "inputs of the glyph-name specification: the 258 standard Macintosh glyph names and the Adobe Glyph List For New "
    "Fonts (specs/GlyphNamesData.tla); Mac OS Roman from specs/Cmap.tla (C06)",
    "recorded fonts: raw table bytes are fetched through allsorts' container layer; EBLC/CBLC, sbix, SVG, post and "
    "the selected cmap sub-table are decoded by the harness' own readers; gzip SVG documents are inflated with flate2 "
    "(the library allsorts uses); a data table above 64 KB (quick) is judged by the shape of the answer (strike, image "
    "format, position and length of the image data), not by its bytes; post tables with non-UTF-8 names are skipped",
]

REQUIRED_IMG = ["cases:strike", "cases:tie", "cases:index", "cases:multi", "cases:sbix", "cases:sbixtie", "cases:dupe",
                "cases:svg", "cases:pref", "ifmt:1", "ifmt:2", "ifmt:3", "ifmt:4", "ifmt:5",
                "imf:1", "imf:2", "imf:5", "imf:6", "imf:7", "imf:8", "imf:9", "imf:17", "imf:18", "imf:19",
                "kind:raw", "kind:png", "kind:jpg", "kind:tiff", "kind:other", "kind:svg",
                "sel:svg", "sel:cbdt", "sel:sbix", "sel:ebdt", "sel:none", "op:filter",
                "low:cblc:img", "low:cblc:absent", "low:cblc:none", "low:cblc:err", "low:eblc:img", "low:sbix:img", "low:sbix:none",
                "want:index:cbdt:err", "want:dupe:sbix:img", "want:dupe:sbix:none", "dev-alternatives:dupe", "dev-alternatives:tie",
                "want:pref:svg:none", "want:pref:ebdt:img"]
REQUIRED_NAMES = ["cases:f1", "cases:f2dup", "cases:f2idx", "cases:f2len", "cases:f2coll", "cases:f2empty", "cases:f3",
                  "post:v1", "post:v2", "post:v25", "post:v3", "post:v4", "idx:257", "idx:258", "idx:last", "idx:out-of-range",
                  "idx:short", "fallback:cmap", "fallback:gN", "post:.notdef-renamed", "unique:duplicate", "unique:alt-collision",
                  "cmap:several-codes", "enc:Unicode", "enc:AppleRoman", "enc:Symbol", "enc:Big5", "post:empty-string"]


def _cls(v):
    if not isinstance(v, dict):
        return "?"
    r = v.get("r", "?")
    if r == "img":
        return "img:%s" % v["kind"] if "kind" in v else "img"
    return r


def _note_cls(note):
    return re.sub(r"\d+", "N", note or "")[:80]


def _img_key(api, sel, fam, bug, want, got, note):
    if bug and bug != "code":
        which, _, sit = bug.partition(":")
        return "strike|%s|%s" % ("sbix" if which.startswith("sbix") else "cblc", sit or "code-reading")
    wc = "/".join(sorted({_cls(w) for w in want})) if want else "-"
    gc = _cls(got)
    if gc in ("panic", "err") and note:
        gc += ":" + _note_cls(note)
    return "img|%s|%s|%s|want=%s|got=%s" % (api, sel or "-", fam, wc, gc)


def _collect(ctx, module, cfg, tag, path, timeout):
    lines = []

    def sink(t, payload):
        if t == "CASE":
            lines.append(payload)
    mc = vlib.run_tlc(ctx, module, cfg, tag, workers=4, timeout=timeout, sink=sink)
    lines.sort()          # TLC's output order varies between runs
    with open(path, "w") as f:
        for ln in lines:
            f.write(ln + "\n")
    return mc, lines


def _replay(ctx, binp, mode, cases_path, mm_path, timeout=900):
    """Run a replay.  allsorts runs inside the harness process: when it brings the process down (stack overflow of an
    unbounded recursion, abort) or never returns, the cases are replayed family by family so that the verdict names the
    family that kills it instead of ending in a tool error.  Returns (summary, mismatches, deaths)."""
    import subprocess

    def once(cp, mp):
        env = dict(os.environ, VERIF_REPO=vlib.REPO)
        try:
            p = subprocess.run([binp, mode, cp, mp], cwd=vlib.VERIF, env=env, stdout=subprocess.PIPE, stderr=subprocess.PIPE,
                               text=True, timeout=timeout)
        except subprocess.TimeoutExpired:
            return None, "did not return within %ss" % timeout
        if p.returncode != 0:
            tail = (p.stderr or p.stdout).strip().splitlines()[-1:] or [""]
            return None, "harness process died (exit %s) %s" % (p.returncode, tail[0][:200])
        last = [l for l in p.stdout.splitlines() if l.strip().startswith("{")]
        return (json.loads(last[-1]) if last else {}), None

    rep, death = once(cases_path, mm_path)
    if death is None:
        return rep, vlib.read_ndjson(mm_path), []
    ctx.note("%s: %s - replaying family by family" % (mode, death))
    fams = {}
    with open(cases_path) as f:
        for n, ln in enumerate(f):
            fams.setdefault(json.loads(ln)["fam"], []).append((n, ln))
    total, mism, deaths = {"counters": {}}, [], []
    for fam, items in sorted(fams.items()):
        cp, mp = "%s.%s" % (cases_path, fam), "%s.%s" % (mm_path, fam)
        with open(cp, "w") as f:
            f.writelines(ln for _, ln in items)
        r, d = once(cp, mp)
        if d is not None:
            deaths.append((fam, d))
            continue
        for m in vlib.read_ndjson(mp):
            m["ci"] = items[m["ci"]][0]
            mism.append(m)
        for k2, v in r.items():
            if k2 == "counters":
                for a, b in v.items():
                    total["counters"][a] = total["counters"].get(a, 0) + b
            else:
                total[k2] = total.get(k2, 0) + v
    return total, mism, deaths


def _plant_img(lines):
    """Binding self-check: a copy of one case whose expectations are falsified (font route, EBLC/CBLC table route,
    sbix table route)."""
    out = []
    need = {"font": None, "cblc": None, "sbix": None}
    for ln in lines:
        c = json.loads(ln)
        if c["fam"] == "index" and need["cblc"] is None and c["has"] == ["cbdt"]:
            lows = [p for p in c["low"] if p["want"][0]["r"] == "img"]
            ops = [o for o in c["ops"] if o["op"] == "lookup" and o["want"][0]["r"] == "img"]
            if lows and ops:
                bad = json.loads(ln)
                bad["fam"] = "selftest"
                lo = json.loads(json.dumps(lows[0]))
                lo["want"][0]["doff"] += 1
                op = json.loads(json.dumps(ops[0]))
                op["want"][0]["data"] = op["want"][0]["data"][:-1] + [(op["want"][0]["data"][-1] + 1) % 256]
                bad["ops"], bad["low"] = [op], [lo]
                need["cblc"] = need["font"] = bad
        if c["fam"] == "sbix" and need["sbix"] is None:
            lows = [p for p in c["low"] if p["want"][0]["r"] == "img" and not p["bug"]]
            if lows:
                bad = json.loads(ln)
                bad["fam"] = "selftest"
                lo = json.loads(json.dumps(lows[0]))
                lo["want"][0]["ox"] += 1
                bad["ops"], bad["low"] = [], [lo]
                need["sbix"] = bad
        if all(v is not None for v in need.values()):
            break
    if any(v is None for v in need.values()):
        raise vlib.ToolError("no generated case suitable for the replay self-check: %s" % {k: v is not None for k, v in need.items()})
    out.append(need["cblc"])
    out.append(need["sbix"])
    return out


def _plant_names(lines):
    for ln in lines:
        c = json.loads(ln)
        if c["fam"] == "f2dup" and not any(l["bug"] for l in c["lists"]):
            bad = json.loads(ln)
            bad["fam"] = "selftest"
            l0 = json.loads(json.dumps(c["lists"][0]))
            l0["want"] = [w[:-1] + [w[-1] + "?"] for w in l0["want"]]
            bad["lists"] = [l0]
            return bad
    raise vlib.ToolError("no generated case suitable for the names self-check")


def _agl_crosscheck(ctx):
    """The AGLFN pairs of specs/GlyphNamesData.tla against Adobe's aglfn.txt shipped with the glyph-names crate (when the
    cargo registry has it): a note, never a verdict."""
    import glob
    src = open(os.path.join(vlib.SPECS, "GlyphNamesData.tla")).read()
    have = {int(a): b for a, b in re.findall(r'<<(\d+), "([^"]+)">>', src)}
    std = re.findall(r'"([^"]*)"', src.split("StdNames == <<")[1].split(">>")[0])
    files = glob.glob(os.path.expanduser("~/.cargo/registry/src/*/glyph-names-*/agl-aglfn/aglfn.txt"))
    note = "standard names %d, AGLFN pairs %d" % (len(std), len(have))
    if files:
        ref = {}
        for ln in open(files[0]):
            if ln.startswith("#") or not ln.strip():
                continue
            cc, nm, _ = ln.strip().split(";", 2)
            ref[int(cc, 16)] = nm
        note += "; aglfn.txt of the linked crate: %s" % ("identical" if ref == have else "DIFFERS (%d entries)" % len(set(ref.items()) ^ set(have.items())))
    if len(std) != 258 or len(have) < 500:
        raise vlib.ToolError("specs/GlyphNamesData.tla is damaged: %s" % note)
    return note


def run(ctx):
    binp = vlib.build_harness(BIN)
    data_note = _agl_crosscheck(ctx)
    ctx.note("name data: " + data_note)
    tier = "quick" if ctx.quick else "thorough"

    # ---------------------------------------------------------------- spec -> impl
    img_cases, name_cases = ctx.path("img_cases.ndjson"), ctx.path("name_cases.ndjson")
    mc_i, img_lines = _collect(ctx, "MC_BitmapLookup", "MC_BitmapLookup_%s.cfg" % tier, "mc_img", img_cases, 600 if ctx.quick else 1500)
    ctx.note("MC_BitmapLookup: %d states, %d distinct, depth %d, %d cases (%.1fs)" % (mc_i.generated, mc_i.distinct, mc_i.depth, len(img_lines), mc_i.wall))
    mc_n, name_lines = _collect(ctx, "MC_GlyphNames", "MC_GlyphNames_%s.cfg" % tier, "mc_names", name_cases, 600)
    ctx.note("MC_GlyphNames: %d states, %d distinct, %d cases (%.1fs)" % (mc_n.generated, mc_n.distinct, len(name_lines), mc_n.wall))
    if not img_lines or not name_lines:
        raise vlib.ToolError("no CASE lines generated")
    with open(img_cases, "a") as f:
        for bad in _plant_img(img_lines):
            f.write(json.dumps(bad) + "\n")
    with open(name_cases, "a") as f:
        f.write(json.dumps(_plant_names(name_lines)) + "\n")

    img_mm, name_mm = ctx.path("img_mismatches.ndjson"), ctx.path("name_mismatches.ndjson")
    rep_i, mm_i, deaths_i = _replay(ctx, binp, "replay-img", img_cases, img_mm)
    cnt_i = rep_i.pop("counters", {})
    ctx.note("replay-img: %s" % json.dumps(rep_i))
    rep_n, mm_n, deaths_n = _replay(ctx, binp, "replay-names", name_cases, name_mm)
    cnt_n = rep_n.pop("counters", {})
    ctx.note("replay-names: %s" % json.dumps(rep_n))

    violations = []
    for mode, deaths in (("img", deaths_i), ("names", deaths_n)):
        for fam, why in deaths:
            violations.append(Violation("crash|%s|%s" % (mode, fam), "allsorts brought the harness down while the generated %s cases of "
                                        "family %s (well-formed tables) were replayed: %s" % (mode, fam, why),
                                        {"source": "generated", "kind": mode, "family": fam, "why": why}))
    gen_by_key = {}
    all_img = img_lines
    planted_routes = set()
    seen = set()
    for m in mm_i:
        if m["fam"] == "selftest":
            planted_routes.add(m["api"])
            continue
        key = _img_key(m["api"], m["sel"], m["fam"], m["bug"], m["want"], m["got"], m["note"])
        gen_by_key[key] = gen_by_key.get(key, 0) + 1
        if key in seen:
            continue
        seen.add(key)
        case = json.loads(all_img[m["ci"]]) if m["ci"] < len(all_img) else None
        what = "generated %s case %s: %s glyph %s target ppem %s max depth %s (table %s): conformant %s, allsorts gave %s %s%s" % (
            m["fam"], m["id"], m["api"], m["g"], m["ppem"], m["maxbd"], m["sel"], m.get("wantclass"), m.get("gotclass"), m["note"],
            (" [= the reading '%s' of the code]" % m["bug"]) if m["bug"] else "")
        violations.append(Violation(key, what, {"source": "generated", "kind": "img", "api": m["api"], "g": m["g"], "ppem": m["ppem"],
                                                "maxbd": m["maxbd"], "want": m["want"], "got": m["got"], "bug": m["bug"], "case": case}))
    if planted_routes != {"font", "low:cblc", "low:sbix"}:
        raise vlib.ToolError("binding self-check failed: the falsified image expectations were reported by %s only" % sorted(planted_routes))
    planted_names = set()
    for m in mm_n:
        if m["fam"] == "selftest":
            planted_names.add(m["api"])
            continue
        key = "names|%s" % m["bug"] if m["bug"] and m["bug"] != "code" else "names|%s|unexplained|%s" % (m["fam"], _note_cls(m["note"]) or "differs")
        gen_by_key[key] = gen_by_key.get(key, 0) + 1
        if key in seen:
            continue
        seen.add(key)
        case = json.loads(name_lines[m["ci"]]) if m["ci"] < len(name_lines) else None
        what = "generated %s case %s: %s(%s): natural names %s, conformant %s, allsorts gave %s %s%s" % (
            m["fam"], m["id"], m["api"], m["ids"], vlib.short(m["nat"], 200), vlib.short(m["want"], 200), vlib.short(m["got"], 200),
            m["note"], (" [= the reading '%s' of the code]" % m["bug"]) if m["bug"] else "")
        violations.append(Violation(key, what, {"source": "generated", "kind": "names", "api": m["api"], "ids": m["ids"],
                                                "want": m["want"], "got": m["got"], "bug": m["bug"], "case": case}))
    if planted_names != {"GlyphNames", "Font::glyph_names"}:
        raise vlib.ToolError("binding self-check failed: the falsified names were reported by %s only" % sorted(planted_names))

    # ---------------------------------------------------------------- impl -> spec
    img_trace, names_trace = ctx.path("img_trace.ndjson"), ctx.path("names_trace.ndjson")
    try:
        rec = vlib.run_harness(binp, ["record", ctx.seed, tier, img_trace, names_trace], timeout=1500)
    except vlib.ToolError as e:
        known0 = vlib.load_known(ctx.prop)
        if any(v.key not in known0 for v in violations):
            # allsorts took the recording process down too (e.g. an unbounded recursion on a repository font): the
            # violations found by the replay are the verdict
            ctx.note("record died as well: %s" % str(e)[:300])
            vlib.finish(ctx, LEVEL, {"states": mc_i.distinct + mc_n.distinct, "transitions": mc_i.generated + mc_n.generated,
                                     "traces_validated_against_impl": len(img_lines) + len(name_lines),
                                     "samples": [json.loads(min(img_lines, key=len))],
                                     "explanation": "replay only: the recording run died (%s)" % str(e)[:200]},
                        violations, ASSUMPTIONS)
        raise
    skipped = rec.pop("skipped", [])
    ctx.note("record: %s; skipped %s" % (json.dumps(rec), skipped))
    rstats = rec.get("stats", {})

    # corrupted copies of recorded events (binding self-check of the judges)
    PL = 10 ** 8
    img_events = vlib.read_ndjson(img_trace)
    planted_img = {}
    last_load = None
    extra = []
    for e in img_events:
        if e["ev"] == "LoadFont":
            last_load = e
            continue
        r = e["o"].get("res", {})
        if e["ev"] == "FontLookup" and "font" not in planted_img and r.get("r") == "img" and "sbix" not in last_load["a"]["has"]:
            b = json.loads(json.dumps(e))
            b["o"]["res"]["px"] = 9999
            planted_img["font"] = (last_load, b, 1)
        if e["ev"] == "LocProbe" and "loc" not in planted_img and r.get("r") == "img":
            b = json.loads(json.dumps(e))
            b["o"]["res"]["doff"] += 1
            planted_img["loc"] = (last_load, b, 2)
        if e["ev"] == "SbixProbe" and "sbix" not in planted_img and r.get("r") == "img":
            b = json.loads(json.dumps(e))
            b["o"]["res"]["ppem"] += 1
            planted_img["sbix"] = (last_load, b, 3)
    n_img = len(img_events)
    with open(img_trace, "a") as f:
        for _, (ld, b, k) in sorted(planted_img.items()):
            for x in (dict(ld), b):
                x = dict(x, case="selftest-corrupt-%d" % k, i=PL + k)
                f.write(json.dumps(x, separators=(",", ":")) + "\n")
                n_img += 1
    name_events = vlib.read_ndjson(names_trace)
    planted_nm = None
    last_load = None
    for e in name_events:
        if e["ev"] == "LoadNames":
            last_load = e
        elif e["ev"] == "Names" and last_load["a"]["post"]["ver"] == 2 and len(e["a"]["ids"]) > 5 and not e["o"]["note"]:
            b = json.loads(json.dumps(e))
            b["o"]["names"][3] += "?"
            planted_nm = (last_load, b)
            break
    n_nm = len(name_events)
    if planted_nm:
        with open(names_trace, "a") as f:
            for x in planted_nm:
                f.write(json.dumps(dict(x, case="selftest-corrupt", i=PL + 9), separators=(",", ":")) + "\n")
                n_nm += 1

    other_i = {"UNMODELLED": []}
    total_i, mism_i = vlib.judge_trace_parallel(ctx, "Trace_BitmapLookup", "Trace_BitmapLookup.cfg", img_trace, "judge_img",
                                                parts=1 if ctx.quick else 3, other_tags=other_i)
    other_n = {"UNMODELLED": []}
    total_n, mism_n = vlib.judge_trace_parallel(ctx, "Trace_GlyphNames", "Trace_GlyphNames.cfg", names_trace, "judge_names",
                                                parts=3 if ctx.quick else 4, other_tags=other_n)
    ctx.note("judge: images %d events / %d mismatch lines, names %d events / %d mismatch lines" % (total_i, len(mism_i), total_n, len(mism_n)))
    if total_i != n_img or total_n != n_nm:
        raise vlib.ToolError("judges consumed %d of %d image events, %d of %d name events" % (total_i, n_img, total_n, n_nm))
    if other_i["UNMODELLED"] or other_n["UNMODELLED"]:
        raise vlib.ToolError("unmodelled events in the recorded traces: %s" % (other_i["UNMODELLED"][:3] + other_n["UNMODELLED"][:3]))

    rec_by_key = {}
    seen_self = set()
    for m in sorted(mism_i, key=lambda m: m["i"]):
        if m["i"] >= PL:
            seen_self.add(m["i"] - PL)
            continue
        if m.get("sit"):
            key = "strike|%s|%s" % ("sbix" if (m["bug"] or "").startswith("sbix") or m["ev"] == "SbixProbe" else "cblc", m["sit"]) \
                if m.get("bug") else "img|trace:%s|unexplained-pick|%s" % (m["ev"], m["sit"])
        else:
            got = m.get("got") or {}
            gc = _cls(got) + (":" + _note_cls(m.get("note")) if got.get("r") in ("panic", "err") and m.get("note") else "")
            key = "img|trace:%s|got=%s" % (m["ev"], gc)
        rec_by_key[key] = rec_by_key.get(key, 0) + 1
        if key in seen:
            continue
        seen.add(key)
        violations.append(Violation(key, "%s %s %s: allsorts gave %s %s, not a conformant answer" %
                                    (m["case"], m["ev"], json.dumps(m.get("a")), vlib.short(m.get("got"), 200), m.get("note", "")),
                                    dict(m, source="recorded", kind="img")))
    for m in sorted(mism_n, key=lambda m: m["i"]):
        if m["i"] >= PL:
            seen_self.add(m["i"] - PL)
            continue
        key = "names|%s" % m["class"] if m["class"] not in ("names", "length") else "names|trace|%s|post-v%s|%s" % (m["class"], m["post"], _note_cls(m["note"]) or "differs")
        rec_by_key[key] = rec_by_key.get(key, 0) + 1
        if key in seen:
            continue
        seen.add(key)
        violations.append(Violation(key, "%s: glyph_names position %s (glyph %s): conformant %r, allsorts gave %r %s" %
                                    (m["case"], m["pos"], m["id"], m["want"], m["got"], m["note"]), dict(m, source="recorded", kind="names")))
    want_self = {k for _, (_, _, k) in planted_img.items()} | ({9} if planted_nm else set())
    if seen_self != want_self:
        raise vlib.ToolError("binding self-check failed: a judge accepted a corrupted event (planted %s, rejected %s)" %
                             (sorted(want_self), sorted(seen_self)))

    # ---------------------------------------------------------------- vacuity (moot when a new violation is reported anyway)
    known = vlib.load_known(ctx.prop)
    if all(v.key in known for v in violations):
        miss = [k for k in REQUIRED_IMG if not cnt_i.get(k)] + [k for k in REQUIRED_NAMES if not cnt_n.get(k)]
        if miss:
            raise vlib.ToolError("vacuity: branches / families never exercised by the generated cases: %s" % miss)
        if want_self != {1, 2, 3, 9}:
            raise vlib.ToolError("recorded traces are vacuous: no image / EBLC probe / sbix probe / format 2 names event to corrupt (%s)" % sorted(want_self))
        for k in ("image_fonts", "names_fonts", "rec_font_lookups", "rec_loc_probes", "rec_sbix_probes", "post:v2", "post:v3"):
            if not rstats.get(k):
                raise vlib.ToolError("vacuity: recorded trace has no %s" % k)

    sample_img = next((json.loads(l) for l in img_lines if len(l) < 4000 and '"dupe"' in l), json.loads(min(img_lines, key=len)))
    sample_nm = next((json.loads(l) for l in name_lines if '"f2coll"' in l), json.loads(name_lines[0]))
    n_lookup_cases = rep_i.get("font_lookups", 0) + rep_i.get("table_probes", 0)
    nontrivial = sum(v for k, v in cnt_i.items() if k.startswith("want:") and k.endswith(":img")) + rep_n.get("calls", 0)
    coverage = {
        "states": mc_i.distinct + mc_n.distinct,
        "transitions": mc_i.generated + mc_n.generated,
        "traces_validated_against_impl": len(img_lines) + len(name_lines) + rstats.get("image_fonts", 0) + rstats.get("names_fonts", 0),
        "samples": [sample_img, sample_nm],
        "evaluations": n_lookup_cases + rep_n.get("calls", 0) + total_i + total_n,
        "distinct_nontrivial": nontrivial,
        "rule": "one case per font description of the bounded models (all distinct); an evaluation is one lookup / probe / "
                "glyph_names call replayed or one recorded event judged; non-trivial = generated lookups whose conformant "
                "answer is an image, plus the glyph_names calls",
        "generated_image_cases": len(img_lines),
        "generated_name_cases": len(name_lines),
        "font_lookups_replayed": rep_i.get("font_lookups", 0),
        "table_probes_replayed": rep_i.get("table_probes", 0),
        "glyph_names_calls_replayed": rep_n.get("calls", 0),
        "generated_mismatches_by_key": gen_by_key,
        "vacuity_image": cnt_i,
        "vacuity_names": cnt_n,
        "recorded": rstats,
        "recorded_image_events_judged": total_i,
        "recorded_name_events_judged": total_n,
        "recorded_mismatches_by_key": rec_by_key,
        "fonts_skipped": skipped,
        "name_data": data_note,
        "tlc_states_generated": mc_i.generated + mc_n.generated,
        "tlc_depth_image_machine": mc_i.depth,
        "binding_selfcheck": "falsified image bytes / data offset / sbix origin reported by the font, EBLC-CBLC and sbix routes of the "
                             "replay; falsified names reported by both name routes; corrupted FontLookup, LocProbe, SbixProbe and "
                             "Names events rejected by the trace judges",
        "exhaustive": True,
        "explanation": "exhaustive over the bounded generators (configs MC_BitmapLookup_%s.cfg, MC_GlyphNames_%s.cfg); recorded: %s" %
                       (tier, tier, "glyph ids strided to 600 per font" if ctx.quick else "up to 6000 glyph ids per font"),
    }
    vlib.finish(ctx, LEVEL, coverage, violations, ASSUMPTIONS)


def replay(ctx, path):
    d = json.load(open(path))["detail"]
    binp = vlib.build_harness(BIN)
    if d.get("family"):
        print("crash while replaying family %s: %s; re-run the check" % (d["family"], d["why"]))
        return 1
    if d.get("source") != "generated" or not d.get("case"):
        print("recorded-trace violation: re-run the check with VERIF_SEED=%d; event: %s" % (ctx.seed, vlib.short(d, 2000)))
        return 1
    cp, mp = ctx.path("case.ndjson"), ctx.path("mm.ndjson")
    vlib.write_ndjson(cp, [d["case"]])
    rep = vlib.run_harness(binp, ["replay-img" if d["kind"] == "img" else "replay-names", cp, mp])
    hit = 0
    for m in vlib.read_ndjson(mp):
        same = (m["api"] == d["api"] and (d["kind"] == "names" and m["ids"] == d["ids"] or
                                          d["kind"] == "img" and (m["g"], m["ppem"], m["maxbd"]) == (d["g"], d["ppem"], d["maxbd"])))
        if same:
            hit += 1
            print("REPRODUCED %s want=%s got=%s %s" % (m["api"], vlib.short(m["want"], 400), vlib.short(m["got"], 400), m.get("bug", "")))
    rep.pop("counters", None)
    print(json.dumps(rep))
    return 1 if hit else 0
