"""X11 (extra) - initial reordering of the Indic shaper: base consonant, reph, pre-base matras, position tags.

Stage 2 of the Indic shaping model as scripts::indic::initial_reorder_consonant_syllable implements it for the nine
Indic scripts with a new-spec tag: base consonant search, reph detection per RephMode, position tags of consonants,
matras (per-script tables) and marks, stable sort into canonical order, old-spec (deva / beng ...) halant order and the
masks of the basic features rphf / pref / blwf / half / pstf.

spec -> impl : TLC explores MC_IndicReorder: every cluster of the bounded cluster grammar x script x shaping model x
               font (the record of what `would substitute` answers), one iteration of the backwards base search per
               transition; on every state the machine invariants, at the end small-step = closed forms (base = highest
               terminator, mark tags, stable sort) and the design invariants of the result. It prints one CASE per
               cluster; the harness encodes the font record into a real GSUB (LigatureSubst per feature, new-spec or
               old-spec script tag), runs the REAL stage through the cfg(allsorts_verif) hook verif_initial_reorder
               and compares {order, sym, pos, mask, base} by JSON equality.
impl -> spec : seeded random clusters (longer, random fonts, several characters per symbol) are recorded and judged
               by Trace_IndicReorder.
"""
import json

import vlib
from vlib import Violation

LEVEL = "model_checking"

ASSUMPTIONS = [
    "the private stage is reached through the add-only cfg(allsorts_verif) hook scripts::indic::verif_initial_reorder "
    "(notes/X11-hook.diff): it repeats the set-up of gsub_apply_indic / shape_syllable (script and language system, "
    "split, dotted circle) and calls the real initial_reorder_consonant_syllable",
    "cluster segmentation is X07's subject: clusters are generated from the cluster grammar and the harness checks that "
    "the real splitter makes exactly one cluster of the announced kind of them (anything else is a tool error)",
    "the font is abstracted to what `would substitute` answers for rphf / blwf / pstf / pref on two-glyph sequences; the "
    "harness encodes exactly that (LigatureSubst Halant+c for new-spec, c+Halant for old-spec script tags)",
    "Dev_HalantZwjNoBase / Dev_NoBaseUniscribe: `Halant, ZWJ` met by the base search ends it without a base and the "
    "cluster is only masked (rphf on the reph Ra, half elsewhere) - the Uniscribe behaviour allsorts documents; HarfBuzz "
    "keeps the last candidate. Dev_ExplicitHalfDropsBlwf: no blwf before a pre-base `Halant, ZWJ`",
    "script configuration and matra position tables are written from the shaping documents / HarfBuzz tables as "
    "recalled offline (no network); characters per symbol are chosen from Unicode Indic_Positional_Category",
]

HOOK_HINT = ("the harness needs the verification hook of notes/X11-hook.diff in the allsorts tree "
             "(scripts::indic::verif_initial_reorder, cfg(allsorts_verif))")


def _prepare(ctx):
    try:
        return vlib.build_harness("x11_indicreorder")
    except vlib.ToolError as e:
        if "verif_initial_reorder" in str(e):
            raise vlib.ToolError(HOOK_HINT + "\n" + str(e)[-1500:])
        raise


def _event(i, case, c, r, kind=None, model=None, err="", panic="", clusters=1):
    return {"i": i, "case": case, "ev": "InitialReorder",
            "a": {"sc": c["sc"], "m": c["m"], "f": c["f"], "k": c["k"], "r": c["r"], "c": c["c"]},
            "o": {"r": r, "kind": c["k"] if kind is None else kind, "model": c["m"] if model is None else model,
                  "err": err, "panic": panic, "clusters": clusters}}


def _panic_class(msg):
    import re
    m = msg.rsplit(" @ ", 1)
    loc = m[1] if len(m) > 1 else ""
    f = loc.rsplit(":", 1)[0].rsplit("/src/", 1)[-1]
    return re.sub(r"\d+", "N", m[0])[:50].replace(" ", "_") + "@" + f


def _key(m):
    k = "|".join(m["key"])
    if m["key"][-1] == "panic":
        k += "|" + _panic_class(m["o"].get("panic", ""))
    if m["key"][-1] == "error":
        k += "|" + m["o"].get("err", "")[:40].replace(" ", "_")
    return k


def _show(r):
    return " ".join("%s%s:%s%s" % (s, ("@%d" % o), p, ("{" + "+".join(mk) + "}") if mk else "")
                    for s, o, p, mk in zip(r["sym"], r["order"], r["pos"], r["mask"]))


def _what(m, key, src):
    a = m["a"]
    return ("%s (%s): script %s model %s font rphf=%s blwf=%s pstf=%s pref=%s %s cluster [%s] (%s): observed [%s] base %s, "
            "specification [%s] base %s%s%s" %
            (key, src, a["sc"], a["m"], a["f"]["rphf"], ",".join(a["f"]["blwf"]) or "-", ",".join(a["f"]["pstf"]) or "-",
             ",".join(a["f"]["pref"]) or "-", a["k"], " ".join(a["r"]), " ".join("%04X" % x for x in a["c"]),
             _show(m["o"]["r"]), m["o"]["r"]["base"], _show(m["want"]), m["want"]["base"],
             (" ERROR " + m["o"]["err"]) if m["o"].get("err") else "", (" PANIC " + m["o"]["panic"]) if m["o"].get("panic") else ""))


def run(ctx):
    binp = _prepare(ctx)

    # ---- spec -> impl -------------------------------------------------------------------------
    cfg = "MC_IndicReorder_quick.cfg" if ctx.quick else "MC_IndicReorder_thorough.cfg"
    cases_path = ctx.path("cases.ndjson")
    n_cases = [0]
    samples, plant = [], [None]
    with open(cases_path, "w") as fc:
        def sink(tag, payload):
            if tag != "CASE":
                return
            fc.write(payload + "\n")
            n_cases[0] += 1
            if plant[0] is None or (len(samples) < 2 and n_cases[0] % 997 == 0):
                c = json.loads(payload)
                e = c["e"]
                if e["base"] > 1 and len(e["order"]) >= 4 and "reph" in e["pos"] and e["order"] != sorted(e["order"]):
                    if plant[0] is None:
                        plant[0] = c
                    else:
                        samples.append(c)
        mc = vlib.run_tlc(ctx, "MC_IndicReorder", cfg, "mc", workers=6, timeout=900 if ctx.quick else 3000, sink=sink)
        if n_cases[0] == 0 or plant[0] is None:
            raise vlib.ToolError("no CASE lines generated (or none with a reph that moves)")
        pc = plant[0]
        bad_e = dict(pc["e"], order=list(reversed(pc["e"]["order"])))
        fc.write(json.dumps(dict(pc, e=bad_e, id="selftest-corrupt")) + "\n")
    ctx.note("MC_IndicReorder: %d states generated, %d distinct, depth %d, %d cases (%.1fs)" %
             (mc.generated, mc.distinct, mc.depth, n_cases[0], mc.wall))

    mm_path = ctx.path("replay_mismatches.ndjson")
    rep = vlib.run_harness(binp, ["replay", cases_path, mm_path], timeout=1500)
    ctx.note("replay: %s" % json.dumps({k: rep[k] for k in ("cases", "ok", "mismatches", "panics", "binding", "fonts_encoded",
                                                            "expected_classes", "expected_masks")}))
    gen_mism, planted_seen = [], False
    for m in vlib.read_ndjson(mm_path):
        if m.get("id") == "selftest-corrupt":
            planted_seen = True
        elif m["what"] == "binding":
            # the splitter (X07's subject) disagrees with the cluster grammar of the generator: not a verdict of X11
            raise vlib.ToolError("a generated cluster is not ONE cluster of its kind for the real splitter: %s %s %s: %s"
                                 % (m["sc"], m["k"], m["r"], m["why"]))
        else:
            gen_mism.append(m)
    if not planted_seen:
        raise vlib.ToolError("binding self-check failed: the harness accepted a corrupted generated case")

    # ---- impl -> spec -------------------------------------------------------------------------
    n_rec = 6000 if ctx.quick else 60000
    trace = ctx.path("trace.ndjson")
    rec = vlib.run_harness(binp, ["record", ctx.seed, n_rec, trace], timeout=1500)
    ctx.note("record: %s" % json.dumps(rec))
    e = pc["e"]
    n = len(e["order"])
    swapped = dict(e, order=[e["order"][1], e["order"][0]] + e["order"][2:])
    retag = dict(e, pos=["prec" if p == "reph" else p for p in e["pos"]])
    unmask = dict(e, mask=[[] for _ in range(n)])
    planted = [
        _event(10 ** 8, "selftest-good", pc, e),
        _event(10 ** 8 + 1, "selftest-order", pc, swapped),
        _event(10 ** 8 + 2, "selftest-pos", pc, retag),
        _event(10 ** 8 + 3, "selftest-mask", pc, unmask),
        _event(10 ** 8 + 4, "selftest-error", pc, e, err="missing tags"),
    ]
    extra = []
    for k, m in enumerate(gen_mism):
        o = m["o"]
        extra.append({"i": 2 * 10 ** 8 + k, "case": "generated-%d" % k, "ev": "InitialReorder",
                      "a": {"sc": m["sc"], "m": m["m"], "f": m["f"], "k": m["k"], "r": m["r"], "c": m["c"]}, "o": o})
    with open(trace, "a") as f:
        for x in planted + extra:
            f.write(json.dumps(x, separators=(",", ":")) + "\n")
    total, mism = vlib.judge_trace_parallel(ctx, "Trace_IndicReorder", "Trace_IndicReorder.cfg", trace, "judge",
                                            parts=4, timeout=2400)
    ctx.note("judge: %d events, %d not conformant" % (total, len(mism)))
    if total != rec["events"] + len(planted) + len(extra):
        raise vlib.ToolError("judge consumed %d events, trace has %d" % (total, rec["events"] + len(planted) + len(extra)))

    by_key, seen_planted, judged_extra, n_recorded_mism = {}, {}, set(), 0
    for m in mism:
        case = m["case"]
        if case.startswith("selftest-"):
            seen_planted[case] = m["key"][2] if len(m["key"]) > 2 else ""
            continue
        if case.startswith("generated-"):
            judged_extra.add(case)
        else:
            n_recorded_mism += 1
        src = "generated" if case.startswith("generated-") else "recorded"
        key = _key(m)
        old = by_key.get(key)
        if old is None or len(m["a"]["r"]) < len(old[1]["a"]["r"]):
            by_key[key] = (src, m)
    if seen_planted != {"selftest-order": "order", "selftest-pos": "pos", "selftest-mask": "mask", "selftest-error": "error"}:
        raise vlib.ToolError("binding self-check failed: Trace_IndicReorder must accept the generated expectation and reject "
                             "its four corruptions by name; rejected: %s" % seen_planted)
    for k in range(len(gen_mism)):
        if "generated-%d" % k not in judged_extra:
            raise vlib.ToolError("MC_IndicReorder and Trace_IndicReorder disagree: generated case %s conforms for the judge"
                                 % json.dumps(gen_mism[k])[:400])
    n_unexplained = rep.get("mismatches", 0) - 1
    if len(gen_mism) < n_unexplained:
        ctx.note("replay: %d mismatching cases, the first %d handed to the judge" % (n_unexplained, len(gen_mism)))

    violations = []
    for key, (src, m) in sorted(by_key.items()):
        a = m["a"]
        violations.append(Violation(key, _what(m, key, src),
                                    {"source": src, "sc": a["sc"], "m": a["m"], "f": a["f"], "k": a["k"], "r": a["r"],
                                     "got": m["o"], "want": m["want"], "key": key}))

    # ---- vacuity (from TLC-generated data and the harness' inputs only) --------------------------------
    ec = rep.get("expected_classes") or {}
    em = rep.get("expected_masks") or {}
    per = rep.get("cases_per_script_model_kind") or {}
    new_violations = [v for v in violations if v.key not in vlib.load_known(ctx.prop)]
    if not new_violations:
        need = {"nobase", "reph", "prem", "belowc", "postc", "prec", "moved"}
        if need - set(ec):
            raise vlib.ToolError("vacuous exploration: result classes never expected: %s" % sorted(need - set(ec)))
        if {"rphf", "pref", "blwf", "half", "pstf"} - set(em):
            raise vlib.ToolError("vacuous exploration: masks never expected: %s" % sorted({"rphf", "pref", "blwf", "half", "pstf"} - set(em)))
        scripts = {k.split("|")[0] for k in per}
        if len(scripts) < 9 or not all(any(k.endswith("|" + kd) for k in per) for kd in ("consonant", "vowel", "standalone", "broken")):
            raise vlib.ToolError("vacuous exploration: scripts %s, kinds %s" % (sorted(scripts), sorted(per)[:8]))
        if rec["events"] < n_rec * 9 // 10:
            raise vlib.ToolError("record produced %d events, expected %d" % (rec["events"], n_rec))

    coverage = {
        "states": mc.distinct,
        "transitions": mc.generated,
        "traces_validated_against_impl": rep["cases"] - 1 + rec["events"],
        "samples": samples[:2] + [plant[0]],
        "generated_cases": n_cases[0],
        "generated_cases_per_script_model_kind": per,
        "generated_ok": rep.get("ok"),
        "generated_mismatches": n_unexplained,
        "generated_panics": rep.get("panics"),
        "fonts_encoded_for_replay": rep.get("fonts_encoded"),
        "expected_result_classes": ec,
        "expected_masks": em,
        "recorded_events_judged": rec["events"],
        "recorded_not_conformant": n_recorded_mism,
        "recorded_panics": rec.get("panics"),
        "recorded_kinds": rec.get("kinds"),
        "recorded_lengths": rec.get("lengths"),
        "recorded_skipped_not_one_cluster": rec.get("skipped_not_one_cluster"),
        "recorded_fonts_encoded": rec.get("fonts_encoded"),
        "tlc_depth": mc.depth,
        "binding_selfcheck": "a generated expectation with the order reversed is reported by the harness; the judge accepts "
                             "a generated expectation and rejects four corruptions of it by name (two glyphs swapped, reph "
                             "retagged, masks dropped, stage error); every generated mismatch is also rejected by the judge",
        "exhaustive": True,
        "explanation": "exhaustive over the bounded model (config %s: every cluster of the bounded cluster grammar for the "
                       "scripts / models / fonts of the tier); recorded traces are random samples" % cfg,
    }
    vlib.finish(ctx, LEVEL, coverage, violations, ASSUMPTIONS)


def replay(ctx, path):
    d = json.load(open(path))["detail"]
    binp = _prepare(ctx)
    trace = ctx.path("one_trace.ndjson")
    f = d["f"]
    vlib.run_harness(binp, ["one", trace, d["sc"], d["m"], "1" if f["rphf"] else "0", ",".join(f["blwf"]) or "-",
                            ",".join(f["pstf"]) or "-", ",".join(f["pref"]) or "-", d["k"]] + d["r"])
    _, mism = vlib.judge_trace(ctx, "Trace_IndicReorder", "Trace_IndicReorder.cfg", trace, "replayjudge")
    for m in mism:
        print("REPRODUCED " + _what(m, _key(m), "replay"))
    if not mism:
        print("not reproduced: %s %s [%s] conforms" % (d["sc"], d["m"], " ".join(d["r"])))
    return 1 if mism else 0
