"""C08 - subsetting preserves the character mapping of retained glyphs.

design       : TLC checks SubsetCmapOK on the model of the subsetter's cmap path (CmapSubset.tla composed
               with the readers of Cmap.tla) twice: on the model of the code as it is now (FixFmt0, FixSymInv =
               TRUE: both recorded defects are repaired in /repo) it must hold for every generated case; with
               the two defects switched on it may fail only in the cases the findings describe (and fails on
               every format 0 overflow case).  It also checks the inverse law of the Symbol -> Mac Roman
               conversion against Cmap.tla's legacy symbol rule over all 16-bit codes and 14 values of
               usFirstCharIndex, and that the named wrong readings (one is the seeded change C08-r2m3) break it.
spec -> impl : the first run prints one CASE per (source mapping, glyph id list, target): the glyph the
               PROPERTY prescribes for every probe character and the encoding record the writer model
               predicts.  The harness synthesizes a TrueType font per case (source formats 4 / 12 / 0 /
               symbol 3-0, n glyphs up to 65534; family tab: the sub-table TLC hands over, formats 0 / 2 / 4 / 6 /
               10 / 12 under Unicode, Mac Roman, Symbol and Big5 records), calls subset::subset and prince::subset (Unrestricted /
               MacRoman), reads the output cmap with its independent reader and through
               Font::lookup_glyph_index and compares with the prescription by equality.
impl -> spec : repository fonts x glyph lists from selection patterns x api/target; one event per subset
               (id list, decoded output record, per probe: source glyph and position), judged by
               Trace_CmapSubset with the right-hand side of SubsetCmapOK; the written record is evaluated
               by the readers of Cmap.tla inside the judge.
"""
import json
import os

import vlib
from vlib import Violation

LEVEL = "model_checking"
BIN = "c08_subsetcmap"

ASSUMPTIONS = [
    "glyph id lists start with 0 and have no duplicates (the documented precondition of subset); 'retained' means "
    "listed: glyphs pulled in only as composite components are not expected to keep their characters",
    "generated source fonts are TrueType with empty glyphs and one cmap record (3/10 format 12, 3/1 format 4 with idDelta "
    "segments or with glyphIdArray segments, 1/0 format 0, 3/0 format 4 with OS/2.usFirstCharIndex or without an OS/2 table); "
    "CFF sources only among the repository fonts and only through subset::subset (prince::subset returns a bare CFF table, no cmap)",
    "a Symbol source under a Mac Roman target is judged on the Unicode characters that reach its codes through Font's legacy "
    "symbol rule (Cmap.tla SymbolCode) with the source's usFirstCharIndex (0x20 without OS/2), whatever that value is",
    "which encoding record / format the subsetter writes is free; agreement with the record the writer model "
    "predicts is measured (model fidelity) but never judged",
    "named nondeterminism: Dev_MacCurrency (code 0xDB is U+00A4 or U+20AC: one reading for source and result), "
    "Dev_MacRomanPdfSubset (fifteen Mac Roman characters an implementation may not know: optional under a Mac "
    "Roman target)",
    "the Font::lookup_glyph_index view is judged for Unicode records (all characters) and Mac Roman records "
    "(definite Mac Roman characters); for Symbol records it is not (needs OS/2.usFirstCharIndex, which a "
    "TrueType subset does not carry); Font's fallback for non Mac Roman characters is C06's matter",
    "PrinceCmapTarget::MacRomanCmap (caller-supplied table) and Omit (no cmap; only counted) are outside the property; a "
    "subset call that returns Err gives no subset font and no verdict (counted, vacuity-guarded)",
    "table sources (family tab): hand-written sub-tables of formats 0, 2, 4, 6, 10, 12 under Unicode, Mac Roman, Symbol and "
    "Big5 records, encoded as they are; the glyph of a character is the glyph the table's LOOKUP (Cmap.tla Map) gives its "
    "code: a glyphIndexArray / glyphIdArray entry 0 is glyph 0 whatever idDelta says; a code that is not a character of "
    "the record's encoding (a surrogate, a code that is not a Big5 code) denotes no character",
    "Big5: the specification knows 0x00..0x7F, 0xA440..0xA453, 0xA45D, nine sample characters and the three characters Big5 "
    "holds twice that the sources use (U+2550, U+5341, U+5345; the encoder yields the last code); generated Big5 sources list "
    "glyphs only under those codes or under codes that are not Big5 codes; a character with two codes is generated with both "
    "codes on one glyph (which glyph the property names when they differ is ambiguous: not generated); the HKSCS area that "
    "allsorts decodes but never encodes (Cmap.tla Dev_Big5DecodeSuperset) is not generated; no Big5 font among the repository fonts",
]

NEED_SHAPES = ["f0", "f12", "f4:delta", "f4:gia", "f4sym:delta", "f4sym:gia"]

# Families the generated cases must exercise; counted by the harness from the CASE lines and the source
# sub-tables it builds from them (its inputs), never from what allsorts returns.
SYM_FIRSTS = ["absent", "0x0", "0x10", "0x1F", "0x20", "0x21", "0xF000", "0xF020", "0xF0FF", "0xF100"]
TARGETS = ["Unrestricted", "MacRoman"]
# record / format combinations of the table sources
TAB_RECORDS = ["3/1:f2", "3/4:f2", "3/0:f2", "3/4:f4", "3/4:f6", "3/1:f6", "0/3:f6", "1/0:f6", "3/0:f6", "3/10:f10", "0/4:f10",
               "0/3:f0", "1/0:f0", "3/1:f4", "3/0:f4", "3/10:f12", "0/4:f12"]
ROUTES = ["route:subset|Unrestricted", "route:prince|Unrestricted", "route:prince-cid|Unrestricted", "route:prince-new|Unrestricted",
          "route:prince|MacRoman", "route:prince-cid|MacRoman", "route:prince-new|MacRoman"]


def _need_families(quick):
    need = list(ROUTES)
    # Symbol sources: usFirstCharIndex over its parameter space x every target x codes in 0x20..0xFF and in 0xF020..0xF0FF
    need += ["sym|first=%s|%s|%s" % (f, t, r) for f in SYM_FIRSTS for t in TARGETS for r in ("low", "high")]
    for t in TARGETS:
        need += ["src:3/1:f4|last-segment-real-ends-0xFFFF|retained|" + t, "src:3/1:f4gia|last-segment-real-ends-0xFFFF|retained|" + t,
                 "src:3/10:f12|group-spans-bmp-astral-border|retained|" + t]
        need += ["several-characters-per-glyph|pad=%d|%s" % (pd, t) for pd in ((0, 253, 254, 300) if quick else (0, 252, 253, 254, 255, 300, 65530))]
    need += ["src:3/10:f12|character-mapped-to-glyph-0-explicitly", "src:3/1:f4|character-mapped-to-glyph-0-explicitly",
             "src:3/1:f4gia|character-mapped-to-glyph-0-explicitly"]
    # sources given as tables (family `tab`): every format mappings_fn walks, under every kind of record, with holes
    # (entries 0, also under a non-zero idDelta, the glyph idDelta names retained), wrapping idDelta, boundary windows
    for t in TARGETS:
        need += ["src-record:%s|%s" % (r, t) for r in TAB_RECORDS]
        need += ["src:f2|%s|hole-under-nonzero-idDelta|%s" % (k, t) for k in ("single", "double")]
        need += ["src:f2|%s|hole-under-nonzero-idDelta|glyph-idDelta-retained|%s" % (k, t) for k in ("single", "double")]
        need += ["src:f4|glyphIdArray-hole-under-nonzero-idDelta|" + t, "src:f0|holes|" + t, "src:f6|holes|" + t, "src:f10|holes|" + t]
        need += ["src:big5|%s|retained|%s" % (k, t) for k in ("single-byte-code", "two-byte-code", "single-byte-not-a-big5-code",
                                                                "lead-byte-not-a-big5-lead", "trail-byte-not-a-big5-trail")]
        need += ["src:big5|character-with-two-codes|both-retained|" + t]
    need += ["src:f2|double|idDelta-negative", "src:f2|double|idDelta-wraps-past-65535", "src:f2|two-lead-bytes-one-sub-header",
             "src:f2|lead-byte-0xFF", "src:f2|sub-header-without-entries", "src:f2|single|window-starts-at-byte-0",
             "src:f2|single|window-ends-at-byte-0xFF", "src:f2|double|window-starts-at-byte-0", "src:f2|double|window-ends-at-byte-0xFF",
             "src:f4|idDelta-negative", "src:f4|idDelta-wraps-past-65535", "src:f6|first-code-0", "src:f6|ends-at-0xFFFF",
             "src:f6|leading-and-trailing-0", "src:f10|spans-bmp-astral-border", "src:f10|ends-at-0x10FFFF", "src:f0|codes-0-and-255-mapped",
             "src:f12|group-from-glyph-0", "src:f12|group-holds-surrogates", "src:f12|ends-at-0x10FFFF"]
    return need


# recorded: the repository's Symbol font rebuilt with usFirstCharIndex over the same values, codes in the PUA block
# and moved down to the byte range (counted when the harness has built and re-read the variant: inputs)
def _need_symbol_variants():
    return ["first=%s|%s" % (f, r) for f in SYM_FIRSTS for r in ("low", "high") if not (f == "0xF020" and r == "high")]


def _key(enc, first, target, out, cls, chars):
    if cls == "gid-mod-256" and out.endswith(":f0"):
        return "fmt0|gid-mod-256"
    src = enc + (":first=0x%X" % first if enc == "Symbol" else "")
    k = "%s|%s|%s|%s" % (src, target, out, cls)
    special = sorted(set(c for c in chars if c in (0x7F, 0x2C6)))
    if chars and len(special) == len(set(chars)):
        k += "|" + ",".join("U+%04X" % c for c in special)
    return k


def _ch(x):
    return "symbol code 0x%X" % (x - 16777216) if x >= 16777216 else "U+%04X" % x


def _run_mc(ctx, cfg, tag, cases_path=None, probes_path=None, timeout=900):
    n = [0]
    samples = {}
    fc = open(cases_path, "w") if cases_path else None

    def sink(t, payload):
        if t == "CASE" and fc is not None:
            fc.write(payload + "\n")
            n[0] += 1
            if len(samples) < 6 and n[0] % 97 == 1 and len(payload) < 1200:
                samples.setdefault(json.loads(payload)["fam"], payload)
        elif t == "PROBES" and probes_path:
            with open(probes_path, "w") as fp:
                fp.write(payload)
    try:
        mc = vlib.run_tlc(ctx, "MC_CmapSubset", cfg, tag, workers=4, timeout=timeout, sink=sink)
    finally:
        if fc:
            fc.close()
    return mc, n[0], samples


def _plant_case(cases_path):
    """Binding self-check for replay: a copy of one case whose prescription is falsified."""
    with open(cases_path) as f:
        for ln in f:
            c = json.loads(ln)
            if c["x"] and not c["dev"] and c["enc"] == "Unicode" and c["target"] == "Unrestricted":
                c["fam"] = "selftest"
                c["x"][0][1] = 64999        # a glyph id no output of a small case can hold
                c["same"] = False
                c["pm"] = []
                return c
    return None


def _corrupt_event(e):
    """Binding self-check for the judge: the written record of one recorded subset is falsified."""
    bad = json.loads(json.dumps(e))
    tab = bad["o"]["out"]["tab"]
    if tab["fmt"] == 0:
        k = next((j for j, g in enumerate(tab["gia"]) if g), None)
        if k is None:
            return None
        tab["gia"][k] = tab["gia"][k] - 1 if tab["gia"][k] == 255 else tab["gia"][k] + 1
    elif tab["fmt"] == 4:
        seg = next((s for s in tab["segs"] if s["ro"] == 0 and s["e"] != 65535), None)
        if seg is not None:
            seg["delta"] += 1
        else:
            k = next((j for j, g in enumerate(tab["gia"]) if g), None)
            if k is None:
                return None
            tab["gia"][k] += 1
    elif tab["fmt"] == 12:
        if not tab["groups"]:
            return None
        tab["groups"][0]["g"] += 1
    else:
        return None
    bad["case"] = "selftest-corrupt"
    return bad


def run(ctx):
    """Violations take precedence over tool problems: whatever was found before a later stage failed is
    reported (exit 1); a tool error (exit 2) is raised only when there is nothing new to report."""
    violations, cov = [], {}
    try:
        _run(ctx, violations, cov)
    except Exception as e:        # ToolError, or a driver exception on output it did not expect
        known = vlib.load_known(ctx.prop)
        if not any(v.key not in known for v in violations):
            raise
        ctx.note("a later stage failed after violations had been found; reporting the violations. Tool problem: %s" % str(e)[:1500])
        cov.setdefault("states", 0)
        cov.setdefault("transitions", 0)
        cov.setdefault("traces_validated_against_impl", 0)
        cov.setdefault("samples", [])
        cov["incomplete_run"] = str(e)[:500]
    vlib.finish(ctx, LEVEL, cov, violations, ASSUMPTIONS)


def _run(ctx, violations, cov):
    binp = vlib.build_harness(BIN)
    tier = "quick" if ctx.quick else "thorough"

    # model of the code as it is now (both repairs in): SubsetCmapOK holds on every case; the inverse law of the
    # Symbol -> Mac Roman conversion holds and discriminates the named wrong readings (ASSUMEs); cases are emitted
    cases_path, probes_path = ctx.path("cases.ndjson"), ctx.path("probes.json")
    mc, n_cases, samples = _run_mc(ctx, "MC_CmapSubset_%s.cfg" % tier, "mc_code", cases_path, probes_path,
                                   timeout=600 if ctx.quick else 1500)
    ctx.note("MC_CmapSubset[model of the code]: %d states, %d cases, SubsetCmapOK holds on every case, inverse law checked (%.1fs)" %
             (mc.distinct, n_cases, mc.wall))
    if n_cases == 0 or not os.path.exists(probes_path):
        raise vlib.ToolError("no CASE / PROBES lines generated")
    # the two recorded defects switched on: SubsetCmapOK fails only where the findings say (the specification tells them apart)
    fixed, _, _ = _run_mc(ctx, "MC_CmapSubset_defect_%s.cfg" % tier, "mc_defect", timeout=600 if ctx.quick else 1500)
    ctx.note("MC_CmapSubset[recorded defects switched on]: %d states, SubsetCmapOK fails only in the cases the findings name (%.1fs)" %
             (fixed.distinct, fixed.wall))
    cov.update({"states": mc.distinct + fixed.distinct, "generated_cases": n_cases})
    probes = json.load(open(probes_path))
    planted = _plant_case(cases_path)
    if planted is None:
        raise vlib.ToolError("no case suitable for the replay self-check")
    with open(cases_path, "a") as f:
        f.write(json.dumps(planted, separators=(",", ":")) + "\n")

    # spec -> impl
    mism_path = ctx.path("mismatches.ndjson")
    rep = vlib.run_harness(binp, ["replay", probes_path, cases_path, mism_path, tier], timeout=1500)
    ctx.note("replay: %s" % json.dumps({k: v for k, v in rep.items() if k not in ("model_diff_samples",)}))
    planted_seen = False
    n_dev_cases = 0
    for m in vlib.read_ndjson(mism_path):
        if m["fam"] == "selftest":
            planted_seen = True
            continue
        chars = [b[0] for b in m["bad"]]
        key = _key(m["enc"], m["first"], m["target"], m["out"], m["class"], chars)
        b = m["bad"][0] if m["bad"] else None
        what = "generated %s case (source %s %s, target %s, %d glyphs, api %s, view %s): output %s: %s" % (
            m["fam"], m["enc"], m["srcfmt"], m["target"], m["case"]["n"], m["api"], m["view"], m["out"],
            ("%s must map to glyph %d, maps to %d" % (_ch(b[0]), b[1], b[2])) if b else m["class"])
        if m.get("explained"):
            what += " [as the model of the code predicts]"
            n_dev_cases += 1
        case = dict(m["case"])
        violations.append(Violation(key, what, {"source": "generated", "mismatch": {k: v for k, v in m.items() if k != "case"},
                                                "case": case, "probes": probes}))
    if not planted_seen:
        raise vlib.ToolError("binding self-check failed: the falsified generated case was not reported by replay")

    # impl -> spec
    rec_trace = ctx.path("rec_trace.ndjson")
    rec = vlib.run_harness(binp, ["record", ctx.seed, ctx.tier, rec_trace], timeout=1500)
    ctx.note("record: %s" % json.dumps(rec))
    trace = ctx.path("trace.ndjson")
    n_ev = 0
    corrupt = None
    meta = {}
    with open(trace, "w") as out:
        with open(rec_trace) as f:
            for ln in f:
                e = json.loads(ln)
                e["i"] = n_ev
                if corrupt is None and e["o"]["st"] == "ok" and any(p[2] > 0 for p in e["o"]["probes"]):
                    c = _corrupt_event(e)
                    # the falsified entry must concern a probed character
                    if c is not None and len(ln) < 400000:
                        corrupt = c
                meta[n_ev] = {"case": e["case"], "n_ids": len(e["a"]["ids"])}
                out.write(json.dumps(e, separators=(",", ":")) + "\n")
                n_ev += 1
        if corrupt is None:
            raise vlib.ToolError("no recorded subset with a mapped retained character: trace is vacuous")
        corrupt["i"] = n_ev
        out.write(json.dumps(corrupt, separators=(",", ":")) + "\n")
        n_ev += 1
    other = {"FAILED": [], "BADEVENT": [], "UNMODELLED": []}
    total, mism = vlib.judge_trace_parallel(ctx, "Trace_CmapSubset", "Trace_CmapSubset.cfg", trace, "judge",
                                            parts=4 if ctx.quick else 6, timeout=1500, other_tags=other)
    ctx.note("judge: %d events, %d mismatch lines, %d failed calls" % (total, len(mism), len(other["FAILED"])))
    if total != n_ev:
        raise vlib.ToolError("judge consumed %d of %d events" % (total, n_ev))
    if other["BADEVENT"] or other["UNMODELLED"]:
        raise vlib.ToolError("trace events the judge cannot use: %s" % vlib.short(other["BADEVENT"] + other["UNMODELLED"], 1500))
    corrupt_seen = False
    for m in sorted(mism, key=lambda m: m["i"]):
        if m["case"] == "selftest-corrupt":
            corrupt_seen = True
            continue
        out_name = "%s/%s:f%s" % (m["out"]["p"], m["out"]["e"], m["out"]["fmt"]) if m["out"]["fmt"] >= 0 else "-"
        by_class = {}
        for view, cls, x in m["classes"]:
            by_class.setdefault(cls, []).append(x)
        for cls, chars in sorted(by_class.items()):
            key = _key(m["enc"], m["first"], m["target"], out_name, cls, [c for c in chars if c >= 0])
            ex = next((b for b in m["bad"] if b[0] in chars), None)
            what = "%s (%d ids): output %s: %d characters wrong, class %s%s" % (
                m["case"], meta.get(m["i"], {}).get("n_ids", -1), out_name, m["n"], cls,
                (": %s must map to one of %s, maps to %d (%s view)" % (_ch(ex[0]), ex[1], ex[2], ex[3])) if ex else "")
            violations.append(Violation(key, what, dict(m, source="recorded")))
    if not corrupt_seen:
        raise vlib.ToolError("binding self-check failed: the falsified recorded subset was accepted by Trace_CmapSubset")

    # vacuity guards
    shapes = rep.get("shapes", {})
    missing = [s for s in NEED_SHAPES if not any(k.startswith(s) for k in shapes)]
    if not any(k.endswith(":ffff") for k in shapes):
        missing.append("segment touching 0xFFFF")
    for t in ("newid>255", "retained>256"):
        if not rep.get("thresholds", {}).get(t):
            missing.append("generated " + t)
        if not rec.get("thresholds", {}).get(t):
            missing.append("recorded " + t)
    fams = rep.get("families", {})
    missing += ["generated " + k for k in _need_families(ctx.quick) if not fams.get(k)]
    missing += ["recorded Symbol variant " + k for k in _need_symbol_variants() if not rec.get("symbol_variants", {}).get(k)]
    for f in SYM_FIRSTS:
        for api in ("prince", "prince-new", "prince-cid"):
            if not rec.get("symbol_events", {}).get("first=%s|%s|MacRoman" % (f, api)):
                missing.append("recorded Symbol first=%s %s MacRoman" % (f, api))
    if missing:
        raise vlib.ToolError("vacuity guard: never exercised: %s" % missing)
    n_err = sum(v for k, v in rep.get("errors", {}).items() if k.startswith("err:"))      # panics are violations
    if n_err > 0.02 * max(1, rep.get("runs", 0)):
        raise vlib.ToolError("vacuity guard: %d of %d generated subset calls returned Err: %s" %
                             (n_err, rep.get("runs", 0), rep.get("errors")))
    if rec.get("statuses", {}).get("err", 0) > 0.1 * max(1, rec.get("events", 0)):
        raise vlib.ToolError("vacuity guard: recorded subset calls mostly failed: %s" % rec.get("statuses"))

    cov.update({
        "states": mc.distinct + fixed.distinct,
        "transitions": rep.get("runs", 0) + rec.get("events", 0),
        "traces_validated_against_impl": n_cases + rec.get("events", 0),
        "samples": [json.loads(s) for s in list(samples.values())[:3]],
        "design_states_defects_switched_on": fixed.distinct,
        "design_states_code": mc.distinct,
        "generated_families": fams,
        "recorded_symbol_variants": rec.get("symbol_variants", {}),
        "recorded_symbol_events": rec.get("symbol_events", {}),
        "generated_cases": n_cases,
        "generated_subset_calls": rep.get("runs", 0),
        "generated_subset_calls_ok": rep.get("runs_ok", 0),
        "generated_probes_independent_reader": rep.get("probes_sub", 0),
        "generated_probes_font_lookup": rep.get("probes_font", 0),
        "generated_output_records": rep.get("outs", {}),
        "generated_model_shapes": shapes,
        "generated_thresholds": rep.get("thresholds", {}),
        "generated_call_errors": rep.get("errors", {}),
        "omit_target_outputs_without_cmap": rep.get("omit_without_cmap", 0),
        "writer_model_exact_records": rep.get("model_exact", 0),
        "writer_model_same_map_other_layout": rep.get("model_same_map_other_layout", 0),
        "writer_model_different_map": rep.get("model_diff", 0),
        "writer_model_diff_samples": rep.get("model_diff_samples", [])[:2],
        "generated_mismatches_predicted_by_code_model": n_dev_cases,
        "recorded_fonts": rec.get("fonts", 0),
        "recorded_sources": rec.get("sources", {}),
        "recorded_subsets": rec.get("events", 0),
        "recorded_patterns": rec.get("patterns", {}),
        "recorded_output_records": rec.get("outs", {}),
        "recorded_thresholds": rec.get("thresholds", {}),
        "recorded_probes": rec.get("probes", 0),
        "recorded_call_statuses": rec.get("statuses", {}),
        "recorded_failed_calls": [f.get("case", "") + " " + f.get("st", "") for f in other["FAILED"]][:10],
        "fonts_skipped": rec.get("skipped", {}),
        "recorded_events_judged": total,
        "binding_selfcheck": "falsified generated case reported by replay; falsified recorded output record rejected by Trace_CmapSubset",
        "exhaustive": True,
        "explanation": "exhaustive over the bounded generator (MC_CmapSubset_%s.cfg); recorded: %s repository fonts" %
                       (tier, "a seeded sample of" if ctx.quick else "all"),
    })


def replay(ctx, path):
    d = json.load(open(path))["detail"]
    if d.get("source") != "generated":
        print("recorded-trace violation: re-run the check with VERIF_SEED=%d --tier %s; event: %s" %
              (ctx.seed, ctx.tier, vlib.short(d, 2000)))
        return 1
    binp = vlib.build_harness(BIN)
    case = d["case"]
    cp, pp, mp = ctx.path("case.ndjson"), ctx.path("probes.json"), ctx.path("mm.ndjson")
    vlib.write_ndjson(cp, [case])
    json.dump(d["probes"], open(pp, "w"))
    rep = vlib.run_harness(binp, ["replay", pp, cp, mp, "quick"])
    mm = vlib.read_ndjson(mp)
    for m in mm:
        print("REPRODUCED api=%s source=%s view=%s output=%s class=%s bad=%s" % (m["api"], m["srcfmt"], m["view"], m["out"], m["class"], m["bad"]))
    print(json.dumps({k: rep[k] for k in ("cases", "runs", "runs_ok", "mismatch_reports", "outs")}))
    return 1 if mm else 0
