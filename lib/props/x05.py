"""X05 (extra) - script / language-system / feature selection and the ordered lookup list that shaping applies.

From (GSUB or GPOS, script tag, optional language tag, requested features - Features::Mask or Features::Custom -,
optional variation tuple) to the ordered list of lookups (with the feature each runs under) that allsorts applies.

spec -> impl : TLC explores MC_LayoutSelect: four families of (abstract font, request) drawn through nested
               quantifiers; one step of the small-step machine per state; in the final state machine = closed form and
               the design lemmas hold. One CASE per case: the font, the request and the SETS of acceptable observations
               (all Dev_ readings) plus, where a named defect reading differs, its sets. The harness encodes the font
               into real GSUB / GPOS bytes with the specification's marker lookups, calls the accessors
               (find_script_or_default, find_langsys_or_default, feature_indices_iter, features_supported,
               get_lookups_cache_index + cached_lookups) and gsub::apply / gpos::apply, and compares by JSON equality.
impl -> spec : the ScriptList / FeatureList / FeatureVariations of every repository font read by an independent reader,
               (script, language) pairs x tags x masks observed through the accessors; seeded random fonts with marker
               lookups observed through apply; the FeatureMask <-> tag table. Judged by Trace_LayoutSelect.
"""
import json
import re

import vlib
from vlib import Violation

LEVEL = "model_checking"

ASSUMPTIONS = [
    "the lookups of the synthesized fonts are the specification's marker lookups (GSUB: alternate substitutions whose "
    "output glyph is the sequence of <<lookup, alternate>> steps so far, at most 5 steps; GPOS: per lookup a counter "
    "adjustment and a last-wins mark attachment per pair of lookups): what ONE real lookup does is C04 / C05",
    "Dev_ScriptFallback: requested script tag, then 'DFLT' (OpenType); additionally 'dflt' and 'latn' (HarfBuzz) is accepted",
    "Dev_DuplicateTag: a LangSys naming two features with the same tag selects the first in table order or all of them",
    "Dev_ImplicitRvrn: 'rvrn' without a variation tuple (mask API) or not named in a custom list may or may not be applied; "
    "with a tuple (mask API) or when named it is applied first",
    "Dev_CustomGposBase: with Features::Custom the positioning features of the script class are or are not added",
    "Dev_SharedLookupTag: a lookup named by several selected features runs under any one of them (tag / alternate index)",
    "substitution for the complex-script classes (arab, syrc, Indic, khmr, mymr, thai / lao) belongs to their shapers "
    "(X02, C02): GSUB requests use scripts of the default class; GPOS requests use every class",
    "repository fonts: tables the independent reader cannot describe (bad offsets, unknown condition formats, feature "
    "indices out of range) are skipped and counted",
]

DEFAULT_MASK = ["calt", "ccmp", "clig", "liga", "locl", "rlig"]


def _panic_class(msg):
    m = msg.rsplit(" @ ", 1)
    loc = m[1] if len(m) > 1 else ""
    f = loc.rsplit(":", 1)[0].rsplit("/src/", 1)[-1]
    return re.sub(r"\d+", "N", m[0])[:50].replace(" ", "_") + "@" + f


def _keys(m):
    ks = []
    for t in m["keys"]:
        k = "|".join(str(x) for x in t)
        if len(t) >= 2 and t[1] == "panic":
            k += "|" + _panic_class(m["o"].get("panic", ""))
        ks.append(k)
    return ks


def _what(m, key, src):
    a, o = m["a"], m["o"]
    if m["ev"] in ("Apply", "Lookups"):
        rq = "%s script %r lang %r %s %s%s" % (a["t"], a["sc"], a["lg"], a["mode"], a["tags"],
                                                (" tuple %s" % a["tup"]) if a.get("ht") else "")
        got = o.get("obs") if m["ev"] == "Apply" else o.get("sel")
        return "%s (%s): %s: allsorts %s%s%s" % (key, src, rq, vlib.short(got, 160),
                                                (" ERR " + o["err"]) if o.get("err") else "",
                                                (" PANIC " + o["panic"]) if o.get("panic") else "")
    return "%s (%s): %s %s -> %s" % (key, src, m["ev"], vlib.short(a, 160), vlib.short(o, 160))


def _events(case, font, req, res=None, sel=None, sup=None, obs=None, err="", panic="", mk=None, start=0):
    """the events of one (font, request) observation, in the vocabulary of Trace_LayoutSelect"""
    evs = [{"i": start, "case": case, "ev": "Font", "a": font, "o": {}}]
    n = start + 1
    if res is not None:
        evs.append({"i": n, "case": case, "ev": "Resolve", "a": {"t": req["t"], "sc": req["sc"], "lg": req["lg"]},
                    "o": {"res": res, "err": err, "panic": panic}})
        n += 1
    if sel is not None and req["t"] == "GSUB" and req["mode"] == "mask":
        evs.append({"i": n, "case": case, "ev": "Lookups", "a": req, "o": {"sel": sel, "sup": sup, "err": err, "panic": panic}})
        n += 1
    if obs is not None:
        a = dict(req)
        if mk:
            a["mk"] = mk
        evs.append({"i": n, "case": case, "ev": "Apply", "a": a, "o": {"obs": obs, "err": err, "panic": panic}})
    return evs


def _fix_empty(c):
    """TLC prints an empty sequence as [] - nothing to do; kept as one place to normalise a case"""
    return c


def run(ctx):
    binp = vlib.build_harness("x05_layoutselect")

    # ---- spec -> impl ---------------------------------------------------------------------------------
    cfg = "MC_LayoutSelect_quick.cfg" if ctx.quick else "MC_LayoutSelect_thorough.cfg"
    cases_path = ctx.path("cases.ndjson")
    n_cases = [0]
    samples, plant = [], [None]
    fams = {}
    with open(cases_path, "w") as fc:
        def sink(tag, payload):
            if tag != "CASE":
                return
            fc.write(payload + "\n")
            n_cases[0] += 1
            if plant[0] is None or (len(samples) < 2 and n_cases[0] % 4099 == 0):
                c = json.loads(payload)
                if c["req"]["t"] == "GSUB" and not c["k"] and len(c["e"]["obs"]) == 1 and len(c["e"]["obs"][0]) >= 2 \
                        and len({s[0] for s in c["e"]["obs"][0]}) >= 2 and len(c["e"]["res"]) == 1:
                    if plant[0] is None:
                        plant[0] = c
                    else:
                        samples.append(c)
        mc = vlib.run_tlc(ctx, "MC_LayoutSelect", cfg, "mc", workers=6, timeout=500 if ctx.quick else 2400, sink=sink)
        if n_cases[0] == 0 or plant[0] is None:
            raise vlib.ToolError("no usable CASE lines generated")
        # binding self-check (spec -> impl): an impossible expectation must be reported by the harness
        bad = json.loads(json.dumps(plant[0]))
        bad["id"] = "selftest-corrupt"
        bad["e"]["obs"] = [list(reversed(plant[0]["e"]["obs"][0]))]
        bad["k"] = []
        fc.write(json.dumps(bad) + "\n")
    ctx.note("MC_LayoutSelect: %d states generated, %d distinct, depth %d, %d cases (%.1fs)" %
             (mc.generated, mc.distinct, mc.depth, n_cases[0], mc.wall))

    mm_path = ctx.path("replay_mismatches.ndjson")
    rep = vlib.run_harness(binp, ["replay", cases_path, mm_path], timeout=2400)
    cnt = rep["counters"]
    ctx.note("replay: %s" % json.dumps({"cases": rep["cases"], "ok": cnt.get("ok", 0), "known": cnt.get("known", 0),
                                        "mismatch": cnt.get("mismatch", 0), "known_by_defects": rep["known_by_defects"]}))
    gen_known, gen_mism, planted_seen = [], [], False
    for m in vlib.read_ndjson(mm_path):
        if m.get("id") == "selftest-corrupt":
            planted_seen = m["kind"] == "mismatch"
        elif m["kind"] == "known":
            gen_known.append(m)
        else:
            gen_mism.append(m)
    if not planted_seen:
        raise vlib.ToolError("binding self-check failed: the harness accepted a corrupted generated case")

    # ---- impl -> spec ---------------------------------------------------------------------------------
    trace = ctx.path("trace.ndjson")
    rec = vlib.run_harness(binp, ["record", ctx.seed, 700 if ctx.quick else 9000, 10 if ctx.quick else 60, trace], timeout=1500)
    ctx.note("record: %s" % json.dumps(rec))
    # binding self-check (impl -> spec), from TLC-generated data only: the judge must accept the generated expectation
    # and reject three corruptions of it
    pc = plant[0]
    good = pc["e"]["obs"][0]
    res = pc["e"]["res"][0]
    planted = []
    planted += _events("selftest-good", pc["font"], pc["req"], res=res, obs=good, mk=pc["mk"], start=10 ** 8)
    planted += _events("selftest-reversed", pc["font"], pc["req"], obs=list(reversed(good)), mk=pc["mk"], start=10 ** 8 + 10)
    planted += _events("selftest-dropped", pc["font"], pc["req"], obs=good[1:], mk=pc["mk"], start=10 ** 8 + 20)
    planted += _events("selftest-script", pc["font"], pc["req"], res=[res[0] + 1, res[1], res[2]], start=10 ** 8 + 30)
    extra = []
    shown = gen_known + gen_mism[:200]
    for k, m in enumerate(shown):
        case = ("genknown-%d" if m["kind"] == "known" else "generated-%d") % k
        extra += _events(case, m["font"], m["req"], res=m["res"], sel=m["sel"], sup=m["sup"], obs=m["obs"], err=m["err"],
                         panic=m["panic"], mk=m["mk"], start=2 * 10 ** 8 + 10 * k)
    with open(trace, "a") as f:
        for x in planted + extra:
            f.write(json.dumps(x, separators=(",", ":")) + "\n")
    total, mism = vlib.judge_trace_parallel(ctx, "Trace_LayoutSelect", "Trace_LayoutSelect.cfg", trace, "judge",
                                            parts=5, timeout=1500)
    ctx.note("judge: %d events, %d not conformant" % (total, len(mism)))
    if total != rec["events"] + len(planted) + len(extra):
        raise vlib.ToolError("judge consumed %d events, trace has %d" % (total, rec["events"] + len(planted) + len(extra)))

    by_key, seen_planted, judged_extra = {}, set(), {}
    n_recorded_mism, by_source = 0, {}
    for m in mism:
        case = m["case"]
        if case.startswith("selftest-"):
            if all(len(t) >= 2 and t[1] == "unexplained" for t in m["keys"]):
                seen_planted.add(case)
            else:
                seen_planted.add(case + "?")
            continue
        if case.startswith("gen"):
            judged_extra.setdefault(case, []).append(m)
            src = "generated"
        else:
            n_recorded_mism += 1
            src = "repository font" if case.startswith("repo:") else "random font"
        for key in _keys(m):
            by_source[src + "|" + key] = by_source.get(src + "|" + key, 0) + 1
            old = by_key.get(key)
            if old is None or len(json.dumps(m["a"])) < len(json.dumps(old[1]["a"])):
                by_key[key] = (src, m)
    if seen_planted != {"selftest-reversed", "selftest-dropped", "selftest-script"}:
        raise vlib.ToolError("binding self-check failed: Trace_LayoutSelect must accept the generated expectation and reject "
                             "its three corruptions as unexplained; rejected: %s" % sorted(seen_planted))
    # MC_LayoutSelect and Trace_LayoutSelect must agree on the generated cases handed over
    for k, m in enumerate(shown):
        case = ("genknown-%d" if m["kind"] == "known" else "generated-%d") % k
        j = judged_extra.get(case)
        if not j:
            raise vlib.ToolError("MC_LayoutSelect and Trace_LayoutSelect disagree: generated case %s conforms for the judge"
                                 % vlib.short(m["req"], 200))
        if m["kind"] == "known":
            jd = sorted({t[1] for mm in j for t in mm["keys"]})
            if jd != sorted(m["d"]):
                raise vlib.ToolError("MC_LayoutSelect attributes %s to %s, Trace_LayoutSelect to %s"
                                     % (vlib.short(m["req"], 200), m["d"], jd))
    for ds in (rep.get("known_by_defects") or {}):
        t, names = ds.split("|", 1)
        for d in names.split("+"):
            if "%s|%s" % (t, d) not in by_key:
                raise vlib.ToolError("defect key %s|%s counted by the replay but not named by the judge" % (t, d))

    violations = []
    for key, (src, m) in sorted(by_key.items()):
        violations.append(Violation(key, _what(m, key, src),
                                    {"source": src, "font": _font_of(m, shown, trace), "ev": m["ev"], "a": m["a"], "o": m["o"], "key": key}))

    # ---- vacuity (from the specification's side and the harness' inputs only) --------------------------
    need = ["fv-record-matched", "several-readings", "no-script", "no-langsys", "defect-reading-differs"]
    need += ["fam|%s|%s|%s" % (f, t, md) for f in ("ord", "res", "fv") for t in ("GSUB", "GPOS") for md in ("mask", "custom")]
    need += ["fam|cls|GPOS|mask", "fam|cls|GPOS|custom"]
    missing = [k for k in need if not cnt.get(k)]
    if missing:
        raise vlib.ToolError("vacuous exploration: never generated: %s" % missing)
    rc = rec["counters"]
    for k in ("Resolve", "Feature", "Lookups", "MaskTable", "Apply|GSUB|mask", "Apply|GSUB|custom", "Apply|GPOS|mask",
              "Apply|GPOS|custom", "repo-tables|GSUB", "repo-tables|GPOS"):
        if not rc.get(k):
            raise vlib.ToolError("vacuous trace: no %s events" % k)
    if rec["repo_tables"] < 50:
        raise vlib.ToolError("vacuous trace: only %d repository GSUB / GPOS tables read" % rec["repo_tables"])

    coverage = {
        "states": mc.distinct,
        "transitions": mc.generated,
        "traces_validated_against_impl": n_cases[0] + rec["events"],
        "samples": [{"font": c["font"], "req": c["req"], "e": c["e"]} for c in (samples[:2] + [plant[0]])],
        "generated_cases": n_cases[0],
        "generated_counters": cnt,
        "generated_ok": cnt.get("ok", 0),
        "generated_equal_to_named_defect_reading": cnt.get("known", 0),
        "generated_known_by_defects": rep.get("known_by_defects"),
        "generated_unexplained": len(gen_mism),
        "recorded_events_judged": rec["events"],
        "recorded_counters": rc,
        "recorded_repository_tables": rec["repo_tables"],
        "recorded_not_conformant": n_recorded_mism,
        "not_conformant_by_source_and_key": by_source,
        "tlc_depth": mc.depth,
        "binding_selfcheck": "a reversed generated expectation is reported by the harness; the judge accepts a generated "
                             "expectation and rejects three corruptions of it (reversed lookup order, first lookup dropped, "
                             "wrong script record) as unexplained; MC_LayoutSelect and Trace_LayoutSelect agree on every "
                             "generated case handed over",
        "exhaustive": True,
        "explanation": "exhaustive over the bounded model (config %s: four families of fonts x requests); recorded traces are "
                       "every repository font (sampled (script, language) pairs) and seeded random fonts" % cfg,
    }
    vlib.finish(ctx, LEVEL, coverage, violations, ASSUMPTIONS)


def _font_of(m, shown, trace):
    """the font an event refers to (for the replay file)"""
    case = m["case"]
    if case.startswith("gen"):
        return shown[int(case.rsplit("-", 1)[1])]["font"]
    with open(trace) as f:
        for ln in f:
            if '"ev":"Font"' in ln and json.dumps(case) in ln:
                e = json.loads(ln)
                if e["case"] == case:
                    return e["a"]
    return None


def replay(ctx, path):
    d = json.load(open(path))["detail"]
    binp = vlib.build_harness("x05_layoutselect")
    if d.get("font") is None:
        print("no font recorded for this finding")
        return 2
    a = d["a"]
    if d["ev"] in ("Apply", "Lookups"):
        # observe again through the harness: one case without expectation, then judge what it observed
        req = {k: a[k] for k in ("t", "sc", "lg", "mode", "tags", "alts", "ht", "tup", "kern")}
        case = {"id": "replay", "fam": "replay", "mk": a.get("mk", [4, 5, 2]), "font": d["font"], "req": req,
                "e": {"res": [], "sup": [], "sel": [], "obs": [], "m": 0}, "k": []}
        cp, mp = ctx.path("one_case.ndjson"), ctx.path("one_mm.ndjson")
        vlib.write_ndjson(cp, [case])
        vlib.run_harness(binp, ["replay", cp, mp])
        m = vlib.read_ndjson(mp)[0]
        evs = _events("replay", d["font"], req, res=m["res"], sel=m["sel"], sup=m["sup"], obs=m["obs"], err=m["err"],
                      panic=m["panic"], mk=case["mk"])
    else:
        evs = [{"i": 0, "case": "replay", "ev": "Font", "a": d["font"], "o": {}},
               {"i": 1, "case": "replay", "ev": d["ev"], "a": a, "o": d["o"]}]
        print("note: %s events of repository fonts are re-judged as recorded" % d["ev"])
    trace = ctx.path("one_trace.ndjson")
    vlib.write_ndjson(trace, evs)
    _, mism = vlib.judge_trace(ctx, "Trace_LayoutSelect", "Trace_LayoutSelect.cfg", trace, "replayjudge")
    for m in mism:
        for key in _keys(m):
            print("REPRODUCED " + _what(m, key, "replay"))
    if not mism:
        print("not reproduced: conforms")
    return 1 if mism else 0
