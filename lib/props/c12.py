"""C12 - instancing a variable font evaluates the OpenType variation model.

design       : MC_Variation checks the lemmas of Variation.tla on small universes (region scalar: 1 at
               the peak, 0 outside and at the open edges, linear in between; inferred deltas reduce to
               shift / copy / interpolate; Decode(Encode) = id for the packed formats) and, for every
               abstract font of the bounded universe, that the decoder returns the abstract deltas,
               that Instance(default) is the default master exactly and that a referenced point moves
               by its delta at the peak of a lone region.
spec -> impl : the same TLC run prints one CASE per abstract font: glyphs, tuple variations as bytes
               produced by the specification's encoders, HVAR / MVAR variants, the user coordinates
               chosen by the model (every start / peak / end, midpoints, axis ends, values outside
               the range) and the acceptable interval of every output number.  The harness writes a
               complete variable TrueType font per CASE, calls variations::instance and reads the
               output back with its own readers.
impl -> spec : the repository's variable fonts (glyf + gvar: NotoSans-VF, Inter, UnderlineTest, Zycon;
               CFF2: SourceSansVariable) instanced at default / extreme / one-axis / seeded random
               coordinates; gvar / HVAR / MVAR are split by the harness' own container readers, the
               packed data is decoded by the judge.
generation 2 : general fonts (family avar: 2-3 fvar axes with real ranges and one avar segment map per axis, user
               tuples over {min, between, default, between, max}^n, the normalised tuple computed by the
               specification and bound to Normalize.tla; family nest: composites of composites, depth 3, in three
               glyph orders, side bearing from glyf / HVAR without / with lsb map; family lay: MVAR record sizes
               and tag subsets, item variation stores with LONG_WORDS / region index lists / several sub-tables,
               index maps of every entry size, fvar record sizes and instance records).  Generated fonts are
               judged at the normalised tuple the SPECIFICATION computes; the tuple instance() reports must agree.
generation 3 : CFF2 variable fonts (MC_Cff2Instance / Cff2Instance.tla): VariationStores with several ItemVariationData
               of differing region counts, Font DICTs whose Private DICT selects any of them through its vsindex entry,
               FDSelect format 0 / 3, charstrings that inherit it or override it with their own vsindex, blends in every
               grouping, blends inside local and global subroutines.  TLC checks that the charstring machine (Type2.tla)
               realises  default + SUM scalar * delta  point-wise with Variation.tla's exact scalars; the instanced
               charstrings are run by the same machine without a VariationStore and compared (event CffGlyph), also for
               the repository's CFF2 font.
Every event, generated or recorded, is judged by Trace_Variation (exact rational arithmetic, tolerance
one font unit, equality at the default coordinates).
"""
import json
import re

import vlib
from vlib import Violation

LEVEL = "model_checking"

ASSUMPTIONS = [
    "tolerance: every output number (point coordinate, component offset, advance, side bearing, MVAR metric) "
    "within one font unit of the exact rational value of the variation model, any rounding rule (Dev_Rounding); "
    "equality with the source at normalised coordinates 0",
    "generated fonts are judged at the normalised tuple the specification computes from the user tuple, the fvar axes "
    "and the avar segment maps (MC_Variation!Norm2, bound to Normalize.tla with zero error); the tuple instance() "
    "returns must agree with it (exactly for the fonts without avar on axes -1..0..1, within max(1, slope) units - "
    "C13's tolerance - for the others). Repository fonts are judged at the tuple instance() returns "
    "(normalisation there is C13's)",
    "the header box of a written glyph is judged against the box of the written outline (components flattened by the "
    "harness, any depth), one unit per side (Dev_BoxRounding); a simple glyph without variation data may keep the "
    "source header; not judged with transformed / point-matched components. head.xMin..yMax = union of the header "
    "boxes of the non-empty glyphs, with or without the origin (Dev_HeadBoxOrigin). With head.flags bit 1, no lsb "
    "map, a source glyph with lsb = xMin and an exact pp1 of 0, the written lsb equals the written xMin",
    "a metric of the 12 judged MVAR fields that has no value record keeps the source value",
    "without an HVAR lsb map the side bearing is xMin - pp1.x with xMin either the exact minimum of the varied "
    "points or the xMin of the written outline (Dev_LsbFromOutline); a CFF2 font without lsb map keeps its "
    "bearings (Dev_CffLsbUnvaried); a negative exact advance may be written as 0 (Dev_NegativeAdvance); a metric "
    "outside its field's range may be clamped (Dev_ClampToField)",
    "regions the specification gives no meaning to (start > peak, peak > end, start < 0 < end with a non-zero "
    "peak, all peaks zero) put a glyph outside the judged set (counted as outside_spec)",
    "composite glyphs: offsets of components positioned by x/y values are varied and judged; components placed "
    "by point matching must stay unchanged; the side bearing of a composite is judged against the written outline "
    "only when no component is transformed",
    "an error returned by instance() on a repository font is not a violation (the property speaks about "
    "successful instances); a panic is, and so is an error on a generated font",
    "CFF2 outlines: the source charstring at the tuple and the written charstring are both run by the charstring "
    "machine of Type2.tla (C18's specification, instantiated unchanged); the ItemVariationData in effect is the "
    "charstring's own vsindex, else the vsindex entry of the Private DICT of the glyph's Font DICT, else 0; same "
    "commands, every coordinate within one font unit (+ 2^-16 per machine step where the machine had to floor a "
    "product, Dev_FloorSlack), equal at the default coordinates (1/16 unit where a source operand is not exact in "
    "single precision, Dev_F32AtDefault); a charstring the machine does not accept (not well formed, numbers beyond "
    "16384 units, regions without meaning) is not judged (counted). The written CFF2 table has no VariationStore and "
    "no vsindex / blend in a Private DICT. Blended hint operands and blended Private DICT values (BlueValues ...) are "
    "not judged beyond the number of stem hints. CFF2 metrics: HVAR advances / bearings and MVAR",
    "vertical metrics (vmtx / VVAR, phantom points 3 and 4), cvar values, name / STAT naming, OS/2 weight and "
    "width classes are not judged",
    "the harness' font writers (fvar, gvar container, item variation store, index maps, MVAR) and its container "
    "readers are trusted to transport the numbers; the agreement of the judge's evaluation of the written bytes "
    "with the model's expectation is checked on every generated glyph (clause 'transport')",
]

FONTS_EXPECTED = 5


def _errclass(e):
    # the harness reports a panic as "Panic:<file under src/>|<message, digits replaced by N>"
    if e.startswith("Panic:"):
        return "Panic(" + e[len("Panic:"):][:110] + ")"
    return re.sub(r"\d+", "N", e)[:80].replace(" ", "_")


def _source(m):
    return "generated" if str(m["case"]).startswith("g") else "recorded"


def _key(m):
    if m["ev"] == "CffGlyph":
        return "CffGlyph|%s|%s" % (m["clause"], m["kind"])
    if m["ev"] == "Failed":
        return "Failed|%s|%s" % (m["clause"], _errclass(str(m["got"])))
    if m["ev"] == "Metric":
        return "Metric|%s|%s" % (m["clause"], m["kind"])
    if m["ev"] == "Static":
        return "Static|%s" % m["clause"]
    return "Glyph|%s|%s" % (m["clause"], m["kind"])


def _plant(events):
    """Binding self-check: corrupted copies of recorded events, each must be rejected with its clause.
    The events to corrupt are chosen by what went INTO allsorts (fields of "a", all from TLC), and the corrupted
    numbers are placed relative to the model's own expectation (a.exp), never relative to what allsorts returned:
    the self-check must not turn a broken tree into a tool error."""
    planted = []

    def add(clause, e, fn):
        bad = json.loads(json.dumps(e))
        fn(bad)
        bad["case"] = "selftest-" + clause
        bad["i"] = 10 ** 8 + len(planted)
        planted.append((clause, bad))

    def first(pred):
        for e in events:
            if pred(e):
                return e
        return None

    def gen(e):
        return e["ev"] == "Glyph" and str(e["case"]).startswith("g") and e["a"]["exp"]

    def moving(e):
        return gen(e) and any(e["a"]["coords"]) and e["a"]["pts"]

    def setk(d, k, v):
        d[k] = v

    e = first(lambda e: moving(e) and e["a"]["kind"] == "simple")
    if e:
        add("point", e, lambda b: b["o"]["pts"][0].__setitem__(0, b["a"]["exp"][0][1] + 2))
        add("shape", e, lambda b: setk(b["o"], "on", False))
        add("transport", e, lambda b: b["a"]["exp"][0].__setitem__(0, b["a"]["exp"][0][0] - 1))
        add("normalized", e, lambda b: setk(b["a"], "reported", [v + 5 for v in b["a"]["norm"]]))
        add("bbox", e, lambda b: (setk(b["o"], "obox", [0, 0, 10, 10]), setk(b["o"], "hbox", [-5, 0, 10, 10])))
    e = first(lambda e: moving(e) and e["a"]["kind"] == "composite" and e["a"]["plain"])
    if e:
        add("point-composite", e, lambda b: b["o"]["pts"][0].__setitem__(1, b["a"]["exp"][1][0] - 2))
    e = first(lambda e: gen(e) and not any(e["a"]["coords"]) and e["a"]["kind"] == "simple")
    if e:
        add("default-point", e, lambda b: b["o"]["pts"][-1].__setitem__(1, b["a"]["pts"][-1][1] + 1))
        add("default-adv", e, lambda b: setk(b["o"], "adv", b["a"]["adv"] + 1))
        add("default-lsb", e, lambda b: setk(b["o"], "lsb", b["a"]["lsb"] - 1))
    e = first(lambda e: moving(e) and not e["a"]["hvar"]["present"] and e["a"]["kind"] == "simple"
              and 100 < e["a"]["adv"] < 30000)
    if e:
        add("adv-phantom", e, lambda b: setk(b["o"], "adv", b["a"]["exp"][-2][1] + 2))
        add("lsb-outline", e, lambda b: setk(b["o"], "lsb", 20000))
    e = first(lambda e: gen(e) and any(e["a"]["coords"]) and e["a"]["hvar"]["present"] and e["a"]["adv"] > 100)
    if e:
        add("adv-hvar", e, lambda b: setk(b["o"], "adv", b["a"]["exp"][-2][1] + 2))
    e = first(lambda e: gen(e) and any(e["a"]["coords"]) and e["a"]["hvar"]["lsb"]["present"])
    if e:
        add("lsb-map", e, lambda b: setk(b["o"], "lsb", 20000))
    # the font promises lsb = xMin and the model leaves the side bearing point at 0 (a.exp[-1] = [-1, 1])
    e = first(lambda e: moving(e) and e["a"]["kind"] in ("simple", "composite") and not e["a"]["hvar"]["lsb"]["present"]
              and e["a"]["lsbAt0"] and e["a"]["lsb"] == e["a"]["xmin"] and e["a"]["exp"][-1] == [-1, 1])
    if e:
        add("lsb-xmin", e, lambda b: (setk(b["o"], "hbox", [7, 0, 10, 10]), setk(b["o"], "obox", [7, 0, 10, 10]),
                                      setk(b["o"], "lsb", 9)))

    def genm(e):
        return e["ev"] == "Metric" and str(e["case"]).startswith("g")

    e = first(lambda e: genm(e) and e["a"]["present"] and any(e["a"]["coords"]) and e["a"]["base"] < 2000)
    if e:
        add("metric", e, lambda b: setk(b["o"], "value", b["a"]["base"] + 3000))
    e = first(lambda e: genm(e) and e["a"]["present"] and not any(e["a"]["coords"]))
    if e:
        add("default-metric", e, lambda b: setk(b["o"], "value", b["a"]["base"] + 1))
    e = first(lambda e: genm(e) and not e["a"]["present"] and any(e["a"]["coords"]))
    if e:
        add("metric-absent", e, lambda b: setk(b["o"], "value", b["a"]["base"] + 1))
    # CFF2 (generation 3): the written charstring is replaced by one synthesised from commands TLC computed for
    # ANOTHER tuple / with a change, never by anything allsorts wrote
    def cffgen(e):
        return e["ev"] == "CffGlyph" and e["a"]["generated"] and e["a"]["exp"]

    def static_o(cmds):
        return {"code": _charstring_of(cmds), "nG": 0, "nL": 0, "gsubrs": [], "lsubrs": []}

    def far(c1, c2):
        return len(c1) == len(c2) and any(abs(x - y) > 3 * 65536 for a, b in zip(c1, c2) for x, y in zip(a["p"], b["p"]))

    byglyph = {}
    for e in events:
        if cffgen(e):
            byglyph.setdefault((e["case"].split("/")[0], e["a"]["gid"]), []).append(e)
    pair = None
    for es in byglyph.values():
        e1 = next((x for x in es if any(x["a"]["coords"]) and x["a"]["kind"] == "inh"), None)
        e2 = next((x for x in es if e1 and far(x["a"]["exp"], e1["a"]["exp"])), None)
        if e1 and e2:
            pair = (e1, e2)
            break
    if pair:
        add("cff-point", pair[0], lambda b: setk(b, "o", static_o(pair[1]["a"]["exp"])))
        add("cff-shape", pair[0], lambda b: setk(b, "o", static_o(b["a"]["exp"][:-2] + b["a"]["exp"][-1:])))
        add("cff-static", pair[0], lambda b: b["o"].update(code=b["a"]["code"], nG=b["a"]["nG"], nL=b["a"]["nL"],
                                                            gsubrs=b["a"]["gsubrs"], lsubrs=b["a"]["lsubrs"]))
        add("cff-transport", pair[0], lambda b: (setk(b, "o", static_o(b["a"]["exp"])), setk(b["a"], "exp", pair[1]["a"]["exp"])))
    e = first(lambda e: cffgen(e) and not any(e["a"]["coords"]) and e["a"]["kind"] in ("inh", "exp"))
    if e:
        def shift(b):
            cm = json.loads(json.dumps(b["a"]["exp"]))
            cm[0]["p"][0] += 1
            b["o"] = static_o(cm)
        add("cff-default-point", e, shift)
    e = first(lambda e: cffgen(e) and e["a"].get("stems"))
    if e:
        add("cff-hints", e, lambda b: setk(b, "o", static_o(b["a"]["exp"])))
    # Static: built from scratch
    e = {"i": 0, "case": "", "ev": "Static", "a": {"user": [0]},
         "o": {"tags": ["glyf", "head"], "isVariable": False, "loads": True, "glyphs": 4, "srcGlyphs": 4,
               "head": [-5, -5, 9, 9], "ubox": [-5, -5, 9, 9], "cffVstore": False, "cffPrivVar": False}}
    add("tables", e, lambda b: b["o"]["tags"].append("gvar"))
    add("is-variable", e, lambda b: setk(b["o"], "isVariable", True))
    add("loads", e, lambda b: setk(b["o"], "loads", False))
    add("head-bbox", e, lambda b: setk(b["o"], "head", [-5, -5, 8, 9]))
    add("cff-vstore", e, lambda b: setk(b["o"], "cffVstore", True))
    add("cff-private-variable", e, lambda b: setk(b["o"], "cffPrivVar", True))
    add("panic", e, lambda b: b.update(ev="Failed", a={"user": b["a"]["user"], "stage": "instance", "generated": False},
                                       o={"err": "Panic:selftest @ src/x.rs:1"}))
    return planted


def _num1616(v):
    v &= 0xFFFFFFFF
    return [255, (v >> 24) & 255, (v >> 16) & 255, (v >> 8) & 255, v & 255]


def _charstring_of(cmds):
    """A static CFF2 charstring (rmoveto / rlineto / rrcurveto, 16.16 operands) that draws the commands."""
    out, x, y = [], 0, 0
    for c in cmds:
        p = c["p"]
        if c["c"] == "Z":
            continue
        rel = []
        for k in range(0, len(p), 2):
            rel += [p[k] - x, p[k + 1] - y]
            x, y = p[k], p[k + 1]
        for v in rel:
            out += _num1616(v)
        out.append({"M": 21, "L": 5, "C": 8}[c["c"]])
    return out


PLANT_EXPECTED = {"cff-point", "cff-shape", "cff-static", "cff-transport", "cff-default-point", "cff-hints", "cff-vstore",
                  "cff-private-variable", "point", "shape", "transport", "normalized", "point-composite", "default-point", "default-adv",
                  "default-lsb", "adv-phantom", "lsb-outline", "adv-hvar", "lsb-map", "metric", "default-metric",
                  "tables", "is-variable", "loads", "panic", "bbox", "lsb-xmin", "metric-absent", "head-bbox"}
# clause printed by the judge for each planted corruption
PLANT_CLAUSE = {"point-composite": "point", "cff-transport": "transport"}

# vacuity of the generation-2 families: counters computed by TLC for every CASE (field "vac"), summed here
VAC_REQUIRED = [
    "avar_fonts", "avar_skew_tuples", "avar_all_default_patterns", "avar_axes3", "avar_maps_knots0", "avar_maps_knots3",
    "avar_maps_knots9", "avar_with_hvar", "avar_user_tuples", "avar_fvar_axis_size_gt20",
    "nest_forward_refs", "nest_backward_refs", "nest_depth3", "nest_forward_no_hvar", "nest_forward_hvar_no_lsbmap",
    "nest_forward_hvar_lsbmap", "nest_unvaried_composite", "nest_short_hmtx",
    "lay_mvar_rec8", "lay_mvar_rec10", "lay_mvar_rec12", "lay_mvar_big_several_records", "lay_mvar_absent_tags",
    "lay_mvar_first_tag_absent", "lay_mvar_two_subs", "lay_hvar_long_words", "lay_hvar_ri_not_prefix",
    "lay_hvar_several_subs", "lay_map_entry1", "lay_map_entry2", "lay_map_entry3", "lay_map_entry4", "lay_map_format1",
    "lay_map_outer_nonzero", "lay_fvar_axis_size_gt20", "lay_fvar_instances", "lay_fvar_offset_gt16",
    # generation 3 (CFF2), counted by MC_Cff2Instance
    "cff_fonts", "cff_inherit_nonzero_glyphs", "cff_inherit_zero_entry_glyphs", "cff_inherit_no_entry_glyphs",
    "cff_explicit_overrides_private", "cff_wrong_ivd_other_k", "cff_wrong_ivd_same_k_tuples", "cff_k0_blend_glyphs",
    "cff_k_ge3_glyphs", "cff_differing_k_fonts", "cff_fdselect0", "cff_fdselect3", "cff_lsubr_glyphs", "cff_gsubr_glyphs",
    "cff_gsubr_shared_by_ivds", "cff_fuzzy_results", "cff_moved_results", "cff_one_axis", "cff_hint_glyphs",
    "cff_fraction_glyphs"]


def _judge(ctx, trace, tag, parts):
    other = {"STAT": [], "OUTSIDE": [], "ERR": [], "UNMODELLED": [], "CFFSTAT": []}
    total, mism = vlib.judge_trace_parallel(ctx, "Trace_Variation", "Trace_Variation.cfg", trace, tag, parts=parts,
                                            other_tags=other)
    return total, mism, other


def run(ctx):
    binp = vlib.build_harness("c12_instance")
    cfg = "MC_Variation_quick.cfg" if ctx.quick else "MC_Variation_thorough.cfg"
    cases_path = ctx.path("cases.ndjson")
    n_cases = [0]
    lemma = {}
    fams = {}
    sample_cases = []
    vac = {}
    gen2 = {}
    with open(cases_path, "w") as fc:
        def sink(tag, payload):
            if tag == "CASE":
                fc.write(payload + "\n")
                n_cases[0] += 1
                m = re.search(r'"fam":"(\w+)"', payload)
                fam = m.group(1) if m else "?"
                fams[fam] = fams.get(fam, 0) + 1
                if fam == "enc" and not sample_cases:
                    c = json.loads(payload)
                    c["user"], c["norm"], c["expect"] = c["user"][:2], c["norm"][:2], c["expect"][:2]
                    sample_cases.append(c)
                if '"gen":2' in payload or '"gen":3' in payload:
                    c = json.loads(payload)
                    for k, v in c["vac"].items():
                        vac[k] = vac.get(k, 0) + v
                    key = "%s/%s" % (c["fam"], c["var"])
                    gen2[key] = gen2.get(key, 0) + 1
            elif tag == "LEMMA":
                lemma[payload] = lemma.get(payload, 0) + 1
        # generation 3 (CFF2 variable fonts) has its own module; the two explorations run side by side
        import concurrent.futures
        import threading
        lock = threading.Lock()

        def locked(tag, payload):
            with lock:
                sink(tag, payload)
        with concurrent.futures.ThreadPoolExecutor(max_workers=2) as ex:
            f3 = ex.submit(vlib.run_tlc, ctx, "MC_Cff2Instance", "MC_Cff2Instance_%s.cfg" % ("quick" if ctx.quick else "thorough"),
                           "mc3", workers=3, timeout=600 if ctx.quick else 2400, sink=locked)
            f1 = ex.submit(vlib.run_tlc, ctx, "MC_Variation", cfg, "mc", workers=4, timeout=600 if ctx.quick else 2400, sink=locked)
            mc, mc3 = f1.result(), f3.result()
    ctx.note("MC_Cff2Instance: %d states generated, %d distinct, %d CFF2 fonts (%.1fs)" %
             (mc3.generated, mc3.distinct, fams.get("cff2", 0), mc3.wall))
    ctx.note("MC_Variation: %d states generated, %d distinct; lemma states %s; %d font cases %s (%.1fs)" %
             (mc.generated, mc.distinct, json.dumps(lemma, sort_keys=True), n_cases[0], json.dumps(fams, sort_keys=True),
              mc.wall))
    for k in ("lemma-scalar", "lemma-iup", "lemma-codec-d", "lemma-codec-p", "lemma-codec-big"):
        if not lemma.get(k):
            raise vlib.ToolError("MC_Variation checked no state of %s" % k)
    for k in ("iup", "region1", "region2", "enc", "metric", "big", "avar", "nest", "lay", "cff2"):
        if not fams.get(k):
            raise vlib.ToolError("MC_Variation generated no case of family %s" % k)
    # generation 2: what the families exercise, counted by TLC itself for every CASE
    ctx.note("generation-2 / 3 fonts %s; counters %s" % (json.dumps(gen2, sort_keys=True), json.dumps(vac, sort_keys=True)))
    for k in VAC_REQUIRED:
        if not vac.get(k):
            raise vlib.ToolError("MC_Variation / MC_Cff2Instance: the generation-2 / 3 families are vacuous for '%s'" % k)

    # spec -> impl
    gen_trace = ctx.path("gen_trace.ndjson")
    rep = vlib.run_harness(binp, ["replay", cases_path, gen_trace])
    ctx.note("replay: %s" % json.dumps(rep))
    # impl -> spec
    per_font, glyph_limit = (12, 64) if ctx.quick else (150, 256)
    rec_trace = ctx.path("rec_trace.ndjson")
    rec = vlib.run_harness(binp, ["record", ctx.seed, per_font, glyph_limit, rec_trace])
    ctx.note("record: %s" % json.dumps(rec))
    if rec.get("fonts", 0) < FONTS_EXPECTED or rec.get("cff2_fonts", 0) < 1:
        raise vlib.ToolError("record mode found only %s variable fonts (%s CFF2) under tests/fonts" %
                             (rec.get("fonts"), rec.get("cff2_fonts")))

    gen_events = vlib.read_ndjson(gen_trace)
    rec_events = vlib.read_ndjson(rec_trace)
    for e in rec_events:
        e["i"] += 10 ** 7
    events = gen_events + rec_events
    # Anything wrong with the check itself from here on is collected in `problems`: violations that were
    # found are reported first (exit 1), a tool error is raised only when there is nothing to report.
    problems = []
    planted = _plant(events)
    missing = PLANT_EXPECTED - {p[0] for p in planted}
    if missing:
        problems.append("binding self-check could not be planted: %s" % sorted(missing))
    trace = ctx.path("trace.ndjson")
    vlib.write_ndjson(trace, _spread(events) + [p[1] for p in planted])
    user_of = {e["case"]: e["a"]["user"] for e in events if e["ev"] in ("Static", "Failed")}

    total, mism, other = _judge(ctx, trace, "judge", 6 if ctx.quick else 8)
    ctx.note("judge: %d events, %d mismatch lines, %d outside the specification, %d errors returned" %
             (total, len(mism), len(other["OUTSIDE"]), len(other["ERR"])))
    if total != len(events) + len(planted):
        raise vlib.ToolError("judge consumed %d of %d events" % (total, len(events) + len(planted)))
    if other["UNMODELLED"]:
        raise vlib.ToolError("events unknown to Trace_Variation: %s" % sorted(set(other["UNMODELLED"])))

    cases = None
    violations = []
    planted_seen = set()
    transport = []
    for m in sorted(mism, key=lambda m: m["i"]):
        case = str(m["case"])
        if case.startswith("selftest-"):
            want = case[len("selftest-"):]
            if m["clause"] == PLANT_CLAUSE.get(want, want):
                planted_seen.add(want)
            continue
        if m["clause"] == "transport":
            transport.append(m)
            continue
        src = _source(m)
        detail = {"source": src, "user": user_of.get(case), **m}
        if src == "generated":
            if cases is None:
                cases = vlib.read_ndjson(cases_path)
            ci, ui = [int(x[1:]) for x in case.split("/")]
            c = dict(cases[ci])
            c["user"], c["norm"], c["expect"] = [c["user"][ui]], [c["norm"][ui]], [c["expect"][ui]]
            detail["generated_case"] = c
            where = "generated %s font, user %s" % (c["fam"], c["user"][0])
        else:
            detail["font"] = case.split("/")[1]
            where = "%s at user %s" % (detail["font"], user_of.get(case))
        what = "%s: %s %s gid %s kind %s index %s: got %s, acceptable %s (normalised %s) [%d in this event]" % (
            where, m["ev"], m["clause"], m["gid"], m["kind"], m["idx"], vlib.short(m["got"], 100),
            vlib.short(m["want"], 60), m["coords"], m["nbad"])
        violations.append(Violation(_key(m), what, detail))
    if transport:
        problems.append("the judge's evaluation of the written font disagrees with MC_Variation's expectation "
                        "(harness writer / reader or decoder defect): %s" % vlib.short(transport[0], 600))
    missing = {p[0] for p in planted} - planted_seen
    if missing:
        problems.append("binding self-check failed: corrupted events accepted by Trace_Variation: %s" % sorted(missing))

    # vacuity counters from the judge's own classification of every Glyph event
    cnt = {"glyph_events": 0, "at_default": 0, "varied": 0, "with_active_tuples": 0, "two_or_more_active": 0,
           "with_inferred_points": 0, "inferred_points": 0, "rounded_numbers": 0, "numbers": 0,
           "header_box_judged": 0, "header_box_judged_composite": 0, "lsb_equals_xmin_judged": 0,
           "lsb_equals_xmin_judged_composite": 0}
    by = {"kind": {}, "hvar": {}, "lsbrule": {}}
    lsb_unjudged = 0
    for s in other["STAT"]:
        cnt["glyph_events"] += 1
        cnt["at_default"] += s["still"]
        cnt["varied"] += s["varied"] and not s["still"]
        cnt["with_active_tuples"] += s["active"] > 0
        cnt["two_or_more_active"] += s["active"] > 1
        cnt["with_inferred_points"] += s["inferred"] > 0
        cnt["inferred_points"] += s["inferred"]
        cnt["rounded_numbers"] += s["frac"]
        cnt["numbers"] += 2 * s["n"] + 2
        lsb_unjudged += not s["lsbJudged"]
        cnt["header_box_judged"] += s["boxJudged"]
        cnt["header_box_judged_composite"] += s["boxJudged"] and s["kind"] == "composite"
        cnt["lsb_equals_xmin_judged"] += s["relJudged"]
        cnt["lsb_equals_xmin_judged_composite"] += s["relJudged"] and s["kind"] == "composite"
        for k in by:
            by[k][s[k]] = by[k].get(s[k], 0) + 1
    cnt["lsb_unjudged"] = lsb_unjudged
    # CFF2 outlines: the judge's own classification of every CffGlyph event it judged
    cff = {"cff_glyph_events": 0, "with_blend": 0, "inherited_private_vsindex_nonzero": 0, "inherited_private_vsindex_zero": 0,
           "explicit_vsindex": 0, "at_default": 0, "floored_products": 0, "with_subroutines": 0, "with_hints": 0,
           "repository_font_with_blend": 0, "several_font_dicts": 0, "font_dict_not_first": 0}
    cff_k = {}
    n_gen_cff = sum(1 for e in events if e["ev"] == "CffGlyph" and e["a"]["generated"])
    for s in other["CFFSTAT"]:
        cff["cff_glyph_events"] += 1
        cff["with_blend"] += s["blend"]
        cff["inherited_private_vsindex_nonzero"] += s["inherited"] and s["ivd"] > 0
        cff["inherited_private_vsindex_zero"] += s["inherited"] and s["ivd"] == 0
        cff["explicit_vsindex"] += s["explicit"]
        cff["at_default"] += s["still"]
        cff["floored_products"] += s["fuzzy"]
        cff["with_subroutines"] += s["depth"] > 0
        cff["with_hints"] += s["stems"] > 0
        cff["several_font_dicts"] += s["nfd"] > 1
        cff["font_dict_not_first"] += s["fd"] > 0
        if s["blend"]:
            cff_k[str(s["k"])] = cff_k.get(str(s["k"]), 0) + 1
    cff["repository_font_with_blend"] = sum(1 for e in rec_events if e["ev"] == "CffGlyph" and 16 in e["a"]["code"])
    need = [("at_default", cnt["at_default"]), ("two_or_more_active", cnt["two_or_more_active"]),
            ("with_inferred_points", cnt["with_inferred_points"]), ("rounded_numbers", cnt["rounded_numbers"])]
    need += [("kind " + k, by["kind"].get(k, 0)) for k in ("simple", "composite", "empty", "cff")]
    need += [("hvar " + k, by["hvar"].get(k, 0)) for k in ("none", "direct", "map")]
    need += [("lsb rule " + k, by["lsbrule"].get(k, 0)) for k in ("map", "outline", "cff")]
    # computed from what went into allsorts (cases from TLC, the repository font's own bytes), not from its output
    need += [("generated CffGlyph events", n_gen_cff),
             ("repository CFF2 glyphs with blend", cff["repository_font_with_blend"])]
    need += [("header boxes judged", cnt["header_box_judged_composite"]),
             ("lsb = xMin judged", cnt["lsb_equals_xmin_judged_composite"])]
    absent = sum(1 for e in events if e["ev"] == "Metric" and not e["a"]["present"])
    need += [("metric events", sum(1 for e in events if e["ev"] == "Metric")),
             ("metric events for tags without a value record", absent),
             ("static events", sum(1 for e in events if e["ev"] == "Static"))]
    for name, v in need:
        if not v:
            problems.append("trace is vacuous for '%s'" % name)
    real = [m for m in mism if not str(m["case"]).startswith("selftest-")]
    if problems:
        known = vlib.load_known(ctx.prop)
        if any(v.key not in known for v in violations):
            for pr in problems:
                ctx.note("not checked because the tree is broken (violations are reported instead): %s" % pr[:400])
        else:
            raise vlib.ToolError("; ".join(problems))
    coverage = {
        "states": mc.distinct + mc3.distinct,
        "states_cff2_generator": mc3.distinct,
        "transitions": rep.get("instances", 0) + rec.get("instances", 0),
        "traces_validated_against_impl": len(events),
        "samples": sample_cases + [_shorten(e) for e in rec_events if e["ev"] == "Glyph" and e["a"]["kind"] == "simple"][:1],
        "lemma_states": lemma,
        "generated_cases": n_cases[0],
        "generated_case_families": fams,
        "generation2_fonts": gen2,
        "generation2_counters_from_tlc": vac,
        "metric_events_for_absent_tags": absent,
        "instance_calls_generated": rep.get("instances", 0),
        "instance_calls_repository_fonts": rec.get("instances", 0),
        "repository_variable_fonts": rec.get("font_names", []),
        "events_judged": total - len(planted),
        "judged": cnt,
        "cff2_outlines_judged": cff, "cff2_blends_by_region_count": cff_k,
        "judged_by_kind": by["kind"], "judged_by_hvar": by["hvar"], "judged_by_lsb_rule": by["lsbrule"],
        "outside_spec": len(other["OUTSIDE"]),
        "errors_returned_by_instance": len(other["ERR"]),
        "panics_observed": rep.get("panics", 0) + rec.get("panics", 0),
        "tolerance_font_units": 1,
        "mismatch_lines": len(real),
        "binding_selfcheck": "corrupted events rejected: %s" % sorted(planted_seen),
        "tlc_states_generated": mc.generated + mc3.generated,
        "exhaustive": True,
        "explanation": "exhaustive over the lemma universes and the abstract fonts of %s (every CASE executed on "
                       "allsorts at every coordinate tuple the model chose); repository fonts at fixed and seeded "
                       "random coordinates are samples" % cfg,
    }
    vlib.finish(ctx, LEVEL, coverage, violations, ASSUMPTIONS)


def _spread(events):
    """The judge works on contiguous parts of the trace in parallel; a CffGlyph event costs several times a Glyph event,
    and the CFF2 instances come last. Spread their groups (one group = one call of instance()) evenly over the trace."""
    groups, cur = [], None
    for e in events:
        if cur is None or e["case"] != cur[0]:
            cur = (e["case"], [])
            groups.append(cur)
        cur[1].append(e)
    heavy = [g for g in groups if any(e["ev"] == "CffGlyph" for e in g[1])]
    light = [g for g in groups if not any(e["ev"] == "CffGlyph" for e in g[1])]
    if not heavy or not light:
        return events
    out, step, h = [], len(light) / float(len(heavy)), 0
    for k, g in enumerate(light):
        while h < len(heavy) and h * step <= k:
            out += heavy[h][1]
            h += 1
        out += g[1]
    for g in heavy[h:]:
        out += g[1]
    return out


def _shorten(e):
    e = json.loads(json.dumps(e))
    for k in ("ser", "pts"):
        if len(e["a"].get(k, [])) > 12:
            e["a"][k] = e["a"][k][:12] + ["..."]
    if len(e["o"].get("pts", [])) > 12:
        e["o"]["pts"] = e["o"]["pts"][:12] + ["..."]
    e["a"]["hvar"] = {"present": e["a"]["hvar"]["present"]}
    return e


def replay(ctx, path):
    d = json.load(open(path))["detail"]
    binp = vlib.build_harness("c12_instance")
    tp = ctx.path("trace.ndjson")
    if d.get("generated_case"):
        cp = ctx.path("case.ndjson")
        vlib.write_ndjson(cp, [d["generated_case"]])
        vlib.run_harness(binp, ["replay", cp, tp])
    elif d.get("font") and d.get("user") is not None:
        vlib.run_harness(binp, ["one", d["font"], tp] + list(d["user"]))
    else:
        print("re-run the check with VERIF_SEED=%d; event: %s" % (ctx.seed, vlib.short(d, 2000)))
        return 1
    _, mism = vlib.judge_trace(ctx, "Trace_Variation", "Trace_Variation.cfg", tp, "judge")
    for m in mism:
        print("REPRODUCED %s %s gid %s kind %s index %s: got %s acceptable %s at normalised %s" % (
            m["ev"], m["clause"], m["gid"], m["kind"], m["idx"], vlib.short(m["got"], 100), m["want"], m["coords"]))
    return 1 if mism else 0
