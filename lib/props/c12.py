"""C12 - instancing a variable font evaluates the OpenType variation model.

design       : MC_Variation checks the lemmas of Variation.tla on small universes (region scalar: 1 at
               the peak, 0 outside and at the open edges, linear in between; inferred deltas reduce to
               shift / copy / interpolate; Decode(Encode) = id for the packed formats) and, for every
               abstract font of the bounded universe, that the decoder returns the abstract deltas,
               that Instance(default) is the default master exactly and that a referenced point moves
               by its delta at the peak of a lone region.
spec -> impl : the same TLC run prints one CASE per abstract font: glyphs, tuple variations as bytes
               produced by the specification's encoders, HVAR / MVAR variants, the user coordinates
               chosen by the model (every start / peak / end, midpoints, axis ends, values outside
               the range) and the acceptable interval of every output number.  The harness writes a
               complete variable TrueType font per CASE, calls variations::instance and reads the
               output back with its own readers.
impl -> spec : the repository's variable fonts (glyf + gvar: NotoSans-VF, Inter, UnderlineTest, Zycon;
               CFF2: SourceSansVariable) instanced at default / extreme / one-axis / seeded random
               coordinates; gvar / HVAR / MVAR are split by the harness' own container readers, the
               packed data is decoded by the judge.
Every event, generated or recorded, is judged by Trace_Variation (exact rational arithmetic, tolerance
one font unit, equality at the default coordinates).
"""
import json
import re

import vlib
from vlib import Violation

LEVEL = "model_checking"

ASSUMPTIONS = [
    "tolerance: every output number (point coordinate, component offset, advance, side bearing, MVAR metric) "
    "within one font unit of the exact rational value of the variation model, any rounding rule (Dev_Rounding); "
    "equality with the source at normalised coordinates 0",
    "the normalised tuple returned by variations::instance is taken as the location (normalisation is C13's); "
    "for generated fonts it must equal the tuple the model evaluated",
    "without an HVAR lsb map the side bearing is xMin - pp1.x with xMin either the exact minimum of the varied "
    "points or the xMin of the written outline (Dev_LsbFromOutline); a CFF2 font without lsb map keeps its "
    "bearings (Dev_CffLsbUnvaried); a negative exact advance may be written as 0 (Dev_NegativeAdvance); a metric "
    "outside its field's range may be clamped (Dev_ClampToField)",
    "regions the specification gives no meaning to (start > peak, peak > end, start < 0 < end with a non-zero "
    "peak, all peaks zero) put a glyph outside the judged set (counted as outside_spec)",
    "composite glyphs: offsets of components positioned by x/y values are varied and judged; components placed "
    "by point matching must stay unchanged; the side bearing of a composite is judged against the written outline "
    "only when no component is transformed",
    "an error returned by instance() on a repository font is not a violation (the property speaks about "
    "successful instances); a panic is, and so is an error on a generated font",
    "CFF2: Static, HVAR advances / bearings and MVAR metrics are judged; the blended charstrings are C18's",
    "vertical metrics (vmtx / VVAR, phantom points 3 and 4), cvar values, name / STAT naming, OS/2 weight and "
    "width classes are not judged",
    "the harness' font writers (fvar, gvar container, item variation store, index maps, MVAR) and its container "
    "readers are trusted to transport the numbers; the agreement of the judge's evaluation of the written bytes "
    "with the model's expectation is checked on every generated glyph (clause 'transport')",
]

FONTS_EXPECTED = 5


def _errclass(e):
    # the harness reports a panic as "Panic:<file under src/>|<message, digits replaced by N>"
    if e.startswith("Panic:"):
        return "Panic(" + e[len("Panic:"):][:110] + ")"
    return re.sub(r"\d+", "N", e)[:80].replace(" ", "_")


def _source(m):
    return "generated" if str(m["case"]).startswith("g") else "recorded"


def _key(m):
    if m["ev"] == "Failed":
        return "Failed|%s|%s" % (m["clause"], _errclass(str(m["got"])))
    if m["ev"] == "Metric":
        return "Metric|%s|%s" % (m["clause"], m["kind"])
    if m["ev"] == "Static":
        return "Static|%s" % m["clause"]
    return "Glyph|%s|%s" % (m["clause"], m["kind"])


def _plant(events):
    """Binding self-check: corrupted copies of recorded events, each must be rejected with its clause."""
    planted = []

    def add(clause, e, fn):
        bad = json.loads(json.dumps(e))
        fn(bad)
        bad["case"] = "selftest-" + clause
        bad["i"] = 10 ** 8 + len(planted)
        planted.append((clause, bad))

    def first(pred):
        for e in events:
            if pred(e):
                return e
        return None

    def moved(e):
        return e["ev"] == "Glyph" and any(e["a"]["coords"]) and e["o"]["pts"] != e["a"]["pts"]

    e = first(lambda e: moved(e) and e["a"]["kind"] == "simple")
    if e:
        add("point", e, lambda b: b["o"]["pts"][0].__setitem__(0, b["o"]["pts"][0][0] + 3))
        add("shape", e, lambda b: b["o"].__setitem__("on", False))
        if e["a"]["exp"]:
            add("transport", e, lambda b: b["a"]["exp"][0].__setitem__(0, b["a"]["exp"][0][0] - 1))
            add("normalized", e, lambda b: b["a"].__setitem__("norm", [v + 1 for v in b["a"]["norm"]]))
    e = first(lambda e: moved(e) and e["a"]["kind"] == "composite" and e["a"]["plain"])
    if e:
        add("point-composite", e, lambda b: b["o"]["pts"][0].__setitem__(1, b["o"]["pts"][0][1] - 2))
    e = first(lambda e: e["ev"] == "Glyph" and not any(e["a"]["coords"]) and e["a"]["kind"] == "simple")
    if e:
        add("default-point", e, lambda b: b["o"]["pts"][-1].__setitem__(1, b["o"]["pts"][-1][1] + 1))
        add("default-adv", e, lambda b: b["o"].__setitem__("adv", b["o"]["adv"] + 1))
        add("default-lsb", e, lambda b: b["o"].__setitem__("lsb", b["o"]["lsb"] - 1))
    e = first(lambda e: e["ev"] == "Glyph" and any(e["a"]["coords"]) and not e["a"]["hvar"]["present"]
              and e["a"]["kind"] == "simple" and e["o"]["adv"] != e["a"]["adv"])
    if e:
        add("adv-phantom", e, lambda b: b["o"].__setitem__("adv", b["o"]["adv"] + 3))
        add("lsb-outline", e, lambda b: b["o"].__setitem__("lsb", b["o"]["lsb"] + 3))
    e = first(lambda e: e["ev"] == "Glyph" and any(e["a"]["coords"]) and e["a"]["hvar"]["present"]
              and e["o"]["adv"] != e["a"]["adv"])
    if e:
        add("adv-hvar", e, lambda b: b["o"].__setitem__("adv", b["a"]["adv"]))
    e = first(lambda e: e["ev"] == "Glyph" and any(e["a"]["coords"]) and e["a"]["hvar"]["lsb"]["present"]
              and e["o"]["lsb"] != e["a"]["lsb"])
    if e:
        add("lsb-map", e, lambda b: b["o"].__setitem__("lsb", b["o"]["lsb"] - 3))
    e = first(lambda e: e["ev"] == "Metric" and any(e["a"]["coords"]) and e["o"]["value"] != e["a"]["base"]
              and e["a"]["lo"] < e["o"]["value"] < e["a"]["hi"])
    if e:
        add("metric", e, lambda b: b["o"].__setitem__("value", b["a"]["base"]))
    e = first(lambda e: e["ev"] == "Metric" and not any(e["a"]["coords"]))
    if e:
        add("default-metric", e, lambda b: b["o"].__setitem__("value", b["o"]["value"] + 1))
    e = first(lambda e: e["ev"] == "Static")
    if e:
        add("tables", e, lambda b: b["o"]["tags"].append("gvar"))
        add("is-variable", e, lambda b: b["o"].__setitem__("isVariable", True))
        add("loads", e, lambda b: b["o"].__setitem__("loads", False))
        add("panic", e, lambda b: b.update(ev="Failed", a={"user": b["a"]["user"], "stage": "instance", "generated": False},
                                           o={"err": "Panic:selftest @ src/x.rs:1"}))
    return planted


PLANT_EXPECTED = {"point", "shape", "transport", "normalized", "point-composite", "default-point", "default-adv",
                  "default-lsb", "adv-phantom", "lsb-outline", "adv-hvar", "lsb-map", "metric", "default-metric",
                  "tables", "is-variable", "loads", "panic"}
# clause printed by the judge for each planted corruption
PLANT_CLAUSE = {"point-composite": "point"}


def _judge(ctx, trace, tag, parts):
    other = {"STAT": [], "OUTSIDE": [], "ERR": [], "UNMODELLED": []}
    total, mism = vlib.judge_trace_parallel(ctx, "Trace_Variation", "Trace_Variation.cfg", trace, tag, parts=parts,
                                            other_tags=other)
    return total, mism, other


def run(ctx):
    binp = vlib.build_harness("c12_instance")
    cfg = "MC_Variation_quick.cfg" if ctx.quick else "MC_Variation_thorough.cfg"
    cases_path = ctx.path("cases.ndjson")
    n_cases = [0]
    lemma = {}
    fams = {}
    sample_cases = []
    with open(cases_path, "w") as fc:
        def sink(tag, payload):
            if tag == "CASE":
                fc.write(payload + "\n")
                n_cases[0] += 1
                m = re.search(r'"fam":"(\w+)"', payload)
                fam = m.group(1) if m else "?"
                fams[fam] = fams.get(fam, 0) + 1
                if fam == "enc" and not sample_cases:
                    c = json.loads(payload)
                    c["user"], c["norm"], c["expect"] = c["user"][:2], c["norm"][:2], c["expect"][:2]
                    sample_cases.append(c)
            elif tag == "LEMMA":
                lemma[payload] = lemma.get(payload, 0) + 1
        mc = vlib.run_tlc(ctx, "MC_Variation", cfg, "mc", workers=4, timeout=600 if ctx.quick else 2400, sink=sink)
    ctx.note("MC_Variation: %d states generated, %d distinct; lemma states %s; %d font cases %s (%.1fs)" %
             (mc.generated, mc.distinct, json.dumps(lemma, sort_keys=True), n_cases[0], json.dumps(fams, sort_keys=True),
              mc.wall))
    for k in ("lemma-scalar", "lemma-iup", "lemma-codec-d", "lemma-codec-p", "lemma-codec-big"):
        if not lemma.get(k):
            raise vlib.ToolError("MC_Variation checked no state of %s" % k)
    for k in ("iup", "region1", "region2", "enc", "metric", "big"):
        if not fams.get(k):
            raise vlib.ToolError("MC_Variation generated no case of family %s" % k)

    # spec -> impl
    gen_trace = ctx.path("gen_trace.ndjson")
    rep = vlib.run_harness(binp, ["replay", cases_path, gen_trace])
    ctx.note("replay: %s" % json.dumps(rep))
    # impl -> spec
    per_font, glyph_limit = (12, 64) if ctx.quick else (150, 256)
    rec_trace = ctx.path("rec_trace.ndjson")
    rec = vlib.run_harness(binp, ["record", ctx.seed, per_font, glyph_limit, rec_trace])
    ctx.note("record: %s" % json.dumps(rec))
    if rec.get("fonts", 0) < FONTS_EXPECTED or rec.get("cff2_fonts", 0) < 1:
        raise vlib.ToolError("record mode found only %s variable fonts (%s CFF2) under tests/fonts" %
                             (rec.get("fonts"), rec.get("cff2_fonts")))

    gen_events = vlib.read_ndjson(gen_trace)
    rec_events = vlib.read_ndjson(rec_trace)
    for e in rec_events:
        e["i"] += 10 ** 7
    events = gen_events + rec_events
    planted = _plant(events)
    missing = PLANT_EXPECTED - {p[0] for p in planted}
    if missing:
        raise vlib.ToolError("binding self-check could not be planted: %s" % sorted(missing))
    trace = ctx.path("trace.ndjson")
    vlib.write_ndjson(trace, events + [p[1] for p in planted])
    user_of = {e["case"]: e["a"]["user"] for e in events if e["ev"] in ("Static", "Failed")}

    total, mism, other = _judge(ctx, trace, "judge", 6 if ctx.quick else 8)
    ctx.note("judge: %d events, %d mismatch lines, %d outside the specification, %d errors returned" %
             (total, len(mism), len(other["OUTSIDE"]), len(other["ERR"])))
    if total != len(events) + len(planted):
        raise vlib.ToolError("judge consumed %d of %d events" % (total, len(events) + len(planted)))
    if other["UNMODELLED"]:
        raise vlib.ToolError("events unknown to Trace_Variation: %s" % sorted(set(other["UNMODELLED"])))

    cases = None
    violations = []
    planted_seen = set()
    transport = []
    for m in sorted(mism, key=lambda m: m["i"]):
        case = str(m["case"])
        if case.startswith("selftest-"):
            want = case[len("selftest-"):]
            if m["clause"] == PLANT_CLAUSE.get(want, want):
                planted_seen.add(want)
            continue
        if m["clause"] == "transport":
            transport.append(m)
            continue
        src = _source(m)
        detail = {"source": src, "user": user_of.get(case), **m}
        if src == "generated":
            if cases is None:
                cases = vlib.read_ndjson(cases_path)
            ci, ui = [int(x[1:]) for x in case.split("/")]
            c = dict(cases[ci])
            c["user"], c["norm"], c["expect"] = [c["user"][ui]], [c["norm"][ui]], [c["expect"][ui]]
            detail["generated_case"] = c
            where = "generated %s font, user %s" % (c["fam"], c["user"][0])
        else:
            detail["font"] = case.split("/")[1]
            where = "%s at user %s" % (detail["font"], user_of.get(case))
        what = "%s: %s %s gid %s kind %s index %s: got %s, acceptable %s (normalised %s) [%d in this event]" % (
            where, m["ev"], m["clause"], m["gid"], m["kind"], m["idx"], vlib.short(m["got"], 100),
            vlib.short(m["want"], 60), m["coords"], m["nbad"])
        violations.append(Violation(_key(m), what, detail))
    if transport:
        raise vlib.ToolError("the judge's evaluation of the written font disagrees with MC_Variation's expectation "
                             "(harness writer / reader or decoder defect): %s" % vlib.short(transport[0], 600))
    missing = PLANT_EXPECTED - planted_seen
    if missing:
        raise vlib.ToolError("binding self-check failed: corrupted events accepted by Trace_Variation: %s" %
                             sorted(missing))

    # vacuity counters from the judge's own classification of every Glyph event
    cnt = {"glyph_events": 0, "at_default": 0, "varied": 0, "with_active_tuples": 0, "two_or_more_active": 0,
           "with_inferred_points": 0, "inferred_points": 0, "rounded_numbers": 0, "numbers": 0}
    by = {"kind": {}, "hvar": {}, "lsbrule": {}}
    lsb_unjudged = 0
    for s in other["STAT"]:
        cnt["glyph_events"] += 1
        cnt["at_default"] += s["still"]
        cnt["varied"] += s["varied"] and not s["still"]
        cnt["with_active_tuples"] += s["active"] > 0
        cnt["two_or_more_active"] += s["active"] > 1
        cnt["with_inferred_points"] += s["inferred"] > 0
        cnt["inferred_points"] += s["inferred"]
        cnt["rounded_numbers"] += s["frac"]
        cnt["numbers"] += 2 * s["n"] + 2
        lsb_unjudged += not s["lsbJudged"]
        for k in by:
            by[k][s[k]] = by[k].get(s[k], 0) + 1
    cnt["lsb_unjudged"] = lsb_unjudged
    need = [("at_default", cnt["at_default"]), ("two_or_more_active", cnt["two_or_more_active"]),
            ("with_inferred_points", cnt["with_inferred_points"]), ("rounded_numbers", cnt["rounded_numbers"])]
    need += [("kind " + k, by["kind"].get(k, 0)) for k in ("simple", "composite", "empty", "cff")]
    need += [("hvar " + k, by["hvar"].get(k, 0)) for k in ("none", "direct", "map")]
    need += [("lsb rule " + k, by["lsbrule"].get(k, 0)) for k in ("map", "outline", "cff")]
    need += [("metric events", sum(1 for e in events if e["ev"] == "Metric")),
             ("static events", sum(1 for e in events if e["ev"] == "Static"))]
    for name, v in need:
        if not v:
            raise vlib.ToolError("trace is vacuous for '%s'" % name)
    real = [m for m in mism if not str(m["case"]).startswith("selftest-")]
    coverage = {
        "states": mc.distinct,
        "transitions": rep.get("instances", 0) + rec.get("instances", 0),
        "traces_validated_against_impl": len(events),
        "samples": sample_cases + [_shorten(e) for e in rec_events if e["ev"] == "Glyph" and e["a"]["kind"] == "simple"][:1],
        "lemma_states": lemma,
        "generated_cases": n_cases[0],
        "generated_case_families": fams,
        "instance_calls_generated": rep.get("instances", 0),
        "instance_calls_repository_fonts": rec.get("instances", 0),
        "repository_variable_fonts": rec.get("font_names", []),
        "events_judged": total - len(planted),
        "judged": cnt,
        "judged_by_kind": by["kind"], "judged_by_hvar": by["hvar"], "judged_by_lsb_rule": by["lsbrule"],
        "outside_spec": len(other["OUTSIDE"]),
        "errors_returned_by_instance": len(other["ERR"]),
        "panics_observed": rep.get("panics", 0) + rec.get("panics", 0),
        "tolerance_font_units": 1,
        "mismatch_lines": len(real),
        "binding_selfcheck": "corrupted events rejected: %s" % sorted(planted_seen),
        "tlc_states_generated": mc.generated,
        "exhaustive": True,
        "explanation": "exhaustive over the lemma universes and the abstract fonts of %s (every CASE executed on "
                       "allsorts at every coordinate tuple the model chose); repository fonts at fixed and seeded "
                       "random coordinates are samples" % cfg,
    }
    vlib.finish(ctx, LEVEL, coverage, violations, ASSUMPTIONS)


def _shorten(e):
    e = json.loads(json.dumps(e))
    for k in ("ser", "pts"):
        if len(e["a"].get(k, [])) > 12:
            e["a"][k] = e["a"][k][:12] + ["..."]
    if len(e["o"].get("pts", [])) > 12:
        e["o"]["pts"] = e["o"]["pts"][:12] + ["..."]
    e["a"]["hvar"] = {"present": e["a"]["hvar"]["present"]}
    return e


def replay(ctx, path):
    d = json.load(open(path))["detail"]
    binp = vlib.build_harness("c12_instance")
    tp = ctx.path("trace.ndjson")
    if d.get("generated_case"):
        cp = ctx.path("case.ndjson")
        vlib.write_ndjson(cp, [d["generated_case"]])
        vlib.run_harness(binp, ["replay", cp, tp])
    elif d.get("font") and d.get("user") is not None:
        vlib.run_harness(binp, ["one", d["font"], tp] + list(d["user"]))
    else:
        print("re-run the check with VERIF_SEED=%d; event: %s" % (ctx.seed, vlib.short(d, 2000)))
        return 1
    _, mism = vlib.judge_trace(ctx, "Trace_Variation", "Trace_Variation.cfg", tp, "judge")
    for m in mism:
        print("REPRODUCED %s %s gid %s kind %s index %s: got %s acceptable %s at normalised %s" % (
            m["ev"], m["clause"], m["gid"], m["kind"], m["idx"], vlib.short(m["got"], 100), m["want"], m["coords"]))
    return 1 if mism else 0
