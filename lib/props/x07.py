"""X07 (extra) - syllable segmentation of the Indic, Khmer and Myanmar shapers.

How scripts::indic::to_indic_syllables, scripts::khmer::to_khmer_syllables and scripts::myanmar::to_myanmar_syllables
split a glyph run into clusters and which kind every cluster gets (the syllable matchers built from the combinators
of scripts/syllable.rs).

spec -> impl : TLC explores MC_Syllables: every class string up to the bound over twelve alphabets (symbols = sets
               of grammar terminals realised by real characters) plus hand-written long strings, one transition of
               the derivative automaton of every kind per glyph; on every state automaton = denotational semantics
               of the regular expressions, the scanner loop yields a segmentation in the declarative sense, lemmas.
               It prints one CASE per string; the harness picks concrete characters of each class (several
               variants per case, rotating through the scripts), runs the REAL segmentation through the
               cfg(allsorts_verif) hook verif_syllables and compares its projection by JSON equality.
impl -> spec : seeded random strings over each script's Unicode blocks (a third of them through Font::map_glyphs of
               a repository font, whose Font::shape is observed too: dotted circles inserted) are recorded and
               judged by Trace_Syllables.
The class of a character (the grammar terminals it belongs to) is an INPUT: allsorts' own predicates, dumped through
the hook verif_class.
"""
import json
import os

import vlib
from vlib import Violation

LEVEL = "model_checking"

ASSUMPTIONS = [
    "the grammar terminals of a character are an input: allsorts' own predicates (consonant, ra, matra, ...), dumped "
    "through the cfg(allsorts_verif) hook verif_class; X07 constrains the USE of the classes, not their values",
    "the private segmentation functions are reached through the add-only cfg(allsorts_verif) hooks "
    "scripts::{indic,khmer,myanmar}::verif_syllables (notes/X07-hook.diff), which call the real functions",
    "the grammars are written from the OpenType shaping documents allsorts cites (bounded descendants of the "
    "Microsoft script development specifications' cluster expressions) as recalled offline; the Myanmar expressions "
    "are those quoted in the comments of myanmar.rs",
    "Dev_ClusterLength: a repetition the documents write `*` may be capped by the implementation (Myanmar 4 / 10, "
    "Khmer 4); either reading is accepted, one per run",
    "text preprocessing (inside map_glyphs) is C17's subject: the judge takes the run as map_glyphs produced it",
]

HOOK_HINT = ("the harness needs the verification hooks of notes/X07-hook.diff in the allsorts tree "
             "(scripts::{indic,khmer,myanmar}::verif_syllables / verif_class, cfg(allsorts_verif))")


def _hex(cps):
    return " ".join("%04X" % c for c in cps)


def _panic_class(msg):
    import re
    m = msg.rsplit(" @ ", 1)
    loc = m[1] if len(m) > 1 else ""
    f = loc.rsplit(":", 1)[0].rsplit("/src/", 1)[-1]
    return re.sub(r"\d+", "N", m[0])[:50].replace(" ", "_") + "@" + f


def _keys(m):
    ks = []
    for t in m["keys"]:
        k = "|".join(t)
        if len(t) >= 2 and t[1] == "panic":
            k += "|" + _panic_class(m.get("panic", ""))
        ks.append(k)
    return ks


def _seg(sg):
    return " ".join("%s[%s]" % (c[1], ",".join(str(p) for p in c[0])) for c in sg)


def _what(m, key, src):
    cls = " ".join("+".join(c) or "-" for c in m["cls"])
    return ("%s (%s): family %s run [%s] classes [%s]: observed %s, specification %s%s%s" %
            (key, src, m["f"], _hex(m["run"]), cls, _seg(m["got"]), _seg(m["want"]),
             (" public path inserted %d dotted circles" % m["dc"]) if m.get("dc", -1) >= 0 else "",
             (" PANIC " + m["panic"]) if m.get("panic") else ""))


def _event(i, case, fam, run, cls, seg, panic="", dc=-1):
    return {"i": i, "case": case, "ev": "Seg", "a": {"f": fam, "text": run, "run": run, "cls": cls, "via": "direct"},
            "o": {"seg": seg, "panic": panic, "dc": dc, "perr": ""}}


def _prepare(ctx):
    try:
        binp = vlib.build_harness("x07_syllables")
    except vlib.ToolError as e:
        if "verif_syllables" in str(e) or "verif_class" in str(e):
            raise vlib.ToolError(HOOK_HINT + "\n" + str(e)[-1500:])
        raise
    classes_path = ctx.path("classes.json")
    vlib.run_harness(binp, ["classes", classes_path])
    classes = json.load(open(classes_path))
    syms = {f: [(k.split("+") if k else []) for k in sorted(m)] for f, m in classes.items()}
    syms_path = ctx.path("syms.json")
    with open(syms_path, "w") as f:
        json.dump(syms, f)
    return binp, classes, syms_path


def run(ctx):
    binp, classes, syms_path = _prepare(ctx)
    sizes = {f: {"symbols": len(m), "characters": sum(len(v) for v in m.values())} for f, m in classes.items()}
    ctx.note("class table (verif_class): %s" % json.dumps(sizes, sort_keys=True))
    if sorted(classes) != ["indic", "khmer", "myanmar"] or any(v["symbols"] < 10 for v in sizes.values()):
        raise vlib.ToolError("class table is implausibly small: %s" % sizes)

    # ---- spec -> impl -------------------------------------------------------------------------
    cfg = "MC_Syllables_quick.cfg" if ctx.quick else "MC_Syllables_thorough.cfg"
    cases_path = ctx.path("cases.ndjson")
    n_cases, n_dev, n_code = [0], [0], [0]
    per_alpha = {}
    samples, plant = [], [None]
    with open(cases_path, "w") as fc:
        def sink(tag, payload):
            if tag != "CASE":
                return
            fc.write(payload + "\n")
            n_cases[0] += 1
            if '"x":[]' not in payload:
                n_dev[0] += 1
            if '"k":[]' not in payload:
                n_code[0] += 1
            if plant[0] is None or n_cases[0] % 4099 == 0:
                c = json.loads(payload)
                per_alpha[c["a"]] = per_alpha.get(c["a"], 0)
                if len(c["e"]) >= 2 and not c["k"] and not c["x"] and c["f"] == "indic" and len(c["r"]) >= 3 and \
                        len({cl[1] for cl in c["e"]}) >= 2:
                    if plant[0] is None:
                        plant[0] = c
                    elif len(samples) < 2:
                        samples.append(c)
        mc = vlib.run_tlc(ctx, "MC_Syllables", cfg, "mc", workers=6, timeout=600 if ctx.quick else 2400, sink=sink,
                          env_extra={"X07_SYMS": syms_path})
        if n_cases[0] == 0 or plant[0] is None:
            raise vlib.ToolError("no CASE lines generated")
        # binding self-check (spec -> impl): a case whose expectation is wrong must be reported by the harness
        pc = plant[0]
        bad = dict(pc, e=[[list(range(1, len(pc["r"]) + 1)), "symbol"]], x=[], k=[], d=[], id="selftest-corrupt")
        fc.write(json.dumps(bad) + "\n")
    ctx.note("MC_Syllables: %d states generated, %d distinct, depth %d, %d cases (%.1fs)" %
             (mc.generated, mc.distinct, mc.depth, n_cases[0], mc.wall))

    variants = 3 if ctx.quick else 4
    mm_path = ctx.path("replay_mismatches.ndjson")
    rep = vlib.run_harness(binp, ["replay", cases_path, mm_path, variants])
    ctx.note("replay: %s" % json.dumps({k: rep[k] for k in ("cases", "runs", "ok_primary", "ok_dev_reading", "code_model",
                                                            "code_model_by_defects", "mismatches", "panics")}))
    gen_known, gen_mism, planted_seen = [], [], False
    for m in vlib.read_ndjson(mm_path):
        if m.get("id") == "selftest-corrupt":
            planted_seen = True
        elif m["kind"] == "binding":
            raise vlib.ToolError("a generated class string cannot be realised: %s %s" % (m["r"], m["what"]))
        elif m["kind"] == "known":
            gen_known.append(m)
        else:
            gen_mism.append(m)
    if not planted_seen:
        raise vlib.ToolError("binding self-check failed: the harness accepted a corrupted generated case")

    # ---- impl -> spec -------------------------------------------------------------------------
    per_family = 1000 if ctx.quick else 5000
    trace = ctx.path("trace.ndjson")
    rec = vlib.run_harness(binp, ["record", ctx.seed, per_family, trace], timeout=1500)
    ctx.note("record: %s" % json.dumps({k: rec[k] for k in ("events", "panics", "via_map_glyphs", "preprocessing_changed",
                                                            "events_with_direct_glyphs", "public_dc_observed",
                                                            "public_errors", "fonts_used", "fonts_missing")}))
    # binding self-check (impl -> spec), independent of what allsorts did: the expectation TLC printed for a generated
    # case must be accepted by the judge; three corruptions of it must be rejected as unexplained; a wrong number of
    # dotted circles on the public path must be rejected
    e = pc["e"]
    kinds_swapped = [[cl[0], e[(k + 1) % len(e)][1]] for k, cl in enumerate(e)]
    merged = [[e[0][0] + e[1][0], e[0][1]]] + e[2:]
    dropped = e[1:]
    planted = [
        _event(10 ** 8, "selftest-good", pc["f"], list(range(1, len(pc["r"]) + 1)), pc["r"], e, dc=pc["dc"]),
        _event(10 ** 8 + 1, "selftest-kinds", pc["f"], list(range(1, len(pc["r"]) + 1)), pc["r"], kinds_swapped),
        _event(10 ** 8 + 2, "selftest-merged", pc["f"], list(range(1, len(pc["r"]) + 1)), pc["r"], merged),
        _event(10 ** 8 + 3, "selftest-dropped", pc["f"], list(range(1, len(pc["r"]) + 1)), pc["r"], dropped),
        _event(10 ** 8 + 4, "selftest-dc", pc["f"], list(range(1, len(pc["r"]) + 1)), pc["r"], e, dc=pc["dc"] + 1),
    ]
    # the generated mismatches (and samples of the code-model cases) are judged as well so that the specification
    # names the keys
    extra = []
    for k, m in enumerate(gen_known + gen_mism):
        case = ("genknown-%d" if m["kind"] == "known" else "generated-%d") % k
        extra.append(_event(2 * 10 ** 8 + k, case, m["f"], m["cps"], m["r"], m["got"] if m["got"] is not None else [],
                            m.get("panic", "")))
    with open(trace, "a") as f:
        for x in planted + extra:
            f.write(json.dumps(x, separators=(",", ":")) + "\n")
    dev = {"DEV": []}
    total, mism = vlib.judge_trace_parallel(ctx, "Trace_Syllables", "Trace_Syllables.cfg", trace, "judge",
                                            parts=6, timeout=2400, other_tags=dev)
    ctx.note("judge: %d events, %d not conformant, %d conformant under the second Dev_ reading" %
             (total, len(mism), len(dev["DEV"])))
    if total != rec["events"] + len(planted) + len(extra):
        raise vlib.ToolError("judge consumed %d events, trace has %d" % (total, rec["events"] + len(planted) + len(extra)))

    by_key = {}
    seen_planted, judged_extra = set(), {}
    n_recorded_mism = 0
    for m in mism:
        case = m["case"]
        if case.startswith("selftest-"):
            if case == "selftest-dc":
                if all(len(t) >= 2 and t[1] == "publicDottedCircles" for t in m["keys"]):
                    seen_planted.add(case)
            elif case == "selftest-good" or all(len(t) >= 2 and t[1] == "unexplained" for t in m["keys"]):
                seen_planted.add(case)
            continue
        if case.startswith("gen"):
            judged_extra[case] = m
        else:
            n_recorded_mism += 1
        src = "generated" if case.startswith("gen") else "recorded"
        for key in _keys(m):
            old = by_key.get(key)
            if old is None or len(m["run"]) < len(old[1]["run"]):
                by_key[key] = (src, m)
    if seen_planted != {"selftest-kinds", "selftest-merged", "selftest-dropped", "selftest-dc"}:
        raise vlib.ToolError("binding self-check failed: Trace_Syllables must accept the generated expectation and reject "
                             "its four corruptions; rejected: %s" % sorted(seen_planted))
    # MC_Syllables and Trace_Syllables must agree on every generated case handed over
    for k, m in enumerate(gen_known + gen_mism):
        case = ("genknown-%d" if m["kind"] == "known" else "generated-%d") % k
        j = judged_extra.get(case)
        if j is None:
            raise vlib.ToolError("MC_Syllables and Trace_Syllables disagree: generated case %s [%s] conforms for the judge"
                                 % (m["f"], _hex(m["cps"])))
        if m["kind"] == "known" and sorted(t[1] for t in j["keys"]) != sorted(m["d"]):
            raise vlib.ToolError("MC_Syllables attributes [%s] to %s, Trace_Syllables to %s" % (_hex(m["cps"]), m["d"], j["keys"]))
    for ds in (rep.get("code_model_by_defects") or {}):
        fam, names = ds.split("|", 1)
        for d in names.split("+"):
            if "%s|%s" % (fam, d) not in by_key:
                raise vlib.ToolError("defect key %s|%s counted by the replay but not named by the judge" % (fam, d))
    n_unexplained = rep.get("mismatches", 0) - variants          # the planted case is run `variants` times
    if len(gen_mism) < n_unexplained:
        ctx.note("replay: %d mismatching runs, the first %d handed to the judge" % (n_unexplained, len(gen_mism)))

    violations = []
    for key, (src, m) in sorted(by_key.items()):
        violations.append(Violation(key, _what(m, key, src), {"source": src, "f": m["f"], "run": m["run"], "cls": m["cls"],
                                                              "got": m["got"], "want": m["want"], "key": key}))

    # ---- vacuity (from TLC-generated data and the harness' inputs only) --------------------------------
    ek = rep.get("expected_kinds") or {}
    need_kinds = {"indic|consonant", "indic|vowel", "indic|standalone", "indic|symbol", "indic|broken", "indic|invalid",
                  "khmer|valid", "khmer|broken", "myanmar|valid", "myanmar|broken"}
    new_violations = [v for v in violations if v.key not in vlib.load_known(ctx.prop)]
    if not new_violations:          # a broken tree is reported as such, never masked by a vacuity guard
        if need_kinds - set(ek):
            raise vlib.ToolError("vacuous exploration: kinds never expected: %s" % sorted(need_kinds - set(ek)))
        if n_dev[0] == 0 or n_code[0] == 0:
            raise vlib.ToolError("vacuous exploration: cases where Dev_ClusterLength matters: %d, where a named defect "
                                 "reading matters: %d" % (n_dev[0], n_code[0]))
        if rec["events"] < 3 * per_family:
            raise vlib.ToolError("record produced %d events, expected %d" % (rec["events"], 3 * per_family))

    coverage = {
        "states": mc.distinct,
        "transitions": mc.generated,
        "traces_validated_against_impl": rep["runs"] + rec["events"],
        "samples": samples[:2] + [plant[0]],
        "generated_cases": n_cases[0],
        "generated_cases_per_family": rep.get("cases_per_family"),
        "generated_cases_where_dev_reading_differs": n_dev[0],
        "generated_cases_where_code_model_differs": n_code[0],
        "replayed_runs": rep["runs"],
        "replay_variants_per_case": variants,
        "distinct_characters_used_in_replay": rep.get("distinct_characters_used"),
        "generated_ok_primary_reading": rep.get("ok_primary"),
        "generated_ok_dev_reading": rep.get("ok_dev_reading"),
        "generated_equal_to_code_model_with_named_defects": rep.get("code_model"),
        "generated_code_model_by_defects": rep.get("code_model_by_defects"),
        "generated_unexplained": n_unexplained,
        "expected_kinds": ek,
        "recorded_events_judged": rec["events"],
        "recorded_not_conformant": n_recorded_mism,
        "recorded_second_dev_reading": len(dev["DEV"]),
        "recorded_panics": rec.get("panics"),
        "recorded_via_map_glyphs": rec.get("via_map_glyphs"),
        "recorded_public_path_dotted_circles_observed": rec.get("public_dc_observed"),
        "recorded_text_changed_by_preprocessing": rec.get("preprocessing_changed"),
        "recorded_events_with_direct_glyphs": rec.get("events_with_direct_glyphs"),
        "recorded_observed_kinds": rec.get("observed_kinds"),
        "recorded_fonts": rec.get("fonts_used"),
        "class_table": sizes,
        "tlc_depth": mc.depth,
        "binding_selfcheck": "a wrong generated expectation is reported by the harness; the judge accepts a generated "
                             "expectation and rejects four corruptions of it (kinds rotated, two clusters merged, first "
                             "cluster dropped, one dotted circle too many on the public path); MC_Syllables and "
                             "Trace_Syllables agree on every generated case handed over",
        "exhaustive": True,
        "explanation": "exhaustive over the bounded model (config %s: every class string up to the bound over twelve "
                       "alphabets, plus the prefixes of 19 hand-written long strings); recorded traces are random samples" % cfg,
    }
    vlib.finish(ctx, LEVEL, coverage, violations, ASSUMPTIONS)


def replay(ctx, path):
    d = json.load(open(path))["detail"]
    binp, classes, syms_path = _prepare(ctx)
    trace = ctx.path("one_trace.ndjson")
    vlib.run_harness(binp, ["one", d["f"], trace] + ["%X" % c for c in d["run"]])
    _, mism = vlib.judge_trace(ctx, "Trace_Syllables", "Trace_Syllables.cfg", trace, "replayjudge")
    for m in mism:
        for key in _keys(m):
            print("REPRODUCED " + _what(m, key, "replay"))
    if not mism:
        print("not reproduced: family %s run [%s] conforms" % (d["f"], _hex(d["run"])))
    return 1 if mism else 0
