"""X09 (extra) - decoding of embedded bitmap glyph data (EBDT / CBDT / sbix) into Bitmap values.

Not one of the listed properties: an extension of the specification library into the data side of
src/bitmap/cbdt.rs (GlyphBitmapData formats 1, 2, 5, 6, 7, 8, 9, 17, 18, 19, small / big / index sub-table metrics,
byte-aligned vs bit-aligned rows, bit depths, BitmapGlyph conversion), src/bitmap/sbix.rs glyph data and src/bitmap.rs.
(Which strike and which bytes are found is X03's subject.)

spec -> impl : TLC explores MC_BitmapData - one state machine step per image row (BitmapData!RowStep), checked on every
               state against the closed form (bit i of row r = bit r*w*d + i of the stream), the inverse Pack, the size
               lemmas and the design invariants - over (format, depth, width, height, length class exact / short /
               long, pattern, index format, flags) plus the metrics, png, component, depth-filter, header and sbix
               families, and prints one CASE per terminal state with all conformant answers.  The harness encodes each
               record into a real EBLC + EBDT / CBLC + CBDT / sbix inside a synthesized font and replays it on
               Font::lookup_glyph_image and on CBLCTable::find_strike + MatchingStrike::bitmap / Sbix::find_strike +
               SbixStrike::read_glyph; comparison by JSON equality.
impl -> spec : every glyph of every strike of the repository fonts that carry EBLC / EBDT, CBLC / CBDT or sbix (records
               located by the harness' own readers) and seeded random records of every format, judged by
               Trace_BitmapData.
"""
import json
import re

import vlib
from vlib import Violation

LEVEL = "model_checking"
BIN = "x09_bitmapdata"

ASSUMPTIONS = [
    "one strike, one index sub-table, one record under test per generated font: which strike / which bytes are found is "
    "X03's subject (BitmapLookup.tla); the encoders of the harness are trusted to place the record where the index "
    "sub-table says (the recorded repository fonts double-check the readers)",
    "length classes: a record whose image data is SHORTER than the size its format needs (rows x bytes-per-row for "
    "formats 1 / 6, ceil(width x height x depth / 8) for formats 2 / 5 / 7) has no image - the only conformant answer is "
    "an error; data LONGER than needed carries the image in its first bytes",
    "named readings accepted either way: Dev_TrailingKept (byte-aligned data longer than the image may be handed out "
    "with its trailing bytes), Dev_PadBitsKept (pad bits of byte-aligned rows passed through or cleared), "
    "Dev_BothDirections (strike flags with both direction bits: small metrics horizontal or vertical)",
    "followed as allsorts documents / FreeType does: Dev_UnflaggedHorizontal, Dev_OwnMetricsWin (a record with its own "
    "metrics under an index sub-table of format 2 / 5 keeps them), Dev_ComponentsNotImplemented (formats 8 / 9: the "
    "components are exposed by MatchingStrike::bitmap, the BitmapGlyph conversion is an error), "
    "Dev_VerticalSameFormula, Dev_SbixDepthIgnored, Dev_DupeOneLevel",
    "recorded fonts: raw table bytes are fetched through allsorts' container layer; EBLC / CBLC and sbix are decoded and "
    "the glyph's record is located by the harness' own readers (x09_bitmapdata/rd.rs); strikes that share their ppem "
    "with another strike of the table are skipped (the choice between them is X03's); CBLC.bin / CBDT.bin and "
    "TwitterColorEmoji are empty files in this checkout",
]

REQUIRED = ["cases:raw", "cases:metrics", "cases:png", "cases:comp", "cases:depth", "cases:nometrics", "cases:hdr", "cases:sbix",
            "imf:1", "imf:2", "imf:5", "imf:6", "imf:7", "imf:8", "imf:9", "imf:17", "imf:18", "imf:19",
            "ifmt:1", "ifmt:2", "ifmt:3", "ifmt:4", "ifmt:5", "bd:1", "bd:2", "bd:4", "bd:8", "bd:32", "tbl:ebdt", "tbl:cbdt",
            "raw:byte:exact", "raw:byte:short", "raw:byte:long1", "raw:byte:long4",
            "raw:bit:exact", "raw:bit:short", "raw:bit:long1", "raw:bit:long4", "fin:done", "fin:eof",
            "metrics:h-only", "metrics:v-only", "metrics:both", "dev-alternatives:raw", "dev-alternatives:metrics",
            "want:raw:err", "want:raw:img:raw", "want:png:img:png", "want:png:err", "want:comp:err", "want:depth:none",
            "want:sbix:img:png", "want:sbix:img:jpg", "want:sbix:img:tiff", "want:sbix:img:other", "want:sbix:none", "want:sbix:err",
            "low:cb:img", "low:cb:err", "low:cb:none", "low:sbix:img", "low:sbix:none", "low:sbix:err",
            "sbix:dupe2", "sbix:dupe3", "sbix:dupeshort", "code-reading-differs"]
REQUIRED_REC = ["image_fonts", "rec_cb_glyphs", "rec_sbix_glyphs", "rand_cb", "rand_sbix", "rec_imf:5", "rec_imf:1"]


def _note_cls(note):
    return re.sub(r"\d+", "N", note or "")[:60]


def _key(source, api, fam, cls, imf, wantclass, gotclass, note, bug):
    if bug:
        return "raw|%s" % bug
    gc = gotclass
    if gc in ("panic", "err") and note:
        gc += ":" + _note_cls(note)
    return "data|%s|%s|%s|%s|imf%s|want=%s|got=%s" % (source, api, fam, cls or "-", imf if imf is not None else "-", wantclass, gc)


def _cls(v):
    if not isinstance(v, dict):
        return "?"
    return "img:%s" % v["kind"] if v.get("r") == "img" and "kind" in v else v.get("r", "?")


def _plant(lines):
    """Binding self-check of the replay: copies of generated cases with falsified expectations (one pixel byte and one
    metrics value on the EBLC / CBLC route, the origin offset on the sbix route)."""
    cb = sb = None
    for ln in lines:
        c = json.loads(ln)
        if cb is None and c["fam"] == "raw" and c["cls"] == "exact" and c["sub"]["imf"] == 2 and c["s"]["bd"] == 2 \
                and len(c["want"]) == 1 and len(c["want"][0]["data"]) >= 4:
            bad = json.loads(ln)
            bad["fam"] = "selftest"
            bad["want"][0]["data"][-1] ^= 0x40
            bad["low"]["met"][2] += 1
            cb = bad
        if sb is None and c["fam"] == "sbix" and c["want"][0]["r"] == "img" and c["low"]["r"] == "img":
            bad = json.loads(ln)
            bad["fam"] = "selftest"
            bad["want"][0]["org"][1] += 1
            bad["low"]["oy"] += 1
            sb = bad
        if cb and sb:
            return [cb, sb]
    raise vlib.ToolError("no generated case suitable for the replay self-check (cb %s, sbix %s)" % (cb is not None, sb is not None))


def run(ctx):
    binp = vlib.build_harness(BIN)
    tier = "quick" if ctx.quick else "thorough"

    # ---------------------------------------------------------------- spec -> impl
    cases_path = ctx.path("cases.ndjson")
    lines = []

    def sink(t, payload):
        if t == "CASE":
            lines.append(payload)
    mc = vlib.run_tlc(ctx, "MC_BitmapData", "MC_BitmapData_%s.cfg" % tier, "mc", workers=5, timeout=900 if ctx.quick else 2400, sink=sink)
    lines.sort()
    ctx.note("MC_BitmapData: %d states, %d distinct, depth %d, %d cases (%.1fs)" % (mc.generated, mc.distinct, mc.depth, len(lines), mc.wall))
    if not lines:
        raise vlib.ToolError("no CASE lines generated")
    planted = _plant(lines)
    with open(cases_path, "w") as f:
        for ln in lines:
            f.write(ln + "\n")
        for bad in planted:
            f.write(json.dumps(bad) + "\n")
    mm_path = ctx.path("mismatches.ndjson")
    rep = vlib.run_harness(binp, ["replay", cases_path, mm_path], timeout=1800)
    cnt = rep.pop("counters", {})
    ctx.note("replay: %s" % json.dumps(rep))

    violations, seen, gen_by_key, self_routes = [], set(), {}, set()
    for m in vlib.read_ndjson(mm_path):
        if m["fam"] == "selftest":
            self_routes.add((m["route"], m["api"]))
            continue
        key = _key("gen", m["api"], m["fam"], m.get("cls"), m.get("imf"), m["wantclass"], m["gotclass"], m["note"], m["bug"])
        gen_by_key[key] = gen_by_key.get(key, 0) + 1
        if key in seen:
            continue
        seen.add(key)
        case = json.loads(lines[m["ci"]]) if m["ci"] < len(lines) else None
        what = "generated %s case %s (%s route, image format %s, depth %s, %s): conformant %s, allsorts gave %s %s%s" % (
            m["fam"], json.dumps(m["id"]), m["api"], m.get("imf"), m.get("bd"), m.get("cls"), m["wantclass"], m["gotclass"], m["note"],
            (" [= the reading '%s' of the code]" % m["bug"]) if m["bug"] else "")
        violations.append(Violation(key, what, {"source": "generated", "api": m["api"], "want": m["want"], "got": m["got"],
                                                "bug": m["bug"], "case": case}))
    want_routes = {("cb", "font"), ("cb", "low"), ("sbix", "font"), ("sbix", "low")}
    if self_routes != want_routes:
        raise vlib.ToolError("binding self-check failed: the falsified expectations were reported by %s only" % sorted(self_routes))

    # ---------------------------------------------------------------- impl -> spec
    trace = ctx.path("trace.ndjson")
    rec = vlib.run_harness(binp, ["record", ctx.seed, tier, trace], timeout=1800)
    rstats = rec.get("stats", {})
    skipped = rec.get("skipped", [])
    ctx.note("record: %d events, %s; skipped %s" % (rec.get("events", 0), json.dumps(rstats), skipped))
    events = vlib.read_ndjson(trace)
    PL = 10 ** 8
    planted_ev = {}
    for e in events:
        r = e["o"]["res"]
        if e["ev"] == "Cb" and 1 not in planted_ev and e["case"].startswith("font:") and r.get("r") == "img" and r.get("kind") == "raw" and r["data"]:
            b = json.loads(json.dumps(e))
            b["o"]["res"]["data"][0] ^= 0x80
            planted_ev[1] = b
        if e["ev"] == "Cb" and 2 not in planted_ev and r.get("r") == "img" and r.get("mh"):
            b = json.loads(json.dumps(e))
            b["o"]["res"]["mh"][1] += 1
            planted_ev[2] = b
        if e["ev"] == "Sbix" and 3 not in planted_ev and r.get("r") == "img":
            b = json.loads(json.dumps(e))
            b["o"]["low"]["ppi"] += 1
            planted_ev[3] = b
    n_ev = len(events)
    with open(trace, "a") as f:
        for k, b in sorted(planted_ev.items()):
            f.write(json.dumps(dict(b, case="selftest-corrupt-%d" % k, i=PL + k), separators=(",", ":")) + "\n")
            n_ev += 1
    other = {"UNMODELLED": []}
    total, mism = vlib.judge_trace_parallel(ctx, "Trace_BitmapData", "Trace_BitmapData.cfg", trace, "judge",
                                            parts=2 if ctx.quick else 5, other_tags=other)
    ctx.note("judge: %d events / %d mismatch lines" % (total, len(mism)))
    rec_by_key, seen_self = {}, set()
    for m in sorted(mism, key=lambda m: m["i"]):
        if m["i"] >= PL:
            seen_self.add(m["i"] - PL)
            continue
        source = "font" if m["case"].startswith("font:") else "rand"
        wc = "/".join(sorted(m["want"]))
        key = _key(source, m["api"], m["ev"], m["cls"], m["imf"] if m["ev"] == "Cb" else None, wc, _cls(m["got"]), m["note"], m["bug"])
        rec_by_key[key] = rec_by_key.get(key, 0) + 1
        if key in seen:
            continue
        seen.add(key)
        violations.append(Violation(key, "%s %s glyph %s (%s route, %s, image format %s, depth %s): conformant %s, allsorts gave %s %s%s" %
                                    (m["case"], m["ev"], m["g"], m["api"], m["cls"], m["imf"], m["bd"], wc, vlib.short(m["got"], 200), m["note"],
                                     (" [= the reading '%s' of the code]" % m["bug"]) if m["bug"] else ""),
                                    dict(m, source="recorded", seed=ctx.seed)))
    known = vlib.load_known(ctx.prop)
    new = [v for v in violations if v.key not in known]
    if total != n_ev and not new:
        raise vlib.ToolError("judge consumed %d of %d events" % (total, n_ev))
    if other["UNMODELLED"] and not new:
        raise vlib.ToolError("unmodelled events in the recorded trace: %s" % other["UNMODELLED"][:3])
    if seen_self != set(planted_ev) and not new:
        raise vlib.ToolError("binding self-check failed: the judge accepted a corrupted event (planted %s, rejected %s)" %
                             (sorted(planted_ev), sorted(seen_self)))

    # ---------------------------------------------------------------- vacuity (moot when a new violation is reported anyway)
    if not new:
        miss = [k for k in REQUIRED if not cnt.get(k)] + [k for k in REQUIRED_REC if not rstats.get(k)]
        if miss:
            raise vlib.ToolError("vacuity: branches / families never exercised: %s" % miss)
        if set(planted_ev) != {1, 2, 3}:
            raise vlib.ToolError("recorded trace is vacuous: no raw repository glyph / metrics / sbix event to corrupt (%s)" % sorted(planted_ev))

    sample = next((json.loads(l) for l in lines if '"raw"' in l and '"exact"' in l and '"imf":2' in l.replace(" ", "") and 300 < len(l) < 1500),
                  json.loads(min(lines, key=len)))
    coverage = {
        "states": mc.distinct,
        "transitions": mc.generated,
        "traces_validated_against_impl": len(lines) + rstats.get("image_fonts", 0),
        "samples": [sample],
        "evaluations": rep.get("font_lookups", 0) + rep.get("table_probes", 0) + 2 * total,
        "distinct_nontrivial": sum(v for k, v in cnt.items() if k.startswith("want:") and ":img" in k),
        "rule": "one case per terminal state of the row machine (all distinct); an evaluation is one lookup / table probe "
                "replayed or judged; non-trivial = conformant answers that are images",
        "generated_cases": len(lines),
        "font_lookups_replayed": rep.get("font_lookups", 0),
        "table_probes_replayed": rep.get("table_probes", 0),
        "generated_mismatches_by_key": gen_by_key,
        "vacuity": cnt,
        "recorded": rstats,
        "recorded_events_judged": total,
        "recorded_mismatches_by_key": rec_by_key,
        "fonts_skipped": skipped,
        "tlc_depth": mc.depth,
        "binding_selfcheck": "a falsified pixel byte / metrics value / sbix origin must be reported by the font and the table "
                             "route of the replay; corrupted Cb (pixel byte, origin offset) and Sbix (ppi) events must be "
                             "rejected by the judge",
        "exhaustive": True,
        "explanation": "exhaustive over the bounded generator (config MC_BitmapData_%s.cfg); recorded: %s" %
                       (tier, "120 glyphs per strike, 2 500 random records" if ctx.quick else "every glyph of every strike, 20 000 random records"),
    }
    vlib.finish(ctx, LEVEL, coverage, violations, ASSUMPTIONS)


def replay(ctx, path):
    d = json.load(open(path))["detail"]
    binp = vlib.build_harness(BIN)
    if d.get("source") != "generated" or not d.get("case"):
        print("recorded-trace violation: re-run the check with VERIF_SEED=%s; event: %s" % (d.get("seed", ctx.seed), vlib.short(d, 2000)))
        return 1
    cp, mp = ctx.path("case.ndjson"), ctx.path("mm.ndjson")
    vlib.write_ndjson(cp, [d["case"]])
    rep = vlib.run_harness(binp, ["replay", cp, mp])
    hit = 0
    for m in vlib.read_ndjson(mp):
        if m["api"] == d["api"]:
            hit += 1
            print("REPRODUCED %s want=%s got=%s %s %s" % (m["api"], vlib.short(m["want"], 400), vlib.short(m["got"], 400), m["note"], m.get("bug", "")))
    rep.pop("counters", None)
    print(json.dumps(rep))
    return 1 if hit else 0
