"""C15 - reading is the inverse of writing for every table the library can write.

spec -> impl : MC_BinaryWriter explores the WriteBuffer machine (typed writes, placeholders,
               reservations filled with composite values) and prints scripts with the observation
               BinaryWriter.tla prescribes; MC_TableCodec checks Dec(Enc(v)) = Normalise(v), refusal
               of oversize values and the size classes on boundary-heavy values of every structure
               and prints the values with the bytes / the refusal the specification prescribes.  The
               harness replays both on allsorts (WriteBuffer + ReadScope; WriteBinary / ReadBinary of
               each structure).
impl -> spec : every parseable table of every repository font (plus synthetic CFF tables) goes through
               parse -> write -> parse -> write; Trace_Codec judges parse(write(v)) = Normalise(v) and
               write(parse(write(v))) = write(v), and for small tables that the specification's decoder
               and encoder agree with allsorts on the real bytes.
The judge is always TLC: Trace_Codec for recorded events and for every generated value; plain JSON
equality with the TLC-computed observation for the deterministic part of the writer machine.
"""
import json
import re

import vlib
from vlib import Violation

LEVEL = "model_checking"

ASSUMPTIONS = [
    "abstract values are compared through projections written in the harness (field by field copies of the public "
    "fields of the allsorts types; crate-private fields of SequentialMapGroup and Real are read off their Debug rendering)",
    "32-bit fields of cmap formats 10/12 and long loca offsets are exercised below 2^31 only (TLC integers); u32 / i64 "
    "fields of head, OS/2 and post are carried as byte tuples over their full range",
    "the 2^32 boundary of counts and offsets (cmap 10/12 lengths, IndexU32 counts, offSize 4 -> refused) is not executed: "
    "it needs 4 GiB values",
    "big repository tables are compared by digest of their projection (FNV-1a 64 + length), small ones value by value",
    "a point's flag byte is content only in its ON_CURVE bit (Dev_FlagEncoding); repository glyphs are digested with "
    "that projection",
    "owned INDEXes are only reachable through CFF::write (MaybeOwnedIndex::replace on the global subr INDEX of a "
    "synthetic CFF table); their bytes are located by an independent INDEX walker in the harness",
]

REQUIRED_GEN_KINDS = ["head", "hhea", "maxp", "hmtx", "cvt", "loca", "os2", "post", "name", "cmapsub", "cmap", "glyph",
                      "cffint", "dict", "index", "indexo", "charset", "encoding", "fdselect", "ivs"]
REQUIRED_TABLE_KINDS = ["head", "hhea", "maxp", "hmtx", "cvt", "loca", "os2", "post", "name", "nameo", "cmapsub", "glyf",
                        "glyph", "glyftbl", "glyfparsed", "cff", "cff2"]


def _cls(res):
    """Outcome class of a result string: Ok | Err | ErrName | Panic(<message class>@file) ..."""
    if res is None:
        return "none"
    res = str(res)
    if res.startswith("Panic:") or res.startswith("ReadPanic:"):
        head, rest = res.split(":", 1)
        f, _, msg = rest.partition("|")
        return "%s(%s@%s)" % (head, re.sub(r"\d+", "N", msg)[:48], f)
    if res.startswith("ReadErr:"):
        return "ReadErr(%s)" % re.sub(r"[^A-Za-z]+", "_", res[8:])[:40]
    if res.startswith("Err:"):
        return "Err(%s)" % re.sub(r"[^A-Za-z]+", "_", res[4:])[:40]
    return res


def _has_zeros(o):
    return int(o.get("op") == "WPC" and any(p.get("p") == "z" for p in (o.get("v") or [])))


def _writer_key(o, want_res, got_res):
    return "writer|%s|zeros=%d|want=%s|got=%s" % (o.get("op"), _has_zeros(o), _cls(want_res), _cls(got_res))


def _gen_key(e, reason):
    a, o = e["a"], e["o"]
    return "gen|%s%s|%s|want=%s|got=%s" % (a["k"], a.get("var", ""), reason, a["exp"].get("res"), _cls(o.get("res")))


def _table_key(e, reason):
    a, o = e["a"], e["o"]
    src = "synthetic:" + e["case"].split("/", 1)[1] if e["case"].startswith("synthetic/") else "font"
    return "table|%s|%s|%s|w1=%s|parse2=%s|w2=%s" % (a["k"], src, reason, _cls(o.get("w1")), _cls(o.get("parse2")),
                                                      _cls(o.get("w2")))


def _tlc_cases(ctx, module, cfg, tag, path, workers=4, timeout=900):
    n = [0]
    with open(path, "w") as fc:
        def sink(t, payload):
            if t == "CASE":
                fc.write(payload + "\n")
                n[0] += 1
        mc = vlib.run_tlc(ctx, module, cfg, tag, workers=workers, timeout=timeout, sink=sink)
    if n[0] == 0:
        raise vlib.ToolError("%s printed no CASE" % module)
    ctx.note("%s/%s: %d states generated, %d distinct, %d cases (%.1fs)" % (module, cfg, mc.generated, mc.distinct,
                                                                            n[0], mc.wall))
    return mc, n[0]


def _strip(e):
    """Event without its bulky fields, for replay files and samples."""
    def cut(x):
        if isinstance(x, list):
            return [cut(y) for y in x[:40]] + (["...%d more" % (len(x) - 40)] if len(x) > 40 else [])
        if isinstance(x, dict):
            return {k: cut(v) for k, v in x.items()}
        return x
    return cut(e)


def _plant(events):
    """Binding self-check: corrupted copies of conforming events that the judge must reject."""
    planted = []

    def add(e, name):
        e = json.loads(json.dumps(e))
        e["case"] = "selftest-" + name
        planted.append(e)
        return e
    gen_exact = next((e for e in events if e["ev"] == "Gen" and e["a"]["k"] == "head" and e["o"].get("res") == "Ok"), None)
    gen_free = next((e for e in events if e["ev"] == "Gen" and e["a"]["k"] == "cffint" and e["o"].get("res") == "Ok"
                     and len(e["o"]["bytes"]) == 2), None)
    gen_back = next((e for e in events if e["ev"] == "Gen" and e["a"]["k"] == "os2" and e["o"].get("res") == "Ok"), None)
    gen_err = next((e for e in events if e["ev"] == "Gen" and e["a"]["exp"]["res"] == "Err" and e["o"].get("res") == "Err"), None)
    tab_small = next((e for e in events if e["ev"] == "Table" and e["a"]["k"] == "os2" and e["o"].get("small")
                      and e["o"].get("w2") == "Ok"), None)
    tab_big = next((e for e in events if e["ev"] == "Table" and e["a"]["k"] == "hmtx" and e["o"].get("w2") == "Ok"), None)
    tab_cff = next((e for e in events if e["ev"] == "Table" and e["a"]["k"] == "cff" and e["o"].get("w2") == "Ok"
                    and e["o"]["p2"]["dicts"] and e["o"]["p2"]["dicts"][0]["es"]), None)
    wop = next((e for e in events if e["ev"] == "WOp" and e["o"].get("res") == e["a"]["exp"]["res"]
                and len(e["o"].get("buf", [])) > len(e["a"]["free"])), None)
    if not all([gen_exact, gen_free, gen_back, gen_err, tab_small, tab_big, tab_cff, wop]):
        raise vlib.ToolError("binding self-check: no conforming event to corrupt (%s)" % [
            bool(x) for x in (gen_exact, gen_free, gen_back, gen_err, tab_small, tab_big, tab_cff, wop)])
    e = add(gen_exact, "gen-bytes")
    e["o"]["bytes"][-1] = (e["o"]["bytes"][-1] + 1) % 256
    e = add(gen_free, "gen-int")                    # 2-byte integer with its second byte off by one
    e["o"]["bytes"][1] = (e["o"]["bytes"][1] + 1) % 256
    e = add(gen_back, "gen-back")
    e["o"]["back"]["wgt"] = (e["o"]["back"]["wgt"] + 1) % 65536
    e = add(gen_err, "gen-not-refused")
    e["o"]["res"] = "Ok"
    e = add(tab_small, "table-small")
    e["o"]["p2"]["wgt"] = (e["o"]["p2"]["wgt"] + 1) % 65536
    e = add(tab_small, "table-bytes")              # allsorts' bytes are not the ones Enc prescribes
    e["o"]["b1"][-1] = (e["o"]["b1"][-1] + 1) % 256
    e = add(tab_small, "table-orig")               # the spec's decoder must read the original as allsorts did
    e["o"]["orig"][3] = (e["o"]["orig"][3] + 1) % 256
    e = add(tab_big, "table-unstable")
    e["o"]["d2"] = "0" + e["o"]["d2"][1:] if e["o"]["d2"][0] != "0" else "1" + e["o"]["d2"][1:]
    e = add(tab_cff, "table-dict")
    e["o"]["p2"]["dicts"][0]["es"] = e["o"]["p2"]["dicts"][0]["es"][1:]          # an entry lost
    e = add(wop, "wop-bytes")
    free = set(e["a"]["free"])
    k = next(i for i in range(len(e["o"]["buf"])) if (i + 1) not in free)
    e["o"]["buf"][k] = (e["o"]["buf"][k] + 1) % 256
    return planted


def run(ctx):
    binp = vlib.build_harness("c15_codec")
    tier = "quick" if ctx.quick else "thorough"

    # ---- spec -> impl: the writer machine
    wcases = ctx.path("writer_cases.ndjson")
    mcw, n_wcases = _tlc_cases(ctx, "MC_BinaryWriter", "MC_BinaryWriter_%s.cfg" % tier, "mcw", wcases)
    wmism, wtrace = ctx.path("writer_mismatches.ndjson"), ctx.path("writer_trace.ndjson")
    wrep = vlib.run_harness(binp, ["writer-replay", wcases, wmism, wtrace])
    ctx.note("writer-replay: %s" % json.dumps(wrep))

    # ---- spec -> impl: the structures
    ccases = ctx.path("codec_cases.ndjson")
    mcc, n_ccases = _tlc_cases(ctx, "MC_TableCodec", "MC_TableCodec_%s.cfg" % tier, "mcc", ccases)
    gtrace = ctx.path("gen_trace.ndjson")
    crep = vlib.run_harness(binp, ["codec-replay", ccases, gtrace])
    ctx.note("codec-replay: %d events, outcomes %s" % (crep["events"], json.dumps(crep["outcomes"], sort_keys=True)))

    # ---- impl -> spec: repository tables
    ttrace = ctx.path("table_trace.ndjson")
    rrep = vlib.run_harness(binp, ["record", ttrace])
    ctx.note("record: %s" % json.dumps(rrep, sort_keys=True))

    # ---- one trace for the judge
    events = []
    for p in (wtrace, gtrace, ttrace):
        events.extend(vlib.read_ndjson(p))
    n_real = len(events)
    events.extend(_plant(events))
    for i, e in enumerate(events):
        e["i"] = i
    trace = ctx.path("trace.ndjson")
    vlib.write_ndjson(trace, events)
    unmodelled = {"UNMODELLED": []}
    total, mism = vlib.judge_trace_parallel(ctx, "Trace_Codec", "Trace_Codec.cfg", trace, "judge",
                                            parts=4 if ctx.quick else 6, xmx="4g", other_tags=unmodelled)
    ctx.note("judge: %d events, %d mismatches, %d unmodelled" % (total, len(mism), len(unmodelled["UNMODELLED"])))
    if total != len(events):
        raise vlib.ToolError("judge consumed %d of %d events" % (total, len(events)))

    violations = []
    # deterministic part of the writer machine: JSON equality with the TLC-computed observation
    for m in vlib.read_ndjson(wmism):
        want = m["want"].get("obs", m["want"])
        got = m["got"].get("obs", m["got"])
        key = _writer_key(m["o"], want.get("res"), got.get("res"))
        violations.append(Violation(key, "writer machine: %s after %s: want %s got %s" % (
            vlib.short(m["o"], 160), vlib.short([s["o"] for s in m.get("path", [])], 200), vlib.short(m["want"], 200),
            vlib.short(m["got"], 200)), {"source": "writer", **m}))
    planted_seen = set()
    for m in sorted(mism, key=lambda m: m["i"]):
        e = events[m["i"]]
        if e["case"].startswith("selftest-"):
            planted_seen.add(e["case"])
            continue
        if e["ev"] == "WOp":
            key = _writer_key(e["a"]["o"], e["a"]["exp"]["res"], e["o"].get("res")) + "|" + m["reason"]
            what = "writer machine: %s want %s got %s" % (vlib.short(e["a"]["o"], 160), vlib.short(e["a"]["exp"], 160),
                                                          vlib.short(e["o"], 160))
        elif e["ev"] == "Gen":
            key = _gen_key(e, m["reason"])
            what = "generated %s: %s; want %s got %s" % (e["case"], m["reason"], vlib.short(_strip(e["a"]["exp"]), 200),
                                                        vlib.short(_strip(e["o"]), 240))
        else:
            key = _table_key(e, m["reason"])
            what = "table %s of %s: %s (%s)" % (e["a"]["k"], e["case"], m["reason"], vlib.short(
                {k: e["o"].get(k) for k in ("w1", "parse2", "w2", "len0", "len1", "len2")}, 200))
        violations.append(Violation(key, what, {"source": e["ev"], "reason": m["reason"], "event": _strip(e)}))
    want_planted = {e["case"] for e in events[n_real:]}
    if planted_seen != want_planted:
        raise vlib.ToolError("binding self-check failed: Trace_Codec accepted corrupted events %s" %
                             sorted(want_planted - planted_seen))

    # ---- vacuity
    gen_kinds, gen_refused, gen_canonical = {}, {}, {}
    tab_kinds, tab_small = {}, {}
    for e in events[:n_real]:
        k = e["a"].get("k")
        if e["ev"] == "Gen":
            gen_kinds[k] = gen_kinds.get(k, 0) + 1
            if e["a"]["exp"]["res"] == "Err":
                gen_refused[k] = gen_refused.get(k, 0) + 1
            if k in ("cffint", "dict", "index", "ivs") and e["o"].get("bytes") == e["a"]["exp"].get("bytes"):
                gen_canonical[k] = gen_canonical.get(k, 0) + 1
        elif e["ev"] == "Table":
            tab_kinds[k] = tab_kinds.get(k, 0) + 1
            if e["o"].get("small"):
                tab_small[k] = tab_small.get(k, 0) + 1
    missing = [k for k in REQUIRED_GEN_KINDS if not gen_kinds.get(k)] + \
              ["table:" + k for k in REQUIRED_TABLE_KINDS if not tab_kinds.get(k)]
    if missing:
        raise vlib.ToolError("vacuous: no event for %s" % missing)
    for k in ("loca", "post", "name", "cmapsub", "glyph", "encoding", "fdselect"):
        if not gen_refused.get(k):
            raise vlib.ToolError("vacuous: no oversize value generated for %s" % k)
    if wrep.get("read_backs", 0) == 0 or wrep.get("relational_events", 0) == 0:
        raise vlib.ToolError("vacuous: writer replay without read-backs / refusals")

    sample_gen = next(e for e in events if e["ev"] == "Gen" and e["a"]["k"] == "maxp")
    sample_tab = next(e for e in events if e["ev"] == "Table" and e["a"]["k"] == "hhea")
    coverage = {
        "states": mcw.distinct + mcc.distinct,
        "transitions": wrep.get("ops_executed", 0) + n_ccases,
        "traces_validated_against_impl": n_wcases + n_ccases + sum(tab_kinds.values()),
        "samples": [_strip(sample_gen), _strip(sample_tab)],
        "writer_states": mcw.distinct,
        "writer_cases": n_wcases,
        "writer_ops_executed_on_impl": wrep.get("ops_executed", 0),
        "writer_read_backs": wrep.get("read_backs", 0),
        "writer_relational_events": wrep.get("relational_events", 0),
        "codec_cases": n_ccases,
        "codec_cases_per_kind": gen_kinds,
        "codec_refusals_per_kind": gen_refused,
        "codec_canonical_encoding_chosen": gen_canonical,
        "codec_outcomes": crep["outcomes"],
        "fonts": rrep.get("fonts", 0),
        "table_events_per_kind": tab_kinds,
        "table_events_judged_value_by_value": tab_small,
        "tables_not_parseable": rrep.get("not_parseable", {}),
        "events_judged": total,
        "unmodelled_events": len(unmodelled["UNMODELLED"]),
        "binding_selfcheck": "%d corrupted events rejected" % len(want_planted),
        "exhaustive": True,
        "explanation": "exhaustive over the bounded writer model (%s) and over the boundary value sets of MC_TableCodec "
                       "(%s); repository tables are the 'all byte strings that parse' sample" % (
                           "MC_BinaryWriter_%s.cfg" % tier, "MC_TableCodec_%s.cfg" % tier),
    }
    vlib.finish(ctx, LEVEL, coverage, violations, ASSUMPTIONS)


def replay(ctx, path):
    d = json.load(open(path))["detail"]
    print("violation source: %s" % d.get("source"))
    print(vlib.short(d, 4000))
    if d.get("source") == "writer":
        binp = vlib.build_harness("c15_codec")
        case = {"path": d["path"], "fan": [{"o": d["o"], "exp": d["want"].get("obs", d["want"]),
                                            "rb": d["want"].get("rb", {"v": [], "rem": -1}), "free": []}]}
        cp = ctx.path("case.ndjson")
        vlib.write_ndjson(cp, [case])
        rep = vlib.run_harness(binp, ["writer-replay", cp, ctx.path("mm.ndjson"), ctx.path("tr.ndjson")])
        mm = vlib.read_ndjson(ctx.path("mm.ndjson"))
        for m in mm:
            print("REPRODUCED want=%s got=%s" % (vlib.short(m["want"]), vlib.short(m["got"])))
        print(json.dumps(rep))
        return 1 if mm else 0
    print("re-run ./check C15 --tier %s to reproduce (deterministic: no randomness is used)" % ctx.tier)
    return 1
