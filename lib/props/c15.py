"""C15 - reading is the inverse of writing for every table the library can write.

spec -> impl : MC_BinaryWriter explores the WriteBuffer machine (typed writes, placeholders,
               reservations filled with composite values) and prints scripts with the observation
               BinaryWriter.tla prescribes; MC_TableCodec checks Dec(Enc(v)) = Normalise(v), refusal
               of oversize values and the size classes on boundary-heavy values of every structure
               and prints the values with the bytes / the refusal the specification prescribes.  The
               harness replays both on allsorts (WriteBuffer + ReadScope; WriteBinary / ReadBinary of
               each structure).
impl -> spec : every parseable table of every repository font (plus synthetic CFF tables) goes through
               parse -> write -> parse -> write; Trace_Codec judges parse(write(v)) = Normalise(v) and
               write(parse(write(v))) = write(v), and for small tables that the specification's decoder
               and encoder agree with allsorts on the real bytes.
The judge is always TLC: Trace_Codec for recorded events and for every generated value; plain JSON
equality with the TLC-computed observation for the deterministic part of the writer machine.
"""
import json
import re

import vlib
from vlib import Violation

LEVEL = "model_checking"

ASSUMPTIONS = [
    "abstract values are compared through projections written in the harness (field by field copies of the public "
    "fields of the allsorts types; crate-private fields of SequentialMapGroup and Real are read off their Debug rendering)",
    "32-bit fields of cmap formats 10/12 and long loca offsets are exercised below 2^31 only (TLC integers); u32 / i64 "
    "fields of head, OS/2 and post are carried as byte tuples over their full range",
    "the 2^32 boundary of counts and offsets (cmap 10/12 lengths, IndexU32 counts, offSize 4 -> refused) is not executed: "
    "it needs 4 GiB values",
    "big repository tables are compared by digest of their projection (FNV-1a 64 + length), small ones value by value",
    "a point's flag byte is content only in its ON_CURVE bit (Dev_FlagEncoding); repository glyphs are digested with "
    "that projection",
    "owned INDEXes are only reachable through CFF::write (MaybeOwnedIndex::replace on the global subr INDEX of a "
    "synthetic CFF table); their bytes are located by an independent INDEX walker in the harness",
]

REQUIRED_GEN_KINDS = ["head", "hhea", "maxp", "hmtx", "cvt", "loca", "os2", "post", "name", "cmapsub", "cmap", "glyph",
                      "glyphp", "cffint", "dict", "index", "indexo", "charset", "encoding", "fdselect", "ivs", "ivd", "ivr",
                      "cfft"]
REQUIRED_TABLE_KINDS = ["head", "hhea", "maxp", "hmtx", "cvt", "loca", "os2", "post", "name", "nameo", "cmapsub", "glyf",
                        "glyph", "glyftbl", "glyfparsed", "cff", "cff2"]


# ---- vacuity of the positional families -----------------------------------------------------------
# For every structure with per-element flags, per-element lengths or a count-dependent header the
# generated values must put the feature in every POSITION (first / middle / last / several / none), not
# only have it present.  The classification below is measured on the values TLC printed; REQUIRED_FAMILIES
# lists the classes without which the run is vacuous (ToolError).

def _pos(i, n):
    """Position class of element i (0-based) among n."""
    if n == 1:
        return "only"
    return "first" if i == 0 else ("last" if i == n - 1 else "middle")


def _set_class(idx, n):
    """Class of a set of selected positions among n elements."""
    idx = sorted(idx)
    if not idx:
        return "none"
    if len(idx) == n:
        return "all" if n > 1 else "only"
    if len(idx) > 1:
        return "several-with-last" if (n - 1) in idx else "several-without-last"
    return _pos(idx[0], n)


def _families(cases):
    fam = {}

    def hit(f, c):
        d = fam.setdefault(f, {})
        c = str(c)
        d[c] = d.get(c, 0) + 1

    for c in cases:
        k, v = c["k"], c["v"]
        refused = c["exp"].get("res") == "Err"
        if k == "glyph" and v.get("t") == "c":
            comps = v["comps"]
            n = len(comps)
            fl = [x["flags"] for x in comps]
            hit("composite.components", min(n, 4))
            cls = _set_class([i for i, f in enumerate(fl) if f & 256], n)
            hit("composite.instructions_flag[%d]" % min(n, 4), cls + ("+bytes" if v["instr"] else "+empty" if cls != "none" else ""))
            if n > 1 and any(f & 256 for f in fl) and not fl[-1] & 256:
                hit("composite.instructions_flag_not_on_last", "bytes" if v["instr"] else "empty")
            for i, f in enumerate(fl):
                for bit, name in ((8, "scale"), (64, "xy-scale"), (128, "two-by-two")):
                    if f & bit and not (f & (bit - 1) & (8 | 64 | 128)):
                        hit("composite.transform." + name, _pos(i, n))
                hit("composite.args." + ("words" if f & 1 else "bytes") + ("-xy" if f & 2 else "-points"), _pos(i, n))
                for bit, name in ((4, "round"), (512, "use-my-metrics"), (1024, "overlap"), (2048, "scaled-offset"),
                                  (4096, "unscaled-offset")):
                    if f & bit:
                        hit("composite.flag." + name, _pos(i, n))
            sizes = {(f & 1, f & (8 | 64 | 128)) for f in fl}
            if len(sizes) > 1:
                hit("composite.components_of_different_size", min(n, 4))
            more_ok = all(bool(f & 32) == (i < n - 1) for i, f in enumerate(fl))
            hit("composite.more_components_consistent", more_ok)
        elif k == "glyph" and v.get("t") == "s":
            pts = v["pts"]
            n = len(pts)
            hit("simple.contours", min(len(v["ends"]), 4))
            hit("simple.instructions", "none" if not v["instr"] else ("<=255" if len(v["instr"]) <= 255 else ">=256"))
            if 1 < n <= 8:
                hit("simple.on_curve", _set_class([i for i, q in enumerate(pts) if q[0] & 1], n))
                for i, q in enumerate(pts):
                    if q[1] in (32767, -32768) or q[2] in (32767, -32768):
                        hit("simple.extreme_coordinate", _pos(i, n))
        elif k == "glyphp":
            pts = v["pts"]
            n = len(pts)
            hit("packed.instructions", bool(v["instr"]))
            hit("packed.contours", min(len(v["ends"]), 3))
            px = py = 0
            i = 0
            for i, q in enumerate(pts):
                f, dx, dy = q[0], q[1] - px, q[2] - py
                px, py = q[1], q[2]
                if n <= 8:
                    fx = ("short" + ("+" if f & 16 else "-")) if f & 2 else ("same" if f & 16 else "word")
                    fy = ("short" + ("+" if f & 32 else "-")) if f & 4 else ("same" if f & 32 else "word")
                    hit("packed.x." + fx, _pos(i, n))
                    hit("packed.y." + fy, _pos(i, n))
                    if f & 2 and abs(dx) in (0, 255):
                        hit("packed.short_edge", "x%d" % abs(dx))
                    if f & 4 and abs(dy) in (0, 255):
                        hit("packed.short_edge", "y%d" % abs(dy))
            # runs of REPEAT flags, as the encoder forms them
            i = 0
            while i < n:
                if pts[i][0] & 8:
                    r = 0
                    while i + r + 1 < n and r < 255 and pts[i + r + 1][0] == pts[i][0]:
                        r += 1
                    hit("packed.repeat_count", r if r in (0, 1, 2, 254, 255) else "other")
                    if n <= 8:
                        hit("packed.repeat_run", "whole" if (i == 0 and i + r + 1 == n and n > 1) else
                            "start" if i == 0 and n > 1 else "end" if i + r + 1 == n and n > 1 else
                            "only" if n == 1 else "inside")
                    i += r + 1
                else:
                    i += 1
            hit("packed.points", n if n in (0, 1, 255, 256, 257, 258) else "other")
        elif k == "cmapsub" and v.get("fmt") == 4:
            n = len(v["starts"])
            if not refused:
                hit("cmap4.segments", n)
                p2 = 1 << (n.bit_length() - 1)
                hit("cmap4.segments_vs_power_of_two", "power" if n == p2 else "power+1" if n == p2 + 1 else
                    "power-1" if n + 1 == 2 * p2 else "between")
            if n <= 8:
                ro = [i for i, x in enumerate(v["ros"]) if x]
                # the final segment is the 0xFFFF one: positions are taken among the real segments
                real = [i for i in ro if i < n - 1]
                cls = _set_class(real, n - 1) if n > 1 else "none"
                hit("cmap4.id_range_offset", cls + ("+final" if (n - 1) in ro else ""))
        elif k == "cmap":
            fm = [r["sub"]["fmt"] for r in v["recs"]]
            hit("cmap.records", min(len(fm), 4))
            if len(set(fm)) > 1:
                hit("cmap.format_order", "-".join(map(str, fm)))
        elif k == "name" and len(v["recs"]) <= 8:
            recs, tags = v["recs"], v["tags"]
            hit("name.format", 1 if tags else 0)
            hit("name.tags", min(len(tags), 4))
            for r in recs:
                if r["s"]:
                    hit("name.encoding", "%d/%d" % (r["p"], r["e"]))
            if len(recs) > 1:
                hit("name.empty_string", _set_class([i for i, r in enumerate(recs) if not r["s"]], len(recs)))
                hit("name.long_string", _set_class([i for i, r in enumerate(recs) if len(r["s"]) > 255], len(recs)))
            if len(tags) > 1:
                hit("name.empty_tag", _set_class([i for i, t in enumerate(tags) if not t], len(tags)))
            if tags and recs:
                hit("name.tags_after_strings", bool(any(r["s"] for r in recs)))
        elif k == "post" and v["version"] == 131072 and len(v["idx"]) <= 8:
            idx, names = v["idx"], v["names"]
            if len(idx) > 1:
                hit("post.custom_name_index", _set_class([i for i, x in enumerate(idx) if x >= 258], len(idx)))
                hit("post.index_257", _set_class([i for i, x in enumerate(idx) if x == 257], len(idx)))
                cust = [x for x in idx if x >= 258]
                if len(cust) > 1:
                    hit("post.custom_order", "ascending" if cust == sorted(set(cust)) else
                        "shared" if len(set(cust)) < len(cust) else "other")
                if len(names) > len(set(cust)):
                    hit("post.unused_names_stored", len(names) - len(set(cust)))
            if len(names) > 1:
                hit("post.empty_name", _set_class([i for i, s in enumerate(names) if not s], len(names)))
                hit("post.name_255", _set_class([i for i, s in enumerate(names) if len(s) == 255], len(names)))
                hit("post.name_256_refused", _set_class([i for i, s in enumerate(names) if len(s) == 256], len(names)))
        elif k == "os2" and not refused:
            hit("os2.length", len(c["exp"]["bytes"]))
            hit("os2.version_written", c["exp"]["back"]["version"])
        elif k == "loca" and len(v["offs"]) > 1:
            offs = v["offs"]
            f = "short" if v["fmt"] == 0 else "long"
            hit("loca.%s.odd_offset" % f, _set_class([i for i, x in enumerate(offs) if x & 1], len(offs)) +
                ("->refused" if refused else "->stored"))
            hit("loca.%s.offset>131070" % f, _set_class([i for i, x in enumerate(offs) if x > 131070], len(offs)) +
                ("->refused" if refused else "->stored"))
            hit("loca.%s.offset=131070" % f, _set_class([i for i, x in enumerate(offs) if x == 131070], len(offs)))
        elif k == "hmtx":
            hit("hmtx.metrics/bearings", "%d/%d" % (min(len(v["hm"]), 4), min(len(v["lsb"]), 3)))
        elif k == "dict":
            es = v["entries"]
            back = c["exp"]["back"]
            kept = [(e["op"], json.dumps(e["args"])) for e in back]
            dropped = [i for i, e in enumerate(es) if (e["op"], json.dumps(e["args"])) not in kept]
            if len(es) > 1 and len(es) <= 4:
                hit("dict.default_entry[%s]" % v["kind"], _set_class(dropped, len(es)))
            for i, e in enumerate(es):
                if len(e["args"]) == 48 and len(es) > 1:
                    hit("dict.48_operands", _pos(i, len(es)))
                rl = [j for j, a in enumerate(e["args"]) if a["t"] == "r"]
                if rl and len(e["args"]) > 1:
                    hit("dict.real_operand", _set_class(rl, len(e["args"])))
        elif k in ("index", "indexo"):
            lens = [len(o) for o in v["objs"]] if k == "index" else v["lens"]
            if len(lens) > 1:
                hit(k + ".empty_object", _set_class([i for i, x in enumerate(lens) if x == 0], len(lens)))
            if lens:
                hit(k + ".last_offset", (1 + sum(lens)) if (1 + sum(lens)) in (255, 256, 257, 65535, 65536) else "other")
        elif k == "charset" and v["fmt"] in (1, 2) and 1 < len(v["ranges"]) <= 8:
            rs = v["ranges"]
            for edge in ((0, 255) if v["fmt"] == 1 else (0, 255, 256, 65535)):
                hit("charset%d.nLeft=%d" % (v["fmt"], edge), _set_class([i for i, r in enumerate(rs) if r[1] == edge], len(rs)))
        elif k == "encoding" and v["fmt"] == 1 and 1 < len(v["ranges"]) <= 8:
            rs = v["ranges"]
            hit("encoding1.nLeft=255", _set_class([i for i, r in enumerate(rs) if r[1] == 255], len(rs)))
        elif k == "fdselect" and v["fmt"] == 3 and 1 < len(v["ranges"]) <= 8:
            rs = v["ranges"]
            if rs[1][0] == rs[0][0] + 1:
                hit("fdselect3.change_point", "after-first-glyph")
            if rs[-1][0] == v["sentinel"] - 1:
                hit("fdselect3.change_point", "before-last-glyph")
            hit("fdselect3.fd=255", _set_class([i for i, r in enumerate(rs) if r[1] == 255], len(rs)))
        elif k == "fdselect" and v["fmt"] == 0 and len(v["fds"]) > 1:
            fds = v["fds"]
            ch = [i for i in range(1, len(fds)) if fds[i] != fds[i - 1]]
            hit("fdselect0.change_point", _set_class([i - 1 for i in ch], len(fds) - 1))
        elif k == "ivs":
            data = v["data"]
            for d in data:
                if d["ris"]:
                    hit("ivs.word_delta_count", "%s:%d/%d" % ("long" if d["wdc"] >= 32768 else "short", d["wdc"] % 32768, len(d["ris"])))
            if len(data) > 1:
                hit("ivs.long_subtable", _set_class([i for i, d in enumerate(data) if d["wdc"] >= 32768], len(data)))
                hit("ivs.empty_subtable", _set_class([i for i, d in enumerate(data) if d["items"] == 0], len(data)))
        elif k == "ivd":
            n = len(v["ris"])
            long = v["wdc"] >= 32768
            hit("ivd.long_words_flag", "set" if long else "clear")
            hit("ivd.word_delta_count", "%s:%d/%d" % ("long" if long else "short", v["wdc"] % 32768, n))
            hit("ivd.items[%s]" % ("long" if long else "short"), min(v["items"], 2))
        elif k == "ivr":
            hit("ivr.regions/axes", "%d/%d" % (min(len(v["regions"]), 3), v["axes"]))
        elif k == "cfft":
            # v holds the size classes TLC computed for the table (MC_TableCodec!CfftSizes)
            def edge(n):
                return str(n) if 250 <= n <= 260 or 65530 <= n <= 65540 else "other"
            cid = "cid" if v["cid"] else "name-keyed"
            hit("cfft.top_dict_data[%s]" % cid, edge(v["top"]))
            for plen, subrs in zip(v["priv"], v["subrs"]):
                hit("cfft.private_dict_data[%s]" % ("subrs" if subrs else "no-subrs"), edge(plen))
            for i, fl in enumerate(v["fd"]):
                hit("cfft.font_dict_data[%s]" % _pos(i, len(v["fd"])), edge(fl))
            if v["fd"]:
                hit("cfft.font_dict_index_data", edge(sum(v["fd"])))
            hit("cfft.strings", min(v["nstrs"], 3))
            for sid in v["sids"]:
                hit("cfft.sid", "<390" if sid < 390 else str(sid) if sid <= 392 else ">392")
            for ix, n in v["data"].items():
                hit("cfft.index_data." + ix, n if n in (0, 254, 255, 256, 65534, 65535, 65536) else "other")
            hit("cfft.charset", v["charset"])
            hit("cfft.source_layout[%s]" % cid, "standard" if v["lay"] == 0 else "reversed-with-gaps")
            if v["lay"] == 1:
                hit("cfft.reversed_layout_with", "charset-" + v["charset"])
                hit("cfft.reversed_layout_with", "top-dict-data-" + edge(v["top"]))
                hit("cfft.reversed_layout_with", "header-%s" % ("4" if v["hdr"]["size"] == 4 else "longer"))
                for plen, subrs in zip(v["priv"], v["subrs"]):
                    hit("cfft.reversed_layout_with", "private-" + ("subrs" if subrs else "no-subrs"))
                    hit("cfft.reversed_layout_with", "private-dict-data-" + edge(plen))
            h = v["hdr"]
            hit("cfft.header_size[%s]" % cid, h["size"])
            hit("cfft.header_skipped_bytes", h["pad"])
            hit("cfft.header_off_size", "%d%s" % (h["offSize"], "+skipped-bytes" if h["size"] > 4 else ""))
            hit("cfft.header_minor", h["minor"])
            if h["size"] > 4:
                hit("cfft.long_header_with_top_dict_data", edge(v["top"]))
                hit("cfft.long_header_with_charset", v["charset"])
                hit("cfft.long_header_with_strings", min(v["nstrs"], 3))
                for ix, n in v["data"].items():
                    hit("cfft.long_header_with_index_data." + ix, n if n in (0, 254, 255, 256) else "other")
    return fam


REQUIRED_FAMILIES = {
    # two-pass writers: the sizes where the size classes of the encodings change (classes computed by TLC)
    "cfft.top_dict_data[name-keyed]": [str(n) for n in list(range(250, 261)) + [65533, 65534, 65535, 65536]],
    "cfft.top_dict_data[cid]": [str(n) for n in range(250, 261)],
    "cfft.private_dict_data[subrs]": [str(n) for n in list(range(250, 261)) + [65536]],
    "cfft.private_dict_data[no-subrs]": [str(n) for n in list(range(250, 261)) + [65535]],
    "cfft.font_dict_data[first]": [str(n) for n in range(250, 261)],
    "cfft.font_dict_index_data": [str(n) for n in list(range(250, 261)) + [65535, 65536]],
    "cfft.strings": ["0", "1", "2", "3"],
    "cfft.sid": ["<390", "390", "391", "392", ">392"],
    "cfft.index_data.names": ["254", "255"],
    "cfft.index_data.strs": ["254", "255", "256", "65534", "65535", "65536"],
    "cfft.index_data.gs": ["0", "254", "255", "256", "65534", "65535", "65536"],
    "cfft.index_data.cs": ["254", "255", "256"],
    "cfft.index_data.ls": ["0", "254", "255", "256"],
    "cfft.charset": ["predefined", "format0"],
    # lengths that travel with the bytes they count: the CFF header (hdrSize) with bytes behind its four fields
    "cfft.header_size[name-keyed]": ["4", "5", "6", "8", "10", "255"],
    "cfft.header_size[cid]": ["4", "5", "6", "8", "10", "255"],
    "cfft.header_skipped_bytes": ["none", "zero", "reads-as-empty-index", "other"],
    "cfft.header_off_size": ["1", "2", "3", "4", "1+skipped-bytes", "2+skipped-bytes", "3+skipped-bytes", "4+skipped-bytes"],
    "cfft.header_minor": ["0", "1", "255"],
    "cfft.long_header_with_top_dict_data": ["253", "254", "255", "256", "other"],
    "cfft.long_header_with_charset": ["predefined", "format0"],
    "cfft.long_header_with_strings": ["0", "2", "3"],
    "cfft.long_header_with_index_data.gs": ["0", "255", "other"],
    "cfft.long_header_with_index_data.ls": ["0", "256", "other"],
    # the source in another layout (offsets followed, not assumed)
    "cfft.source_layout[name-keyed]": ["standard", "reversed-with-gaps"],
    "cfft.source_layout[cid]": ["standard", "reversed-with-gaps"],
    "cfft.reversed_layout_with": ["charset-predefined", "charset-format0", "top-dict-data-254", "top-dict-data-255", "top-dict-data-256",
                                  "header-4", "header-longer", "private-subrs", "private-no-subrs", "private-dict-data-255",
                                  "private-dict-data-256"],
    # flag-packed fields: the flag set and clear for every count
    "ivd.long_words_flag": ["set", "clear"],
    "ivd.word_delta_count": ["%s:%d/3" % (w, n) for w in ("short", "long") for n in range(4)] + ["long:0/0", "short:0/0",
                                                                                                  "long:16/16", "long:0/16"],
    "ivd.items[long]": ["0", "1", "2"], "ivd.items[short]": ["0", "1", "2"],
    "ivr.regions/axes": ["0/0", "0/2", "3/1", "3/2"],
    "composite.components": ["1", "2", "3"],
    "composite.instructions_flag[2]": ["none", "first+bytes", "first+empty", "last+bytes", "last+empty", "all+bytes"],
    "composite.instructions_flag[3]": ["none", "first+bytes", "middle+bytes", "last+bytes", "several-with-last+bytes",
                                       "several-without-last+bytes", "all+bytes", "first+empty", "middle+empty"],
    "composite.instructions_flag_not_on_last": ["bytes", "empty"],
    "composite.transform.scale": ["first", "middle", "last", "only"],
    "composite.transform.xy-scale": ["first", "middle", "last", "only"],
    "composite.transform.two-by-two": ["first", "middle", "last", "only"],
    "composite.args.words-xy": ["first", "middle", "last"],
    "composite.args.words-points": ["first", "middle", "last"],
    "composite.args.bytes-xy": ["first", "middle", "last"],
    "composite.args.bytes-points": ["first", "middle", "last"],
    "composite.flag.use-my-metrics": ["first", "middle", "last"],
    "composite.flag.overlap": ["first", "middle", "last"],
    "composite.components_of_different_size": ["2", "3"],
    "composite.more_components_consistent": ["True"],
    "simple.on_curve": ["first", "middle", "last", "all", "several-with-last", "several-without-last"],
    "simple.extreme_coordinate": ["first", "middle", "last"],
    "simple.instructions": ["none", "<=255", ">=256"],
    "packed.x.short+": ["first", "middle", "last"], "packed.x.short-": ["first", "middle", "last"],
    "packed.x.same": ["first", "middle", "last"], "packed.x.word": ["first", "middle", "last"],
    "packed.y.short+": ["first", "middle", "last"], "packed.y.short-": ["first", "middle", "last"],
    "packed.y.same": ["first", "middle", "last"], "packed.y.word": ["first", "middle", "last"],
    "packed.short_edge": ["x0", "x255", "y0", "y255"],
    "packed.repeat_count": ["0", "1", "2", "254", "255"],
    "packed.repeat_run": ["whole", "start", "end", "inside", "only"],
    "packed.points": ["0", "1", "255", "256", "257", "258"],
    "packed.instructions": ["True", "False"],
    "cmap4.segments": [str(n) for n in list(range(1, 18)) + [31, 32, 33, 255, 256, 257, 1023, 1024, 1025]],
    "cmap4.segments_vs_power_of_two": ["power", "power+1", "power-1", "between"],
    "cmap4.id_range_offset": ["none", "first", "middle", "last", "all", "several-with-last", "several-without-last", "none+final"],
    "cmap.format_order": ["0-4-6", "6-0-4", "4-6-0"],
    "name.format": ["0", "1"],
    "name.encoding": ["0/3", "0/4", "1/0", "3/0", "3/1", "3/10"],
    "name.empty_string": ["none", "first", "middle", "last", "all"],
    "name.long_string": ["first", "middle", "last"],
    "name.empty_tag": ["none", "first", "last"],
    "name.tags_after_strings": ["True", "False"],
    "post.custom_name_index": ["none", "first", "middle", "last", "all", "several-with-last", "several-without-last"],
    "post.index_257": ["first", "middle", "last"],
    "post.custom_order": ["ascending", "shared", "other"],
    "post.unused_names_stored": ["2"],
    "post.empty_name": ["first", "middle", "last"],
    "post.name_255": ["first", "middle", "last"],
    "post.name_256_refused": ["first", "middle", "last"],
    "os2.length": ["68", "78", "86", "96", "100"],
    "os2.version_written": ["0", "1", "4", "5"],
    "loca.short.odd_offset": ["first->refused", "middle->refused", "last->refused", "none->stored"],
    "loca.long.odd_offset": ["first->stored", "middle->stored", "last->stored"],
    "loca.short.offset>131070": ["first->refused", "middle->refused", "last->refused"],
    "loca.short.offset=131070": ["first", "middle", "last"],
    "hmtx.metrics/bearings": ["%d/%d" % (a, b) for a in (1, 2, 3) for b in (0, 1, 2)],
    "dict.default_entry[top]": ["first", "middle", "last"],
    "dict.default_entry[priv]": ["first", "middle", "last"],
    "dict.48_operands": ["first", "last"],
    "dict.real_operand": ["first", "last"],
    "index.empty_object": ["none", "first", "middle", "last", "all"],
    "indexo.empty_object": ["none", "first", "middle", "last", "all"],
    "index.last_offset": ["255", "256", "257"],
    "indexo.last_offset": ["255", "256", "257", "65535", "65536"],
    "charset1.nLeft=0": ["first", "middle", "last"], "charset1.nLeft=255": ["first", "middle", "last"],
    "charset2.nLeft=255": ["first", "middle", "last"], "charset2.nLeft=256": ["first", "middle", "last"],
    "charset2.nLeft=65535": ["first", "middle", "last"],
    "encoding1.nLeft=255": ["first", "middle", "last"],
    "fdselect3.change_point": ["after-first-glyph", "before-last-glyph"],
    "fdselect3.fd=255": ["first", "middle", "last"],
    "fdselect0.change_point": ["first", "middle", "last"],
    "ivs.word_delta_count": ["%s:%d/3" % (w, n) for w in ("short", "long") for n in range(4)],
    "ivs.long_subtable": ["first", "middle", "last", "none"],
    "ivs.empty_subtable": ["first", "middle", "last"],
}


def _cls(res):
    """Outcome class of a result string: Ok | Err | ErrName | Panic(<message class>@file) ..."""
    if res is None:
        return "none"
    res = str(res)
    if res.startswith("Panic:") or res.startswith("ReadPanic:"):
        head, rest = res.split(":", 1)
        f, _, msg = rest.partition("|")
        return "%s(%s@%s)" % (head, re.sub(r"\d+", "N", msg)[:48], f)
    if res.startswith("ReadErr:"):
        return "ReadErr(%s)" % re.sub(r"[^A-Za-z]+", "_", res[8:])[:40]
    if res.startswith("Err:"):
        return "Err(%s)" % re.sub(r"[^A-Za-z]+", "_", res[4:])[:40]
    return res


def _has_zeros(o):
    return int(o.get("op") == "WPC" and any(p.get("p") == "z" for p in (o.get("v") or [])))


def _writer_key(o, want_res, got_res):
    return "writer|%s|zeros=%d|want=%s|got=%s" % (o.get("op"), _has_zeros(o), _cls(want_res), _cls(got_res))


def _gen_key(e, reason):
    a, o = e["a"], e["o"]
    return "gen|%s%s|%s|want=%s|got=%s" % (a["k"], a.get("var", ""), reason, a["exp"].get("res"), _cls(o.get("res")))


def _table_key(e, reason):
    a, o = e["a"], e["o"]
    src = "synthetic:" + e["case"].split("/", 1)[1] if e["case"].startswith("synthetic/") else "font"
    return "table|%s|%s|%s|w1=%s|parse2=%s|w2=%s" % (a["k"], src, reason, _cls(o.get("w1")), _cls(o.get("parse2")),
                                                      _cls(o.get("w2")))


def _tlc_cases(ctx, module, cfg, tag, path, workers=4, timeout=900):
    n = [0]
    for attempt in (1, 2):
        n[0] = 0
        with open(path, "w") as fc:
            def sink(t, payload):
                if t == "CASE":
                    fc.write(payload + "\n")
                    n[0] += 1
            try:
                mc = vlib.run_tlc(ctx, module, cfg, tag, workers=workers, timeout=timeout, sink=sink)
                break
            except vlib.ToolError as ex:
                # seen once on the shared machine (load average 40): a java.lang.StackOverflowError although the
                # model needs less than 16 MB of stack (-Xss is 1 GB): the JVM could not grow a thread stack
                if attempt == 1 and "StackOverflowError" in str(ex):
                    ctx.note("%s: transient StackOverflowError of the JVM, running TLC once more" % module)
                    continue
                raise
    if n[0] == 0:
        raise vlib.ToolError("%s printed no CASE" % module)
    if module == "MC_TableCodec":
        # the cases are evaluated by several workers: put them in a fixed order (kind, index)
        rows = []
        with open(path) as f:
            for line in f:
                c = json.loads(line)
                rows.append((c["k"], c["id"], line))
        rows.sort(key=lambda r: (r[0], r[1]))
        with open(path, "w") as f:
            f.writelines(r[2] for r in rows)
    ctx.note("%s/%s: %d states generated, %d distinct, %d cases (%.1fs)" % (module, cfg, mc.generated, mc.distinct,
                                                                            n[0], mc.wall))
    return mc, n[0]


def _strip(e):
    """Event without its bulky fields, for replay files and samples."""
    def cut(x):
        if isinstance(x, list):
            return [cut(y) for y in x[:40]] + (["...%d more" % (len(x) - 40)] if len(x) > 40 else [])
        if isinstance(x, dict):
            return {k: cut(v) for k, v in x.items()}
        return x
    return cut(e)


def _plant(events):
    """Binding self-check: corrupted copies of conforming events that the judge must reject (and two controls it must
    accept).  Returns (planted events, names of plants whose base event does not exist).  A missing base is not an
    error here: a badly broken tree may be the reason, and its violations must be reported first."""
    planted, missing = [], []

    def first(pred):
        return next((e for e in events if pred(e)), None)
    gen_exact = first(lambda e: e["ev"] == "Gen" and e["a"]["k"] == "head" and e["o"].get("res") == "Ok")
    gen_free = first(lambda e: e["ev"] == "Gen" and e["a"]["k"] == "cffint" and e["o"].get("res") == "Ok" and len(e["o"]["bytes"]) == 2)
    gen_back = first(lambda e: e["ev"] == "Gen" and e["a"]["k"] == "os2" and e["o"].get("res") == "Ok")
    gen_err = first(lambda e: e["ev"] == "Gen" and e["a"]["exp"]["res"] == "Err" and e["o"].get("res") == "Err")
    tab_small = first(lambda e: e["ev"] == "Table" and e["a"]["k"] == "os2" and e["o"].get("small") and e["o"].get("w2") == "Ok")
    tab_big = first(lambda e: e["ev"] == "Table" and e["a"]["k"] == "hmtx" and e["o"].get("w2") == "Ok")
    tab_cff = first(lambda e: e["ev"] == "Table" and e["a"]["k"] == "cff" and e["o"].get("w2") == "Ok"
                    and e["o"]["p2"]["dicts"] and e["o"]["p2"]["dicts"][0]["es"])
    tab_cff_hdr = first(lambda e: e["ev"] == "Table" and e["a"]["k"] == "cff" and e["o"].get("w2") == "Ok" and e["o"]["orig"][2] > 5
                        and e["o"]["b1"][2] == 4)
    wop = first(lambda e: e["ev"] == "WOp" and e["o"].get("res") == e["a"]["exp"]["res"]
                and len(e["o"].get("buf", [])) > len(e["a"]["free"]))

    def instr_not_on_last(e):
        if e["ev"] != "Gen" or e["a"]["k"] != "glyph":
            return False
        b = e["a"]["exp"].get("back")
        if not isinstance(b, dict) or b.get("t") != "c":
            return False
        fl = [c["flags"] for c in b["comps"]]
        return len(fl) > 1 and any(f & 256 for f in fl) and not fl[-1] & 256 and len(b["instr"]) > 0

    # events with the observation the SPECIFICATION prescribes (TLC's own bytes, values and facts): the plants built on
    # them do not depend on what allsorts answered
    def as_prescribed(e):
        if e is None:
            return None
        e = json.loads(json.dumps(e))
        x = e["a"]["exp"]
        e["o"] = {"res": "Ok", "bytes": x["bytes"], "back": x["back"], "rem": 0, "again": "same"}
        if "back1" in x:
            e["o"].update({"back1": x["back1"], "rem1": 0})
        return e

    def prescribed_cfft(e):
        if e is None:
            return None
        e = json.loads(json.dumps(e))
        f = e["a"]["exp"]["facts"]
        src = e["a"]["src"]
        e["o"] = {"res": "Ok", "back1": f, "hs1": src[2], "bytes": list(src), "reread": "Ok", "back": json.loads(json.dumps(f)), "hs": src[2],
                  "again": "same"}
        return e

    def prescribed_ivd(e):
        if e is None:
            return None
        e = json.loads(json.dumps(e))
        x = e["a"]["exp"]
        e["o"] = {"res": "Ok", "rem1": 0, "rows1": x["rows"], "bytes": list(x["bytes"]), "rem": 0, "rows": x["rows"], "again": "same"}
        return e
    gen_comp = as_prescribed(first(instr_not_on_last))
    gen_packed = as_prescribed(first(lambda e: e["ev"] == "Gen" and e["a"]["k"] == "glyphp" and len(e["a"]["exp"]["back1"]["pts"]) == 3))
    gen_cfft = prescribed_cfft(first(lambda e: e["ev"] == "Gen" and e["a"]["k"] == "cfft" and len(e["a"].get("src", [])) < 2000
                                     and len(e["a"]["exp"]["facts"]["strs"]) >= 2 and e["a"]["exp"]["facts"]["gs"]))
    # a table whose header is longer than its four fields (the prescribed event keeps the skipped bytes: Dev_HdrPad)
    gen_cfft_hdr = prescribed_cfft(first(lambda e: e["ev"] == "Gen" and e["a"]["k"] == "cfft" and len(e["a"].get("src", [])) < 2000
                                         and e["a"]["src"][2] in (5, 6)))
    gen_ivd = prescribed_ivd(first(lambda e: e["ev"] == "Gen" and e["a"]["k"] == "ivd" and len(e["a"]["exp"]["bytes"]) > 8
                                   and e["a"]["exp"]["bytes"][2] >= 128 and e["a"]["exp"]["rows"] >= 1))

    def skip_index(b, at):
        n = b[at] * 256 + b[at + 1]
        if n == 0:
            return at + 2
        sz = b[at + 2]
        last = int.from_bytes(bytes(b[at + 3 + n * sz: at + 3 + (n + 1) * sz]), "big")
        return at + 3 + (n + 1) * sz + last - 1

    def bump(lst, i, mod=256):
        lst[i] = (lst[i] + 1) % mod

    def ed_shift(e):        # what an unfilled reservation does: an empty INDEX where the String INDEX should be,
        b = e["o"]["bytes"]  # the real one behind it
        at = skip_index(b, skip_index(b, b[2]))
        e["o"]["bytes"] = b[:at] + [0, 0] + b[at:]

    def ed_hdr_echo(e):     # hdrSize announced as read, the bytes it counts not written (offsets as for a 4 byte header)
        b = e["o"]["bytes"]
        k = b[2] - 4
        e["o"]["bytes"] = b[:4] + b[4 + k:]

    def ed_instr(e):        # the instruction block is gone, the flag words still announce it
        n_i = len(e["a"]["exp"]["back"]["instr"])
        e["o"]["bytes"] = e["o"]["bytes"][:-(n_i + 2)]

    def ed_wop(e):
        free = set(e["a"]["free"])
        k = next(i for i in range(len(e["o"]["buf"])) if (i + 1) not in free)
        bump(e["o"]["buf"], k)

    def ed_d2(e):
        e["o"]["d2"] = ("0" if e["o"]["d2"][0] != "0" else "1") + e["o"]["d2"][1:]
    plants = [
        ("gen-cfft-control-accepted", gen_cfft, lambda e: None),      # negative controls: the prescribed event itself
        ("gen-ivd-control-accepted", gen_ivd, lambda e: None),
        ("gen-cfft-long-header-control-accepted", gen_cfft_hdr, lambda e: None),
        ("gen-cfft-header-size-echoed-bytes-missing", gen_cfft_hdr, ed_hdr_echo),
        ("gen-cfft-header-skipped-bytes-altered", gen_cfft_hdr, lambda e: e["o"]["bytes"].__setitem__(4, e["o"]["bytes"][4] ^ 255)),
        ("gen-cfft-header-first-read", gen_cfft_hdr, lambda e: e["o"].update(hs1=4)),
        ("gen-cfft-header-reread", gen_cfft_hdr, lambda e: e["o"].update(hs=4)),
        ("gen-cfft-reread-fails", gen_cfft, lambda e: e["o"].update(reread="Err:BadEof", back=[], hs=-1, again="n/a")),
        ("gen-cfft-header-minor-lost", gen_cfft_hdr, lambda e: e["o"]["bytes"].__setitem__(1, e["o"]["bytes"][1] ^ 1)),
        ("gen-cfft-header-offsize-changed", gen_cfft_hdr, lambda e: e["o"]["bytes"].__setitem__(3, e["o"]["bytes"][3] % 4 + 1)),
        ("table-cff-header-size-echoed", tab_cff_hdr, lambda e: e["o"]["b1"].__setitem__(2, e["o"]["orig"][2])),
        ("gen-cfft-string-index-shifted", gen_cfft, ed_shift),
        ("gen-cfft-reread-lost-string", gen_cfft, lambda e: e["o"]["back"].update(strs=[])),   # allsorts' second reading
        ("gen-cfft-first-read", gen_cfft, lambda e: e["o"]["back1"].update(gs=e["o"]["back1"]["gs"][1:])),
        ("gen-ivd-long-words-flag-lost", gen_ivd, lambda e: e["o"]["bytes"].__setitem__(2, e["o"]["bytes"][2] - 128)),
        ("gen-ivd-rows", gen_ivd, lambda e: e["o"].update(rows=e["o"]["rows"] + 1)),
        ("gen-composite-instructions-dropped", gen_comp, ed_instr),
        ("gen-packed-first-read", gen_packed, lambda e: bump(e["o"]["back1"]["pts"][1], 1, 1 << 20)),   # a different outline
        ("gen-packed-flag-lost", gen_packed, lambda e: e["o"]["back"]["pts"][2].__setitem__(0, e["o"]["back"]["pts"][2][0] ^ 1)),
        ("gen-bytes", gen_exact, lambda e: bump(e["o"]["bytes"], -1)),
        ("gen-int", gen_free, lambda e: bump(e["o"]["bytes"], 1)),              # 2-byte integer, second byte off by one
        ("gen-back", gen_back, lambda e: e["o"]["back"].update(wgt=(e["o"]["back"]["wgt"] + 1) % 65536)),
        ("gen-not-refused", gen_err, lambda e: e["o"].update(res="Ok")),
        ("table-small", tab_small, lambda e: e["o"]["p2"].update(wgt=(e["o"]["p2"]["wgt"] + 1) % 65536)),
        ("table-bytes", tab_small, lambda e: bump(e["o"]["b1"], -1)),           # not the bytes Enc prescribes
        ("table-orig", tab_small, lambda e: bump(e["o"]["orig"], 3)),           # the spec must read the original as allsorts did
        ("table-unstable", tab_big, ed_d2),
        ("table-dict", tab_cff, lambda e: e["o"]["p2"]["dicts"][0].update(es=e["o"]["p2"]["dicts"][0]["es"][1:])),   # an entry lost
        ("wop-bytes", wop, ed_wop),
    ]
    for name, base, edit in plants:
        if base is None:
            missing.append(name)
            continue
        e = json.loads(json.dumps(base))
        e["case"] = "selftest-" + name
        edit(e)
        planted.append(e)
    return planted, missing


def run(ctx):
    binp = vlib.build_harness("c15_codec")
    tier = "quick" if ctx.quick else "thorough"

    # ---- spec -> impl: the writer machine
    wcases = ctx.path("writer_cases.ndjson")
    mcw, n_wcases = _tlc_cases(ctx, "MC_BinaryWriter", "MC_BinaryWriter_%s.cfg" % tier, "mcw", wcases)
    wmism, wtrace = ctx.path("writer_mismatches.ndjson"), ctx.path("writer_trace.ndjson")
    wrep = vlib.run_harness(binp, ["writer-replay", wcases, wmism, wtrace])
    ctx.note("writer-replay: %s" % json.dumps(wrep))

    # ---- spec -> impl: the structures
    ccases = ctx.path("codec_cases.ndjson")
    mcc, n_ccases = _tlc_cases(ctx, "MC_TableCodec", "MC_TableCodec_%s.cfg" % tier, "mcc", ccases)
    gtrace = ctx.path("gen_trace.ndjson")
    crep = vlib.run_harness(binp, ["codec-replay", ccases, gtrace])
    ctx.note("codec-replay: %d events, outcomes %s" % (crep["events"], json.dumps(crep["outcomes"], sort_keys=True)))
    families = _families(vlib.read_ndjson(ccases))
    thin = ["%s:%s" % (f, c) for f, cs in sorted(REQUIRED_FAMILIES.items()) for c in cs if not families.get(f, {}).get(c)]
    if thin:
        raise vlib.ToolError("vacuous: positional families without a generated value: %s" % thin)
    ctx.note("positional families: %d families, %d position classes, all %d required classes hit" % (
        len(families), sum(len(d) for d in families.values()), sum(len(c) for c in REQUIRED_FAMILIES.values())))

    # ---- impl -> spec: repository tables
    ttrace = ctx.path("table_trace.ndjson")
    rrep = vlib.run_harness(binp, ["record", ttrace])
    ctx.note("record: %s" % json.dumps(rrep, sort_keys=True))

    # ---- one trace for the judge
    events = []
    for p in (wtrace, gtrace, ttrace):
        events.extend(vlib.read_ndjson(p))
    n_real = len(events)
    planted_events, plants_missing = _plant(events)
    events.extend(planted_events)
    for i, e in enumerate(events):
        e["i"] = i
    trace = ctx.path("trace.ndjson")
    vlib.write_ndjson(trace, events)
    unmodelled = {"UNMODELLED": []}
    total, mism = vlib.judge_trace_parallel(ctx, "Trace_Codec", "Trace_Codec.cfg", trace, "judge",
                                            parts=4 if ctx.quick else 6, xmx="4g", other_tags=unmodelled)
    ctx.note("judge: %d events, %d mismatches, %d unmodelled" % (total, len(mism), len(unmodelled["UNMODELLED"])))
    if total != len(events):
        raise vlib.ToolError("judge consumed %d of %d events" % (total, len(events)))

    violations = []
    # deterministic part of the writer machine: JSON equality with the TLC-computed observation
    for m in vlib.read_ndjson(wmism):
        want = m["want"].get("obs", m["want"])
        got = m["got"].get("obs", m["got"])
        key = _writer_key(m["o"], want.get("res"), got.get("res"))
        violations.append(Violation(key, "writer machine: %s after %s: want %s got %s" % (
            vlib.short(m["o"], 160), vlib.short([s["o"] for s in m.get("path", [])], 200), vlib.short(m["want"], 200),
            vlib.short(m["got"], 200)), {"source": "writer", **m}))
    planted_seen = set()
    for m in sorted(mism, key=lambda m: m["i"]):
        e = events[m["i"]]
        if e["case"].startswith("selftest-"):
            planted_seen.add(e["case"])
            continue
        if e["ev"] == "WOp":
            key = _writer_key(e["a"]["o"], e["a"]["exp"]["res"], e["o"].get("res")) + "|" + m["reason"]
            what = "writer machine: %s want %s got %s" % (vlib.short(e["a"]["o"], 160), vlib.short(e["a"]["exp"], 160),
                                                          vlib.short(e["o"], 160))
        elif e["ev"] == "Gen":
            key = _gen_key(e, m["reason"])
            what = "generated %s: %s; want %s got %s" % (e["case"], m["reason"], vlib.short(_strip(e["a"]["exp"]), 200),
                                                        vlib.short(_strip(e["o"]), 240))
        else:
            key = _table_key(e, m["reason"])
            what = "table %s of %s: %s (%s)" % (e["a"]["k"], e["case"], m["reason"], vlib.short(
                {k: e["o"].get(k) for k in ("w1", "parse2", "w2", "len0", "len1", "len2")}, 200))
        violations.append(Violation(key, what, {"source": e["ev"], "reason": m["reason"], "event": _strip(e)}))
    all_planted = {e["case"] for e in events[n_real:]}
    controls = {c for c in all_planted if c.endswith("-control-accepted")}
    want_planted = all_planted - controls
    selfcheck_error = None
    if planted_seen != want_planted:
        selfcheck_error = "binding self-check failed: Trace_Codec accepted corrupted events %s, rejected controls %s" % (
            sorted(want_planted - planted_seen), sorted(planted_seen & controls))
    elif plants_missing:
        selfcheck_error = "binding self-check: no conforming event to corrupt for %s" % plants_missing
    # (known findings do not excuse a failed self-check: only violations that will be reported do)
    known = vlib.load_known(ctx.prop)
    new_violations = [v for v in violations if v.key not in known]
    if selfcheck_error and not new_violations:
        raise vlib.ToolError(selfcheck_error)
    if selfcheck_error:
        ctx.note(selfcheck_error + " (violations present: reported first)")

    # ---- vacuity
    gen_kinds, gen_refused, gen_canonical = {}, {}, {}
    tab_kinds, tab_small = {}, {}
    for e in events[:n_real]:
        k = e["a"].get("k")
        if e["ev"] == "Gen":
            gen_kinds[k] = gen_kinds.get(k, 0) + 1
            if e["a"]["exp"]["res"] == "Err":
                gen_refused[k] = gen_refused.get(k, 0) + 1
            if k in ("cffint", "dict", "index", "ivs") and e["o"].get("bytes") == e["a"]["exp"].get("bytes"):
                gen_canonical[k] = gen_canonical.get(k, 0) + 1
        elif e["ev"] == "Table":
            tab_kinds[k] = tab_kinds.get(k, 0) + 1
            if e["o"].get("small"):
                tab_small[k] = tab_small.get(k, 0) + 1
    # (decided after the violations: a broken tree may be the very reason an event kind is missing)
    vacuous = []
    missing = [k for k in REQUIRED_GEN_KINDS if not gen_kinds.get(k)] + \
              ["table:" + k for k in REQUIRED_TABLE_KINDS if not tab_kinds.get(k)]
    if missing:
        vacuous.append("no event for %s" % missing)
    for k in ("loca", "post", "name", "cmapsub", "glyph", "encoding", "fdselect"):
        if not gen_refused.get(k):
            vacuous.append("no oversize value generated for %s" % k)
    if wrep.get("read_backs", 0) == 0 or wrep.get("relational_events", 0) == 0:
        vacuous.append("writer replay without read-backs / refusals")
    if vacuous and not new_violations:
        raise vlib.ToolError("vacuous: " + "; ".join(vacuous))
    if vacuous:
        ctx.note("vacuity (violations present: reported first): " + "; ".join(vacuous))

    sample_gen = next((e for e in events if e["ev"] == "Gen" and e["a"]["k"] == "maxp"), events[0])
    sample_tab = next((e for e in events if e["ev"] == "Table" and e["a"]["k"] == "hhea"), events[-1])
    coverage = {
        "states": mcw.distinct + mcc.distinct,
        "transitions": wrep.get("ops_executed", 0) + n_ccases,
        "traces_validated_against_impl": n_wcases + n_ccases + sum(tab_kinds.values()),
        "samples": [_strip(sample_gen), _strip(sample_tab)],
        "writer_states": mcw.distinct,
        "writer_cases": n_wcases,
        "writer_ops_executed_on_impl": wrep.get("ops_executed", 0),
        "writer_read_backs": wrep.get("read_backs", 0),
        "writer_relational_events": wrep.get("relational_events", 0),
        "codec_cases": n_ccases,
        "codec_cases_per_kind": gen_kinds,
        "codec_refusals_per_kind": gen_refused,
        "codec_canonical_encoding_chosen": gen_canonical,
        "codec_outcomes": crep["outcomes"],
        "codec_positional_families": families,
        "fonts": rrep.get("fonts", 0),
        "table_events_per_kind": tab_kinds,
        "table_events_judged_value_by_value": tab_small,
        "tables_not_parseable": rrep.get("not_parseable", {}),
        "events_judged": total,
        "unmodelled_events": len(unmodelled["UNMODELLED"]),
        "binding_selfcheck": "%d corrupted events rejected" % len(want_planted),
        "exhaustive": True,
        "explanation": "exhaustive over the bounded writer model (%s) and over the boundary value sets of MC_TableCodec "
                       "(%s); repository tables are the 'all byte strings that parse' sample" % (
                           "MC_BinaryWriter_%s.cfg" % tier, "MC_TableCodec_%s.cfg" % tier),
    }
    vlib.finish(ctx, LEVEL, coverage, violations, ASSUMPTIONS)


def replay(ctx, path):
    d = json.load(open(path))["detail"]
    print("violation source: %s" % d.get("source"))
    print(vlib.short(d, 4000))
    if d.get("source") == "writer":
        binp = vlib.build_harness("c15_codec")
        case = {"path": d["path"], "fan": [{"o": d["o"], "exp": d["want"].get("obs", d["want"]),
                                            "rb": d["want"].get("rb", {"v": [], "rem": -1}), "free": []}]}
        cp = ctx.path("case.ndjson")
        vlib.write_ndjson(cp, [case])
        rep = vlib.run_harness(binp, ["writer-replay", cp, ctx.path("mm.ndjson"), ctx.path("tr.ndjson")])
        mm = vlib.read_ndjson(ctx.path("mm.ndjson"))
        for m in mm:
            print("REPRODUCED want=%s got=%s" % (vlib.short(m["want"]), vlib.short(m["got"])))
        print(json.dumps(rep))
        return 1 if mm else 0
    print("re-run ./check C15 --tier %s to reproduce (deterministic: no randomness is used)" % ctx.tier)
    return 1
