"""C09 - every font the library writes is a valid, self-consistent sfnt.

design       : MC_SfntWrite - the FontBuilder model (tables added in any order, directory sorted,
               bodies padded, checksum adjustment filled last) always yields bytes whose projection
               satisfies SfntWrite!WellFormedSfnt (incl. the adjustment identity in limb arithmetic)
               and which Sfnt!Load / TableData read back.
spec -> impl : every table set/insertion order TLC reaches is driven through the real FontBuilder
               (via whole_font on a map provider); the output is projected by independent readers.
impl -> spec : whole_font / subset / prince::subset / instance and table sets reconstructed from WOFF2 are
               projected the same way, on (a) three synthesized families that reach the size- and shape-
               dependent paths of every writer in every run (composites of every argument width and
               transform kind; variable fonts whose component offsets cross the byte / word argument
               boundary; short-loca fonts whose glyf rebuilt from WOFF2 lands below / at / above 131070
               bytes), (b) repository fonts chosen by measured features. Every glyph record of every
               written font is walked by the independent reader and its layout judged (GlyphsOK).
               (c) round 3: WOFF2 collections (ttcf flavour, written by the harness's own encoder) and OpenType
               collections (TTC) whose members differ in numGlyphs / numberOfHMetrics / loca format / unitsPerEm /
               glyf and hmtx transform / shared and private tables; EVERY member index is requested (plus one past
               the end); each member's table set, subsets, whole_font and instances are judged against that member's
               own hhea / maxp / head and against what the harness prescribed for the member (SfntWrite!MemberOK).
               All projections are judged by Trace_SfntWrite.
"""
import json

import vlib
from vlib import Violation

LEVEL = "model_checking"

ASSUMPTIONS = [
    "the projection (directory fields, measured checksums, padding bytes, cross-table facts) is computed by the "
    "harness's independent readers (vh::proj); aggregated facts such as 'loca is monotone' are measured in Rust",
    "tables copied verbatim from a source font may be longer than the other tables require (trailing padding); "
    "tables the library builds itself must have exactly the implied length",
    "cross-table consistency is demanded of subsets, instances and WOFF2-reconstructed table sets (as the property "
    "states), not of whole_font, which copies tables verbatim",
    "a writing operation that returns Err or panics produces no event here (C01 owns totality)",
    "glyph records: the independent reader walks every record and reports its layout (flag words, instruction length, "
    "bytes used, loca length); the size of a composite is recomputed from the flag words by SfntWrite!CompositeBytes; "
    "padding of at most 3 bytes is demanded only of records the library serialised itself (instance, WOFF2 transform), "
    "subset copies records with whatever padding the source had",
    "hmtx.lsb = glyf.xMin is demanded only when the OUTPUT head has flags bit 1 set and the SOURCE font kept that "
    "promise for all of its glyphs (subset and WOFF2 reconstruction; not for instances)",
    "prince::subset of a CFF/CFF2 source returns a bare CFF table: judged as a table set whose only partner is the glyph "
    "list (charstring count = number of ids, every charstring visited by allsorts)",
    "derived maxima / minima (hhea.advanceWidthMax, min side bearings, xMaxExtent, head bounding box, maxp maxima, "
    "vhea.advanceHeightMax): equality with the OpenType definition is demanded where the operation recomputes the field "
    "(instance: advanceWidthMax, head bbox of glyf fonts); where subset copies the field from a source that kept the "
    "bound, the bound (max fields >= / min fields <= the measured value) is demanded, not equality "
    "(Dev_CopiedMaximumIsBound); fields copied while their data changes (instance: side bearing minima, maxp) are "
    "measured only; OS/2 is not among the tables the property lists and subset / instance do not recompute its "
    "first / last character indices",
    "the structure of a written CFF table (every INDEX, charset and FDSelect coverage, Private DICT extents) is followed "
    "by an independent reader in the harness; SfntWrite!CffStructOK judges the facts; any offSize that holds the "
    "offsets is accepted (Dev_OffSize)",
    "collections: what a member consists of (numGlyphs, numberOfHMetrics, indexToLocFormat, unitsPerEm, the identity of "
    "each of its tables) is prescribed by the harness, which writes the collection; SfntWrite!MemberOK compares the "
    "prescribed values with what the independent reader finds in the member's table set / in the fonts written from it; "
    "tables an operation re-serialises (WOFF2: transformed glyf, loca, hmtx and head; whole_font: glyf, loca, head, maxp) "
    "are compared by their key fields, not byte for byte; a reconstructed short loca may come back long when the rebuilt "
    "glyf has reached 131070 bytes (Dev_LocaUpgrade); a request for a member that does not exist must not yield a "
    "provider - an error or a panic there produces no event (the panic is reported under recorded_panics_not_judged_here)",
]

# families of behaviour that every run must have exercised (measured by the harness on the judged outputs)
REQUIRED_FAMILIES = [
    # (1) WOFF2 reconstruction around the short-loca limit
    "woff2.short-source.head-upgraded-to-long", "woff2.short-source.head-stays-short",
    "woff2.rebuilt-glyf>131072.source-short", "woff2.rebuilt-glyf<131070.source-short",
    "woff2.rebuilt-glyf=131070.source-short", "woff2.rebuilt-glyf=131072.source-short",
    "woff2.repository-reencoded.upgraded", "woff2.repository-reencoded.stays-short",
    # (2) instancing composites whose offsets vary
    "var.byte.x-only-leaves-byte-range", "var.byte.y-only-leaves-byte-range", "var.byte.both-leave-byte-range",
    "var.byte.stays-in-byte-range", "var.word.comes-into-byte-range", "var.component.varied.transformed",
    "var.glyph.multi-component", "var.component.point-matching", "instance.loca:long",
    # (3) shapes reaching subset / prince::subset
    "subset.comp:byte-xy", "subset.comp:word-xy", "subset.comp:byte-pt", "subset.comp:word-pt", "subset.comp:plain",
    "subset.comp:scale", "subset.comp:xyscale", "subset.comp:2x2", "subset.comp:instr", "subset.comp:multi",
    "subset.loca:short", "subset.loca:long", "subset.src:nhm<n", "subset.src:lsb=xMin", "subset.src:cff",
    "subset.src:cff2", "subset.src:glyf", "prince-cff.src:cff", "prince-cff.src:cff2",
    # (4) size boundaries of the INDEXes a CFF writer rebuilds: PLANNED from the byte lengths of the source objects
    # (subset sum, harness inputs) ...
] + ["cffb.plan.synth.%s=%d" % (ix, t) for ix in ("charstrings", "gsubr", "lsubr") for t in (254, 255, 256, 65534, 65535, 65536)] + [
    "cffb.plan.repo.charstrings=254", "cffb.plan.repo.charstrings=255", "cffb.plan.repo.charstrings=256",
    "cffb.plan.synth.topdict-sweep", "cffb.plan.synth.glyphs=240", "cffb.plan.synth.glyphs=300",
    # ... and MEASURED on the written table by the independent reader
] + ["subset.out:cff-index.%s.data=%d" % (ix, t) for ix in ("charstrings", "gsubr", "lsubr") for t in (254, 255, 256, 65534, 65535, 65536)] + [
    "subset.out:cff-index.top.data=254", "subset.out:cff-index.top.data=255", "subset.out:cff-index.top.data=256",
    "subset.out:cff-cid", "subset.out:cff-charset:ISOAdobe", "subset.out:cff-charset:format0",
    # (5) derived maxima / minima: judged fields were present, and instances moved them both ways
    "instance.derived:hhea.advanceWidthMax:smaller-than-source", "instance.derived:hhea.advanceWidthMax:larger-than-source",
    "instance.derived:head.xMax:larger-than-source", "instance.derived:head.xMax:smaller-than-source",
    "instance.derived:head.yMin:smaller-than-source", "instance.derived:head.yMax:larger-than-source",
    "subset.derived:hhea.advanceWidthMax:smaller-than-source", "subset.derived:hhea.minLeftSideBearing",
    "subset.derived:hhea.xMaxExtent", "subset.derived:head.xMin", "subset.derived:head.yMax:smaller-than-source",
    "subset.derived:maxp.maxPoints:smaller-than-source", "subset.derived:maxp.maxContours",
    "subset.derived:maxp.maxComponentElements", "subset.derived:maxp.maxComponentDepth:smaller-than-source",
    # (6) collections (all counted from the PLANS, i.e. harness inputs, when the member is requested): members > 0 that
    # differ from member 0 in each quantity a reader looks up per member, shared / private tables, every index + 1
    "coll.woff2.member>0-requested", "coll.ttc.member>0-requested",
    "coll.woff2.member>0.nhm-differs+hmtx-transformed",
    "coll.woff2.member>0.nhm-larger-than-member0+hmtx-transformed", "coll.woff2.member>0.nhm-smaller-than-member0+hmtx-transformed",
    "coll.woff2.member>0.numGlyphs-differs", "coll.woff2.member>0.numGlyphs-larger-than-member0",
    "coll.woff2.member>0.numGlyphs-smaller-than-member0", "coll.woff2.member>0.locFormat-differs",
    "coll.woff2.member>0.upem-differs", "coll.woff2.member>0.shared-glyf.private-hmtx",
    "coll.woff2.member>0.shared-glyf.private-transformed-hmtx", "coll.woff2.member>0.shared-head-maxp.private-hhea",
    "coll.woff2.member>0.fully-private", "coll.woff2.member>0.fully-shared", "coll.woff2.member>0.glyf-plain",
    "coll.woff2.member>0.glyf-transformed", "coll.woff2.member>0.hmtx-plain", "coll.woff2.member>0.hmtx-transformed",
    "coll.woff2.idx-order:0", "coll.woff2.idx-order:1", "coll.woff2.idx-order:2", "coll.woff2.idx-order:3",
    "coll.woff2.single-member-collection", "coll.woff2.past-the-end-requested",
    "coll.ttc.member>0.numGlyphs-differs", "coll.ttc.member>0.nhm-differs", "coll.ttc.member>0.locFormat-differs",
    "coll.ttc.member>0.upem-differs", "coll.ttc.member>0.shared-glyf.private-hmtx", "coll.ttc.member>0.fully-private",
    "coll.ttc.member>0.cff", "coll.ttc.member>0.subset-requested", "coll.ttc.member>0.instance-requested",
    "coll.ttc.layout:0", "coll.ttc.layout:1", "coll.ttc.layout:2", "coll.ttc.past-the-end-requested",
    # (7) round 4: subsets whose cmap lands on every structural class of the emitted formats - PLANNED (glyph lists over a
    # source whose character layout the harness prescribes) ...
] + ["cmapb.plan." + p for p in (
    "macroman.ascii", "macroman.all-reversed", "macroman.none-encoded", "macroman.new-id>255", "bmp.dense-in-order",
    "bmp.dense-reversed", "bmp.glyphIdArray-x3+delta", "bmp.holes-1-2-3", "bmp.ascii+sparse", "bmp.touch-fffd-fffe",
    "bmp.touch-ffff", "bmp.touch-fffd-ffff", "bmp.touch-ffff-reversed", "astral.one-group", "astral.reversed", "astral.sparse",
    "astral.mixed", "random", "symbol-source", "two-subtables-source")
] + ["cmapb.plan.bmp.segCount=%d" % k for k in (2, 3, 4, 5, 7, 8, 9, 15, 16, 17, 31, 32, 33, 255, 256, 257)] + [
    # (8) multi-step sequences: a written font as the source of the next operation (requests counted from the plans)
    "chain.plan.shapes-subset>subset", "chain.plan.instance>subset", "chain.plan.cff-subset-n240>subset",
    "chain.plan.cff-subset-n300>subset", "chain.subset>subset.requested", "chain.subset>whole_font.requested",
    "chain.instance>subset.requested", "chain.instance>whole_font.requested",
]

# classes MEASURED on what allsorts wrote (independent reader): reported, and a missing one is noted - not a tool error,
# because a changed writer may legitimately (or by a defect that shows as a violation / a refusal) stop producing a class
EXPECTED_MEASURED = [
    "subset.out:cmap.f0", "subset.out:cmap.f4", "subset.out:cmap.f12", "subset.out:cmap.record:1/0", "subset.out:cmap.record:0/3",
    "subset.out:cmap.record:0/4", "subset.out:cmap.record:3/0", "subset.out:cmap.f4.segCount:2^k", "subset.out:cmap.f4.segCount:2^k-1",
    "subset.out:cmap.f4.segCount:2^k+1", "subset.out:cmap.f4.segCount=2", "subset.out:cmap.f4.segCount=3",
    "subset.out:cmap.f4.segCount>=256", "subset.out:cmap.f4.delta+glyphIdArray-segments",
    "subset.out:cmap.f4.second-glyphIdArray-segment", "subset.out:cmap.f4.glyphIdArray-hole",
    "subset.out:cmap.f4.real-segment-touches-0xFFFE", "subset.out:cmap.f12.groups:1", "subset.out:cmap.f12.groups:>=16",
]


def _derived_classes(x, names):
    """Failing derived fields as key classes (never a value). The four fields of the head bounding box are one
    thing; a box that is the union of the glyph boxes AND the origin is the named wrong reading (union seeded with
    the empty rectangle at 0,0), anything else is not."""
    ds = {d["name"]: d for d in x.get("derived", [])}
    head = [n for n in names if n.startswith("head.")]
    cls = []
    if head:
        def with_origin(d):
            return d["field"] == (min(d["measured"], 0) if d["rel"] == "min" else max(d["measured"], 0))
        cls.append("head.bbox" + ("=definition+origin" if all(n in ds and with_origin(ds[n]) for n in head) else ""))
    return cls + [n for n in names if not n.startswith("head.")]


def _detail_key(ev, violated=(), m=None):
    """Discriminate the failing shape so that a known finding hides only itself."""
    x = ev["o"].get("cross", {})
    parts = []
    m = m or {}
    if "DerivedOK" in violated:
        parts.append("derived=%s:%s" % ("/".join(m.get("derived_classes") or ["?"]),
                                        "recomputed!=definition" if x.get("op") == "instance" else "copied-bound-lost"))
    if "MemberOK" in violated:
        # which prescribed quantities / tables of the requested member are not the ones found (never the member index)
        if ev["ev"] == "NoSuchMember":
            parts.append("member=%s:provider-for-index=members" % ev["a"]["args"].get("container"))
        else:
            mem = x.get("member", {})
            fields = {f["name"] for f in mem.get("fields", [])}
            names = m.get("member") or ["?"]
            parts.append("member=%s:%s" % (mem.get("container"), "/".join(
                sorted(n if n in fields else "table:" + n.strip() for n in names))))
    if "VmtxOK" in violated:
        parts.append("vmtx<numOfLongVerMetrics,numGlyphs")
    if "CffStructOK" in violated:
        w = x.get("cffw", {})
        why = []
        if not w.get("walked"):
            why.append("walk:" + str(w.get("why")))
        if m.get("cffidx") and w.get("walked"):
            why.append("index:" + "/".join(sorted(set(n.rstrip("0123456789") for n in m["cffidx"]))))
        if w.get("walked"):
            if x.get("has", {}).get("maxp") and w.get("numGlyphs") != x.get("numGlyphs"):
                why.append("charstrings!=numGlyphs")
            if not w.get("charsetOk"):
                why.append("charset:%s-does-not-cover-the-glyphs" % w.get("charset"))
            if w.get("fdCount", -1) >= 0 and (w.get("fdSelectGlyphs") != w.get("numGlyphs") or w.get("fdMax", -1) >= w.get("fdCount")):
                why.append("fdselect")
            if not w.get("privateOk"):
                why.append("private")
        parts.append("cff=" + ",".join(why or ["structure"]))
    if "CmapStructOK" in violated:
        # which part of the written cmap fails (header / record order, the subtable format, the tiling): never a count
        parts.append("cmap=" + "/".join(sorted(m.get("cmap") or ["structure"])))
    if x and x.get("has", {}).get("hmtx"):
        need = 4 * x["nHM"] + 2 * (x["numGlyphs"] - x["nHM"])
        ex = x["hmtxLen"] - need
        if ex:
            # the length fits ANOTHER numberOfHMetrics k (4*k + 2*(numGlyphs - k)): the class, not the number
            k2 = x["hmtxLen"] - 2 * x["numGlyphs"]
            if ex == 2 * x["numGlyphs"]:
                parts.append("hmtxExcess=2*numGlyphs")
            elif k2 % 2 == 0 and 1 <= k2 // 2 <= x["numGlyphs"] and x["numGlyphs"] > 0:
                parts.append("hmtxLen=4*k+2*(numGlyphs-k):k%snumberOfHMetrics" % ("<" if k2 // 2 < x["nHM"] else ">"))
            else:
                parts.append("hmtxLen%sneed" % ("<" if ex < 0 else ">"))
    if "LocaOK" in violated and x:
        need = (x["numGlyphs"] + 1) * (2 if x["locFormat"] == 0 else 4)
        if x["locaLen"] != need:
            # head and loca disagree about the offset width: everything read through loca is a consequence
            per = x["locaLen"] // (x["numGlyphs"] + 1) if x["locaLen"] % (x["numGlyphs"] + 1) == 0 else "other"
            parts.append("head.indexToLocFormat=%s,loca=%s*(numGlyphs+1)" % (x["locFormat"], per))
            return ",".join(parts)
        if not x["locaMonotone"]:
            parts.append("loca-not-monotone")
        if x["locaLast"] > x["glyfLen"]:
            parts.append("loca-last>glyf")
    if "GlyphsOK" in violated:
        # which kind of record fails and how (never a glyph id, a length or a count)
        why = set()
        for c in x.get("glyphClasses", []):
            if not c["ok"]:
                why.add("%s:%s" % (c["kind"], c["why"].split(":")[0]))
            elif c["used"] > c["len"]:
                why.add("%s:used>len" % c["kind"])
            elif x.get("built", {}).get("glyf") and c["len"] - c["used"] > 3:
                why.add("%s:slack>3" % c["kind"])
        parts.append("glyph=" + "/".join(sorted(why) or ["layout"]))
    if x and x.get("reload", {}).get("tried") and not x["reload"]["ok"]:
        parts.append("reload=" + x["reload"]["why"][:40].replace(" ", "_"))
    if "ReloadOK" in violated and x.get("reload", {}).get("ok"):
        r = x["reload"]
        parts.append("reload:" + ",".join(k + "<numGlyphs" for k in ("advances", "outlines") if r[k] != x["numGlyphs"]))
    if "LsbOK" in violated:
        parts.append("lsb!=xMin")
    return ",".join(parts)


def _blank_cross(op):
    """A table set with no tables: satisfies every clause vacuously; the hand-written plants fill in one aspect."""
    has = {k: False for k in ("maxp", "hhea", "hmtx", "head", "loca", "glyf", "cff", "cmap", "post")}
    return {"has": has, "numGlyphs": -1, "nHM": -1, "hmtxLen": -1, "locFormat": -1, "locaLen": -1, "locaMonotone": True,
            "locaLast": -1, "glyfLen": -1, "maxCompId": -1, "glyphsParse": True, "cffCharstrings": -1, "cmapParses": True,
            "cmapMaxGid": -1, "postVersion": [0, 0], "postLen": -1, "built": {"hmtx": False, "loca": False, "glyf": False, "cmap": False},
            "cmapw": {"walked": False, "why": "absent", "version": -1, "numTables": -1, "tableLen": -1, "records": [], "subtables": []},
            "glyphClasses": [], "glyfWalked": False, "headLsbBit": False, "lsbMismatch": -1, "srcLsbClean": False,
            "reload": {"tried": False, "ok": False, "advances": -1, "outlines": -1, "why": ""}, "op": op, "derived": [],
            "counts": {"hasVhea": False, "hasVmtx": False, "nVM": -1, "vmtxLen": -1, "postNumGlyphs": -1, "srcVmtxOk": False,
                       "srcPostOk": False},
            "cffw": {"walked": False, "why": "absent", "indexes": [], "numGlyphs": -1, "charsetOk": True, "charset": "none",
                     "fdSelectGlyphs": -1, "fdMax": -1, "fdCount": -1, "privateOk": True},
            "member": {"is": False, "container": "none", "index": -1, "members": -1, "fields": [], "tables": []}}


def _d(name, rel, field, measured, src_field, src_measured, src_has=True):
    return {"name": name, "rel": rel, "field": field, "measured": measured, "has": True, "srcHas": src_has,
            "srcField": src_field, "srcMeasured": src_measured}


def _cffw(**kw):
    w = {"walked": True, "why": "", "indexes": [{"name": "name", "count": 1, "offSize": 1, "first": 1, "last": 9, "mono": True,
                                                  "inside": True, "dataLen": 8}],
         "numGlyphs": 6, "charsetOk": True, "charset": "format0", "fdSelectGlyphs": -1, "fdMax": -1, "fdCount": -1,
         "privateOk": True}
    w.update(kw)
    return w


def _with_cff(x, **kw):
    x["has"]["cff"] = True
    x["has"]["maxp"] = True
    x["numGlyphs"] = 6
    x["cffCharstrings"] = 6
    x["cffw"] = _cffw(**kw)


def _member(x, n, nhm, hmtx_len, want_nhm=None, loc=(0, 0), glyf_len=-1, tables=(), built_hmtx=True):
    """Member 1 of a two-member WOFF2 collection (hand-written): maxp / hhea / hmtx of the reconstructed table set and
    what was prescribed for the member."""
    x["has"].update(maxp=True, hhea=True, hmtx=True)
    x.update(numGlyphs=n, nHM=nhm, hmtxLen=hmtx_len, glyfLen=glyf_len)
    x["built"].update(hmtx=built_hmtx, loca=True)
    x["member"] = {"is": True, "container": "woff2-collection", "index": 1, "members": 2,
                   "fields": [{"name": "numGlyphs", "want": n, "got": n},
                              {"name": "nHM", "want": nhm if want_nhm is None else want_nhm, "got": nhm},
                              {"name": "locFormat", "want": loc[0], "got": loc[1]},
                              {"name": "upem", "want": 1000, "got": 1000}],
                   "tables": [{"tag": t, "want": w, "got": g, "rebuilt": r} for t, w, g, r in tables]}


def _f4(segs, gia=(), hdr=None, decl=None, off=12):
    """A format 4 subtable as the independent reader reports it: segs = (start, end, idDelta, idRangeOffset)."""
    n = len(segs)
    es = n.bit_length() - 1
    return {"off": off, "format": 4, "ok": True, "why": "", "declLen": 16 + 8 * n + 2 * len(gia) if decl is None else decl, "big": False,
            "hdr": list(hdr) if hdr else [2 * n, 2 * (1 << es), es, 2 * n - 2 * (1 << es), 0],
            "ends": [s[1] for s in segs], "starts": [s[0] for s in segs], "deltas": [s[2] for s in segs], "ros": [s[3] for s in segs],
            "gia": list(gia), "groups": [], "nGroups": -1, "first": -1, "count": -1}


def _f12(groups, decl=None, off=12):
    return {"off": off, "format": 12, "ok": True, "why": "", "declLen": 16 + 12 * len(groups) if decl is None else decl, "big": False,
            "hdr": [], "ends": [], "starts": [], "deltas": [], "ros": [], "gia": [], "groups": [list(g) for g in groups],
            "nGroups": len(groups), "first": -1, "count": -1}


def _cmap(x, subs, records=None, n=10, table_len=None):
    """A subset with `n` glyphs whose cmap the library built: subtables back to back after the header."""
    x["has"].update(cmap=True, maxp=True)
    x["numGlyphs"] = n
    x["built"]["cmap"] = True
    recs = records if records is not None else [[0, 3, subs[0]["off"]]]
    x["cmapw"] = {"walked": True, "why": "", "version": 0, "numTables": len(recs),
                  "tableLen": subs[-1]["off"] + subs[-1]["declLen"] if table_len is None else table_len,
                  "records": recs, "subtables": subs}


_FIN = (65535, 65535, 1, 0)
# three segments: a delta segment, a glyphIdArray segment (0x30..0x32 -> 5, 0 (hole), 6), the final one
_SEG3 = [(0x20, 0x22, (1 - 0x20) % 65536, 0), (0x30, 0x32, 0, 4), _FIN]

_BAD_INDEX = {"name": "charstrings", "count": 3, "offSize": 1, "first": 1, "last": 0, "mono": False, "inside": False, "dataLen": 0}

# (case name "selftest-reject:<clause>:<what>" | "selftest-accept:<what>", operation, edit of a blank table set)
_HAND_PLANTS = [
    ("selftest-reject:DerivedOK:instance-advanceWidthMax-stale", "instance",
     lambda x: x.update(derived=[_d("hhea.advanceWidthMax", "max", 619, 612, 619, 619)])),
    ("selftest-reject:DerivedOK:instance-head-bbox-stale", "instance",
     lambda x: (x["has"].update(glyf=True), x.update(derived=[_d("head.yMin", "min", -30, -31, -30, -30)]))),
    ("selftest-reject:DerivedOK:subset-maxPoints-below-measured", "subset",
     lambda x: x.update(derived=[_d("maxp.maxPoints", "max", 3, 4, 4, 4)])),
    ("selftest-reject:DerivedOK:subset-minLsb-above-measured", "subset",
     lambda x: x.update(derived=[_d("hhea.minLeftSideBearing", "min", -5, -20, -20, -20)])),
    ("selftest-accept:subset-copied-maximum-is-a-bound", "subset",
     lambda x: x.update(derived=[_d("hhea.advanceWidthMax", "max", 619, 540, 619, 619)])),
    ("selftest-accept:subset-source-was-inconsistent", "subset",
     lambda x: x.update(derived=[_d("maxp.maxPoints", "max", 3, 4, 3, 9)])),
    ("selftest-accept:instance-copied-field-not-judged", "instance",
     lambda x: x.update(derived=[_d("hhea.minLeftSideBearing", "min", -5, -20, -5, -5)])),
    ("selftest-accept:instance-cff2-head-bbox-not-recomputed", "instance",
     lambda x: x.update(derived=[_d("head.yMin", "min", -30, -31, -30, -30)])),
    ("selftest-reject:VmtxOK:vmtx-too-short", "instance",
     lambda x: (x["has"].update(maxp=True), x.update(numGlyphs=4),
                x["counts"].update(hasVhea=True, hasVmtx=True, nVM=3, vmtxLen=10, srcVmtxOk=True))),
    ("selftest-reject:PostOK:post2-glyph-count", "instance",
     lambda x: (x["has"].update(maxp=True, post=True), x.update(numGlyphs=4, postVersion=[2, 0], postLen=60),
                x["counts"].update(postNumGlyphs=5, srcPostOk=True))),
    ("selftest-reject:CffStructOK:index-offsets-truncated", "subset",
     lambda x: _with_cff(x, indexes=[_BAD_INDEX])),
    ("selftest-reject:CffStructOK:predefined-charset-too-short", "subset",
     lambda x: _with_cff(x, charsetOk=False, charset="ISOAdobe")),
    ("selftest-reject:CffStructOK:fdselect-short", "subset",
     lambda x: _with_cff(x, fdCount=1, fdSelectGlyphs=5, fdMax=0)),
    ("selftest-reject:CffStructOK:fd-out-of-range", "prince-cff",
     lambda x: _with_cff(x, fdCount=1, fdSelectGlyphs=6, fdMax=1)),
    ("selftest-reject:CffStructOK:not-walkable", "prince-cff",
     lambda x: _with_cff(x, walked=False, why="topdict")),
    ("selftest-accept:cff-well-formed", "subset",
     lambda x: _with_cff(x, fdCount=2, fdSelectGlyphs=6, fdMax=1)),
    # round 4: the structure of a cmap the library built
    ("selftest-accept:cmap-format4-delta+glyphIdArray", "subset", lambda x: _cmap(x, [_f4(_SEG3, gia=[5, 0, 6])])),
    ("selftest-accept:cmap-format4-five-segments", "subset",
     lambda x: _cmap(x, [_f4([(0x20 + 16 * k, 0x20 + 16 * k, (1 + k - 0x20 - 16 * k) % 65536, 0) for k in range(4)] + [_FIN])])),
    ("selftest-reject:CmapStructOK:format4-searchRange-next-power-of-two", "subset",
     lambda x: _cmap(x, [_f4(_SEG3, gia=[5, 0, 6], hdr=[6, 8, 2, -2 % 65536, 0])])),
    ("selftest-reject:CmapStructOK:format4-rangeShift", "subset",
     lambda x: _cmap(x, [_f4(_SEG3, gia=[5, 0, 6], hdr=[6, 4, 1, 4, 0])])),
    ("selftest-reject:CmapStructOK:format4-idRangeOffset-one-word-short", "subset",
     lambda x: _cmap(x, [_f4([_SEG3[0], (0x30, 0x32, 0, 2), _FIN], gia=[5, 0, 6])])),
    ("selftest-reject:CmapStructOK:format4-idRangeOffset-past-the-array", "subset",
     lambda x: _cmap(x, [_f4([_SEG3[0], (0x30, 0x32, 0, 6), _FIN], gia=[5, 0, 6])])),
    ("selftest-reject:CmapStructOK:format4-glyph-id-not-in-font", "subset",
     lambda x: _cmap(x, [_f4(_SEG3, gia=[5, 0, 10])])),
    ("selftest-reject:CmapStructOK:format4-delta-segment-leaves-the-font", "subset",
     lambda x: _cmap(x, [_f4([(0x20, 0x22, (8 - 0x20) % 65536, 0), _FIN])])),
    ("selftest-reject:CmapStructOK:format4-no-final-segment", "subset",
     lambda x: _cmap(x, [_f4([_SEG3[0], (0x30, 0x32, 0, 2)], gia=[5, 0, 6])])),
    ("selftest-reject:CmapStructOK:format4-two-segments-end-at-0xFFFF", "subset",
     lambda x: _cmap(x, [_f4([(0xFFFE, 0xFFFF, (1 - 0xFFFE) % 65536, 0), _FIN])])),
    ("selftest-reject:CmapStructOK:format4-length-field-two-short", "subset",
     lambda x: _cmap(x, [_f4(_SEG3, gia=[5, 0], decl=16 + 24 + 4)], table_len=12 + 16 + 24 + 6)),
    ("selftest-reject:CmapStructOK:first-subtable-not-after-the-records", "subset",
     lambda x: _cmap(x, [_f4(_SEG3, gia=[5, 0, 6], off=16)])),
    ("selftest-reject:CmapStructOK:records-not-sorted", "subset",
     lambda x: _cmap(x, [_f4(_SEG3, gia=[5, 0, 6], off=20), _f12([(0x20, 0x22, 1)], off=20 + 46)], records=[[3, 10, 66], [0, 3, 20]])),
    ("selftest-accept:cmap-two-records-sorted", "subset",
     lambda x: _cmap(x, [_f4(_SEG3, gia=[5, 0, 6], off=20), _f12([(0x20, 0x22, 1)], off=20 + 46)], records=[[0, 3, 20], [3, 10, 66]])),
    ("selftest-reject:CmapStructOK:format12-groups-overlap", "subset",
     lambda x: _cmap(x, [_f12([(0x20, 0x22, 1), (0x22, 0x23, 4)])], records=[[0, 4, 12]])),
    ("selftest-reject:CmapStructOK:format12-length-field", "subset",
     lambda x: _cmap(x, [_f12([(0x20, 0x22, 1)], decl=16)], records=[[0, 4, 12]], table_len=40)),
    ("selftest-reject:CmapStructOK:format12-group-leaves-the-font", "subset",
     lambda x: _cmap(x, [_f12([(0x1F600, 0x1F603, 7)])], records=[[0, 4, 12]])),
    ("selftest-accept:cmap-copied-table-is-not-judged", "instance",
     lambda x: (_cmap(x, [_f4(_SEG3, gia=[5, 0, 6], hdr=[6, 8, 2, 0, 0])]), x["built"].update(cmap=False))),
    # round 3: collection members. Member 0 has numberOfHMetrics 1, member 1 has 4 (4 glyphs): an hmtx for member 1
    # decoded with member 0's count is 4*1 + 2*3 = 10 bytes where member 1's own hhea / maxp demand 16
    ("selftest-reject:HmtxOK:member1-hmtx-has-the-length-of-member0-nHM", "woff2",
     lambda x: _member(x, 4, 4, 10)),
    ("selftest-accept:member1-hmtx-has-its-own-length", "woff2",
     lambda x: _member(x, 4, 4, 16)),
    # the table set is self-consistent but hhea is member 0's (numberOfHMetrics 1 where 4 was prescribed)
    ("selftest-reject:MemberOK:member1-holds-hhea-of-member0", "woff2",
     lambda x: _member(x, 4, 1, 10, want_nhm=4)),
    ("selftest-reject:MemberOK:member1-holds-a-copied-table-of-member0", "woff2",
     lambda x: _member(x, 4, 4, 16, tables=[("cmap", [1, 2, 30], [7, 9, 30], False)])),
    ("selftest-reject:MemberOK:member1-holds-a-table-it-does-not-have", "whole_font",
     lambda x: _member(x, 4, 4, 16, tables=[("kern", [-1, -1, -1], [7, 9, 30], False)])),
    ("selftest-accept:member1-rebuilt-table-differs-byte-for-byte", "woff2",
     lambda x: _member(x, 4, 4, 16, tables=[("glyf", [1, 2, 30], [7, 9, 44], True), ("cmap", [5, 5, 20], [5, 5, 20], False)])),
    ("selftest-reject:MemberOK:member1-long-loca-where-short-was-prescribed", "woff2",
     lambda x: _member(x, 4, 4, 16, loc=(0, 1), glyf_len=5000)),
    ("selftest-accept:member1-loca-upgraded-for-a-big-glyf", "woff2",
     lambda x: _member(x, 4, 4, 16, loc=(0, 1), glyf_len=140000)),
    ("selftest-accept:subset-of-member1-has-fewer-glyphs", "subset",
     lambda x: (_member(x, 3, 3, 12), x["member"]["fields"][0].update(want=4), x["member"]["fields"][1].update(want=4))),
    ("selftest-reject:MemberOK:instance-of-member1-has-unitsPerEm-of-member0", "instance",
     lambda x: (_member(x, 4, 4, 16), x["member"]["fields"][3].update(want=2048))),
]


def run(ctx):
    binp = vlib.build_harness("c09_written")
    cfg = "MC_SfntWrite_quick.cfg" if ctx.quick else "MC_SfntWrite_thorough.cfg"
    cases_path = ctx.path("cases.ndjson")
    n_cases = [0]
    with open(cases_path, "w") as fc:
        def sink(tag, payload):
            if tag == "CASE":
                fc.write(payload + "\n")
                n_cases[0] += 1
        mc = vlib.run_tlc(ctx, "MC_SfntWrite", cfg, "mc", workers=8, timeout=1500, sink=sink)
    ctx.note("MC_SfntWrite: %d states generated, %d distinct, %d table sets; WriterWellFormed and WriterReadable hold (%.1fs)"
             % (mc.generated, mc.distinct, n_cases[0], mc.wall))
    if n_cases[0] == 0:
        raise vlib.ToolError("no CASE lines generated")

    trace = ctx.path("trace.ndjson")
    gen_trace = ctx.path("gen_trace.ndjson")
    rep = vlib.run_harness(binp, ["replay", cases_path, gen_trace])
    ctx.note("replay: %s" % json.dumps(rep))
    if rep["events"] == 0:
        raise vlib.ToolError("FontBuilder produced no output for any generated table set")
    rec_trace = ctx.path("rec_trace.ndjson")
    rec = vlib.run_harness(binp, ["record", ctx.seed, 40 if ctx.quick else 1000, rec_trace] + ([] if ctx.quick else ["all"]),
                           timeout=3000)
    ctx.note("record: %s" % json.dumps({k: v for k, v in rec.items() if k != "families"}))
    events = {}
    with open(trace, "w") as f:
        i = 0
        for part, src in (("gen", gen_trace), ("rec", rec_trace)):
            for e in vlib.read_ndjson(src):
                i += 1
                e["i"] = i
                e["case"] = part + ":" + e["case"]
                events[i] = e
                f.write(json.dumps(e, separators=(",", ":")) + "\n")
        # binding self-check: the judge must reject each of these planted corruptions
        good = next((e for e in events.values() if e["ev"] == "Written" and e["a"]["op"] == "subset"), None) or \
            next(e for e in events.values() if e["ev"] == "Written")
        planted_events = []
        impossible = []

        def plant(base, name, edit):
            b = json.loads(json.dumps(base))
            edit(b)
            b.update(i=10 ** 8 + len(planted_events), case=name)
            planted_events.append(b)

        def ed_sum(b):
            b["o"]["sfnt"]["records"][0]["sum"][1] = (b["o"]["sfnt"]["records"][0]["sum"][1] + 1) % 65536

        def ed_align(b):
            b["o"]["sfnt"]["records"][0]["off"] += 2
        plant(good, "selftest-corrupt-sum", ed_sum)
        plant(good, "selftest-corrupt-align", ed_align)
        # a WOFF2 table set whose head was upgraded to long: put head back to short (loca stays long)
        up = next((e for e in events.values() if e["ev"] == "Tables" and e["a"]["op"] == "woff2"
                   and e["o"]["cross"]["locFormat"] == 1 and e["o"]["cross"]["built"]["loca"]), None)
        def ed_head(b):
            b["o"]["cross"]["locFormat"] = 0
        if up is None:
            impossible.append("no WOFF2 table set with an upgraded (long) loca in the trace")
        else:
            plant(up, "selftest-head-short-loca-long", ed_head)
        # an instance with a composite class: announce word arguments where bytes were read
        inst = next((e for e in events.values() if e["ev"] == "Written" and e["a"]["op"] == "instance"
                     and any(c["kind"] == "composite" and c["ok"] for c in e["o"]["cross"]["glyphClasses"])), None)
        if inst is None:
            impossible.append("no instance with a composite glyph in the trace")

        def ed_words(b):
            c = next(c for c in b["o"]["cross"]["glyphClasses"] if c["kind"] == "composite" and c["ok"])
            c["flags"][0] ^= 1

        def ed_short(b):
            c = next(c for c in b["o"]["cross"]["glyphClasses"] if c["kind"] == "composite" and c["ok"])
            c["len"] = c["used"] - 1

        def ed_instr(b):
            c = next(c for c in b["o"]["cross"]["glyphClasses"] if c["kind"] == "composite" and c["ok"])
            c["flags"][-1] ^= 0x100

        def ed_eof(b):
            c = next(c for c in b["o"]["cross"]["glyphClasses"] if c["kind"] == "composite" and c["ok"])
            c["ok"] = False
            c["why"] = "eof:componentArguments"

        def ed_slack(b):
            c = b["o"]["cross"]["glyphClasses"][0]
            c["len"] = c["used"] + 4
        if inst is not None:
            plant(inst, "selftest-composite-width", ed_words)
            plant(inst, "selftest-composite-short", ed_short)
            plant(inst, "selftest-composite-instr", ed_instr)
            plant(inst, "selftest-composite-eof", ed_eof)
            plant(inst, "selftest-record-slack", ed_slack)
        # hand-written table sets (nothing of allsorts' output in them) for the clauses on derived fields, vertical
        # metrics and the CFF structure; `accept-*` are negative controls the judge must NOT flag
        for name, op, edit in _HAND_PLANTS:
            x = _blank_cross(op)
            edit(x)
            planted_events.append({"i": 10 ** 8 + len(planted_events), "case": name, "ev": "Tables",
                                   "a": {"op": op, "args": {}}, "o": {"cross": x}})
        planted_events.append({"i": 10 ** 8 + len(planted_events), "case": "selftest-no-such-member", "ev": "NoSuchMember",
                               "a": {"op": "table_provider", "args": {"container": "woff2", "members": 2, "index": 2, "tables": 9}},
                               "o": {}})
        for b in planted_events:
            f.write(json.dumps(b, separators=(",", ":")) + "\n")
    total, mism = vlib.judge_trace_parallel(ctx, "Trace_SfntWrite", "Trace_SfntWrite.cfg", trace, "judge",
                                            parts=4 if ctx.quick else 10)
    ctx.note("judge: %d events, %d mismatches" % (total, len(mism)))
    planted = {}
    violations = []
    for m in mism:
        if m["case"].startswith("selftest-"):
            planted[m["case"]] = set(m["violated"])
            continue
        ev = events[m["i"]]
        vio = sorted(m["violated"])
        # one violation per failing derived-field class (so that a known finding on one field hides only itself),
        # one for the remaining clauses together (they are usually consequences of one another)
        groups = []
        if "DerivedOK" in vio:
            for c in _derived_classes(ev["o"].get("cross", {}), m.get("derived") or ["?"]):
                groups.append((["DerivedOK"], dict(m, derived_classes=[c])))
        rest = [c for c in vio if c != "DerivedOK"]
        if rest:
            groups.append((rest, m))
        for clauses, mm in groups:
            key = "%s|%s|%s" % (ev["ev"] + ":" + m["op"], "+".join(clauses), _detail_key(ev, clauses, mm))
            violations.append(Violation(key, "%s %s violates %s (%s)" % (m["op"], m["case"], clauses, vlib.short(ev["a"], 200)),
                                        {"event": ev, "violated": clauses}))
    expect_planted = {"selftest-corrupt-sum": "ChecksumsOK", "selftest-corrupt-align": "LayoutOK",
                      "selftest-head-short-loca-long": "LocaOK", "selftest-composite-width": "GlyphsOK",
                      "selftest-composite-short": "GlyphsOK", "selftest-composite-instr": "GlyphsOK",
                      "selftest-composite-eof": "GlyphsOK", "selftest-record-slack": "GlyphsOK",
                      "selftest-no-such-member": "MemberOK"}
    planted_names = {b["case"] for b in planted_events}
    expect_planted = {c: v for c, v in expect_planted.items() if c in planted_names}
    expect_planted.update({n: n.split(":")[1] for n, _, _ in _HAND_PLANTS if n.startswith("selftest-reject:")})
    missed = [c for c, clause in expect_planted.items() if clause not in planted.get(c, set())]
    wrongly = [n for n, _, _ in _HAND_PLANTS if n.startswith("selftest-accept:") and planted.get(n)]
    selfcheck_error = None
    if missed or wrongly:
        selfcheck_error = "binding self-check failed: planted corruptions %s accepted, controls %s rejected; judge said %s" % (
            missed, wrongly, planted)
    elif impossible:
        selfcheck_error = "binding self-check impossible: %s" % impossible
    if selfcheck_error and not violations:
        raise vlib.ToolError(selfcheck_error)
    if selfcheck_error:
        ctx.note(selfcheck_error + " (violations present: reported first)")
    # vacuity: every family of size- / shape-dependent behaviour was exercised by a judged output.
    # (reported after the violations: a broken writer may be the very reason a family is missing)
    fam = rec.get("families", {})
    missing = [k for k in REQUIRED_FAMILIES if not fam.get(k)]
    if missing and not violations:
        raise vlib.ToolError("families not exercised by this run: %s" % missing)
    if missing:
        ctx.note("families not exercised (violations present): %s" % missing)
    unmeasured = [k for k in EXPECTED_MEASURED if not fam.get(k)]
    if unmeasured:
        ctx.note("classes usually measured on the written tables that no output of this run shows: %s" % unmeasured)
    written = [e for e in events.values() if e["ev"] == "Written"]
    coverage = {
        "states": mc.distinct,
        "transitions": mc.generated,
        "traces_validated_against_impl": len(events),
        "samples": [{"a": written[0]["a"], "sfnt": {k: v for k, v in written[0]["o"]["sfnt"].items() if k != "records"},
                     "first_record": written[0]["o"]["sfnt"]["records"][0]},
                    {"a": written[-1]["a"], "cross": written[-1]["o"]["cross"]}],
        "generated_table_sets": n_cases[0],
        "fontbuilder_outputs_judged": rep["events"],
        "recorded_ops": rec.get("ops", {}),
        "families_exercised": fam,
        "measured_classes_not_seen": unmeasured,
        "repository_fonts_surveyed": rec.get("surveyed", 0),
        "repository_fonts_used": rec.get("fonts", 0),
        "source_features_covered_by_chosen_repository_fonts": rec.get("features_covered_by_chosen_fonts", []),
        "glyph_records_walked": sum(c["count"] for e in events.values() if e["ev"] in ("Written", "Tables")
                                    and e["a"]["op"] != "builder" for c in e["o"]["cross"].get("glyphClasses", [])),
        "recorded_refused": rec.get("refused", 0),
        "recorded_panics_not_judged_here": rec.get("panics", 0),
        "panic_samples": rec.get("panic_samples", []),
        "events_judged": total,
        "binding_selfcheck": "rejected: " + ", ".join(sorted(expect_planted)) + "; accepted controls: " +
                             ", ".join(n for n, _, _ in _HAND_PLANTS if n.startswith("selftest-accept:")),
        "exhaustive": True,
        "explanation": "exhaustive over the FontBuilder model (%s); repository fonts sampled by seed (quick) or all (thorough)" % cfg,
    }
    vlib.finish(ctx, LEVEL, coverage, violations, ASSUMPTIONS)


def replay(ctx, path):
    d = json.load(open(path))["detail"]
    ev = d["event"]
    vlib.write_ndjson(ctx.path("t.ndjson"), [ev])
    res, mism = vlib.judge_trace(ctx, "Trace_SfntWrite", "Trace_SfntWrite.cfg", ctx.path("t.ndjson"), "replay")
    for m in mism:
        print("REPRODUCED (recorded projection) %s" % vlib.short(m))
    print("to re-measure on the current tree run: ./check C09 --tier thorough  (event %s %s)" % (ev["a"].get("op"), ev["case"]))
    return 1 if mism else 0
