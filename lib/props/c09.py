"""C09 - every font the library writes is a valid, self-consistent sfnt.

design       : MC_SfntWrite - the FontBuilder model (tables added in any order, directory sorted,
               bodies padded, checksum adjustment filled last) always yields bytes whose projection
               satisfies SfntWrite!WellFormedSfnt (incl. the adjustment identity in limb arithmetic)
               and which Sfnt!Load / TableData read back.
spec -> impl : every table set/insertion order TLC reaches is driven through the real FontBuilder
               (via whole_font on a map provider); the output is projected by independent readers.
impl -> spec : whole_font / subset / prince::subset / instance and table sets reconstructed from WOFF2 are
               projected the same way, on (a) three synthesized families that reach the size- and shape-
               dependent paths of every writer in every run (composites of every argument width and
               transform kind; variable fonts whose component offsets cross the byte / word argument
               boundary; short-loca fonts whose glyf rebuilt from WOFF2 lands below / at / above 131070
               bytes), (b) repository fonts chosen by measured features. Every glyph record of every
               written font is walked by the independent reader and its layout judged (GlyphsOK).
               All projections are judged by Trace_SfntWrite.
"""
import json

import vlib
from vlib import Violation

LEVEL = "model_checking"

ASSUMPTIONS = [
    "the projection (directory fields, measured checksums, padding bytes, cross-table facts) is computed by the "
    "harness's independent readers (vh::proj); aggregated facts such as 'loca is monotone' are measured in Rust",
    "tables copied verbatim from a source font may be longer than the other tables require (trailing padding); "
    "tables the library builds itself must have exactly the implied length",
    "cross-table consistency is demanded of subsets, instances and WOFF2-reconstructed table sets (as the property "
    "states), not of whole_font, which copies tables verbatim",
    "a writing operation that returns Err or panics produces no event here (C01 owns totality)",
    "glyph records: the independent reader walks every record and reports its layout (flag words, instruction length, "
    "bytes used, loca length); the size of a composite is recomputed from the flag words by SfntWrite!CompositeBytes; "
    "padding of at most 3 bytes is demanded only of records the library serialised itself (instance, WOFF2 transform), "
    "subset copies records with whatever padding the source had",
    "hmtx.lsb = glyf.xMin is demanded only when the OUTPUT head has flags bit 1 set and the SOURCE font kept that "
    "promise for all of its glyphs (subset and WOFF2 reconstruction; not for instances)",
    "prince::subset of a CFF/CFF2 source returns a bare CFF table: judged as a table set whose only partner is the glyph "
    "list (charstring count = number of ids, every charstring visited by allsorts)",
]

# families of behaviour that every run must have exercised (measured by the harness on the judged outputs)
REQUIRED_FAMILIES = [
    # (1) WOFF2 reconstruction around the short-loca limit
    "woff2.short-source.head-upgraded-to-long", "woff2.short-source.head-stays-short",
    "woff2.rebuilt-glyf>131072.source-short", "woff2.rebuilt-glyf<131070.source-short",
    "woff2.rebuilt-glyf=131070.source-short", "woff2.rebuilt-glyf=131072.source-short",
    "woff2.repository-reencoded.upgraded", "woff2.repository-reencoded.stays-short",
    # (2) instancing composites whose offsets vary
    "var.byte.x-only-leaves-byte-range", "var.byte.y-only-leaves-byte-range", "var.byte.both-leave-byte-range",
    "var.byte.stays-in-byte-range", "var.word.comes-into-byte-range", "var.component.varied.transformed",
    "var.glyph.multi-component", "var.component.point-matching", "instance.loca:long",
    # (3) shapes reaching subset / prince::subset
    "subset.comp:byte-xy", "subset.comp:word-xy", "subset.comp:byte-pt", "subset.comp:word-pt", "subset.comp:plain",
    "subset.comp:scale", "subset.comp:xyscale", "subset.comp:2x2", "subset.comp:instr", "subset.comp:multi",
    "subset.loca:short", "subset.loca:long", "subset.src:nhm<n", "subset.src:lsb=xMin", "subset.src:cff",
    "subset.src:cff2", "subset.src:glyf", "prince-cff.src:cff", "prince-cff.src:cff2",
]


def _detail_key(ev, violated=()):
    """Discriminate the failing shape so that a known finding hides only itself."""
    x = ev["o"].get("cross", {})
    parts = []
    if x and x.get("has", {}).get("hmtx"):
        need = 4 * x["nHM"] + 2 * (x["numGlyphs"] - x["nHM"])
        ex = x["hmtxLen"] - need
        if ex:
            parts.append("hmtxExcess=%s" % ("2*numGlyphs" if ex == 2 * x["numGlyphs"] else ex))
    if "LocaOK" in violated and x:
        need = (x["numGlyphs"] + 1) * (2 if x["locFormat"] == 0 else 4)
        if x["locaLen"] != need:
            # head and loca disagree about the offset width: everything read through loca is a consequence
            per = x["locaLen"] // (x["numGlyphs"] + 1) if x["locaLen"] % (x["numGlyphs"] + 1) == 0 else "other"
            parts.append("head.indexToLocFormat=%s,loca=%s*(numGlyphs+1)" % (x["locFormat"], per))
            return ",".join(parts)
        if not x["locaMonotone"]:
            parts.append("loca-not-monotone")
        if x["locaLast"] > x["glyfLen"]:
            parts.append("loca-last>glyf")
    if "GlyphsOK" in violated:
        # which kind of record fails and how (never a glyph id, a length or a count)
        why = set()
        for c in x.get("glyphClasses", []):
            if not c["ok"]:
                why.add("%s:%s" % (c["kind"], c["why"].split(":")[0]))
            elif c["used"] > c["len"]:
                why.add("%s:used>len" % c["kind"])
            elif x.get("built", {}).get("glyf") and c["len"] - c["used"] > 3:
                why.add("%s:slack>3" % c["kind"])
        parts.append("glyph=" + "/".join(sorted(why) or ["layout"]))
    if x and x.get("reload", {}).get("tried") and not x["reload"]["ok"]:
        parts.append("reload=" + x["reload"]["why"][:40].replace(" ", "_"))
    if "ReloadOK" in violated and x.get("reload", {}).get("ok"):
        r = x["reload"]
        parts.append("reload:" + ",".join(k + "<numGlyphs" for k in ("advances", "outlines") if r[k] != x["numGlyphs"]))
    if "LsbOK" in violated:
        parts.append("lsb!=xMin")
    return ",".join(parts)


def run(ctx):
    binp = vlib.build_harness("c09_written")
    cfg = "MC_SfntWrite_quick.cfg" if ctx.quick else "MC_SfntWrite_thorough.cfg"
    cases_path = ctx.path("cases.ndjson")
    n_cases = [0]
    with open(cases_path, "w") as fc:
        def sink(tag, payload):
            if tag == "CASE":
                fc.write(payload + "\n")
                n_cases[0] += 1
        mc = vlib.run_tlc(ctx, "MC_SfntWrite", cfg, "mc", workers=8, timeout=1500, sink=sink)
    ctx.note("MC_SfntWrite: %d states generated, %d distinct, %d table sets; WriterWellFormed and WriterReadable hold (%.1fs)"
             % (mc.generated, mc.distinct, n_cases[0], mc.wall))
    if n_cases[0] == 0:
        raise vlib.ToolError("no CASE lines generated")

    trace = ctx.path("trace.ndjson")
    gen_trace = ctx.path("gen_trace.ndjson")
    rep = vlib.run_harness(binp, ["replay", cases_path, gen_trace])
    ctx.note("replay: %s" % json.dumps(rep))
    if rep["events"] == 0:
        raise vlib.ToolError("FontBuilder produced no output for any generated table set")
    rec_trace = ctx.path("rec_trace.ndjson")
    rec = vlib.run_harness(binp, ["record", ctx.seed, 40 if ctx.quick else 1000, rec_trace] + ([] if ctx.quick else ["all"]),
                           timeout=3000)
    ctx.note("record: %s" % json.dumps({k: v for k, v in rec.items() if k != "families"}))
    events = {}
    with open(trace, "w") as f:
        i = 0
        for part, src in (("gen", gen_trace), ("rec", rec_trace)):
            for e in vlib.read_ndjson(src):
                i += 1
                e["i"] = i
                e["case"] = part + ":" + e["case"]
                events[i] = e
                f.write(json.dumps(e, separators=(",", ":")) + "\n")
        # binding self-check: the judge must reject each of these planted corruptions
        good = next((e for e in events.values() if e["ev"] == "Written" and e["a"]["op"] == "subset"), None) or \
            next(e for e in events.values() if e["ev"] == "Written")
        planted_events = []

        def plant(base, name, edit):
            b = json.loads(json.dumps(base))
            edit(b)
            b.update(i=10 ** 8 + len(planted_events), case=name)
            planted_events.append(b)

        def ed_sum(b):
            b["o"]["sfnt"]["records"][0]["sum"][1] = (b["o"]["sfnt"]["records"][0]["sum"][1] + 1) % 65536

        def ed_align(b):
            b["o"]["sfnt"]["records"][0]["off"] += 2
        plant(good, "selftest-corrupt-sum", ed_sum)
        plant(good, "selftest-corrupt-align", ed_align)
        # a WOFF2 table set whose head was upgraded to long: put head back to short (loca stays long)
        up = next((e for e in events.values() if e["ev"] == "Tables" and e["a"]["op"] == "woff2"
                   and e["o"]["cross"]["locFormat"] == 1 and e["o"]["cross"]["built"]["loca"]), None)
        if up is None:
            raise vlib.ToolError("no WOFF2 table set with an upgraded (long) loca in the trace: self-check impossible")

        def ed_head(b):
            b["o"]["cross"]["locFormat"] = 0
        plant(up, "selftest-head-short-loca-long", ed_head)
        # an instance with a composite class: announce word arguments where bytes were read
        inst = next((e for e in events.values() if e["ev"] == "Written" and e["a"]["op"] == "instance"
                     and any(c["kind"] == "composite" and c["ok"] for c in e["o"]["cross"]["glyphClasses"])), None)
        if inst is None:
            raise vlib.ToolError("no instance with a composite glyph in the trace: self-check impossible")

        def ed_words(b):
            c = next(c for c in b["o"]["cross"]["glyphClasses"] if c["kind"] == "composite" and c["ok"])
            c["flags"][0] ^= 1

        def ed_short(b):
            c = next(c for c in b["o"]["cross"]["glyphClasses"] if c["kind"] == "composite" and c["ok"])
            c["len"] = c["used"] - 1

        def ed_instr(b):
            c = next(c for c in b["o"]["cross"]["glyphClasses"] if c["kind"] == "composite" and c["ok"])
            c["flags"][-1] ^= 0x100

        def ed_eof(b):
            c = next(c for c in b["o"]["cross"]["glyphClasses"] if c["kind"] == "composite" and c["ok"])
            c["ok"] = False
            c["why"] = "eof:componentArguments"

        def ed_slack(b):
            c = b["o"]["cross"]["glyphClasses"][0]
            c["len"] = c["used"] + 4
        plant(inst, "selftest-composite-width", ed_words)
        plant(inst, "selftest-composite-short", ed_short)
        plant(inst, "selftest-composite-instr", ed_instr)
        plant(inst, "selftest-composite-eof", ed_eof)
        plant(inst, "selftest-record-slack", ed_slack)
        for b in planted_events:
            f.write(json.dumps(b, separators=(",", ":")) + "\n")
    total, mism = vlib.judge_trace_parallel(ctx, "Trace_SfntWrite", "Trace_SfntWrite.cfg", trace, "judge",
                                            parts=4 if ctx.quick else 10)
    ctx.note("judge: %d events, %d mismatches" % (total, len(mism)))
    planted = {}
    violations = []
    for m in mism:
        if m["case"].startswith("selftest-"):
            planted[m["case"]] = set(m["violated"])
            continue
        ev = events[m["i"]]
        vio = sorted(m["violated"])
        key = "%s|%s|%s" % (ev["ev"] + ":" + m["op"], "+".join(vio), _detail_key(ev, vio))
        violations.append(Violation(key, "%s %s violates %s (%s)" % (m["op"], m["case"], vio, vlib.short(ev["a"], 200)),
                                    {"event": ev, "violated": vio}))
    expect_planted = {"selftest-corrupt-sum": "ChecksumsOK", "selftest-corrupt-align": "LayoutOK",
                      "selftest-head-short-loca-long": "LocaOK", "selftest-composite-width": "GlyphsOK",
                      "selftest-composite-short": "GlyphsOK", "selftest-composite-instr": "GlyphsOK",
                      "selftest-composite-eof": "GlyphsOK", "selftest-record-slack": "GlyphsOK"}
    missed = [c for c, clause in expect_planted.items() if clause not in planted.get(c, set())]
    if missed:
        raise vlib.ToolError("binding self-check failed: planted corruptions %s accepted; judge said %s" % (missed, planted))
    # vacuity: every family of size- / shape-dependent behaviour was exercised by a judged output.
    # (reported after the violations: a broken writer may be the very reason a family is missing)
    fam = rec.get("families", {})
    missing = [k for k in REQUIRED_FAMILIES if not fam.get(k)]
    if missing and not violations:
        raise vlib.ToolError("families not exercised by this run: %s" % missing)
    if missing:
        ctx.note("families not exercised (violations present): %s" % missing)
    written = [e for e in events.values() if e["ev"] == "Written"]
    coverage = {
        "states": mc.distinct,
        "transitions": mc.generated,
        "traces_validated_against_impl": len(events),
        "samples": [{"a": written[0]["a"], "sfnt": {k: v for k, v in written[0]["o"]["sfnt"].items() if k != "records"},
                     "first_record": written[0]["o"]["sfnt"]["records"][0]},
                    {"a": written[-1]["a"], "cross": written[-1]["o"]["cross"]}],
        "generated_table_sets": n_cases[0],
        "fontbuilder_outputs_judged": rep["events"],
        "recorded_ops": rec.get("ops", {}),
        "families_exercised": fam,
        "repository_fonts_surveyed": rec.get("surveyed", 0),
        "repository_fonts_used": rec.get("fonts", 0),
        "source_features_covered_by_chosen_repository_fonts": rec.get("features_covered_by_chosen_fonts", []),
        "glyph_records_walked": sum(c["count"] for e in events.values() if e["ev"] in ("Written", "Tables")
                                    and e["a"]["op"] != "builder" for c in e["o"]["cross"].get("glyphClasses", [])),
        "recorded_refused": rec.get("refused", 0),
        "recorded_panics_not_judged_here": rec.get("panics", 0),
        "panic_samples": rec.get("panic_samples", []),
        "events_judged": total,
        "binding_selfcheck": "rejected: " + ", ".join(sorted(expect_planted)),
        "exhaustive": True,
        "explanation": "exhaustive over the FontBuilder model (%s); repository fonts sampled by seed (quick) or all (thorough)" % cfg,
    }
    vlib.finish(ctx, LEVEL, coverage, violations, ASSUMPTIONS)


def replay(ctx, path):
    d = json.load(open(path))["detail"]
    ev = d["event"]
    vlib.write_ndjson(ctx.path("t.ndjson"), [ev])
    res, mism = vlib.judge_trace(ctx, "Trace_SfntWrite", "Trace_SfntWrite.cfg", ctx.path("t.ndjson"), "replay")
    for m in mism:
        print("REPRODUCED (recorded projection) %s" % vlib.short(m))
    print("to re-measure on the current tree run: ./check C09 --tier thorough  (event %s %s)" % (ev["a"].get("op"), ev["case"]))
    return 1 if mism else 0
