"""C09 - every font the library writes is a valid, self-consistent sfnt.

design       : MC_SfntWrite - the FontBuilder model (tables added in any order, directory sorted,
               bodies padded, checksum adjustment filled last) always yields bytes whose projection
               satisfies SfntWrite!WellFormedSfnt (incl. the adjustment identity in limb arithmetic)
               and which Sfnt!Load / TableData read back.
spec -> impl : every table set/insertion order TLC reaches is driven through the real FontBuilder
               (via whole_font on a map provider); the output is projected by independent readers.
impl -> spec : whole_font / subset / instance on repository fonts and table sets reconstructed from
               WOFF2 are projected the same way. All projections are judged by Trace_SfntWrite.
"""
import json

import vlib
from vlib import Violation

LEVEL = "model_checking"

ASSUMPTIONS = [
    "the projection (directory fields, measured checksums, padding bytes, cross-table facts) is computed by the "
    "harness's independent readers (vh::proj); aggregated facts such as 'loca is monotone' are measured in Rust",
    "tables copied verbatim from a source font may be longer than the other tables require (trailing padding); "
    "tables the library builds itself must have exactly the implied length",
    "cross-table consistency is demanded of subsets, instances and WOFF2-reconstructed table sets (as the property "
    "states), not of whole_font, which copies tables verbatim",
    "a writing operation that returns Err or panics produces no event here (C01 owns totality)",
]


def _detail_key(ev):
    """Discriminate the failing shape so that a known finding hides only itself."""
    x = ev["o"].get("cross", {})
    parts = []
    if x and x.get("has", {}).get("hmtx"):
        need = 4 * x["nHM"] + 2 * (x["numGlyphs"] - x["nHM"])
        ex = x["hmtxLen"] - need
        if ex:
            parts.append("hmtxExcess=%s" % ("2*numGlyphs" if ex == 2 * x["numGlyphs"] else ex))
    if x and x.get("reload", {}).get("tried") and not x["reload"]["ok"]:
        parts.append("reload=" + x["reload"]["why"][:40].replace(" ", "_"))
    return ",".join(parts)


def run(ctx):
    binp = vlib.build_harness("c09_written")
    cfg = "MC_SfntWrite_quick.cfg" if ctx.quick else "MC_SfntWrite_thorough.cfg"
    cases_path = ctx.path("cases.ndjson")
    n_cases = [0]
    with open(cases_path, "w") as fc:
        def sink(tag, payload):
            if tag == "CASE":
                fc.write(payload + "\n")
                n_cases[0] += 1
        mc = vlib.run_tlc(ctx, "MC_SfntWrite", cfg, "mc", workers=8, timeout=1500, sink=sink)
    ctx.note("MC_SfntWrite: %d states generated, %d distinct, %d table sets; WriterWellFormed and WriterReadable hold (%.1fs)"
             % (mc.generated, mc.distinct, n_cases[0], mc.wall))
    if n_cases[0] == 0:
        raise vlib.ToolError("no CASE lines generated")

    trace = ctx.path("trace.ndjson")
    gen_trace = ctx.path("gen_trace.ndjson")
    rep = vlib.run_harness(binp, ["replay", cases_path, gen_trace])
    ctx.note("replay: %s" % json.dumps(rep))
    if rep["events"] == 0:
        raise vlib.ToolError("FontBuilder produced no output for any generated table set")
    rec_trace = ctx.path("rec_trace.ndjson")
    rec = vlib.run_harness(binp, ["record", ctx.seed, 24 if ctx.quick else 1000, rec_trace], timeout=3000)
    ctx.note("record: %s" % json.dumps(rec))
    events = {}
    with open(trace, "w") as f:
        i = 0
        for part, src in (("gen", gen_trace), ("rec", rec_trace)):
            for e in vlib.read_ndjson(src):
                i += 1
                e["i"] = i
                e["case"] = part + ":" + e["case"]
                events[i] = e
                f.write(json.dumps(e, separators=(",", ":")) + "\n")
        # binding self-check: a directory checksum limb off by one, and a broken cross fact
        good = next((e for e in events.values() if e["ev"] == "Written" and e["a"]["op"] == "subset"), None) or \
            next(e for e in events.values() if e["ev"] == "Written")
        bad1 = json.loads(json.dumps(good))
        bad1["o"]["sfnt"]["records"][0]["sum"][1] = (bad1["o"]["sfnt"]["records"][0]["sum"][1] + 1) % 65536
        bad1.update(i=10 ** 8, case="selftest-corrupt-sum")
        bad2 = json.loads(json.dumps(good))
        bad2["o"]["sfnt"]["records"][0]["off"] += 2
        bad2.update(i=10 ** 8 + 1, case="selftest-corrupt-align")
        for b in (bad1, bad2):
            f.write(json.dumps(b, separators=(",", ":")) + "\n")
    total, mism = vlib.judge_trace_parallel(ctx, "Trace_SfntWrite", "Trace_SfntWrite.cfg", trace, "judge",
                                            parts=4 if ctx.quick else 10)
    ctx.note("judge: %d events, %d mismatches" % (total, len(mism)))
    planted = {}
    violations = []
    for m in mism:
        if m["case"].startswith("selftest-corrupt"):
            planted[m["case"]] = set(m["violated"])
            continue
        ev = events[m["i"]]
        key = "%s|%s|%s" % (ev["ev"] + ":" + m["op"], "+".join(m["violated"]), _detail_key(ev))
        violations.append(Violation(key, "%s %s violates %s (%s)" % (m["op"], m["case"], m["violated"], vlib.short(ev["a"], 200)),
                                    {"event": ev, "violated": m["violated"]}))
    if "ChecksumsOK" not in planted.get("selftest-corrupt-sum", set()) or \
            "LayoutOK" not in planted.get("selftest-corrupt-align", set()):
        raise vlib.ToolError("binding self-check failed: planted corruptions gave %s" % planted)
    written = [e for e in events.values() if e["ev"] == "Written"]
    coverage = {
        "states": mc.distinct,
        "transitions": mc.generated,
        "traces_validated_against_impl": len(events),
        "samples": [{"a": written[0]["a"], "sfnt": {k: v for k, v in written[0]["o"]["sfnt"].items() if k != "records"},
                     "first_record": written[0]["o"]["sfnt"]["records"][0]},
                    {"a": written[-1]["a"], "cross": written[-1]["o"]["cross"]}],
        "generated_table_sets": n_cases[0],
        "fontbuilder_outputs_judged": rep["events"],
        "recorded_ops": rec.get("ops", {}),
        "recorded_refused": rec.get("refused", 0),
        "recorded_panics_not_judged_here": rec.get("panics", 0),
        "panic_samples": rec.get("panic_samples", []),
        "events_judged": total,
        "binding_selfcheck": "corrupted checksum and misaligned offset rejected",
        "exhaustive": True,
        "explanation": "exhaustive over the FontBuilder model (%s); repository fonts sampled by seed (quick) or all (thorough)" % cfg,
    }
    vlib.finish(ctx, LEVEL, coverage, violations, ASSUMPTIONS)


def replay(ctx, path):
    d = json.load(open(path))["detail"]
    ev = d["event"]
    vlib.write_ndjson(ctx.path("t.ndjson"), [ev])
    res, mism = vlib.judge_trace(ctx, "Trace_SfntWrite", "Trace_SfntWrite.cfg", ctx.path("t.ndjson"), "replay")
    for m in mism:
        print("REPRODUCED (recorded projection) %s" % vlib.short(m))
    print("to re-measure on the current tree run: ./check C09 --tier thorough  (event %s %s)" % (ev["a"].get("op"), ev["case"]))
    return 1 if mism else 0
