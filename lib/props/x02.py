"""X02 (extra) - the joining state machines of the Arabic and Syriac shapers.

Which positional feature (isol / init / medi / fina, Syriac med2 / fin2 / fin3) every glyph of a run
receives from scripts::arabic::gsub_apply_arabic / scripts::syriac::gsub_apply_syriac, and the order in
which the shaper applies its feature stages (global stages vs stages masked per glyph).

spec -> impl : TLC explores MC_Joining: every class string up to the bound over four alphabets (one real
               code point per joining class, ALAPH, DALATH RISH, ZWJ, ZWNJ), one small-step machine
               transition per glyph; on every state small-step = closed form and the design invariants hold.
               It prints the FONT (feature stages, language systems, glyph states, transitions) and one CASE per
               string. The harness encodes the FONT into a real GSUB, shapes every CASE through
               Font::map_glyphs + Font::shape and compares the number left on every glyph by equality.
impl -> spec : seeded random strings over the whole Arabic / Syriac blocks (plus joiners, foreign joining
               letters, marks) with random language tags are recorded and judged by Trace_Joining.
The joining-type / joining-group table is dumped from the unicode-joining-type crate allsorts links
(a scratch cargo project pinned to the version in the harness' Cargo.lock) and is an INPUT of both.
"""
import json
import os
import re
import subprocess

import vlib
from vlib import Violation

LEVEL = "model_checking"

ASSUMPTIONS = [
    "the Joining_Type / Joining_Group of a code point is an input: dumped from the unicode-joining-type crate "
    "(version pinned by the harness' Cargo.lock) by a scratch cargo project; X02 constrains its USE, not its values",
    "the shaper is observed through ONE synthesized font per script whose GSUB is printed by the specification "
    "(Joining!FontDesc): single substitutions that record on every glyph the sequence of features that fired",
    "Dev_NonJoiningForm: a non-joining (U) glyph tagged isol (OpenType shaping documents, the code) or carrying no "
    "positional feature (HarfBuzz) - either reading, one per run",
    "Dev_LoneAlaph: an ALAPH that is a word on its own is isol or fin2 - either, per position",
    "the Syriac stage list follows the shaping document allsorts cites (no rclt / mset for syrc); dlig, cswh, clig "
    "are present in the font and must not fire",
    "text preprocessing (mark reordering inside map_glyphs) is C17's subject: the judge takes the run as "
    "map_glyphs produced it",
]

JT = {"DualJoining": "D", "JoinCausing": "C", "LeftJoining": "L", "NonJoining": "U", "RightJoining": "R",
      "Transparent": "T"}
JG = {"Alaph": "alaph", "DalathRish": "dr"}

DUMP_MAIN = r'''
use unicode_joining_type::{get_joining_group, get_joining_type};
fn main() {
    for cp in 0u32..0x110000 {
        if let Some(c) = char::from_u32(cp) {
            let jt = format!("{:?}", get_joining_type(c));
            let jg = format!("{:?}", get_joining_group(c));
            if jt != "NonJoining" || jg != "NoJoiningGroup" {
                println!("{:04X} {} {}", cp, jt, jg);
            }
        }
    }
}
'''


def dump_table(ctx):
    """cp -> (jt, jg) for every code point whose properties are not the defaults, from the crate itself."""
    # the version the harness (and so allsorts inside it) is linked against
    m = None
    for lockfile in (os.path.join(vlib.HARNESS, "Cargo.lock"), os.path.join(vlib.REPO, "Cargo.lock")):
        if os.path.exists(lockfile):
            m = re.search(r'name = "unicode-joining-type"\s+version = "([^"]+)"', open(lockfile).read())
            if m:
                break
    if not m:
        raise vlib.ToolError("unicode-joining-type not found in the harness' or the repository's Cargo.lock")
    ver = m.group(1)
    d = ctx.path("jtdump")
    os.makedirs(os.path.join(d, "src"), exist_ok=True)
    with open(os.path.join(d, "Cargo.toml"), "w") as f:
        f.write('[package]\nname = "x02_jtdump"\nversion = "0.1.0"\nedition = "2021"\npublish = false\n'
                '[workspace]\n[dependencies]\nunicode-joining-type = "=%s"\n' % ver)
    with open(os.path.join(d, "src", "main.rs"), "w") as f:
        f.write(DUMP_MAIN)
    tdir = os.path.join(vlib.HARNESS, "target-x02jt")
    env = dict(os.environ, CARGO_NET_OFFLINE="true")
    p = subprocess.run(["cargo", "build", "--release", "--offline", "--target-dir", tdir], cwd=d, env=env,
                       stdout=subprocess.PIPE, stderr=subprocess.STDOUT, text=True)
    if p.returncode != 0:
        raise vlib.ToolError("building the joining-type dump failed:\n" + p.stdout[-3000:])
    out = subprocess.run([os.path.join(tdir, "release", "x02_jtdump")], stdout=subprocess.PIPE, text=True, check=True)
    tab = {}
    for ln in out.stdout.splitlines():
        cp, jt, jg = ln.split()
        if jt not in JT:
            raise vlib.ToolError("unknown joining type %r in the crate's table" % jt)
        tab[int(cp, 16)] = (JT[jt], JG.get(jg, "none"))
    return ver, tab


def write_jt(path, universe, tab):
    lo, hi = 0x600, 0x8FF
    cls = {c: tab.get(c, ("U", "none")) for c in universe}
    if not all(c in cls for c in range(lo, hi + 1)):
        raise vlib.ToolError("universe does not contain U+0600..U+08FF")
    with open(path, "w") as f:
        json.dump({"lo": lo, "dense": [list(cls[c]) for c in range(lo, hi + 1)],
                   "extra": [[c] + list(cls[c]) for c in sorted(cls) if not lo <= c <= hi]}, f)
    return cls


def _hex(cps):
    return " ".join("%04X" % c for c in cps)


class Fonts:
    """Decoding of glyph numbers for messages only (the verdicts are TLC's)."""

    def __init__(self, path):
        self.d = {}
        for ln in open(path):
            v = json.loads(ln)
            self.d[v["script"]] = v

    def form(self, sc, n):
        d = self.d[sc]
        if n < 0:
            return "undecodable"
        if n >= 32768:
            return "ERR:" + d["feats"][n - 32768 - 1]["tag"]
        fs = [s for k, s in enumerate(d["stages"]) if (n >> k) & 1 and s in d["pos"]]
        return "+".join(fs) if fs else "none"

    def path(self, sc, n):
        if n < 0 or n >= 32768:
            return self.form(sc, n)
        return ">".join(s for k, s in enumerate(self.d[sc]["stages"]) if (n >> k) & 1)


def _panic_class(msg):
    m = msg.rsplit(" @ ", 1)
    loc = m[1] if len(m) > 1 else ""
    f = loc.rsplit(":", 1)[0].rsplit("/src/", 1)[-1]
    return re.sub(r"\d+", "N", m[0])[:50].replace(" ", "_") + "@" + f


def _keys(m):
    ks = []
    for t in m["keys"]:
        k = "|".join(t)
        if len(t) >= 2 and t[1] == "panic":
            k += "|" + _panic_class(m.get("panic", ""))
        ks.append(k)
    return ks


def _what(fonts, m, key):
    sc = m["s"]
    got = [fonts.form(sc, g) for g in m["got"]]
    want = [fonts.form(sc, g) for g in m["want"]]
    extra = ""
    if got == want and m["got"] != m["want"]:
        extra = " stages got [%s] want [%s]" % (", ".join(fonts.path(sc, g) for g in m["got"]),
                                                ", ".join(fonts.path(sc, g) for g in m["want"]))
    return ("%s: script %s lang %r text [%s]: forms [%s], specification [%s]%s%s%s" %
            (key, sc, m["l"], _hex(m["run"]), " ".join(got), " ".join(want), extra,
             (" ERR " + m["err"]) if m.get("err") else "", (" PANIC " + m["panic"]) if m.get("panic") else ""))


def _event(i, case, sc, lang, text, run, out, got, err="", panic=""):
    return {"i": i, "case": case, "ev": "Shape",
            "a": {"s": sc, "l": lang, "text": text, "run": run, "dir": [0] * len(run)},
            "o": {"out": out, "got": got, "err": err, "panic": panic}}


def _prepare(ctx):
    binp = vlib.build_harness("x02_joining")
    uni_path = ctx.path("universe.json")
    vlib.run_harness(binp, ["universe", uni_path])
    universe = json.load(open(uni_path))
    ver, tab = dump_table(ctx)
    jt = ctx.path("jt.json")
    cls = write_jt(jt, universe, tab)
    return binp, jt, ver, tab, cls


def run(ctx):
    binp, jt, ver, tab, cls = _prepare(ctx)
    by_class = {}
    for c, (t, g) in cls.items():
        by_class[t] = by_class.get(t, 0) + 1
    ctx.note("joining-type table: crate %s, %d non-default code points; universe %d code points %s" %
             (ver, len(tab), len(cls), json.dumps(by_class, sort_keys=True)))
    if len(tab) < 1000 or by_class.get("D", 0) < 100:
        raise vlib.ToolError("joining-type table is implausibly small")

    # ---- spec -> impl -------------------------------------------------------------------------
    cfg = "MC_Joining_quick.cfg" if ctx.quick else "MC_Joining_thorough.cfg"
    cases_path, font_path = ctx.path("cases.ndjson"), ctx.path("font.ndjson")
    n_cases = [0]
    samples, plant = [], [None]
    with open(cases_path, "w") as fc, open(font_path, "w") as ff:
        def sink(tag, payload):
            if tag == "FONT":
                ff.write(payload + "\n")
            elif tag == "CASE":
                fc.write(payload + "\n")
                n_cases[0] += 1
                if plant[0] is None or (len(samples) < 3 and n_cases[0] % 7919 == 0):
                    c = json.loads(payload)
                    if len(set(c["e"])) >= 3 and not c["k"] and not c["x"] and c["s"] == "arab" and \
                            len(c["e"]) == len(c["c"]):
                        if plant[0] is None:
                            plant[0] = c
                        else:
                            samples.append(c)
        mc = vlib.run_tlc(ctx, "MC_Joining", cfg, "mc", workers=4, timeout=400 if ctx.quick else 1500, sink=sink,
                          env_extra={"X02_JT": jt})
        if n_cases[0] == 0 or plant[0] is None:
            raise vlib.ToolError("no CASE lines generated")
        # binding self-check (spec -> impl): a case whose expectation is impossible must be reported
        bad = dict(plant[0], e=[32767] * len(plant[0]["e"]), x=[], k=[], d=[], id="selftest-corrupt")
        fc.write(json.dumps(bad) + "\n")
    fonts = Fonts(font_path)
    if sorted(fonts.d) != ["arab", "syrc"]:
        raise vlib.ToolError("MC_Joining printed fonts for %s" % sorted(fonts.d))
    ctx.note("MC_Joining: %d states generated, %d distinct, depth %d, %d cases (%.1fs)" %
             (mc.generated, mc.distinct, mc.depth, n_cases[0], mc.wall))

    mm_path = ctx.path("replay_mismatches.ndjson")
    rep = vlib.run_harness(binp, ["replay", font_path, cases_path, mm_path])
    ctx.note("replay: %s" % json.dumps({k: rep[k] for k in ("cases", "ok_primary", "ok_dev_reading", "code_model",
                                                            "mismatches", "code_model_by_defects", "glyphs")}))
    gen_known, gen_mism, planted_seen = [], [], False
    for m in vlib.read_ndjson(mm_path):
        if m.get("id") == "selftest-corrupt":
            planted_seen = True
        elif m["kind"] == "binding":
            raise vlib.ToolError("text preprocessing changed a generated text: [%s] -> [%s]" % (_hex(m["c"]), _hex(m["run"])))
        elif m["kind"] == "known":
            gen_known.append(m)
        else:
            gen_mism.append(m)
    if not planted_seen:
        raise vlib.ToolError("binding self-check failed: the harness accepted a corrupted generated case")

    # ---- impl -> spec -------------------------------------------------------------------------
    per_script = 12000 if ctx.quick else 100000
    trace = ctx.path("trace.ndjson")
    rec = vlib.run_harness(binp, ["record", font_path, jt, ctx.seed, per_script, trace], timeout=1500)
    ctx.note("record: %s" % json.dumps({k: rec[k] for k in ("events", "panics", "shape_errors", "preprocessing_reordered", "events_with_direct_glyphs", "langs")}))
    # binding self-check (impl -> spec), independent of what allsorts did: the expectation TLC printed for a
    # generated case must be accepted by the judge, three corruptions of it must be rejected as unexplained
    pc = plant[0]
    e = pc["e"]
    a, b = 0, next(k for k in range(len(e)) if e[k] != e[0])
    sw = list(e)
    sw[a], sw[b] = sw[b], sw[a]
    imp = list(e)
    imp[a] = 32767
    planted = [
        _event(10 ** 8, "selftest-good", pc["s"], pc["l"], pc["c"], pc["c"], pc["c"], e),
        _event(10 ** 8 + 1, "selftest-swapped", pc["s"], pc["l"], pc["c"], pc["c"], pc["c"], sw),
        _event(10 ** 8 + 2, "selftest-impossible", pc["s"], pc["l"], pc["c"], pc["c"], pc["c"], imp),
        _event(10 ** 8 + 3, "selftest-dropped", pc["s"], pc["l"], pc["c"], pc["c"], pc["c"][1:], e[1:]),
    ]
    # the generated mismatches (and the samples of code-model cases) are judged as well, so that the
    # specification names the keys
    extra = []
    for k, m in enumerate(gen_known + gen_mism):
        case = ("genknown-%d" if m["kind"] == "known" else "generated-%d") % k
        extra.append(_event(2 * 10 ** 8 + k, case, m["s"], m["l"], m["c"], m["run"] or m["c"], m["out"], m["got"],
                            m["err"], m["panic"]))
    with open(trace, "a") as f:
        for x in planted + extra:
            f.write(json.dumps(x, separators=(",", ":")) + "\n")
    dev = {"DEV": []}
    total, mism = vlib.judge_trace_parallel(ctx, "Trace_Joining", "Trace_Joining.cfg", trace, "judge",
                                            parts=4, timeout=1500, env_extra={"X02_JT": jt}, other_tags=dev)
    ctx.note("judge: %d events, %d not conformant, %d conformant under a Dev_ reading" % (total, len(mism), len(dev["DEV"])))
    if total != rec["events"] + len(planted) + len(extra):
        raise vlib.ToolError("judge consumed %d events, trace has %d" % (total, rec["events"] + len(planted) + len(extra)))

    by_key = {}
    seen_planted, judged_extra = set(), {}
    n_recorded_mism = 0
    for m in mism:
        case = m["case"]
        if case.startswith("selftest-"):
            if case == "selftest-good" or all(len(t) >= 2 and t[1] == "unexplained" for t in m["keys"]):
                seen_planted.add(case)
            continue
        if case.startswith("gen"):
            judged_extra[case] = m
        else:
            n_recorded_mism += 1
        src = "generated" if case.startswith("gen") else "recorded"
        for key in _keys(m):
            old = by_key.get(key)
            if old is None or len(m["run"]) < len(old[1]["run"]):
                by_key[key] = (src, m)
    # (selftest-good appears in `mism` only if the judge rejected it)
    if seen_planted != {"selftest-swapped", "selftest-impossible", "selftest-dropped"}:
        raise vlib.ToolError("binding self-check failed: Trace_Joining must accept the generated expectation and reject "
                             "its three corruptions as unexplained; rejected: %s" % sorted(seen_planted))
    # MC_Joining and Trace_Joining must agree on every generated case handed over
    for k, m in enumerate(gen_known + gen_mism):
        case = ("genknown-%d" if m["kind"] == "known" else "generated-%d") % k
        j = judged_extra.get(case)
        if j is None:
            raise vlib.ToolError("MC_Joining and Trace_Joining disagree: generated case [%s] (%s) conforms for the judge"
                                 % (_hex(m["c"]), m["s"]))
        if m["kind"] == "known" and sorted(t[1] for t in j["keys"]) != sorted(m["d"]):
            raise vlib.ToolError("MC_Joining attributes [%s] to %s, Trace_Joining to %s" % (_hex(m["c"]), m["d"], j["keys"]))
    # code-model cases not handed over individually (only three samples per defect set are): their keys
    for ds, n in (rep.get("code_model_by_defects") or {}).items():
        sc, names = ds.split("|", 1)
        for d in names.split("+"):
            if "%s|%s" % (sc, d) not in by_key:
                raise vlib.ToolError("defect key %s|%s counted by the replay but not named by the judge" % (sc, d))

    violations = []
    for key, (src, m) in sorted(by_key.items()):
        violations.append(Violation(key, _what(fonts, m, src), {"source": src, "s": m["s"], "l": m["l"], "text": m["run"],
                                                                 "got": m["got"], "want": m["want"], "key": key}))

    # ---- vacuity ---------------------------------------------------------------------------------
    ef = rep.get("expected_forms") or {}
    forms_seen = {}
    for k, n in ef.items():
        sc, sym, f = k.split("|")
        forms_seen.setdefault(sc, set()).add(f)
    need_forms = {"arab": {"none", "isol", "init", "medi", "fina"},
                  "syrc": {"none", "isol", "init", "medi", "fina", "med2", "fin2", "fin3"}}
    for sc, need in need_forms.items():
        if need - forms_seen.get(sc, set()):
            raise vlib.ToolError("vacuous exploration: %s forms never expected: %s" % (sc, sorted(need - forms_seen.get(sc, set()))))
    pairs = rep.get("pairs") or {}
    need_pairs = {"arab|%s%s" % (a, b) for a in "URDCLJN" for b in "URDCLJN"} | \
                 {"syrc|%s%s" % (a, b) for a in "URDAXJN" for b in "URDAXJN"}
    if need_pairs - set(pairs):
        raise vlib.ToolError("vacuous exploration: joining-class pairs never generated: %s" % sorted(need_pairs - set(pairs))[:10])
    need_alaph = {"fina", "med2", "fin2", "fin3", "isol", "lone(isol|fin2)"}
    if need_alaph - set(rep.get("alaph_rules") or {}):
        raise vlib.ToolError("vacuous exploration: ALAPH rules never reached: %s" % sorted(need_alaph - set(rep["alaph_rules"])))
    of = rec.get("observed_forms") or {}
    rec_pairs = set(rec.get("pairs") or {})
    need_rec = need_pairs | {"syrc|%s%s" % (a, b) for a in "CL" for b in "DRA"} | {"syrc|%s%s" % (a, b) for a in "DRAX" for b in "CL"}
    if need_rec - rec_pairs:
        raise vlib.ToolError("vacuous trace: joining-class pairs never recorded: %s" % sorted(need_rec - rec_pairs)[:10])

    coverage = {
        "states": mc.distinct,
        "transitions": mc.generated,
        "traces_validated_against_impl": n_cases[0] + rec["events"],
        "samples": samples[:2] + [plant[0]],
        "generated_cases": n_cases[0],
        "generated_cases_per_alphabet_lang": rep.get("cases_per_alphabet_lang"),
        "generated_ok_primary_reading": rep.get("ok_primary"),
        "generated_ok_dev_reading": rep.get("ok_dev_reading"),
        "generated_equal_to_code_model_with_named_defects": rep.get("code_model"),
        "generated_code_model_by_defects": rep.get("code_model_by_defects"),
        "generated_unexplained": len(gen_mism),
        "expected_forms_by_script_class": ef,
        "joining_class_pairs_generated": len(pairs),
        "alaph_rules_reached": rep.get("alaph_rules"),
        "recorded_events_judged": rec["events"],
        "recorded_not_conformant": n_recorded_mism,
        "recorded_dev_readings": len(dev["DEV"]),
        "recorded_panics": rec.get("panics"),
        "recorded_shape_errors": rec.get("shape_errors"),
        "recorded_text_reordered_by_preprocessing": rec.get("preprocessing_reordered"),
        "recorded_langs": rec.get("langs"),
        "recorded_events_with_direct_glyphs": rec.get("events_with_direct_glyphs"),
        "recorded_observed_forms": of,
        "recorded_joining_class_pairs": len(rec.get("pairs") or {}),
        "font_glyphs": rep.get("glyphs"),
        "class_table_entries": len(tab),
        "class_table_crate_version": ver,
        "tlc_depth": mc.depth,
        "binding_selfcheck": "impossible generated expectation reported by the harness; the judge accepts a generated "
                             "expectation and rejects three corruptions of it (swapped forms, impossible number, dropped "
                             "glyph) as unexplained; "
                             "MC_Joining and Trace_Joining agree on every generated case handed over",
        "exhaustive": True,
        "explanation": "exhaustive over the bounded model (config %s: every class string up to the bound over four "
                       "alphabets, three language tags); recorded traces are random samples" % cfg,
    }
    vlib.finish(ctx, LEVEL, coverage, violations, ASSUMPTIONS)


def replay(ctx, path):
    d = json.load(open(path))["detail"]
    binp, jt, ver, tab, cls = _prepare(ctx)
    font_path = ctx.path("font.ndjson")
    with open(font_path, "w") as ff:
        vlib.run_tlc(ctx, "MC_Joining", "MC_Joining_font.cfg", "font", workers=1, timeout=300,
                     sink=lambda tag, p: ff.write(p + "\n") if tag == "FONT" else None, env_extra={"X02_JT": jt})
    fonts = Fonts(font_path)
    trace = ctx.path("one_trace.ndjson")
    vlib.run_harness(binp, ["one", font_path, d["s"], d["l"] or "-", trace] + ["%X" % c for c in d["text"]])
    _, mism = vlib.judge_trace(ctx, "Trace_Joining", "Trace_Joining.cfg", trace, "replayjudge", env_extra={"X02_JT": jt})
    hit = False
    for m in mism:
        for key in _keys(m):
            print("REPRODUCED " + _what(fonts, m, key))
            hit = hit or key == d.get("key")
    if not mism:
        print("not reproduced: script %s lang %r text [%s] conforms" % (d["s"], d["l"], _hex(d["text"])))
    return 1 if mism else 0
