"""X06 (extra) - character to glyph mapping of Font::map_glyphs / Font::lookup_glyph_index with variation
selectors and presentation.

Which glyph id and which `used_variation` every character of a text gets, from the cmap encoding records
(including a format 14 Unicode Variation Sequences record), the outline / image tables, the embedded image
filter and the MatchingPresentation mode (specs/GlyphMap.tla, plain lookups through Cmap.tla of C06).

spec -> impl : TLC explores MC_GlyphMap: every text up to the bound over a small alphabet (letters, emoji- and
               text-presentation characters, selectors, unmapped characters) x fonts (cmap configurations x table
               configurations) x mode, one step of the small-step mapping machine per character, and call
               sequences (lookup / map / set filter) on one Font; on every state small-step = closed form and the
               design lemmas hold. It prints the FONTs and one CASE per state (operations + the observations the
               conformant readings allow). The harness encodes the fonts into real sfnt bytes, runs every case on
               a fresh Font and compares by equality.
impl -> spec : repository fonts (abstract font extracted by the harness' own cmap reader) and the generated fonts
               with seeded random texts / lookups / filter changes are recorded and judged by Trace_GlyphMap,
               which also compares allsorts' Emoji_Presentation table with the specification's.
"""
import glob
import json
import os
import re

import vlib
from vlib import Violation

LEVEL = "model_checking"

ASSUMPTIONS = [
    "plain sub-table lookup, Symbol / Mac Roman dispatch and the rank of an encoding record are Cmap.tla (C06), "
    "instantiated; X06 adds the selection rule that the (0, 5) variation-sequences record is not a character map",
    "Dev_UvsSupport: cmap format 14 honoured (OpenType) or not supported at all, the base character is mapped "
    "(Unicode: an unsupported variation sequence shows the base character; allsorts reads no format 14) - either",
    "Dev_SelectorRepertoire: all 256 variation selectors attach, or only VS1 VS2 VS3 VS15 VS16 (allsorts' documented "
    "repertoire) and any other selector is an ordinary character - either",
    "Dev_TextPresentation: under Required text presentation needs glyf / CFF / CFF2 (code comment) or is "
    "unconstrained (letter of the map_glyphs documentation) - either",
    "Dev_VariantPresentation: under Required a selector that requests neither presentation constrains nothing, or "
    "the character's default presentation must be supported - either",
    "text preprocessing is C17's subject: texts are mapped with script `mymr` (no preprocessing); cache purity in "
    "general is C03's, strike selection X03's",
    "repository fonts: the image tables present are taken as parsable; records in formats the harness' reader "
    "does not handle (2, 8, 10, 13) make the event unjudged (counted)",
    "the Emoji_Presentation ranges in GlyphMap.tla are emoji-data.txt 15.0; the driver cross-checks them against "
    "the emoji-test.txt (15.1) shipped with the unicode-width crate when that file is present",
]

NEED_TAGS = ["lead-selector", "double-selector", "vs:0", "vs:1", "vs:15", "vs:16", "uvs:def", "uvs:non", "uvs:none",
             "required:16:pass", "required:16:blocked", "required:15:pass", "required:15:blocked", "required:1:pass",
             "glyph0", "mapped", "enc:Unicode", "enc:Symbol", "enc:AppleRoman", "mode:N", "mode:R", "seq",
             "uvs-record-first-of-platform-0"]


def _hex(cps):
    return " ".join("%04X" % c for c in cps)


def _panic_class(msg):
    m = msg.rsplit(" @ ", 1)
    loc = m[1] if len(m) > 1 else ""
    f = loc.rsplit(":", 1)[0].rsplit("/src/", 1)[-1]
    return re.sub(r"\d+", "N", m[0])[:50].replace(" ", "_") + "@" + f


def spec_ranges():
    src = open(os.path.join(vlib.SPECS, "GlyphMap.tla")).read()
    blk = src[src.index("EmojiPresentationRanges =="):src.index("RECURSIVE InRanges")]
    return [(int(a), int(b)) for a, b in re.findall(r"<<(\d+), (\d+)>>", blk)]


def crosscheck_emoji(ctx):
    """Independent source for the specification's table: emoji-test.txt (UTS #51)."""
    files = sorted(glob.glob(os.path.expanduser("~/.cargo/registry/src/*/unicode-width-*/tests/emoji-test.txt")))
    if not files:
        ctx.note("emoji-test.txt not found: the Emoji_Presentation table of the specification is not cross-checked")
        return 0
    rs = spec_ranges()
    inr = lambda c: any(a <= c <= b for a, b in rs)
    yes, no = set(), set()
    for ln in open(files[-1], encoding="utf-8"):
        m = re.match(r"^([0-9A-F ]+?)\s*;\s*(fully-qualified|component)\s*#", ln)
        if not m:
            continue
        cps = [int(x, 16) for x in m.group(1).split()]
        if len(cps) == 1:
            yes.add(cps[0])
        elif len(cps) == 2 and cps[1] == 0xFE0F and m.group(2) == "fully-qualified":
            no.add(cps[0])
    bad = [c for c in yes if not inr(c)] + [c for c in no if inr(c)]
    if bad:
        raise vlib.ToolError("GlyphMap!EmojiPresentationRanges disagrees with emoji-test.txt for %s" % _hex(sorted(bad)[:12]))
    return len(yes) + len(no)


def _case_detail(evs):
    """Rebuild {src, f, ops} from the events of one case (filter changes are read off `filt`)."""
    ops, filt = [], ["SVG", "sbix", "CBDT"]
    for e in evs:
        a = e["a"]
        if a["filt"] != filt or a["k"] == "filt":
            ops.append({"k": "filt", "t": [], "m": "", "v": 0, "fl": a["filt"]})
            filt = a["filt"]
        if a["k"] != "filt":
            ops.append({"k": a["k"], "t": a["t"], "m": a["m"], "v": a["v"], "fl": []})
    return {"src": evs[0]["a"]["src"], "f": evs[0]["a"]["f"], "ops": ops}


def _describe(e, m):
    a, o = e["a"], e["o"]
    got = " ".join("%04X:g%d/VS%d" % (g["c"], g["g"], g["v"]) if g["c"] >= 0 else "direct:g%d" % g["g"] for g in o["out"])
    want = " ".join("%04X:g{%s}/VS%d" % (g["c"], ",".join(map(str, g["g"])), g["v"]) for g in m.get("want", []))
    f = a["f"]
    return ("%s %s[%s] mode %s sel %s filter %s on %s (records %s%s, tables %s): got [%s], specification (primary reading) [%s]%s" %
            (e["ev"], a["k"], _hex(a["t"]), a["m"], a["v"], ",".join(a["filt"]) or "-", a["src"],
             " ".join("%d/%d/f%d" % (r["p"], r["e"], r["fmt"]) for r in f["recs"]), " first=%s" % f["first"] if f["first"] >= 0 else "",
             ",".join(f["tabs"]) or "-", got, want, (" PANIC " + o["panic"]) if o.get("panic") else ""))


def _judge(ctx, trace, tag, parts):
    other = {"DEV": [], "SKIP": []}
    total, mism = vlib.judge_trace_parallel(ctx, "Trace_GlyphMap", "Trace_GlyphMap.cfg", trace, tag, parts=parts,
                                            timeout=1500, other_tags=other)
    return total, mism, other


def run(ctx):
    binp = vlib.build_harness("x06_glyphmap")
    n_emoji = crosscheck_emoji(ctx)

    # ---- spec -> impl -------------------------------------------------------------------------
    cfg = "MC_GlyphMap_quick.cfg" if ctx.quick else "MC_GlyphMap_thorough.cfg"
    cases_path, fonts_path = ctx.path("cases.ndjson"), ctx.path("fonts.ndjson")
    n_cases, tags, alts_hist = [0], {}, {}
    samples, plant = [], [None]
    with open(cases_path, "w") as fc, open(fonts_path, "w") as ff:
        def sink(tag, payload):
            if tag == "FONT":
                ff.write(payload + "\n")
            elif tag == "CASE":
                fc.write(payload + "\n")
                n_cases[0] += 1
                c = json.loads(payload)
                for t in c["b"]:
                    tags[t] = tags.get(t, 0) + 1
                for alts in c["exp"]:
                    alts_hist[len(alts)] = alts_hist.get(len(alts), 0) + 1
                if len(c["ops"]) == 1 and c["ops"][0]["k"] == "map" and len(c["exp"][0]) == 1:
                    o = c["exp"][0][0]["o"]
                    if len(o) >= 2 and all(g["g"] != [0] for g in o) and len({g["v"] for g in o}) == 2:
                        if plant[0] is None:
                            plant[0] = c
                        elif len(samples) < 2 and n_cases[0] % 997 == 0:
                            samples.append(c)
        mc = vlib.run_tlc(ctx, "MC_GlyphMap", cfg, "mc", workers=6, timeout=600 if ctx.quick else 2400, sink=sink)
        if n_cases[0] == 0 or plant[0] is None:
            raise vlib.ToolError("no CASE lines generated (or none suitable for the binding self-check)")
        # binding self-check (spec -> impl): an impossible expectation must be reported by the harness
        bad = json.loads(json.dumps(plant[0]))
        bad["exp"][0][0]["o"][0]["g"] = [9999]
        bad["id"] = "selftest-corrupt"
        fc.write(json.dumps(bad) + "\n")
    fonts = {v["fi"]: v for v in vlib.read_ndjson(fonts_path)}
    ctx.note("MC_GlyphMap: %d states generated, %d distinct, depth %d, %d cases, %d fonts (%.1fs)" %
             (mc.generated, mc.distinct, mc.depth, n_cases[0], len(fonts), mc.wall))
    missing = [t for t in NEED_TAGS if t not in tags]
    if missing:
        raise vlib.ToolError("vacuous exploration: rules never exercised: %s" % missing)

    mm_path = ctx.path("replay_mismatch_events.ndjson")
    rep = vlib.run_harness(binp, ["replay", fonts_path, cases_path, mm_path])
    ctx.note("replay: %s" % json.dumps(rep))
    gen_events = vlib.read_ndjson(mm_path)
    if not any(e["case"] == "selftest-corrupt" for e in gen_events):
        raise vlib.ToolError("binding self-check failed: the harness accepted a corrupted generated case")
    gen_events = [e for e in gen_events if e["case"] != "selftest-corrupt"]
    gen_cases = {e["case"] for e in gen_events}

    # ---- impl -> spec -------------------------------------------------------------------------
    per_font = 10 if ctx.quick else 40
    trace = ctx.path("trace.ndjson")
    rec = vlib.run_harness(binp, ["record", ctx.seed, per_font, fonts_path, trace], timeout=1500)
    ctx.note("record: %s" % json.dumps(rec))
    if rec["repo_fonts"] < 20 or rec["repo_fonts_with_format14"] < 1 or rec["repo_fonts_with_image_tables"] < 1:
        raise vlib.ToolError("vacuous trace: too few repository fonts (%s)" % json.dumps(rec))
    # planted events for the judge, built from a TLC-generated expectation
    pc = plant[0]
    f = fonts[pc["fi"]]["f"]
    op = pc["ops"][0]
    good = [{"c": g["c"], "g": g["g"][0], "v": g["v"], "u": [g["c"]], "x": 0} for g in pc["exp"][0][0]["o"]]

    def ev(i, case, out):
        return {"i": i, "case": case, "ev": "Map",
                "a": {"src": "gen", "f": f, "filt": ["SVG", "sbix", "CBDT"], "k": "map", "t": op["t"], "m": op["m"], "v": 0},
                "o": {"out": out, "panic": ""}}
    g1 = json.loads(json.dumps(good))
    g1[0]["g"] = 97
    g2 = json.loads(json.dumps(good))
    g2[0]["v"] = 15 if g2[0]["v"] != 15 else 16
    g3 = json.loads(json.dumps(good))
    g3[1]["u"] = [g3[1]["c"], 65039]
    planted = [ev(10 ** 8, "selftest-good", good), ev(10 ** 8 + 1, "selftest-glyph", g1), ev(10 ** 8 + 2, "selftest-used", g2),
               ev(10 ** 8 + 3, "selftest-dropped", good[1:]), ev(10 ** 8 + 4, "selftest-unicodes", g3)]
    with open(trace, "a") as ft:
        for k, x in enumerate(planted + gen_events):
            if x["case"].startswith("gen-"):
                x = dict(x, i=2 * 10 ** 8 + k)
            ft.write(json.dumps(x, separators=(",", ":")) + "\n")
    by_case = {}
    for e in vlib.read_ndjson(trace):
        by_case.setdefault(e["case"], []).append(e)
    total, mism, other = _judge(ctx, trace, "judge", 6 if ctx.quick else 8)
    n_all = rec["events"] + len(planted) + len(gen_events)
    ctx.note("judge: %d events, %d not conformant, %d conformant under a Dev_ reading only, %d unjudged" %
             (total, len(mism), len(other["DEV"]), len(other["SKIP"])))
    if total != n_all:
        raise vlib.ToolError("judge consumed %d events, trace has %d" % (total, n_all))

    by_key, seen_planted, judged_gen = {}, set(), set()
    n_rec_mism = 0
    for m in mism:
        case = m["case"]
        keys = ["|".join(t) for t in m["keys"]]
        if case.startswith("selftest-"):
            if case == "selftest-good" or all("|unexplained|" in k for k in keys):
                seen_planted.add(case)
            continue
        evs = by_case[case]
        e = next(x for x in evs if x["i"] == m["i"])
        if case.startswith("gen-"):
            judged_gen.add(case)
        else:
            n_rec_mism += 1
        for key in keys:
            if key.endswith("|panic"):
                key += "|" + _panic_class(e["o"]["panic"])
            old = by_key.get(key)
            size = len(json.dumps(e["a"]["t"])) + 50 * len(evs) + (0 if e["a"]["src"] == "gen" else 1000)
            if old is None or size < old[0]:
                by_key[key] = (size, e, m, evs)
    if seen_planted != {"selftest-glyph", "selftest-used", "selftest-dropped", "selftest-unicodes"}:
        raise vlib.ToolError("binding self-check failed: Trace_GlyphMap must accept the generated expectation and reject its "
                             "four corruptions as unexplained; rejected: %s" % sorted(seen_planted))
    # MC_GlyphMap and Trace_GlyphMap must agree: a case the replay rejected is rejected by the judge
    if gen_cases - judged_gen:
        raise vlib.ToolError("MC_GlyphMap and Trace_GlyphMap disagree: generated cases %s conform for the judge" %
                             sorted(gen_cases - judged_gen)[:5])

    violations = []
    for key, (_, e, m, evs) in sorted(by_key.items()):
        d = _case_detail(evs)
        d["key"] = key
        violations.append(Violation(key, "%s: %s" % (key, _describe(e, m)), d))

    dev_hist = {}
    for d in other["DEV"]:
        dev_hist[d["r"]] = dev_hist.get(d["r"], 0) + 1
    coverage = {
        "states": mc.distinct,
        "transitions": mc.generated,
        "traces_validated_against_impl": n_cases[0] + rec["events"],
        "samples": samples[:2] + [plant[0]],
        "generated_cases": n_cases[0],
        "generated_fonts": len(fonts),
        "generated_operations": rep.get("ops"),
        "generated_cases_not_matching_any_reading": rep.get("mismatched_cases", 0) - 1,
        "generated_mismatch_signatures": rep.get("mismatch_signatures"),
        "generated_mismatched_cases_judged": rep.get("mismatched_cases_judged", 0) - 1,
        "generated_matched_by_reading": rep.get("matched_by_reading"),
        "generated_alternatives_per_operation": {str(k): v for k, v in sorted(alts_hist.items())},
        "rule_tags_exercised": tags,
        "recorded_events_judged": rec["events"],
        "recorded_cases": rec["cases"],
        "recorded_not_conformant": n_rec_mism,
        "recorded_conformant_under_dev_reading_only": dev_hist,
        "recorded_unjudged_reader_format": len(other["SKIP"]),
        "recorded_panics": rec.get("panics"),
        "repository_fonts": rec["repo_fonts"],
        "repository_fonts_skipped": rec["repo_fonts_skipped"],
        "repository_fonts_with_format14": rec["repo_fonts_with_format14"],
        "repository_fonts_with_image_tables": rec["repo_fonts_with_image_tables"],
        "repository_encoding_records": rec.get("encoding_records"),
        "emoji_test_characters_crosschecked": n_emoji,
        "tlc_depth": mc.depth,
        "binding_selfcheck": "an impossible generated expectation is reported by the harness; the judge accepts a generated "
                             "expectation and rejects four corruptions of it (glyph, used variation, dropped glyph, unicodes) as "
                             "unexplained; every generated case the replay rejects is rejected by the judge",
        "exhaustive": True,
        "explanation": "exhaustive over the bounded model (config %s); recorded traces are seeded random samples" % cfg,
    }
    vlib.finish(ctx, LEVEL, coverage, violations, ASSUMPTIONS)


def replay(ctx, path):
    d = json.load(open(path))["detail"]
    binp = vlib.build_harness("x06_glyphmap")
    case = ctx.path("one_case.json")
    json.dump({"src": d["src"], "f": d["f"], "ops": d["ops"]}, open(case, "w"))
    trace = ctx.path("one_trace.ndjson")
    vlib.run_harness(binp, ["one", case, trace])
    evs = {e["i"]: e for e in vlib.read_ndjson(trace)}
    _, mism = vlib.judge_trace(ctx, "Trace_GlyphMap", "Trace_GlyphMap.cfg", trace, "replayjudge")
    for m in mism:
        for t in m["keys"]:
            print("REPRODUCED %s: %s" % ("|".join(t), _describe(evs[m["i"]], m)))
    if not mism:
        print("not reproduced: %s ops %s conform" % (d["src"], json.dumps(d["ops"])))
    return 1 if mism else 0
