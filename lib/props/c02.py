"""C02 - shaping is total and yields well-formed glyph runs.

TLC (MC_Shaper): (a) explores the engine model of Shaper.tla - map_glyphs, primitive substitution /
positioning steps, fail-and-forge-ahead, clamp, glyph_positions - and checks that every primitive
preserves the clauses of the property; (b) enumerates every syllable-class string up to the bound
(fam "syl") and (c) every text-shape-class string of the default shaper up to its bound (fam "txt":
ligating letter, later ligature component, substituted letter, decomposing letter, digit, ASCII
slash, U+2044, space, two marks, joiner), one CASE per string.
Harness (c02_shape): concretises each syllable string per script and runs it through the repository
fonts of the script under feature / kerning / tuple / direction / vertical configurations; maps each
text string onto the glyph roles of every systematically synthesized font (c02_shape/synth.rs:
frac + length-changing features, ligatures of 2..4 components x LigatureAttach tables with fewer /
equal / more component records, MarkBase / MarkMark class-count boundaries, cursive chains, context
lookups that shorten / lengthen the run at its ends, empty coverages, last / missing glyph ids, GDEF
absent, kern fallback, damaged LangSys, alternates, extreme values, vert / vrt2, FeatureVariations)
whose roles cover the string, and onto the repository fonts of the default shaper under the
configurations with a special-cased path (frac, numeric, vertical, alternates, GPOS-led custom
lists); then repeats a sample on copies of the fonts whose GSUB / GPOS / GDEF / kern / morx bytes are
corrupted. One Font object serves all consecutive calls on a font (also after a call that returned
Err). Every sequence map_glyphs -> shape -> glyph_positions runs supervised (panic, CPU budget,
process death are data) and is projected into one event.
TLC (Trace_Shaper): judges every event with Shaper!CallFailures.
"""
import concurrent.futures
import json
import os
import re

import vlib
from vlib import Violation

LEVEL = "exploration"

ASSUMPTIONS = [
    "totality is observed, not proved: a call that returns within the 2 s thread-CPU budget on every explored "
    "input is taken as terminating; the budget is CPU time of the calling thread, not wall clock",
    "'the run submitted for shaping' is the output of Font::map_glyphs on the text (its unicodes), as in the "
    "documented calling sequence map_glyphs -> shape -> glyph_positions",
    "well-formed fonts = the unmodified repository fonts that Font::new loads and the synthesized fonts whose "
    "tables are structurally valid and name existing glyphs only; not well-formed (GidBelowCount not demanded) = "
    "the same fonts with seeded byte overwrites / length truncations inside GSUB, GPOS, GDEF, kern, morx, and the "
    "synthesized fonts that name a missing glyph id, a mark class >= the class count, a feature index beyond the "
    "FeatureList or a base array shorter than its coverage",
    "the harness is built with overflow-checks and debug-assertions on (as `cargo test` builds allsorts): an "
    "arithmetic overflow inside allsorts is a panic",
    "synthesized fonts are written by the harness's own encoders (copies of the C04 / C05 encoders); allsorts "
    "silently skips a lookup subtable it cannot read, so the vacuity counters measured on the returned runs, not "
    "the catalogue, say which table shapes were exercised",
    "one Font object is reused for consecutive calls on the same font bytes (a fresh one after a panic); "
    "independence from call history is property C03",
    "attachment indices above 2^30 are logged as 2^30",
]

# facts measured on the returned runs (o.f) that must occur in every run of the check: each names a
# special-cased path or a table boundary that an earlier version of the check never reached
NEEDED_FACTS = [
    # fraction path of the default shaper (gsub_apply_lookups_frac)
    "frac_requested_on_fraction_fracfont", "frac_fraction_has_prefix_fracfont", "frac_prefix_ligated_fracfont",
    "frac_prefix_decomposed_fracfont", "frac_prefix_shrunk_fracfont", "frac_fraction_ends_run_fracfont",
    "frac_requested_on_fraction", "text_u2044_between_digits",
    # MarkLigPos component index against the number of component records
    "marklig_component_lt_records", "marklig_component_eq_records", "marklig_component_gt_records",
    "marklig_no_component_record", "marklig_mark_attached_to_ligature", "marklig_array_short_err",
    # MarkBase / MarkMark boundaries
    "mark_class_ge_class_count_err", "mark_base_array_short_err", "mark_to_mark_attached",
    "mark_left_unattached_null_anchor_font",
    # cursive, contextual, vertical, alternates, tuples, edge tables
    "cursive_attachment", "cursive_chain_of_3", "run_length_changed_at_start", "run_length_changed_at_end", "run_emptied",
    "vertical_layout", "vert_alternate_in_vertical_layout", "alternate_first_selected", "alternate_second_selected",
    "feature_variation_substitution_applied", "last_glyph_id_in_run", "missing_glyph_id_replaced",
    "kern_table_fallback_applied", "mark_overprint_fallback", "gdef_absent_nontrivial", "empty_coverage_font_shaped",
    "bad_langsys_err", "custom_fina_on_emptied_run",
    # repeated calls on one Font object
    "call_on_used_font", "call_on_font_after_err", "err_again_on_same_font",
    # every family of synthesized fonts does something
    "synth_frac_nontrivial", "synth_marklig_nontrivial", "synth_mark_nontrivial", "synth_curs_nontrivial",
    "synth_ctx_nontrivial", "synth_edge_nontrivial", "synth_extreme_nontrivial", "synth_vert_nontrivial",
    "synth_tuple_nontrivial",
]

FAMILY = {"arab": "Arabic", "syrc": "Syriac", "khmr": "Khmer", "mymr": "Myanmar", "mym2": "Myanmar",
          "thai": "ThaiLao", "lao ": "ThaiLao"}
for _t in ("deva", "beng", "guru", "gujr", "orya", "taml", "telu", "knda", "mlym", "sinh"):
    FAMILY[_t] = "Indic"


def _panic_class(msg):
    m = msg.rsplit(" @ ", 1)
    loc = m[1] if len(m) > 1 else ""
    f = loc.rsplit(":", 1)[0].rsplit("/src/", 1)[-1]
    cls = re.sub(r"\s+", "_", re.sub(r"\d+", "N", m[0]).strip())[:60]
    return "%s|%s" % (f, cls)


def _key(m):
    a, o = m["a"], m["o"]
    fam = FAMILY.get(a["script"], "Default")
    font_state = "intact" if a["wf"] else "corrupt"
    fails = sorted(m["fails"])
    tot = [f for f in fails if f.startswith("Total.")]
    if tot:
        site = _panic_class(o["msg"]) if tot[0].endswith("Panic") else "-"
        return "%s|%s|%s|%s" % (fam, font_state, tot[0], site)
    return "%s|%s|%s" % (fam, font_state, ",".join(fails))


def _hex(cps):
    return " ".join("%04X" % c for c in cps)


def _mk_viol(m):
    a, o = m["a"], m["o"]
    what = ("font=%s%s script=%r lang=%r features=%s kerning=%s tuple=%s dir=%s text=[%s]: %s; map=%s shape=%s pos=%s %s"
            % (a["font"], (" corrupted(" + a["corrupt"] + ")") if a["corrupt"] else "", a["script"], a["lang"], a["feat"],
               a["kern"], a["tuple"], a["dir"], _hex(a["text"]), ",".join(sorted(m["fails"])), o["map"], o["shape"],
               o["pos"], o["msg"].replace("\n", " ")[:160]))
    return Violation(_key(m), what, m)


def _chunks(ctx, files, max_lines):
    """Split the shard traces into part files of at most max_lines lines."""
    parts, n_events = [], 0
    ctx.corrupt_events = 0
    for f in files:
        k, cur, fo = 0, 0, None
        with open(f) as fi:
            for ln in fi:
                if fo is None or cur >= max_lines:
                    if fo:
                        fo.close()
                    p = "%s.part%d" % (f, k)
                    k += 1
                    cur = 0
                    fo = open(p, "w")
                    parts.append(p)
                fo.write(ln)
                if '"wf":false' in ln:
                    ctx.corrupt_events += 1
                cur += 1
                n_events += 1
        if fo:
            fo.close()
    return parts, n_events


def _judge(ctx, parts, tag, pool=8):
    def one(kf):
        k, f = kf
        return vlib.run_tlc(ctx, "Trace_Shaper", "Trace_Shaper.cfg", "%s.%d" % (tag, k), workers=1, timeout=1800,
                            xmx="4g", env_extra={"TRACE": f})
    total, mism = 0, []
    with concurrent.futures.ThreadPoolExecutor(max_workers=pool) as ex:
        for res in ex.map(one, list(enumerate(parts))):
            total += res.distinct - 1
            mism.extend(json.loads(x) for x in res.printed.get("MISMATCH", []))
    return total, mism


def _planted(base):
    """Four corrupted copies of a real event with an attachment: each must be rejected for its own clause."""
    out = []
    n = len(base["o"]["run"])

    def cp(name, i):
        e = json.loads(json.dumps(base))
        e["case"] = "selftest-" + name
        e["i"] = 10 ** 9 + i
        return e
    e = cp("attach", 0)
    for g in e["o"]["run"]:
        if g[2] in ("mark", "over", "curs"):
            g[3] = n
            break
    out.append(e)
    e = cp("chars", 1)
    e["o"]["run"][0][1] = e["o"]["run"][0][1] + [0x10FFFD]
    out.append(e)
    e = cp("gid", 2)
    e["o"]["run"][0][0] = e["a"]["ng"]
    out.append(e)
    e = cp("panic", 3)
    e["o"].update({"shape": "Panic", "run": [], "pos": "Skipped", "npos": -1, "msg": "planted @ /repo/src/x.rs:1"})
    out.append(e)
    e = cp("npos", 4)
    e["o"]["npos"] = n + 1
    out.append(e)
    return out, {"selftest-attach": "AttachInRun", "selftest-chars": "CharsFromInput", "selftest-gid": "GidBelowCount",
                 "selftest-panic": "Total.shape.Panic", "selftest-npos": "PositionsLength"}


def run(ctx):
    binp = vlib.build_harness("c02_shape")
    cfg = "MC_Shaper_quick.cfg" if ctx.quick else "MC_Shaper_thorough.cfg"
    cases_path = ctx.path("cases.ndjson")
    unsorted_path = ctx.path("cases.unsorted.ndjson")
    n_cases = [0]
    with open(unsorted_path, "w") as fc:
        def sink(tag, payload):
            if tag == "CASE":
                fc.write(payload + "\n")
                n_cases[0] += 1
        mc = vlib.run_tlc(ctx, "MC_Shaper", cfg, "mc", workers=8, timeout=600 if ctx.quick else 1500, sink=sink)
    ctx.note("MC_Shaper: %d states generated, %d distinct, depth %d, %d class strings (%.1fs)" %
             (mc.generated, mc.distinct, mc.depth, n_cases[0], mc.wall))
    if n_cases[0] == 0:
        raise vlib.ToolError("no CASE lines generated")
    # TLC's workers print in a different order on every run; the plan hashes case indices, so the
    # case file is put in a canonical order (the run depends on the seed only)
    import subprocess
    subprocess.check_call(["sort", "-o", cases_path, unsorted_path], env=dict(os.environ, LC_ALL="C"))
    os.remove(unsorted_path)

    outdir = ctx.path("traces")
    nworkers = 8
    rep = vlib.run_harness(binp, ["run", ctx.tier, ctx.seed, cases_path, outdir, nworkers], timeout=3000)
    ctx.note("harness: %s" % json.dumps(rep))
    shard_files = sorted(os.path.join(outdir, f) for f in os.listdir(outdir) if re.match(r"trace\.\d+\.ndjson$", f))
    parts, n_events = _chunks(ctx, shard_files, 60000)
    if n_events != rep["plan"]:
        raise vlib.ToolError("plan has %d jobs, traces hold %d events" % (rep["plan"], n_events))

    # binding self-check: corrupted copies of a real event must be rejected, each for its own clause
    base = None
    samples = []
    with open(parts[0]) as f:
        for ln in f:
            e = json.loads(ln)
            run_ = e["o"]["run"]
            if e["o"]["shape"] == "Ok" and e["o"]["pos"] == "Ok" and e["a"]["wf"] and len(run_) >= 2 and \
                    any(g[2] in ("mark", "over", "curs") for g in run_):
                if base is None:
                    base = e
                elif len(samples) < 2 and e["a"]["cls"] != base["a"]["cls"]:
                    samples.append(e)
                else:
                    break
    if base is None:
        raise vlib.ToolError("no event with an attachment in the first part: trace is vacuous")
    planted, expect = _planted(base)
    pp = ctx.path("planted.ndjson")
    vlib.write_ndjson(pp, planted + [base])
    parts.append(pp)

    total, mism = _judge(ctx, parts, "judge", pool=8)
    ctx.note("judge: %d events, %d non-conforming" % (total, len(mism)))
    for f in parts:
        if ".part" in os.path.basename(f):
            os.remove(f)  # copies of the shard traces (which stay for triage)
    if total != n_events + len(planted) + 1:
        raise vlib.ToolError("judge consumed %d events, expected %d" % (total, n_events + len(planted) + 1))

    seen = {}
    by_key = {}
    for m in mism:
        if m["case"].startswith("selftest-"):
            seen[m["case"]] = m["fails"]
            continue
        k = _key(m)
        # the smallest reproduction per key
        if k not in by_key or len(m["a"]["text"]) < len(by_key[k]["a"]["text"]):
            by_key[k] = m
        by_key[k].setdefault("_count", 0)
    counts = {}
    for m in mism:
        if not m["case"].startswith("selftest-"):
            counts[_key(m)] = counts.get(_key(m), 0) + 1
    for name, clause in expect.items():
        if clause not in seen.get(name, []):
            raise vlib.ToolError("binding self-check failed: planted event %s was not rejected for %s (got %s)"
                                 % (name, clause, seen.get(name)))
    violations = []
    for k, m in sorted(by_key.items()):
        m.pop("_count", None)
        m["occurrences_in_this_run"] = counts[k]
        m["seed"] = ctx.seed
        violations.append(_mk_viol(m))

    needed = ["runs_with_attachment", "runs_with_inserted_dotted_circle", "runs_with_ligature", "shape_err",
              "jobs_on_synthesized_fonts", "jobs_text_classes_on_repository_fonts"] + ["f_" + k for k in NEEDED_FACTS]
    vac = [k for k in needed if not rep.get(k)]
    if vac:
        # a call that panics returns no run, so a violation can empty a counter: the violation is the
        # verdict then, and the vacuity of the rest is a tool error only when nothing new was found
        known = vlib.load_known(ctx.prop)
        if any(v.key not in known for v in violations):
            ctx.note("vacuity counters at zero (calls that would feed them did not return): %s" % vac)
        else:
            raise vlib.ToolError("vacuous exploration: no event with %s" % vac)

    coverage = {
        "evaluations": n_events,
        "distinct_nontrivial": rep.get("nontrivial", 0),
        "rule": "every syllable-class string up to the bound (TLC) x scripts x repository fonts of the script x feature / "
                "kerning / tuple / direction / vertical configurations as laid out by the deterministic plan in "
                "c02_shape.rs (short strings: every font and feature configuration; longer ones: fonts and "
                "configurations drawn by seeded hash); every text-class string up to the bound (TLC) x every "
                "synthesized font whose glyph roles cover it (short strings and fractions on frac fonts: all "
                "configurations of the font, longer ones: one) and x the repository fonts of the default shaper "
                "(short strings: six special-path configurations, strings with a fraction: the frac configuration, "
                "the rest sampled by seeded hash); plus seeded corruptions of the layout tables of repository and "
                "synthesized fonts; each job is distinct by construction; a job is non-trivial when shaping changed "
                "the glyph sequence, placed or attached a glyph, or returned Err",
        "samples": [base] + samples,
        "states": mc.distinct,
        "transitions": mc.generated,
        "traces_validated_against_impl": n_events,
        "class_strings": n_cases[0],
        "fonts": rep.get("fonts"),
        "synthesized_fonts": rep.get("synth_fonts"),
        "events_on_synthesized_fonts": rep.get("jobs_on_synthesized_fonts"),
        "events_text_classes": rep.get("jobs_text_classes"),
        "facts_reached": {k[2:]: v for k, v in sorted(rep.items()) if k.startswith("f_")},
        "events_on_corrupted_fonts": ctx.corrupt_events,
        "harness_counters": rep,
        "non_conforming_events": len(mism) - len(seen),
        "distinct_violation_keys": len(by_key),
        "binding_selfcheck": "five corrupted copies of a recorded event rejected, each for its own clause",
        "exhaustive": False,
        "explanation": "engine model exhaustively checked by TLC (config %s); class strings exhaustive up to the bound, "
                       "their concretisation and the font/configuration product are sampled as described in rule; "
                       "synthesized fonts x text-class strings over their roles are exhaustive up to the bound" % cfg,
    }
    vlib.finish(ctx, LEVEL, coverage, violations, ASSUMPTIONS)


def replay(ctx, path):
    d = json.load(open(path))["detail"]
    binp = vlib.build_harness("c02_shape")
    a = dict(d["a"])
    a["seed"] = d.get("seed", ctx.seed)
    import subprocess
    env = dict(os.environ, VERIF_REPO=vlib.REPO)
    p = subprocess.run([binp, "exec", json.dumps(a)], cwd=vlib.VERIF, env=env, stdout=subprocess.PIPE,
                       stderr=subprocess.PIPE, text=True, timeout=600)
    lines = [l for l in p.stdout.splitlines() if l.startswith("{")]
    if p.returncode != 0 or not lines:
        print("REPRODUCED (process died, exit %s): %s" % (p.returncode, p.stderr[-500:]))
        return 1
    ev = json.loads(lines[-1])
    trace = ctx.path("one.ndjson")
    vlib.write_ndjson(trace, [ev])
    _, mism = _judge(ctx, [trace], "replayjudge", pool=1)
    for m in mism:
        print("REPRODUCED key=%s %s" % (_key(m), _mk_viol(m).what))
    if not mism:
        print("not reproduced: %s" % vlib.short(ev["o"], 600))
    return 1 if mism else 0
