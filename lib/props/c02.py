"""C02 - shaping is total and yields well-formed glyph runs.

TLC (MC_Shaper): (a) explores the engine model of Shaper.tla - map_glyphs, primitive substitution /
positioning steps, fail-and-forge-ahead, clamp, glyph_positions - and checks that every primitive
preserves the clauses of the property; (b) enumerates every syllable-class string up to the bound
(fam "syl") and (c) every text-shape-class string of the default shaper up to its bound (fam "txt":
ligating letter, later ligature component, substituted letter, decomposing letter, digit, ASCII
slash, U+2044, space, two marks, joiner), one CASE per string.
Harness (c02_shape): concretises each syllable string per script and runs it through the repository
fonts of the script under feature / kerning / tuple / direction / vertical configurations; maps each
text string onto the glyph roles of every systematically synthesized font (c02_shape/synth.rs:
frac + length-changing features, ligatures of 2..4 components x LigatureAttach tables with fewer /
equal / more component records, MarkBase / MarkMark class-count boundaries, cursive chains, context
lookups that shorten / lengthen the run at its ends, empty coverages, last / missing glyph ids, GDEF
absent, kern fallback, damaged LangSys, alternates, extreme values, vert / vrt2, FeatureVariations)
whose roles cover the string, and onto the repository fonts of the default shaper under the
configurations with a special-cased path (frac, numeric, vertical, alternates, GPOS-led custom
lists); then repeats a sample on copies of the fonts whose GSUB / GPOS / GDEF / kern / morx bytes are
corrupted. One Font object serves all consecutive calls on a font (also after a call that returned
Err). Every sequence map_glyphs -> shape -> glyph_positions runs supervised (panic, CPU budget,
process death are data) and is projected into one event.
TLC (MC_ShaperFonts): enumerates font CASES - graphs of contextual lookups that name each other (cycles
of 1..n lookups through GSUB type 5 / 6, GPOS type 7 / 8 and Extension lookups, chains one below / at / above
the recursion limit) together with a model of the recursion budget that bounds them (invariants Bounded,
Outcome, a decreasing measure inside Next), and the parameters of fonts shaped through `morx` (ligature
subtables: components x LAST / STORE arrangements x DONT_ADVANCE; contextual, noncontextual, several chains;
named tables that are adversarial for totality).  c02_shape/synth2.rs turns each case into a font that is
shaped with every text-class string over its roles; seeded random morx programs are added.
A worker forks one child per stretch of jobs; a shared counter tells which job a dead child (stack overflow,
abort, kill) or a child over its CPU budget was executing: that job gets an Abort / Timeout event.
Round 4: MC_ShaperFonts also enumerates features whose lookup list has a boundary size (fam "cnt": 2^k - 1, 2^k,
2^k + 1 lookup indices around the inline capacity of allsorts' scratch vector, ascending / descending / one lookup
listed n times, GSUB and GPOS); MC_ShaperCalls enumerates every sequence of up to SeqLen calls on ONE Font object
(map_glyphs with MatchingPresentation NotRequired / Required over texts without / with one / with two U+25CC /
with U+25CC + variation selector, with or without shape + glyph_positions) beside a model of the one-entry glyph
cache (invariants PutOnlyWhenEmpty, CacheHoldsPlain); each sequence is executed on a fresh Font object of several
fonts, one event per step.  A quarter of all other jobs map their text with MatchingPresentation::Required.
TLC (Trace_Shaper): judges every event with Shaper!CallFailures.
"""
import concurrent.futures
import json
import os
import re

import vlib
from vlib import Violation

LEVEL = "exploration"

ASSUMPTIONS = [
    "totality is observed, not proved: a call that returns within the 2 s thread-CPU budget on every explored "
    "input is taken as terminating; the budget is CPU time of the calling thread, not wall clock",
    "'the run submitted for shaping' is the output of Font::map_glyphs on the text (its unicodes), as in the "
    "documented calling sequence map_glyphs -> shape -> glyph_positions",
    "well-formed fonts = the unmodified repository fonts that Font::new loads and the synthesized fonts whose "
    "tables are structurally valid and name existing glyphs only; not well-formed (GidBelowCount not demanded) = "
    "the same fonts with seeded byte overwrites / length truncations inside GSUB, GPOS, GDEF, kern, morx, and the "
    "synthesized fonts that name a missing glyph id, a mark class >= the class count, a feature index beyond the "
    "FeatureList or a base array shorter than its coverage",
    "the harness is built with overflow-checks and debug-assertions on (as `cargo test` builds allsorts): an "
    "arithmetic overflow inside allsorts is a panic",
    "synthesized fonts are written by the harness's own encoders (copies of the C04 / C05 encoders); allsorts "
    "silently skips a lookup subtable it cannot read, so the vacuity counters measured on the returned runs, not "
    "the catalogue, say which table shapes were exercised",
    "one Font object is reused for consecutive calls on the same font bytes (a fresh one after a panic); "
    "independence from call history is property C03",
    "attachment indices above 2^30 are logged as 2^30",
    "fonts shaped through morx (tables of at most eight states, texts of at most six glyphs) have a thread-CPU "
    "budget of 0.3 s per call sequence; after two timeouts or three process deaths on one font (one corruption of "
    "a font) its remaining jobs are recorded as not executed, after 20 timeouts / 1000 deaths in one shard (1/48 of the plan) the rest of the shard",
    "a lookup graph with a cycle and a morx table with a DONT_ADVANCE cycle are loadable fonts inside the "
    "quantifier (structurally valid tables); which of Ok / Err they get is not demanded, only a returned "
    "well-formed run; the deleted glyph 0xFFFF of AAT is a glyph id at or above the glyph count",
]

# facts measured on the returned runs (o.f) that must occur in every run of the check: each names a
# special-cased path or a table boundary that an earlier version of the check never reached
NEEDED_FACTS = [
    # fraction path of the default shaper (gsub_apply_lookups_frac)
    "frac_requested_on_fraction_fracfont", "frac_fraction_has_prefix_fracfont", "frac_prefix_ligated_fracfont",
    "frac_prefix_decomposed_fracfont", "frac_prefix_shrunk_fracfont", "frac_fraction_ends_run_fracfont",
    "frac_requested_on_fraction", "text_u2044_between_digits",
    # MarkLigPos component index against the number of component records
    "marklig_component_lt_records", "marklig_component_eq_records", "marklig_component_gt_records",
    "marklig_no_component_record", "marklig_mark_attached_to_ligature", "marklig_array_short_err",
    # MarkBase / MarkMark boundaries
    "mark_class_ge_class_count_err", "mark_base_array_short_err", "mark_to_mark_attached",
    "mark_left_unattached_null_anchor_font",
    # cursive, contextual, vertical, alternates, tuples, edge tables
    "cursive_attachment", "cursive_chain_of_3", "run_length_changed_at_start", "run_length_changed_at_end", "run_emptied",
    "vertical_layout", "vert_alternate_in_vertical_layout", "alternate_first_selected", "alternate_second_selected",
    "feature_variation_substitution_applied", "last_glyph_id_in_run", "missing_glyph_id_replaced",
    "kern_table_fallback_applied", "mark_overprint_fallback", "gdef_absent_nontrivial", "empty_coverage_font_shaped",
    "bad_langsys_err", "custom_fina_on_emptied_run",
    # repeated calls on one Font object
    "call_on_used_font", "call_on_font_after_err", "err_again_on_same_font",
    # every family of synthesized fonts does something
    "synth_frac_nontrivial", "synth_marklig_nontrivial", "synth_mark_nontrivial", "synth_curs_nontrivial",
    "synth_ctx_nontrivial", "synth_edge_nontrivial", "synth_extreme_nontrivial", "synth_vert_nontrivial",
    "synth_tuple_nontrivial",
    # second strengthening: lookup graphs and morx (measured on returned runs, as the ones above)
    "synth_lkp_nontrivial", "synth_morx_nontrivial", "synth_morxadv_nontrivial", "synth_morxrnd_nontrivial",
    "lkp_shape_err", "lkp_chain_terminal_applied", "morx_ligature_formed", "morx_ligature_at_run_end",
    "morx_ligature_at_run_start", "morx_ligature_inside_run", "morx_contextual_substitution",
    "morx_noncontextual_substitution", "morx_shape_err",
    # round 4: lookup lists of boundary sizes
    "synth_cnt_nontrivial", "cnt_every_lookup_of_the_list_applied", "cnt_every_lookup_applied_list_above_inline_capacity",
]

# counters of the PLAN (computed by the harness from its inputs: fonts built from the TLC font cases x the TLC
# text strings), required in every run whatever allsorts returns
NEEDED_PLAN = [
    "plan_fonts_lkp", "plan_fonts_morx", "plan_fonts_morxadv", "plan_fonts_morxrnd",
    "plan_jobs_lkp_gsub_cycle", "plan_jobs_lkp_gpos_cycle", "plan_jobs_lkp_gsub_chain", "plan_jobs_lkp_gpos_chain",
    "plan_jobs_lkp_context_only", "plan_jobs_lkp_chain_only", "plan_jobs_lkp_mixed_context_chain",
    "plan_jobs_lkp_through_extension", "plan_jobs_lkp_two_records_per_node", "plan_jobs_lkp_text_matches",
    "plan_jobs_lkp_cycle_len1", "plan_jobs_lkp_cycle_len2", "plan_jobs_lkp_cycle_len3",
    "plan_jobs_lkp_chain_len2", "plan_jobs_lkp_chain_len3", "plan_jobs_lkp_chain_len4",
    "plan_corrupt_jobs_lkp", "plan_corrupt_jobs_morx",
    "plan_jobs_morx_ligature", "plan_jobs_morx_contextual", "plan_jobs_morx_noncontextual", "plan_jobs_morx_several_chains",
    "plan_jobs_morx_lig_components_2", "plan_jobs_morx_lig_components_3", "plan_jobs_morx_lig_components_4",
    "plan_jobs_morx_lig_pattern_L", "plan_jobs_morx_lig_pattern_LS", "plan_jobs_morx_lig_pattern_SM",
    "plan_jobs_morx_lig_pattern_SA", "plan_jobs_morx_lig_pattern_N", "plan_jobs_morx_lig_pattern_NS",
    "plan_jobs_morx_lig_action_entry_dont_advance", "plan_jobs_morx_lig_component_pushed_through_dont_advance",
    "plan_jobs_morx_lig_failure_dont_advance",
    "plan_jobs_morx_lig_skipped_class", "plan_jobs_morx_action_list_without_last",
    "plan_jobs_morx_ligature_at_start", "plan_jobs_morx_ligature_in_middle", "plan_jobs_morx_ligature_at_end",
    "plan_jobs_morx_ligature_at_end_dont_advance", "plan_jobs_morx_ligature_whole_text",
    "plan_jobs_morx_components_left_at_end_of_text", "plan_jobs_morx_ctx_dont_advance_chain",
    "plan_jobs_morx_dont_advance_cycle", "plan_jobs_morx_dont_advance_chain_terminating",
    "plan_jobs_morx_index_at_table_end", "plan_jobs_morx_deleted_glyph", "plan_jobs_morx_random_program",
    "plan_jobs_morx_header_count_or_length_lies",
    # round 4: lookup lists of boundary sizes; presentation; call sequences on one Font object
    "plan_fonts_cnt", "plan_jobs_cnt_gsub", "plan_jobs_cnt_gpos", "plan_jobs_cnt_list_below_inline_capacity",
    "plan_jobs_cnt_list_at_inline_capacity", "plan_jobs_cnt_list_one_above_inline_capacity",
    "plan_jobs_cnt_list_above_inline_capacity", "plan_jobs_cnt_arr_distinct", "plan_jobs_cnt_arr_desc", "plan_jobs_cnt_arr_same",
    "plan_jobs_required_presentation", "plan_jobs_required_presentation_dotted_circle",
    "plan_jobs_required_presentation_dotted_circle_on_used_font",
    "plan_call_sequences", "plan_jobs_seq", "plan_jobs_seq_map_only", "plan_jobs_seq_required_dotted_circle_on_filled_cache",
    "plan_jobs_seq_required_dotted_circle_on_empty_cache", "plan_jobs_seq_plain_dotted_circle_on_filled_cache",
]

FAMILY = {"arab": "Arabic", "syrc": "Syriac", "khmr": "Khmer", "mymr": "Myanmar", "mym2": "Myanmar",
          "thai": "ThaiLao", "lao ": "ThaiLao"}
for _t in ("deva", "beng", "guru", "gujr", "orya", "taml", "telu", "knda", "mlym", "sinh"):
    FAMILY[_t] = "Indic"


def _panic_class(msg):
    m = msg.rsplit(" @ ", 1)
    loc = m[1] if len(m) > 1 else ""
    f = loc.rsplit(":", 1)[0].rsplit("/src/", 1)[-1]
    cls = re.sub(r"\s+", "_", re.sub(r"\d+", "N", m[0]).strip())[:60]
    return "%s|%s" % (f, cls)


def _key(m):
    a, o = m["a"], m["o"]
    fam = FAMILY.get(a["script"], "Default")
    font_state = "intact" if a["wf"] else "corrupt"
    fails = sorted(m["fails"])
    tot = [f for f in fails if f.startswith("Total.")]
    # how the font is shaped (GSUB | morx | morx/<subtable type> | none): a call that does not return has no
    # panic site, a run that fails a clause has none either
    via = a.get("via") or "-"
    if tot:
        site = _panic_class(o["msg"]) if tot[0].endswith("Panic") else via
        return "%s|%s|%s|%s" % (fam, font_state, tot[0], site)
    return "%s|%s|%s|%s" % (fam, font_state, ",".join(fails), via)


def _hex(cps):
    return " ".join("%04X" % c for c in cps)


def _mk_viol(m):
    a, o = m["a"], m["o"]
    what = ("font=%s%s script=%r lang=%r features=%s kerning=%s tuple=%s dir=%s text=[%s]: %s; map=%s shape=%s pos=%s %s"
            % (a["font"], (" corrupted(" + a["corrupt"] + ")") if a["corrupt"] else "", a["script"], a["lang"], a["feat"],
               a["kern"], a["tuple"], a["dir"], _hex(a["text"]), ",".join(sorted(m["fails"])), o["map"], o["shape"],
               o["pos"], o["msg"].replace("\n", " ")[:160]))
    return Violation(_key(m), what, m)


def _chunks(ctx, files, max_lines):
    """Split the shard traces into part files of at most max_lines lines."""
    parts, n_events = [], 0
    ctx.corrupt_events = 0
    for f in files:
        k, cur, fo = 0, 0, None
        with open(f) as fi:
            for ln in fi:
                if fo is None or cur >= max_lines:
                    if fo:
                        fo.close()
                    p = "%s.part%d" % (f, k)
                    k += 1
                    cur = 0
                    fo = open(p, "w")
                    parts.append(p)
                fo.write(ln)
                if '"wf":false' in ln:
                    ctx.corrupt_events += 1
                cur += 1
                n_events += 1
        if fo:
            fo.close()
    return parts, n_events


def _judge(ctx, parts, tag, pool=8, errors=None):
    """Judge every part; a part whose judge fails is recorded in `errors` (the others still count)."""
    def one(kf):
        k, f = kf
        try:
            return vlib.run_tlc(ctx, "Trace_Shaper", "Trace_Shaper.cfg", "%s.%d" % (tag, k), workers=1, timeout=1800,
                                xmx="4g", env_extra={"TRACE": f})
        except vlib.ToolError as e:
            if errors is None:
                raise
            errors.append("judge of %s failed: %s" % (os.path.basename(f), str(e)[:400]))
            return None
    total, mism = 0, []
    with concurrent.futures.ThreadPoolExecutor(max_workers=pool) as ex:
        for res in ex.map(one, list(enumerate(parts))):
            if res is None:
                continue
            total += res.distinct - 1
            mism.extend(json.loads(x) for x in res.printed.get("MISMATCH", []))
    return total, mism


def _synthetic_base(a):
    """A conforming event that owes nothing to what allsorts returned: the inputs `a` of a recorded job with a
    hand-made observation (f + acute, the mark attached to the base)."""
    a = dict(a)
    a.update({"wf": True, "ng": 27, "corrupt": "", "text": [0x66, 0x301], "cls": ["Lf", "Mk"], "via": "GSUB"})
    o = {"map": "Ok", "mapped": [[2, [0x66]], [11, [0x301]]], "shape": "Ok",
         "run": [[2, [0x66], "none", -1], [11, [0x301], "mark", 0]], "pos": "Ok", "npos": 2, "msg": "", "f": {}}
    return {"i": 10 ** 9 - 1, "case": "selftest-base", "ev": "Shape", "a": a, "o": o}


def _planted(base):
    """Corrupted copies of a conforming event: each must be rejected for its own clause."""
    out = []
    n = len(base["o"]["run"])

    def cp(name, i):
        e = json.loads(json.dumps(base))
        e["case"] = "selftest-" + name
        e["i"] = 10 ** 9 + i
        return e
    e = cp("attach", 0)
    for g in e["o"]["run"]:
        if g[2] in ("mark", "over", "curs"):
            g[3] = n
            break
    out.append(e)
    e = cp("chars", 1)
    e["o"]["run"][0][1] = e["o"]["run"][0][1] + [0x10FFFD]
    out.append(e)
    e = cp("gid", 2)
    e["o"]["run"][0][0] = e["a"]["ng"]
    out.append(e)
    e = cp("panic", 3)
    e["o"].update({"shape": "Panic", "run": [], "pos": "Skipped", "npos": -1, "msg": "planted @ /repo/src/x.rs:1"})
    out.append(e)
    e = cp("npos", 4)
    e["o"]["npos"] = n + 1
    out.append(e)
    # a process that died in the job / a job over its CPU budget, as the supervisor records them
    e = cp("abort", 5)
    e["o"].update({"mapped": [], "shape": "Abort", "run": [], "pos": "Skipped", "npos": -1, "msg": "the process died in this job: signal 6"})
    out.append(e)
    e = cp("timeout", 6)
    e["o"].update({"mapped": [], "shape": "Timeout", "run": [], "pos": "Skipped", "npos": -1, "msg": "CPU budget exceeded"})
    out.append(e)
    return out, {"selftest-attach": "AttachInRun", "selftest-chars": "CharsFromInput", "selftest-gid": "GidBelowCount",
                 "selftest-panic": "Total.shape.Panic", "selftest-npos": "PositionsLength",
                 "selftest-abort": "Total.shape.Abort", "selftest-timeout": "Total.shape.Timeout"}


def run(ctx):
    binp = vlib.build_harness("c02_shape")
    cfg = "MC_Shaper_quick.cfg" if ctx.quick else "MC_Shaper_thorough.cfg"
    fcfg = "MC_ShaperFonts_quick.cfg" if ctx.quick else "MC_ShaperFonts_thorough.cfg"
    cases_path = ctx.path("cases.ndjson")
    unsorted_path = ctx.path("cases.unsorted.ndjson")
    fonts_path = cases_path + ".fonts"      # the harness looks for the font cases next to the text cases
    calls_path = cases_path + ".calls"      # and for the call sequences
    ccfg = "MC_ShaperCalls_quick.cfg" if ctx.quick else "MC_ShaperCalls_thorough.cfg"
    call_cases = []

    def call_sink(tag, payload):
        if tag == "CASE":
            call_cases.append(payload)
    n_cases = [0]
    font_cases = []

    def font_sink(tag, payload):
        if tag == "CASE":
            font_cases.append(payload)
    # the two generators run side by side (the font cases take about a second)
    with concurrent.futures.ThreadPoolExecutor(max_workers=1) as side:
        fut = side.submit(lambda: (vlib.run_tlc(ctx, "MC_ShaperFonts", fcfg, "mcfonts", 2, 600, None, None, "2g", False, font_sink),
                                   vlib.run_tlc(ctx, "MC_ShaperCalls", ccfg, "mccalls", 2, 600, None, None, "2g", False, call_sink)))
        with open(unsorted_path, "w") as fc:
            def sink(tag, payload):
                if tag == "CASE":
                    fc.write(payload + "\n")
                    n_cases[0] += 1
            mc = vlib.run_tlc(ctx, "MC_Shaper", cfg, "mc", workers=8, timeout=600 if ctx.quick else 2400, sink=sink)
        mcf, mcc = fut.result()
    ctx.note("MC_Shaper: %d states generated, %d distinct, depth %d, %d class strings (%.1fs)" %
             (mc.generated, mc.distinct, mc.depth, n_cases[0], mc.wall))
    ctx.note("MC_ShaperFonts: %d states generated, %d distinct, depth %d, %d font cases (%.1fs)" %
             (mcf.generated, mcf.distinct, mcf.depth, len(font_cases), mcf.wall))
    ctx.note("MC_ShaperCalls: %d states generated, %d distinct, depth %d, %d call sequences (%.1fs)" %
             (mcc.generated, mcc.distinct, mcc.depth, len(call_cases), mcc.wall))
    if n_cases[0] == 0 or not font_cases or not call_cases:
        raise vlib.ToolError("no CASE lines generated")
    # TLC's workers print in a different order on every run; the plan hashes case indices, so the
    # case files are put in a canonical order (the run depends on the seed only)
    import subprocess
    subprocess.check_call(["sort", "-o", cases_path, unsorted_path], env=dict(os.environ, LC_ALL="C"))
    os.remove(unsorted_path)
    font_cases.sort()
    with open(fonts_path, "w") as f:
        f.write("\n".join(font_cases) + "\n")
    call_cases.sort()
    with open(calls_path, "w") as f:
        f.write("\n".join(call_cases) + "\n")
    cc_objs = [json.loads(x) for x in call_cases]
    fc_objs = [json.loads(x) for x in font_cases]
    cnt = [c for c in fc_objs if c["fam"] == "cnt"]
    lkp = [c for c in fc_objs if c["fam"] == "lkp"]
    # what TLC says about the font cases (TLC data, independent of allsorts)
    tlc_counts = {
        "font_cases": len(fc_objs),
        "lookup_graphs": len(lkp),
        "lookup_graph_cycles": sum(1 for c in lkp if c["shape"] == "cycle"),
        "lookup_graph_chains": sum(1 for c in lkp if c["shape"] == "chain"),
        "lookup_graphs_model_reaches_limit": sum(1 for c in lkp if c["hit"]),
        "lookup_graphs_model_stays_within_limit": sum(1 for c in lkp if not c["hit"]),
        "gsub_chains_exactly_at_limit": sum(1 for c in lkp if c["shape"] == "chain" and c["tbl"] == "gsub" and c["depth"] == 3 and not c["hit"]),
        "gsub_chains_one_above_limit": sum(1 for c in lkp if c["shape"] == "chain" and c["tbl"] == "gsub" and len(c["kinds"]) == 4),
        "gsub_chains_one_below_limit": sum(1 for c in lkp if c["shape"] == "chain" and c["tbl"] == "gsub" and len(c["kinds"]) == 2),
        "cycles_of_context_lookups_only": sum(1 for c in lkp if c["shape"] == "cycle" and all(k.endswith("C") for k in c["kinds"])),
        "cycles_of_chain_lookups_only": sum(1 for c in lkp if c["shape"] == "cycle" and all(k.endswith("H") for k in c["kinds"])),
        "cycles_through_extension": sum(1 for c in lkp if c["shape"] == "cycle" and any(k.startswith("X") for k in c["kinds"])),
        "morx_font_cases": sum(1 for c in fc_objs if c["fam"] == "mx"),
        "morx_ligature_cases": sum(1 for c in fc_objs if c.get("kind") == "lig"),
        "morx_adversarial_cases": sum(1 for c in fc_objs if c.get("kind") == "adv"),
        "lookup_list_size_cases": len(cnt),
        "lookup_lists_that_spill_the_inline_capacity": sum(1 for c in cnt if c["spill"]),
        "lookup_lists_exactly_at_inline_capacity": sum(1 for c in cnt if c["n"] == 128),
        "lookup_lists_one_above_inline_capacity": sum(1 for c in cnt if c["n"] == 129),
        "lookup_lists_with_duplicates_only": sum(1 for c in cnt if c["napply"] == 1 and c["n"] > 1),
        "call_sequences": len(cc_objs),
        "call_sequences_required_lookup_of_dotted_circle_meets_filled_cache": sum(1 for c in cc_objs if c["req_on_filled"]),
        "call_sequences_with_cache_hit": sum(1 for c in cc_objs if c["hits"]),
        "call_sequences_cache_never_filled": sum(1 for c in cc_objs if c["fill"] == 0),
        "call_sequences_cache_filled_after_first_step": sum(1 for c in cc_objs if c["fill"] > 1),
    }
    zero = [k for k, v in tlc_counts.items() if not v]
    if zero:
        raise vlib.ToolError("the font case generator is vacuous: %s" % zero)

    outdir = ctx.path("traces")
    nworkers = 8
    rep = vlib.run_harness(binp, ["run", ctx.tier, ctx.seed, cases_path, outdir, nworkers], timeout=3000)
    ctx.note("harness: %s" % json.dumps(rep))
    shard_files = sorted((os.path.join(outdir, f) for f in os.listdir(outdir) if re.match(r"trace\.\d+\.ndjson$", f)),
                         key=lambda x: int(re.search(r"trace\.(\d+)\.", x).group(1)))
    parts, n_events = _chunks(ctx, shard_files, 60000)
    if n_events != rep["plan"]:
        raise vlib.ToolError("plan has %d jobs, traces hold %d events" % (rep["plan"], n_events))
    # errors that must not mask a violation: they are raised at the end, and only when nothing new was found
    deferred = []
    # every font case became a font of the plan (inputs only)
    n_case_fonts = (rep.get("plan_fonts_lkp", 0) + rep.get("plan_fonts_morx", 0) + rep.get("plan_fonts_morxadv", 0)
                    + rep.get("plan_fonts_cnt", 0))
    if n_case_fonts != len(fc_objs):
        deferred.append("%d font cases but %d fonts of the plan are built from them" % (len(fc_objs), n_case_fonts))
    vac_plan = [k for k in NEEDED_PLAN if not rep.get(k)]
    if vac_plan:
        deferred.append("the plan is vacuous: no job with %s" % vac_plan)

    # binding self-check: corrupted copies of a conforming event must be rejected, each for its own clause.
    # The conforming event is hand-made on the inputs of a recorded job (nothing allsorts returned is used).
    first_a = None
    samples = []
    with open(parts[0]) as f:
        for ln in f:
            e = json.loads(ln)
            if first_a is None:
                first_a = e["a"]
            run_ = e["o"]["run"]
            if len(samples) < 3 and e["o"]["shape"] == "Ok" and e["o"]["pos"] == "Ok" and e["a"]["wf"] and len(run_) >= 2 and \
                    any(g[2] in ("mark", "over", "curs") for g in run_) and all(e["a"]["cls"] != x["a"]["cls"] for x in samples):
                samples.append(e)
            if len(samples) >= 3:
                break
    base = _synthetic_base(first_a)
    planted, expect = _planted(base)
    pp = ctx.path("planted.ndjson")
    vlib.write_ndjson(pp, planted + [base])
    parts.append(pp)

    total, mism = _judge(ctx, parts, "judge", pool=8, errors=deferred)
    ctx.note("judge: %d events, %d non-conforming" % (total, len(mism)))
    for f in parts:
        if ".part" in os.path.basename(f):
            os.remove(f)  # copies of the shard traces (which stay for triage)
    if total != n_events + len(planted) + 1:
        deferred.append("judge consumed %d events, expected %d" % (total, n_events + len(planted) + 1))

    seen = {}
    by_key = {}
    counts = {}
    for m in mism:
        if m["case"].startswith("selftest-"):
            seen[m["case"]] = m["fails"]
            continue
        k = _key(m)
        counts[k] = counts.get(k, 0) + 1
        # the smallest reproduction per key
        if k not in by_key or len(m["a"]["text"]) < len(by_key[k]["a"]["text"]):
            by_key[k] = m
    for name, clause in expect.items():
        if clause not in seen.get(name, []):
            deferred.append("binding self-check failed: planted event %s was not rejected for %s (got %s)"
                            % (name, clause, seen.get(name)))
    if "selftest-base" in seen:
        deferred.append("binding self-check failed: the conforming hand-made event was rejected for %s" % seen["selftest-base"])
    violations = []
    for k, m in sorted(by_key.items()):
        m["occurrences_in_this_run"] = counts[k]
        m["seed"] = ctx.seed
        violations.append(_mk_viol(m))

    needed = ["runs_with_attachment", "runs_with_inserted_dotted_circle", "runs_with_ligature", "shape_err",
              "jobs_on_synthesized_fonts", "jobs_text_classes_on_repository_fonts"] + ["f_" + k for k in NEEDED_FACTS]
    vac = [k for k in needed if not rep.get(k)]
    if vac:
        # a call that panics returns no run, so a violation can empty a counter measured on returned runs
        deferred.append("vacuous exploration: no event with %s" % vac)
    if deferred:
        known = vlib.load_known(ctx.prop)
        if any(v.key not in known for v in violations):
            # the violation is the verdict; what else went wrong is noted
            for d in deferred:
                ctx.note("not raised because a violation was found: %s" % d)
        else:
            raise vlib.ToolError("; ".join(deferred))

    coverage = {
        "evaluations": n_events,
        "distinct_nontrivial": rep.get("nontrivial", 0),
        "rule": "every syllable-class string up to the bound (TLC) x scripts x repository fonts of the script x feature / "
                "kerning / tuple / direction / vertical configurations as laid out by the deterministic plan in "
                "c02_shape.rs (short strings: every font and feature configuration; longer ones: fonts and "
                "configurations drawn by seeded hash); every text-class string up to the bound (TLC) x every "
                "synthesized font whose glyph roles cover it (short strings and fractions on frac fonts: all "
                "configurations of the font, longer ones: one) and x the repository fonts of the default shaper "
                "(short strings: six special-path configurations, strings with a fraction: the frac configuration, "
                "the rest sampled by seeded hash); every font case of MC_ShaperFonts (lookup graphs: strings up to 3 / 4 "
                "classes, morx fonts: up to the bound, adversarial morx tables: up to 3 / 4) and seeded random morx "
                "programs; plus seeded corruptions of the layout tables of repository and synthesized fonts; each job "
                "is distinct by construction; a job is non-trivial when shaping changed the glyph sequence, placed or "
                "attached a glyph, or returned Err",
        "samples": samples if samples else [base],
        "states": mc.distinct + mcf.distinct + mcc.distinct,
        "transitions": mc.generated + mcf.generated + mcc.generated,
        "call_sequences_from_tlc": len(cc_objs),
        "traces_validated_against_impl": n_events,
        "class_strings": n_cases[0],
        "font_cases_from_tlc": tlc_counts,
        "fonts": rep.get("fonts"),
        "synthesized_fonts": rep.get("synth_fonts"),
        "events_on_synthesized_fonts": rep.get("jobs_on_synthesized_fonts"),
        "events_text_classes": rep.get("jobs_text_classes"),
        "facts_reached": {k[2:]: v for k, v in sorted(rep.items()) if k.startswith("f_")},
        "plan_counters": {k: v for k, v in sorted(rep.items()) if k.startswith("plan_")},
        "process_deaths_attributed_to_a_job": rep.get("aborts"),
        "cpu_budget_exceeded": rep.get("timeouts"),
        "jobs_not_executed_after_repeated_deaths": rep.get("jobs_abandoned_after_deaths"),
        "events_on_corrupted_fonts": ctx.corrupt_events,
        "harness_counters": rep,
        "non_conforming_events": len(mism) - len(seen),
        "distinct_violation_keys": len(by_key),
        "binding_selfcheck": "seven corrupted copies of a hand-made conforming event rejected, each for its own clause "
                             "(attachment, characters, glyph id, panic, positions length, process death, timeout); "
                             "the conforming event accepted",
        "exhaustive": False,
        "explanation": "engine model, recursion-budget model and glyph-cache model exhaustively checked by TLC (configs %s, %s, %s); class strings, "
                       "font cases and call sequences exhaustive up to the bounds, their concretisation and the font/configuration product "
                       "are sampled as described in rule; synthesized fonts x text-class strings over their roles are "
                       "exhaustive up to the bound (with the length caps named in rule)" % (cfg, fcfg, ccfg),
    }
    vlib.finish(ctx, LEVEL, coverage, violations, ASSUMPTIONS)


def replay(ctx, path):
    d = json.load(open(path))["detail"]
    binp = vlib.build_harness("c02_shape")
    a = dict(d["a"])
    a["seed"] = d.get("seed", ctx.seed)
    import subprocess
    env = dict(os.environ, VERIF_REPO=vlib.REPO)
    p = subprocess.run([binp, "exec", json.dumps(a)], cwd=vlib.VERIF, env=env, stdout=subprocess.PIPE,
                       stderr=subprocess.PIPE, text=True, timeout=600)
    lines = [l for l in p.stdout.splitlines() if l.startswith("{")]
    # exit 75: the watchdog has printed the Timeout event of the job; anything else without an event: the process died
    if (p.returncode not in (0, 75)) or not lines:
        print("REPRODUCED key=%s (the process died in Font::shape, exit %s): %s"
              % (json.load(open(path)).get("key"), p.returncode, p.stderr.strip()[-300:].replace("\n", " ")))
        return 1
    ev = json.loads(lines[-1])
    trace = ctx.path("one.ndjson")
    vlib.write_ndjson(trace, [ev])
    _, mism = _judge(ctx, [trace], "replayjudge", pool=1)
    for m in mism:
        print("REPRODUCED key=%s %s" % (_key(m), _mk_viol(m).what))
    if not mism:
        print("not reproduced: %s" % vlib.short(ev["o"], 600))
    return 1 if mism else 0
